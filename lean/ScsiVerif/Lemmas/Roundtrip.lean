import ScsiVerif.Lemmas.Layout
/-! `decodeBits` over a well-formed layout, and `encodeDict ∘ decodeBits = id` on clean buffers. -/
namespace Conv

theorem dictSet_absent (d : Dict) (k : String) (v : Val) (h : ∀ kv ∈ d, kv.1 ≠ k) :
    dictSet d k v = d ++ [(k, v)] := by
  unfold dictSet
  have : d.any (·.1 == k) = false := by
    rw [List.any_eq_false]
    intro kv hkv
    simpa using h kv hkv
  simp [this]

theorem wf_mask_ne_zero {layout : Layout} {L : Nat} (hwf : layout.wf L = true) {k : String} {m off : Nat}
    (hm : (k, FieldSpec.bits m off) ∈ layout) : m ≠ 0 := by
  obtain ⟨_, _, he, hb⟩ := wf_entry hwf hm
  cases he
  obtain ⟨hmk, hw, _⟩ := bitsWF_spec hb
  rw [hmk]
  exact mkMask_ne_zero _ _ hw

/-- the decoded dictionary, spelled out -/
def decodedOf (data : Bytes) (layout : Layout) : Dict := layout.map (fun kf => (kf.1, decodeField data kf.2))

theorem decodeBits_go (data : Bytes) (layout : Layout) (acc : Dict)
    (hbits : ∀ kf ∈ layout, ∃ m off, kf.2 = .bits m off ∧ m ≠ 0)
    (hkeys : layout.Pairwise (fun a b => a.1 ≠ b.1))
    (hacc : ∀ kv ∈ acc, ∀ kf ∈ layout, kv.1 ≠ kf.1) :
    decodeBits data layout acc = .ok (acc ++ decodedOf data layout) := by
  induction layout generalizing acc with
  | nil => simp [decodeBits, decodedOf, pure, Except.pure]
  | cons kf rest ih =>
    unfold decodeBits
    rw [List.foldlM_cons]
    obtain ⟨m, off, hf, hm⟩ := hbits kf (by simp)
    rw [List.pairwise_cons] at hkeys
    have hstep : decodeStep data acc kf = .ok (acc ++ [(kf.1, decodeField data kf.2)]) := by
      unfold decodeStep
      rw [hf]
      cases m with
      | zero => exact absurd rfl hm
      | succ n =>
        simp only
        rw [dictSet_absent acc kf.1 _ (fun kv hkv => hacc kv hkv kf (by simp))]
    simp only [hstep, bind, Except.bind]
    have := ih (acc ++ [(kf.1, decodeField data kf.2)]) (fun x hx => hbits x (by simp [hx])) hkeys.2 (by
      intro kv hkv x hx
      rcases List.mem_append.mp hkv with h | h
      · exact hacc kv h x (by simp [hx])
      · simp at h; subst h; exact hkeys.1 x hx)
    unfold decodeBits at this
    rw [this]
    simp [decodedOf]

theorem wf_keys {layout : Layout} {L : Nat} (hwf : layout.wf L = true) :
    layout.Pairwise (fun a b => a.1 ≠ b.1) := by
  unfold Layout.wf at hwf
  simp only [Bool.and_eq_true] at hwf
  exact ((pairwiseB_iff _ _).mp hwf.1.2).imp (fun h => by simpa using h)

theorem wf_bits {layout : Layout} {L : Nat} (hwf : layout.wf L = true) :
    ∀ kf ∈ layout, ∃ m off, kf.2 = .bits m off ∧ m ≠ 0 := by
  intro kf hkf
  obtain ⟨m, off, he, _⟩ := wf_entry hwf (k := kf.1) (f := kf.2) hkf
  exact ⟨m, off, he, wf_mask_ne_zero hwf (by rw [← he]; exact hkf)⟩

/-- `decode_bits(data, layout, {})` for a well-formed layout: every key of the layout, in order -/
theorem decodeBits_wf (data : Bytes) (layout : Layout) (L : Nat) (hwf : layout.wf L = true) :
    decodeBits data layout [] = .ok (decodedOf data layout) := by
  have := decodeBits_go data layout [] (wf_bits hwf) (wf_keys hwf) (by intro kv hkv; simp at hkv)
  simpa using this

theorem dictGet?_decodedOf (data : Bytes) (layout : Layout) (L : Nat) (hwf : layout.wf L = true)
    (k : String) (f : FieldSpec) (hg : layoutGet? layout k = some f) :
    dictGet? (decodedOf data layout) k = some (decodeField data f) := by
  have hk := wf_keys hwf
  clear hwf
  induction layout with
  | nil => simp [layoutGet?] at hg
  | cons x xs ih =>
    unfold layoutGet? at hg
    unfold dictGet? decodedOf
    simp only [List.map_cons, List.find?_cons] at hg ⊢
    by_cases hx : x.1 = k
    · have : (x.1 == k) = true := by simpa using hx
      simp only [this] at hg ⊢
      simp at hg
      simp [hg]
    · have : (x.1 == k) = false := by simpa using hx
      simp only [this] at hg ⊢
      rw [List.pairwise_cons] at hk
      have := ih (by unfold layoutGet?; exact hg) hk.2
      unfold dictGet? decodedOf at this
      exact this

/-- the terms of the decoded dictionary are the buffer's own fields -/
theorem termsOf_decodedOf (data : Bytes) (layout : Layout) (L : Nat) (hwf : layout.wf L = true)
    (hb : BytesOK data) (hl : data.length = L) :
    ∃ rs : List (Nat × Nat),
      termsOf L layout (decodedOf data layout)
        = rs.map (fun r => (⟨r.1, r.2, (baToInt data >>> r.1) % 2^r.2⟩ : Term)) ∧
      (∀ r ∈ rs, ∃ k m off, (k, FieldSpec.bits m off) ∈ layout ∧ r = (lsbPos L m off, maskWidth m)) ∧
      (∀ k m off, (k, FieldSpec.bits m off) ∈ layout → (lsbPos L m off, maskWidth m) ∈ rs) := by
  -- work over a sublist `sub` of the layout, looking keys up in the full layout
  suffices h : ∀ sub : Layout, (∀ x ∈ sub, x ∈ layout) →
      ∃ rs : List (Nat × Nat),
        (decodedOf data sub).filterMap (termOf L layout)
          = rs.map (fun r => (⟨r.1, r.2, (baToInt data >>> r.1) % 2^r.2⟩ : Term)) ∧
        (∀ r ∈ rs, ∃ k m off, (k, FieldSpec.bits m off) ∈ sub ∧ r = (lsbPos L m off, maskWidth m)) ∧
        (∀ k m off, (k, FieldSpec.bits m off) ∈ sub → (lsbPos L m off, maskWidth m) ∈ rs) by
    exact h layout (fun x hx => hx)
  intro sub
  induction sub with
  | nil => intro _; exact ⟨[], by simp [decodedOf], by simp, by simp⟩
  | cons x xs ih =>
    intro hsub
    obtain ⟨rs, h1, h2, h3⟩ := ih (fun y hy => hsub y (by simp [hy]))
    have hx : x ∈ layout := hsub x (by simp)
    obtain ⟨m, off, he, hbw⟩ := wf_entry hwf (k := x.1) (f := x.2) hx
    obtain ⟨hm, hw, hoff⟩ := bitsWF_spec hbw
    have hget : layoutGet? layout x.1 = some (.bits m off) := by
      rw [← he]; exact wf_get hwf hx
    have hdec : decodeMask data m off = (baToInt data >>> lsbPos L m off) % 2 ^ maskWidth m := by
      have := decodeMask_nat data (maskWidth m) (tz m) off hw hb (by rw [← hm, hl]; exact hoff)
      rw [← hm, hl] at this
      exact this
    refine ⟨(lsbPos L m off, maskWidth m) :: rs, ?_, ?_, ?_⟩
    · simp only [decodedOf, List.map_cons, List.filterMap_cons]
      have : termOf L layout (x.1, decodeField data x.2)
          = some ⟨lsbPos L m off, maskWidth m, (baToInt data >>> lsbPos L m off) % 2 ^ maskWidth m⟩ := by
        simp [termOf, hget, he, decodeField, hdec]
      rw [this]
      simp only [decodedOf] at h1
      simp [h1]
    · intro r hr
      rcases List.mem_cons.mp hr with rfl | hr
      · exact ⟨x.1, m, off, by rw [← he]; simp, rfl⟩
      · obtain ⟨k, m', off', hmem, hre⟩ := h2 r hr
        exact ⟨k, m', off', by simp [hmem], hre⟩
    · intro k m' off' hmem
      rcases List.mem_cons.mp hmem with heq | hmem
      · have : x.2 = .bits m' off' := by rw [← heq]
        rw [he] at this
        cases this
        simp
      · exact List.mem_cons_of_mem _ (h3 k m' off' hmem)

end Conv
