import ScsiVerif.Lemmas.Terms
/-! Adding disjoint terms is the same as XOR-ing them: links the standards' arithmetic statement of a
format (`Σ value · 2^position`) to the bit-level lemmas of `Terms.lean`. -/
namespace Conv

theorem add_eq_or_of_and_eq_zero (a b : Nat) (h : a &&& b = 0) : a + b = a ||| b := by
  have ha : a < 2 ^ (a + b + 1) := Nat.lt_of_lt_of_le Nat.lt_two_pow_self (Nat.pow_le_pow_right (by decide) (by omega))
  have hb : b < 2 ^ (a + b + 1) := Nat.lt_of_lt_of_le Nat.lt_two_pow_self (Nat.pow_le_pow_right (by decide) (by omega))
  have hx : BitVec.ofNat (a + b + 1) a &&& BitVec.ofNat (a + b + 1) b = 0#(a + b + 1) := by
    apply BitVec.eq_of_toNat_eq
    simp [BitVec.toNat_and, Nat.mod_eq_of_lt ha, Nat.mod_eq_of_lt hb, h]
  have h1 := BitVec.add_eq_or_of_and_eq_zero _ _ hx
  have h2 := congrArg BitVec.toNat h1
  rw [BitVec.toNat_add_of_and_eq_zero hx] at h2
  simpa [Nat.mod_eq_of_lt ha, Nat.mod_eq_of_lt hb] using h2

theorem or_eq_xor_of_and_eq_zero (a b : Nat) (h : a &&& b = 0) : a ||| b = a ^^^ b := by
  apply Nat.eq_of_testBit_eq
  intro i
  have := congrArg (fun x => Nat.testBit x i) h
  simp only [Nat.testBit_and, Nat.zero_testBit] at this
  rw [Nat.testBit_or, Nat.testBit_xor]
  cases ha : a.testBit i <;> cases hb : b.testBit i <;> simp_all

theorem add_eq_xor_of_and_eq_zero (a b : Nat) (h : a &&& b = 0) : a + b = a ^^^ b := by
  rw [add_eq_or_of_and_eq_zero a b h, or_eq_xor_of_and_eq_zero a b h]

def sumAll : List Term → Nat
  | [] => 0
  | t :: ts => t.val + sumAll ts

theorem sumAll_eq_xorAll (ts : List Term) (hok : ∀ t ∈ ts, t.ok) (hd : ts.Pairwise Term.disj) :
    sumAll ts = xorAll ts := by
  induction ts with
  | nil => rfl
  | cons t ts ih =>
    rw [List.pairwise_cons] at hd
    simp only [sumAll, xorAll]
    rw [ih (fun x hx => hok x (by simp [hx])) hd.2]
    apply add_eq_xor_of_and_eq_zero
    apply Nat.eq_of_testBit_eq
    intro i
    rw [Nat.testBit_and, Nat.zero_testBit, t.testBit_val (hok t (by simp))]
    by_cases hi : t.inRange i
    · have : (xorAll ts).testBit i = false := by
        apply xorAll_outside ts (fun x hx => hok x (by simp [hx]))
        intro x hx hxi
        have := hd.1 x hx
        unfold Term.disj at this; unfold Term.inRange at hi hxi; omega
      simp [this]
    · simp [hi]

end Conv
