import ScsiVerif.Lemmas.EncodeCompat
import ScsiVerif.Model.Formats.Encode
/-! Plumbing between nested Python dictionaries (`PDict`) and the converter's dictionaries, and the
fact the length-bookkeeping theorems of C05 rest on: a key written with `d[k] = n` before
`encode_dict` is read back as `n` from the encoded structure. -/
namespace EncL
open Conv PVal DataCompat

/-- the converter's view of one entry -/
def convEntry (lay : Layout) (kv : String × PV) : Option (String × Val) :=
  match layoutGet? lay kv.1, kv.2 with
  | some _, .int n => some (kv.1, .int n)
  | some _, .bytes b => some (kv.1, .bytes b)
  | _, _ => Option.none

theorem toConv_go (lay : Layout) (d : PDict) (acc c : Dict)
    (h : d.foldlM (fun acc (kv : String × PV) =>
      match layoutGet? lay kv.1 with
      | Option.none => Except.ok acc
      | some _ =>
        match kv.2 with
        | .int n => .ok (acc ++ [(kv.1, Val.int n)])
        | .bytes b => .ok (acc ++ [(kv.1, Val.bytes b)])
        | _ => (.error .typeError : Except PyErr Dict)) acc = .ok c) :
    c = acc ++ d.filterMap (convEntry lay) := by
  induction d generalizing acc with
  | nil => simp [List.foldlM, pure, Except.pure] at h; simp [h]
  | cons kv rest ih =>
    rw [List.foldlM_cons] at h
    cases hl : layoutGet? lay kv.1 with
    | none =>
      simp only [hl, bind, Except.bind] at h
      have := ih acc h
      rw [this]
      simp [List.filterMap_cons, convEntry, hl]
    | some f =>
      simp only [hl] at h
      cases hv : kv.2 with
      | int n =>
        simp only [hv, bind, Except.bind] at h
        have := ih _ h
        rw [this]
        simp [List.filterMap_cons, convEntry, hl, hv]
      | bytes b =>
        simp only [hv, bind, Except.bind] at h
        have := ih _ h
        rw [this]
        simp [List.filterMap_cons, convEntry, hl, hv]
      | none => simp [hv, bind, Except.bind] at h
      | str s => simp [hv, bind, Except.bind] at h
      | list l => simp [hv, bind, Except.bind] at h
      | dict x => simp [hv, bind, Except.bind] at h

theorem toConv_spec (lay : Layout) (d : PDict) (c : Dict) (h : toConv lay d = .ok c) :
    c = d.filterMap (convEntry lay) := by
  unfold toConv at h
  have := toConv_go lay d [] c h
  simpa using this

/-- keys of a Python dictionary are unique -/
def Keys (d : PDict) : Prop := d.Pairwise (fun a b => a.1 ≠ b.1)

theorem set_mem (d : PDict) (k : String) (v : PV) : (k, v) ∈ d.set k v := by
  unfold PDict.set
  by_cases h : d.any (·.1 == k) = true
  · simp only [h, if_true]
    obtain ⟨x, hx, hk⟩ := List.any_eq_true.mp h
    exact List.mem_map.mpr ⟨x, hx, by simp at hk; simp [hk]⟩
  · simp only [h]; simp

theorem set_keys (d : PDict) (k : String) (v : PV) (hk : Keys d) : Keys (d.set k v) := by
  unfold PDict.set Keys at *
  by_cases h : d.any (·.1 == k) = true
  · simp only [h, if_true]
    rw [List.pairwise_map]
    apply hk.imp
    intro a b hab
    by_cases ha : (a.1 == k) = true <;> by_cases hb : (b.1 == k) = true <;> simp_all
  · simp only [h]
    simp only [Bool.false_eq_true, if_false]
    rw [List.pairwise_append]
    refine ⟨hk, by simp, ?_⟩
    intro a ha b hb
    simp at hb; subst hb
    intro e
    exact h (List.any_eq_true.mpr ⟨a, ha, by simp [e]⟩)

theorem conv_keys (lay : Layout) (d : PDict) (hk : Keys d) : KeysDistinct (d.filterMap (convEntry lay)) := by
  unfold KeysDistinct
  apply List.Pairwise.filterMap (convEntry lay) _ hk
  intro a a' hne b hb b' hb'
  unfold convEntry at hb hb'
  split at hb <;> split at hb' <;> simp_all
  all_goals (obtain ⟨rfl⟩ := hb; obtain ⟨rfl⟩ := hb'; exact hne)

/-- **a length written into the dictionary is read back from the encoded structure**: after
`d[k] = n; encode_dict(d, table, bytearray(L))`, field `k` of the result holds `n`. -/
theorem field_after_set (lay : Layout) (L : Nat) (hwf : lay.wf L = true) (d : PDict) (hk : Keys d)
    (k : String) (m off n : Nat) (hg : layoutGet? lay k = some (.bits m off))
    (r : Bytes) (he : encodeFrom (d.set k (.int n)) lay (zeros L) = .ok r)
    (hr : InRange lay ((d.set k (.int n)).filterMap (convEntry lay))) :
    r.length = L ∧ decodeMask r m off = n := by
  unfold encodeFrom at he
  cases hc : toConv lay (d.set k (.int n)) with
  | error e => simp [hc, bind, Except.bind] at he
  | ok c =>
    simp only [hc, bind, Except.bind] at he
    have hcs := toConv_spec lay _ c hc
    subst hcs
    have hkd := conv_keys lay _ (set_keys d k (.int n) hk)
    obtain ⟨r', e1, _, len1, _⟩ := encodeDict_terms lay L hwf _ hr (zeros L) (BytesOK_zeros L) (by simp [zeros])
    rw [he] at e1; cases e1
    refine ⟨len1, ?_⟩
    apply decode_encodeDict lay L hwf _ hr hkd r he k m off n hg
    apply List.mem_filterMap.mpr
    exact ⟨(k, .int n), set_mem d k (.int n), by simp [convEntry, hg]⟩

end EncL

namespace EncL
open Conv PVal DataCompat

theorem set_mem_other (d : PDict) (k k' : String) (v v' : PV) (h : (k, v) ∈ d) (hne : k ≠ k') :
    (k, v) ∈ d.set k' v' := by
  unfold PDict.set
  by_cases ha : d.any (·.1 == k') = true
  · simp only [ha, if_true]
    apply List.mem_map.mpr
    refine ⟨(k, v), h, ?_⟩
    have : ((k, v).1 == k') = false := by simpa using hne
    simp [this]
  · simp only [ha]
    simp [h]

/-- a key that is in the dictionary when `encode_dict` runs is read back from the result -/
theorem field_of_mem (lay : Layout) (L : Nat) (hwf : lay.wf L = true) (d : PDict) (hk : Keys d)
    (k : String) (m off n : Nat) (hg : layoutGet? lay k = some (.bits m off)) (hmem : (k, PV.int n) ∈ d)
    (r : Bytes) (he : encodeFrom d lay (zeros L) = .ok r)
    (hr : InRange lay (d.filterMap (convEntry lay))) :
    r.length = L ∧ decodeMask r m off = n := by
  unfold encodeFrom at he
  cases hc : toConv lay d with
  | error e => simp [hc, bind, Except.bind] at he
  | ok c =>
    simp only [hc, bind, Except.bind] at he
    have hcs := toConv_spec lay _ c hc
    subst hcs
    have hkd := conv_keys lay _ hk
    obtain ⟨r', e1, _, len1, _⟩ := encodeDict_terms lay L hwf _ hr (zeros L) (BytesOK_zeros L) (by simp [zeros])
    rw [he] at e1; cases e1
    refine ⟨len1, ?_⟩
    apply decode_encodeDict lay L hwf _ hr hkd r he k m off n hg
    apply List.mem_filterMap.mpr
    exact ⟨(k, .int n), hmem, by simp [convEntry, hg]⟩

theorem encodeFrom_length (lay : Layout) (L : Nat) (hwf : lay.wf L = true) (d : PDict)
    (r : Bytes) (he : encodeFrom d lay (zeros L) = .ok r)
    (hr : InRange lay (d.filterMap (convEntry lay))) : r.length = L := by
  unfold encodeFrom at he
  cases hc : toConv lay d with
  | error e => simp [hc, bind, Except.bind] at he
  | ok c =>
    simp only [hc, bind, Except.bind] at he
    have hcs := toConv_spec lay _ c hc
    subst hcs
    obtain ⟨r', e1, _, len1, _⟩ := encodeDict_terms lay L hwf _ hr (zeros L) (BytesOK_zeros L) (by simp [zeros])
    rw [he] at e1; cases e1
    exact len1

/-- `r[a:b] = x` with `len(x) = b − a` inside the buffer, then `r[a:b]` -/
theorem slice_setSlice (r x : Bytes) (a b : Nat) (hab : a ≤ b) (hb : b ≤ r.length) (hx : x.length = b - a) :
    slice (setSlice r a b x) a b = x ∧ (setSlice r a b x).length = r.length := by
  unfold setSlice slice
  have hmax : max a b = b := Nat.max_eq_right hab
  rw [hmax]
  constructor
  · have h1 : (r.take a ++ x).length = b := by simp [List.length_take]; omega
    rw [List.take_left' h1, List.drop_left' (by simp [List.length_take]; omega)]
  · simp [List.length_take, List.length_drop]; omega

end EncL
