import ScsiVerif.Model.Conv
/-! Helper lemmas about the converter model (no property statements here). -/
namespace Conv

def BytesOK (l : Bytes) : Prop := ∀ b ∈ l, b < 256

instance (l : Bytes) : Decidable (BytesOK l) := by unfold BytesOK; infer_instance

theorem BytesOK.tail {b : Nat} {bs : Bytes} (h : BytesOK (b :: bs)) : BytesOK bs :=
  fun x hx => h x (by simp [hx])

theorem BytesOK.head {b : Nat} {bs : Bytes} (h : BytesOK (b :: bs)) : b < 256 := h b (by simp)

theorem BytesOK.append {a b : Bytes} (ha : BytesOK a) (hb : BytesOK b) : BytesOK (a ++ b) := by
  intro x hx
  rcases List.mem_append.mp hx with h | h
  · exact ha x h
  · exact hb x h

theorem BytesOK.take {a : Bytes} (ha : BytesOK a) (n : Nat) : BytesOK (a.take n) :=
  fun x hx => ha x (List.mem_of_mem_take hx)

theorem BytesOK.drop {a : Bytes} (ha : BytesOK a) (n : Nat) : BytesOK (a.drop n) :=
  fun x hx => ha x (List.mem_of_mem_drop hx)

theorem BytesOK.slice {a : Bytes} (ha : BytesOK a) (i j : Nat) : BytesOK (slice a i j) :=
  (ha.take j).drop i

theorem BytesOK_zeros (n : Nat) : BytesOK (zeros n) := by
  intro x hx; simp [zeros] at hx; omega

theorem BytesOK.getD {l : Bytes} (h : BytesOK l) (i : Nat) : l[i]?.getD 0 < 256 := by
  cases hi : l[i]? with
  | none => simp
  | some x => simp; exact h x (List.mem_of_getElem? hi)

/-! ### big-endian conversion -/

@[simp] theorem intToBa_length (v n : Nat) : (intToBa v n).length = n := by
  induction n with
  | zero => rfl
  | succ n ih => simp [intToBa, ih]

theorem intToBa_ok (v n : Nat) : BytesOK (intToBa v n) := by
  induction n with
  | zero => intro x hx; simp [intToBa] at hx
  | succ n ih =>
    intro x hx
    simp only [intToBa, List.mem_cons] at hx
    rcases hx with h | h
    · subst h
      rw [show (0xFF:Nat) = 2^8 - 1 from by decide, Nat.and_two_pow_sub_one_eq_mod]
      exact Nat.mod_lt _ (by decide)
    · exact ih x h

theorem baToInt_intToBa (v n : Nat) : baToInt (intToBa v n) = v % 2^(8*n) := by
  induction n with
  | zero => simp [intToBa, baToInt, Nat.mod_one]
  | succ n ih =>
    simp only [intToBa, baToInt, intToBa_length, ih]
    rw [show (0xFF:Nat) = 2^8 - 1 from by decide, Nat.and_two_pow_sub_one_eq_mod,
        Nat.shiftLeft_eq, Nat.shiftRight_eq_div_pow]
    have : 8 * (n+1) = n*8 + 8 := by omega
    rw [this, Nat.pow_add, show 8*n = n*8 by omega, Nat.mod_mul]
    rw [Nat.mul_comm, Nat.add_comm]

theorem baToInt_lt (l : Bytes) (h : BytesOK l) : baToInt l < 2^(8*l.length) := by
  induction l with
  | nil => simp [baToInt]
  | cons b bs ih =>
    have hb : b < 256 := h.head
    have := ih h.tail
    simp only [baToInt, List.length_cons, Nat.shiftLeft_eq]
    have e : 8 * (bs.length + 1) = bs.length * 8 + 8 := by omega
    rw [e, Nat.pow_add]
    have e2 : 8 * bs.length = bs.length * 8 := by omega
    rw [e2] at this
    generalize 2 ^ (bs.length * 8) = a at *
    have : b * a + a ≤ 256 * a := by
      have : (b+1) * a ≤ 256 * a := Nat.mul_le_mul_right a (by omega)
      rw [Nat.add_mul] at this; omega
    rw [show (2:Nat)^8 = 256 by decide, Nat.mul_comm a 256]; omega

/-- bit `i` of the big-endian value is bit `i%8` of byte number `len-1-i/8` -/
theorem testBit_baToInt (l : Bytes) (h : BytesOK l) (i : Nat) :
    (baToInt l).testBit i =
      (decide (i / 8 < l.length) && (l[l.length - 1 - i / 8]?.getD 0).testBit (i % 8)) := by
  induction l with
  | nil => simp [baToInt]
  | cons b bs ih =>
    have hb : b < 256 := h.head
    have hbs : BytesOK bs := h.tail
    have hlt := baToInt_lt bs hbs
    simp only [baToInt, List.length_cons]
    rw [Nat.shiftLeft_eq, Nat.mul_comm, show bs.length * 8 = 8 * bs.length by omega]
    rw [Nat.testBit_two_pow_mul_add _ hlt]
    by_cases hlow : i < 8 * bs.length
    · have hi' : i / 8 < bs.length := by omega
      have hi'' : i / 8 < bs.length + 1 := by omega
      simp only [hlow, if_true, ih hbs, hi', hi'', decide_true, Bool.true_and]
      have e : bs.length + 1 - 1 - i / 8 = (bs.length - 1 - i/8) + 1 := by omega
      rw [e, List.getElem?_cons_succ]
    · simp only [hlow, if_false]
      by_cases hi : i / 8 < bs.length + 1
      · have : i / 8 = bs.length := by omega
        simp only [hi, decide_true, Bool.true_and]
        have e : bs.length + 1 - 1 - i / 8 = 0 := by omega
        simp only [e, List.getElem?_cons_zero, Option.getD_some]
        congr 1; omega
      · simp only [hi, decide_false, Bool.false_and]
        apply Nat.testBit_lt_two_pow
        have : 8 ≤ i - 8 * bs.length := by omega
        exact Nat.lt_of_lt_of_le hb (by
          calc 256 = 2^8 := by decide
          _ ≤ 2^(i - 8 * bs.length) := Nat.pow_le_pow_right (by decide) this)

/-- byte `j` of `intToBa v n` is `(v >>> 8*(n-1-j)) % 256` (big-endian characterisation) -/
theorem intToBa_getElem? (v n j : Nat) (hj : j < n) :
    (intToBa v n)[j]? = some ((v >>> ((n - 1 - j) * 8)) &&& 0xFF) := by
  induction n generalizing j with
  | zero => omega
  | succ n ih =>
    cases j with
    | zero => simp [intToBa]
    | succ j =>
      simp only [intToBa, List.getElem?_cons_succ]
      rw [ih j (by omega)]
      congr 3; omega

/-- two byte lists of equal length with the same big-endian value are equal -/
theorem baToInt_inj (a b : Bytes) (ha : BytesOK a) (hb : BytesOK b) (hl : a.length = b.length)
    (h : baToInt a = baToInt b) : a = b := by
  induction a generalizing b with
  | nil => cases b with
    | nil => rfl
    | cons _ _ => simp at hl
  | cons x xs ih =>
    cases b with
    | nil => simp at hl
    | cons y ys =>
      simp only [List.length_cons, Nat.add_right_cancel_iff] at hl
      simp only [baToInt, Nat.shiftLeft_eq, hl] at h
      have h1 := baToInt_lt xs ha.tail
      have h2 := baToInt_lt ys hb.tail
      rw [hl] at h1
      have e : 8 * ys.length = ys.length * 8 := by omega
      rw [e] at h1 h2
      have hp : 0 < 2 ^ (ys.length * 8) := Nat.two_pow_pos _
      generalize 2 ^ (ys.length * 8) = p at *
      have hxy : x = y := by
        have hx : (x * p + baToInt xs) / p = x := by
          rw [Nat.mul_comm, Nat.mul_add_div hp, Nat.div_eq_of_lt h1]; simp
        have hy : (y * p + baToInt ys) / p = y := by
          rw [Nat.mul_comm, Nat.mul_add_div hp, Nat.div_eq_of_lt h2]; simp
        rw [h] at hx; omega
      subst hxy
      have : baToInt xs = baToInt ys := by omega
      rw [ih ys ha.tail hb.tail hl this]

theorem intToBa_baToInt (l : Bytes) (h : BytesOK l) : intToBa (baToInt l) l.length = l := by
  apply baToInt_inj _ _ (intToBa_ok _ _) h (by simp)
  rw [baToInt_intToBa]
  exact Nat.mod_eq_of_lt (baToInt_lt l h)

theorem baToInt_append (a b : Bytes) :
    baToInt (a ++ b) = baToInt a * 2^(8 * b.length) + baToInt b := by
  induction a with
  | nil => simp [baToInt]
  | cons x xs ih =>
    simp only [List.cons_append, baToInt, ih, List.length_append, Nat.shiftLeft_eq]
    have : (xs.length + b.length) * 8 = xs.length * 8 + 8 * b.length := by omega
    rw [this, Nat.add_mul, Nat.mul_assoc, ← Nat.pow_add]; omega

theorem baToInt_zeros (n : Nat) : baToInt (zeros n) = 0 := by
  induction n with
  | zero => rfl
  | succ n ih =>
    simp only [zeros, List.replicate_succ, baToInt] at *
    simp [ih]

/-! ### masks -/

theorem mkMask_ne_zero (w s : Nat) (hw : 0 < w) : mkMask w s ≠ 0 := by
  unfold mkMask; rw [Nat.shiftLeft_eq]
  have := Nat.one_lt_two_pow (n := w) (by omega)
  have : 0 < 2^s := Nat.two_pow_pos _
  exact Nat.ne_of_gt (Nat.mul_pos (by omega) this)

theorem tz_mkMask (w s : Nat) (hw : 0 < w) : tz (mkMask w s) = s := by
  induction s with
  | zero =>
    unfold tz mkMask
    have : 2^w - 1 ≠ 0 := by
      have := Nat.one_lt_two_pow (n := w) (by omega); omega
    simp [this]
    have h2 : 2 ^ w % 2 = 0 := by
      cases w with
      | zero => omega
      | succ k => rw [Nat.pow_succ]; omega
    have : 1 ≤ 2^w := Nat.one_le_two_pow
    omega
  | succ s ih =>
    unfold tz
    have hne : mkMask w (s+1) ≠ 0 := mkMask_ne_zero w (s+1) hw
    have hmod : mkMask w (s+1) % 2 = 0 := by
      unfold mkMask; rw [Nat.shiftLeft_eq, Nat.pow_succ, ← Nat.mul_assoc]; omega
    have hdiv : mkMask w (s+1) / 2 = mkMask w s := by
      unfold mkMask; rw [Nat.shiftLeft_eq, Nat.shiftLeft_eq, Nat.pow_succ, ← Nat.mul_assoc]; omega
    simp [hne, hmod, hdiv, ih]

theorem mkMask_shiftRight (w s : Nat) : mkMask w s >>> s = 2^w - 1 := by
  unfold mkMask; simp [Nat.shiftLeft_shiftRight]

theorem testBit_mkMask (w s i : Nat) : (mkMask w s).testBit i = (decide (s ≤ i) && decide (i < s + w)) := by
  unfold mkMask
  simp only [Nat.testBit_shiftLeft, Nat.testBit_two_pow_sub_one, ge_iff_le]
  by_cases h : s ≤ i <;> simp [h]; omega

theorem numBytes_pos (m : Nat) : 0 < numBytes m := by
  unfold numBytes; split <;> omega

/-- `m < 256^(numBytes m)` -/
theorem lt_numBytes (m : Nat) : m < 2^(8 * numBytes m) := by
  induction m using Nat.strongRecOn with
  | _ m ih =>
    unfold numBytes
    split
    · rename_i h
      have hlt : m >>> 8 < m := by
        simp only [Nat.shiftRight_eq_div_pow]; exact Nat.div_lt_self (by omega) (by decide)
      have := ih (m >>> 8) hlt
      rw [Nat.shiftRight_eq_div_pow] at this
      have e : 8 * (numBytes (m >>> 8) + 1) = 8 + 8 * numBytes (m >>> 8) := by omega
      rw [e, Nat.pow_add]
      rw [Nat.shiftRight_eq_div_pow]
      exact (Nat.div_lt_iff_lt_mul (by decide)).mp this |> fun h => by rw [Nat.mul_comm]; exact h
    · rename_i h
      simp at h
      calc m < 256 := by omega
        _ = 2^(8*1) := by decide

/-- if `numBytes m > 1` then `m ≥ 256^(numBytes m - 1)` -/
theorem numBytes_le (m : Nat) (h : 1 < numBytes m) : 2^(8 * (numBytes m - 1)) ≤ m := by
  induction m using Nat.strongRecOn with
  | _ m ih =>
    unfold numBytes at h ⊢
    split at h
    · rename_i hm
      simp only [hm, dite_true]
      have hlt : m >>> 8 < m := by
        simp only [Nat.shiftRight_eq_div_pow]; exact Nat.div_lt_self (by omega) (by decide)
      by_cases h1 : 1 < numBytes (m >>> 8)
      · have := ih (m >>> 8) hlt h1
        rw [Nat.shiftRight_eq_div_pow] at this
        have e : 8 * (numBytes (m >>> 8) + 1 - 1) = 8 * (numBytes (m >>> 8) - 1) + 8 := by omega
        rw [e, Nat.pow_add]
        rw [Nat.shiftRight_eq_div_pow] at *
        have := (Nat.le_div_iff_mul_le (by decide)).mp this
        exact this
      · have : numBytes (m >>> 8) = 1 := by have := numBytes_pos (m >>> 8); omega
        rw [this]
        calc 2^(8*(1+1-1)) = 256 := by decide
          _ ≤ m := by omega
    · omega

/-- the mask fits the window the code reads for it -/
theorem mkMask_fits (w s : Nat) (hw : 0 < w) : s + w ≤ 8 * numBytes (mkMask w s) := by
  have h := lt_numBytes (mkMask w s)
  have hb : (mkMask w s).testBit (s + w - 1) = true := by
    rw [testBit_mkMask]; simp; omega
  have := Nat.ge_two_pow_of_testBit hb
  have : 2^(s+w-1) < 2^(8 * numBytes (mkMask w s)) := Nat.lt_of_le_of_lt this h
  have := (Nat.pow_lt_pow_iff_right (by decide : 1 < 2)).mp this
  omega

/-- the window is tight: the mask reaches into the most significant byte of its window -/
theorem mkMask_tight (w s : Nat) (hw : 0 < w) : 8 * (numBytes (mkMask w s) - 1) < s + w := by
  by_cases h1 : 1 < numBytes (mkMask w s)
  · have h := numBytes_le _ h1
    have hlt : mkMask w s < 2^(s+w) := by
      apply Nat.lt_pow_two_of_testBit
      intro i hi
      rw [testBit_mkMask]; simp; omega
    have : 2^(8 * (numBytes (mkMask w s) - 1)) < 2^(s+w) := Nat.lt_of_le_of_lt h hlt
    exact (Nat.pow_lt_pow_iff_right (by decide : 1 < 2)).mp this
  · have := numBytes_pos (mkMask w s)
    omega

/-! ### xorAt -/

theorem xorAt_spec (v buf : Bytes) (pos : Nat) (h : pos + v.length ≤ buf.length) :
    ∃ r, xorAt buf pos v = .ok r ∧ r.length = buf.length ∧
      ∀ j, r[j]? = if pos ≤ j ∧ j < pos + v.length
                   then (buf[j]?).map (· ^^^ (v[j - pos]?.getD 0)) else buf[j]? := by
  induction v generalizing buf pos with
  | nil => exact ⟨buf, rfl, rfl, by intro j; simp⟩
  | cons x xs ih =>
    simp only [List.length_cons] at h
    have hp : pos < buf.length := by omega
    simp only [xorAt, hp, dite_true]
    obtain ⟨r, hr, hl, hj⟩ := ih (buf.set pos (buf[pos] ^^^ x)) (pos + 1) (by simp; omega)
    refine ⟨r, hr, by simpa using hl, ?_⟩
    intro j
    rw [hj j]
    simp only [List.length_cons]
    by_cases hjp : j = pos
    · subst hjp
      have c1 : ¬ (j + 1 ≤ j ∧ j < j + 1 + xs.length) := by omega
      have c2 : (j ≤ j ∧ j < j + (xs.length + 1)) := by omega
      simp [c1, c2, hp]
    · rw [List.getElem?_set_ne (by omega)]
      by_cases c : pos + 1 ≤ j ∧ j < pos + 1 + xs.length
      · have c2 : pos ≤ j ∧ j < pos + (xs.length + 1) := by omega
        simp only [c, c2, and_self, if_true]
        have : j - pos = (j - (pos + 1)) + 1 := by omega
        rw [this, List.getElem?_cons_succ]
      · have c2 : ¬ (pos ≤ j ∧ j < pos + (xs.length + 1)) := by omega
        simp [c, c2]

theorem xorAt_error (v buf : Bytes) (pos : Nat) (hv : v ≠ []) (h : buf.length < pos + v.length) :
    xorAt buf pos v = .error .indexError := by
  induction v generalizing buf pos with
  | nil => exact absurd rfl hv
  | cons x xs ih =>
    simp only [xorAt]
    split
    · rename_i hp
      cases xs with
      | nil => simp at h; omega
      | cons y ys =>
        apply ih _ _ (by simp)
        simp at h ⊢; omega
    · rfl

theorem xor_lt_256 {a b : Nat} (ha : a < 256) (hb : b < 256) : a ^^^ b < 256 := by
  have : (256:Nat) = 2^8 := by decide
  rw [this] at *
  exact Nat.xor_lt_two_pow ha hb

/-- Nat-level meaning of `xorAt`: XOR the big-endian value of `v`, shifted to its byte position. -/
theorem baToInt_xorAt (v buf r : Bytes) (pos : Nat) (hb : BytesOK buf) (hv : BytesOK v)
    (h : pos + v.length ≤ buf.length) (hr : xorAt buf pos v = .ok r) :
    BytesOK r ∧ r.length = buf.length ∧
    baToInt r = baToInt buf ^^^ (baToInt v <<< (8 * (buf.length - pos - v.length))) := by
  obtain ⟨r', hr', hl, hj⟩ := xorAt_spec v buf pos h
  rw [hr] at hr'
  cases hr'
  have hok : BytesOK r := by
    intro x hx
    obtain ⟨j, hjl, hjx⟩ := List.getElem_of_mem hx
    have hj' := hj j
    rw [List.getElem?_eq_getElem hjl, hjx] at hj'
    have hjb : j < buf.length := by omega
    rw [List.getElem?_eq_getElem hjb] at hj'
    split at hj'
    · simp at hj'
      rw [hj']
      exact xor_lt_256 (hb _ (List.getElem_mem _)) (hv.getD _)
    · simp at hj'; rw [hj']; exact hb _ (List.getElem_mem _)
  refine ⟨hok, hl, ?_⟩
  apply Nat.eq_of_testBit_eq
  intro i
  rw [Nat.testBit_xor, testBit_baToInt r hok, testBit_baToInt buf hb, Nat.testBit_shiftLeft,
      testBit_baToInt v hv, hl]
  by_cases hi : i / 8 < buf.length
  · simp only [hi, decide_true, Bool.true_and]
    rw [hj]
    have hjb : buf.length - 1 - i / 8 < buf.length := by omega
    rw [List.getElem?_eq_getElem hjb]
    by_cases c : pos ≤ buf.length - 1 - i / 8 ∧ buf.length - 1 - i / 8 < pos + v.length
    · simp only [c, and_self, if_true, Option.map_some, Option.getD_some, Nat.testBit_xor]
      have g : i ≥ 8 * (buf.length - pos - v.length) := by omega
      have e1 : (i - 8 * (buf.length - pos - v.length)) / 8 < v.length := by omega
      have e2 : (i - 8 * (buf.length - pos - v.length)) % 8 = i % 8 := by omega
      have e3 : v.length - 1 - (i - 8 * (buf.length - pos - v.length)) / 8
                = buf.length - 1 - i / 8 - pos := by omega
      simp [g, e1, e2, e3]
    · simp only [c, if_false, Option.getD_some]
      by_cases g : i ≥ 8 * (buf.length - pos - v.length)
      · have e1 : ¬ (i - 8 * (buf.length - pos - v.length)) / 8 < v.length := by omega
        simp [g, e1]
      · simp [g]
  · have g : i ≥ 8 * (buf.length - pos - v.length) := by omega
    have e1 : ¬ (i - 8 * (buf.length - pos - v.length)) / 8 < v.length := by omega
    simp [hi, g, e1]

/-- Nat-level meaning of a Python slice inside the buffer. -/
theorem baToInt_slice (buf : Bytes) (hb : BytesOK buf) (pos n : Nat) (h : pos + n ≤ buf.length) :
    baToInt (slice buf pos (pos + n)) = (baToInt buf >>> (8 * (buf.length - pos - n))) % 2^(8*n) := by
  have hs : BytesOK (slice buf pos (pos + n)) := hb.slice _ _
  have hlen : (slice buf pos (pos + n)).length = n := by simp [slice]; omega
  apply Nat.eq_of_testBit_eq
  intro i
  rw [testBit_baToInt _ hs, Nat.testBit_mod_two_pow, Nat.testBit_shiftRight, testBit_baToInt _ hb, hlen]
  by_cases hi : i / 8 < n
  · have h1 : i < 8 * n := by omega
    have h2 : (8 * (buf.length - pos - n) + i) / 8 < buf.length := by omega
    have h3 : (8 * (buf.length - pos - n) + i) % 8 = i % 8 := by omega
    simp only [hi, h1, h2, h3, decide_true, Bool.true_and]
    congr 2
    simp only [slice, List.getElem?_drop, List.getElem?_take]
    have : pos + (n - 1 - i / 8) < pos + n := by omega
    simp only [this, if_true]
    congr 1; omega
  · have h1 : ¬ i < 8 * n := by omega
    simp [hi, h1]

end Conv
