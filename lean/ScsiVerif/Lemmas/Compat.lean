import ScsiVerif.Model.Compat
import ScsiVerif.Lemmas.Layout
/-! Soundness of `Compat.compatible`: a compatible constructor builds the standard's CDB. -/
namespace Compat
open Conv Cmd Std

theorem beValue_eq_baToInt (l : List Nat) : beValue l = baToInt l := by
  induction l with
  | nil => rfl
  | cons b bs ih =>
    simp only [beValue, baToInt, ih, Nat.shiftLeft_eq]
    congr 1
    rw [Nat.mul_comm bs.length 8, Nat.pow_mul]

theorem fieldOf_eq (L : Nat) (g : Field) (cdb : Bytes) :
    fieldOf L g cdb = (baToInt cdb >>> g.lsb L) % 2 ^ g.width := by
  unfold fieldOf
  rw [beValue_eq_baToInt, Nat.shiftRight_eq_div_pow]

theorem evalWiring_spec (op : OpCode) (env : Env) (w : List (String × Expr)) (dict : Dict)
    (h : evalWiring op env w = .ok dict) :
    (∀ kv ∈ dict, ∃ e pv, (kv.1, e) ∈ w ∧ eval op env e = .ok pv ∧ toVal pv = .ok kv.2) ∧
    (∀ ke ∈ w, ∃ pv v', eval op env ke.2 = .ok pv ∧ toVal pv = .ok v' ∧ (ke.1, v') ∈ dict) ∧
    dict.map (·.1) = w.map (·.1) := by
  induction w generalizing dict with
  | nil =>
    simp only [evalWiring] at h
    cases h
    simp
  | cons ke rest ih =>
    obtain ⟨k, e⟩ := ke
    simp only [evalWiring, bind, Except.bind] at h
    cases he : eval op env e with
    | error x => simp [he] at h
    | ok pv =>
      simp only [he] at h
      cases hv : toVal pv with
      | error x => simp [hv] at h
      | ok v' =>
        simp only [hv] at h
        cases hr : evalWiring op env rest with
        | error x => simp [hr] at h
        | ok r =>
          simp only [hr, pure, Except.pure] at h
          cases h
          obtain ⟨i1, i2, i3⟩ := ih r hr
          refine ⟨?_, ?_, ?_⟩
          · intro kv hkv
            rcases List.mem_cons.mp hkv with rfl | hkv
            · exact ⟨e, pv, by simp, he, hv⟩
            · obtain ⟨e', pv', hm, h1, h2⟩ := i1 kv hkv
              exact ⟨e', pv', by simp [hm], h1, h2⟩
          · intro ke hke
            rcases List.mem_cons.mp hke with rfl | hke
            · exact ⟨pv, v', he, hv, by simp⟩
            · obtain ⟨pv', v'', h1, h2, h3⟩ := i2 ke hke
              exact ⟨pv', v'', h1, h2, by simp [h3]⟩
          · simp [i3]

theorem toVal_of_asInt {pv : PVal} {n : Nat} (h : asInt pv = some n) : toVal pv = .ok (.int n) := by
  cases pv with
  | none => simp [asInt] at h
  | int m => simp [asInt] at h; simp [toVal, h]
  | bytes b => simp [asInt] at h
  | bool b => simp [asInt] at h; simp [toVal, h]

theorem arith_ok {f : Nat → Nat → Nat} {a b : PVal} {x y : Nat} (ha : asInt a = some x) (hb : asInt b = some y) :
    arith f a b = .ok (.int (f x y)) := by
  simp [arith, ha, hb]

theorem eval_param {op : OpCode} {env : Env} {p : String} {pv : PVal} (h : env.get? p = some pv) :
    eval op env (.param p) = .ok pv := by
  simp [eval, h]

theorem ata12_arith (n : Nat) :
    0 + (n &&& 255) <<< 16 + ((n >>> 8) &&& 255) <<< 8 + ((n >>> 16) &&& 255) = ataLba12 n := by
  unfold ataLba12 beValue
  have e : (255:Nat) = 2^8 - 1 := by decide
  simp only [e, Nat.and_two_pow_sub_one_eq_mod, Nat.shiftLeft_eq, Nat.shiftRight_eq_div_pow, beValue,
    List.length_cons, List.length_nil]
  omega

theorem ata16_arith (n : Nat) :
    0 + (n &&& 255) <<< 32 + ((n >>> 8) &&& 255) <<< 16 + ((n >>> 16) &&& 255)
      + ((n >>> 24) &&& 255) <<< 40 + ((n >>> 32) &&& 255) <<< 24 + ((n >>> 40) &&& 255) <<< 8
    = ataLba16 n := by
  unfold ataLba16 beValue
  have e : (255:Nat) = 2^8 - 1 := by decide
  simp only [e, Nat.and_two_pow_sub_one_eq_mod, Nat.shiftLeft_eq, Nat.shiftRight_eq_div_pow, beValue,
    List.length_cons, List.length_nil]
  omega

theorem eval_ata12 (op : OpCode) (env : Env) (p : String) (pv : PVal)
    (h : eval op env (ata12Expr p) = .ok pv) :
    ∃ n, (env.get? p).bind asInt = some n ∧ pv = .int (ataLba12 n) := by
  cases hp : env.get? p with
  | none => simp [ata12Expr, eval, hp, bind, Except.bind] at h
  | some x =>
    cases x with
    | none => simp [ata12Expr, eval, hp, bind, Except.bind, arith, asInt] at h
    | bytes b => simp [ata12Expr, eval, hp, bind, Except.bind, arith, asInt] at h
    | int n =>
      refine ⟨n, by simp [asInt], ?_⟩
      simp only [ata12Expr, eval, hp, bind, Except.bind, arith, asInt] at h
      cases h
      rw [← ata12_arith]
    | bool b =>
      refine ⟨if b then 1 else 0, by simp [asInt], ?_⟩
      simp only [ata12Expr, eval, hp, bind, Except.bind, arith, asInt] at h
      cases h
      rw [← ata12_arith]

theorem eval_ata16 (op : OpCode) (env : Env) (p : String) (pv : PVal)
    (h : eval op env (ata16Expr p) = .ok pv) :
    ∃ n, (env.get? p).bind asInt = some n ∧ pv = .int (ataLba16 n) := by
  cases hp : env.get? p with
  | none => simp [ata16Expr, eval, hp, bind, Except.bind] at h
  | some x =>
    cases x with
    | none => simp [ata16Expr, eval, hp, bind, Except.bind, arith, asInt] at h
    | bytes b => simp [ata16Expr, eval, hp, bind, Except.bind, arith, asInt] at h
    | int n =>
      refine ⟨n, by simp [asInt], ?_⟩
      simp only [ata16Expr, eval, hp, bind, Except.bind, arith, asInt] at h
      cases h
      rw [← ata16_arith]
    | bool b =>
      refine ⟨if b then 1 else 0, by simp [asInt], ?_⟩
      simp only [ata16Expr, eval, hp, bind, Except.bind, arith, asInt] at h
      cases h
      rw [← ata16_arith]

/-- if the wiring expression matches the standard's source and evaluates to an integer-like
value, that value is what the standard field must carry -/
theorem eval_src (d : CmdDesc) (op : OpCode) (env : Env) (dataout : PVal) (e : Expr) (src : Src) (pv : PVal)
    (hm : srcMatches d e src = true) (he : eval op env e = .ok pv)
    (hdo : ∀ x, d.dataoutSet = some x → eval op env x = .ok dataout)
    (v : Nat) (hv : srcVal op env dataout src = some v) : toVal pv = .ok (.int v) := by
  cases src with
  | arg p =>
    simp only [srcMatches, beq_iff_eq] at hm
    subst hm
    simp only [srcVal] at hv
    cases hp : env.get? p with
    | none => simp [hp] at hv
    | some x =>
      simp only [hp, Option.bind_some] at hv
      rw [eval_param hp] at he
      cases he
      exact toVal_of_asInt hv
  | opcode =>
    simp only [srcMatches, beq_iff_eq] at hm
    subst hm
    simp only [eval] at he; cases he
    simp only [srcVal] at hv; cases hv
    rfl
  | sa n t =>
    simp only [srcMatches, beq_iff_eq] at hm
    subst hm
    simp only [srcVal] at hv
    simp only [eval, hv] at he
    cases he; rfl
  | const n =>
    simp only [srcMatches, beq_iff_eq] at hm
    subst hm
    simp only [eval] at he; cases he
    simp only [srcVal] at hv; cases hv
    rfl
  | paramListLen =>
    cases e with
    | len x =>
      simp only [srcMatches, beq_iff_eq] at hm
      have hx := hdo x hm
      simp only [eval, hx, bind, Except.bind] at he
      cases dataout with
      | bytes b =>
        simp only at he; cases he
        simp only [srcVal] at hv; cases hv
        rfl
      | none => simp [srcVal] at hv
      | int _ => simp [srcVal] at hv
      | bool _ => simp [srcVal] at hv
    | _ => simp [srcMatches] at hm
  | ataLba12 p =>
    simp only [srcMatches, beq_iff_eq] at hm
    subst hm
    obtain ⟨n, hn, rfl⟩ := eval_ata12 op env p pv he
    simp only [srcVal, hn, Option.map_some] at hv
    cases hv; rfl
  | ataLba16 p =>
    simp only [srcMatches, beq_iff_eq] at hm
    subst hm
    obtain ⟨n, hn, rfl⟩ := eval_ata16 op env p pv he
    simp only [srcVal, hn, Option.map_some] at hv
    cases hv; rfl

theorem fieldCompat_spec {L : Nat} {layout : Layout} {key : String} {g : Field}
    (h : fieldCompat L layout key g = true) :
    ∃ m off, layoutGet? layout key = some (.bits m off) ∧ lsbPos L m off = g.lsb L ∧ maskWidth m = g.width := by
  unfold fieldCompat at h
  split at h
  · rename_i m off hg
    simp only [Bool.and_eq_true, beq_iff_eq] at h
    exact ⟨m, off, hg, h.1.2, h.2⟩
  · cases h

/-- what `build` does, unfolded -/
theorem build_spec (d : CmdDesc) (op : OpCode) (args : Env) (c : Command) (h : build d op args = .ok c) :
    ∃ env L dict, bindArgs args d.params = .ok env ∧ initCdbLen op.value = .ok L ∧
      (∀ x, d.dataoutSet = some x → eval op env x = .ok c.dataout) ∧
      evalWiring op env d.wiring = .ok dict ∧ encodeDict dict d.layout (zeros L) = .ok c.cdb := by
  unfold build at h
  simp only [bind, Except.bind] at h
  cases h1 : bindArgs args d.params with
  | error x => simp [h1] at h
  | ok env =>
    simp only [h1] at h
    cases h2 : evalGuards op env d.guards with
    | error x => simp [h2] at h
    | ok _ =>
      simp only [h2] at h
      cases h3 : eval op env d.dataoutLen with
      | error x => simp [h3] at h
      | ok v3 =>
        simp only [h3] at h
        cases h4 : allocLen v3 with
        | error x => simp [h4] at h
        | ok n4 =>
          simp only [h4] at h
          cases h5 : eval op env d.datainLen with
          | error x => simp [h5] at h
          | ok v5 =>
            simp only [h5] at h
            cases h6 : allocLen v5 with
            | error x => simp [h6] at h
            | ok n6 =>
              simp only [h6] at h
              cases h7 : initCdbLen op.value with
              | error x => simp [h7] at h
              | ok L =>
                simp only [h7] at h
                cases hds : d.dataoutSet with
                | none =>
                  simp only [hds, pure, Except.pure] at h
                  cases h9 : evalWiring op env d.wiring with
                  | error x => simp [h9] at h
                  | ok dict =>
                    simp only [h9] at h
                    cases h10 : encodeDict dict d.layout (zeros L) with
                    | error x => simp [h10] at h
                    | ok cdb =>
                      simp only [h10] at h
                      cases h
                      exact ⟨env, L, dict, rfl, rfl, (by intro x hx; cases hx), h9, h10⟩
                | some x =>
                  simp only [hds] at h
                  cases h8 : eval op env x with
                  | error e => simp [h8] at h
                  | ok dv =>
                    simp only [h8] at h
                    cases h9 : evalWiring op env d.wiring with
                    | error x => simp [h9] at h
                    | ok dict =>
                      simp only [h9] at h
                      cases h10 : encodeDict dict d.layout (zeros L) with
                      | error x => simp [h10] at h
                      | ok cdb =>
                        simp only [h10, pure, Except.pure] at h
                        cases h
                        exact ⟨env, L, dict, rfl, rfl, (by intro y hy; cases hy; exact h8), h9, h10⟩

/-- the arguments fit the standard's field widths (the domain of C01) -/
def ArgsInRange (s : Cdb) (op : OpCode) (env : Env) (dataout : PVal) : Prop :=
  ∀ g ∈ s.fields, ∃ v, srcVal op env dataout g.src = some v ∧ v < 2 ^ g.width

/-- **Main soundness theorem**: for a compatible constructor/standard pair, whenever the
constructor succeeds on in-range arguments, the CDB has `L` bytes, a conformant target reads
every standard field as the value the caller supplied, and every other bit is zero. -/
theorem compatible_sound (d : CmdDesc) (s : Cdb) (L : Nat) (hc : compatible d s L = true)
    (op : OpCode) (hL : initCdbLen op.value = .ok L) (args : Env) (c : Command)
    (hb : build d op args = .ok c) (env : Env) (henv : bindArgs args d.params = .ok env)
    (hr : ArgsInRange s op env c.dataout) :
    c.cdb.length = L ∧
    (∀ g ∈ s.fields, ∀ v, srcVal op env c.dataout g.src = some v → fieldOf L g c.cdb = v) ∧
    (∀ i, (baToInt c.cdb).testBit i = true → ∃ g ∈ s.fields, g.lsb L ≤ i ∧ i < g.lsb L + g.width) := by
  obtain ⟨env', L', dict, h1, h2, hdo, hw, henc⟩ := build_spec d op args c hb
  rw [henv] at h1; cases h1
  rw [hL] at h2; cases h2
  unfold compatible at hc
  simp only [Bool.and_eq_true, List.all_eq_true, List.any_eq_true] at hc
  obtain ⟨⟨⟨hwf, hkeys⟩, hall⟩, hstd⟩ := hc
  obtain ⟨s1, s2, s3⟩ := evalWiring_spec op env d.wiring dict hw
  -- every dict entry is an in-range integer
  have hin : InRange d.layout dict := by
    intro kv hkv m off hg
    obtain ⟨e, pv, hm, he, htv⟩ := s1 kv hkv
    obtain ⟨g, hg_mem, hcomp⟩ := hall (kv.1, e) hm
    unfold entryCompat at hcomp
    simp only [Bool.and_eq_true] at hcomp
    obtain ⟨m', off', hg', _, hwd⟩ := fieldCompat_spec hcomp.1
    rw [hg] at hg'; cases hg'
    obtain ⟨v, hv, hlt⟩ := hr g hg_mem
    have := eval_src d op env c.dataout e g.src pv hcomp.2 he hdo v hv
    rw [htv] at this
    have hk : kv.2 = .int v := Except.ok.inj this
    exact ⟨v, hk, by rw [hwd]; exact hlt⟩
  have hkd : KeysDistinct dict := by
    unfold KeysDistinct
    have hp := (pairwiseB_iff _ _).mp hkeys
    have : (dict.map (·.1)).Pairwise (· ≠ ·) := by
      rw [s3]
      rw [List.pairwise_map]
      exact hp.imp (fun h => by simpa using h)
    rw [List.pairwise_map] at this
    exact this
  obtain ⟨r, e1, ok1, len1, nat1⟩ := encodeDict_terms d.layout L hwf dict hin (zeros L) (BytesOK_zeros L) (by simp [zeros])
  rw [henc] at e1; cases e1
  refine ⟨len1, ?_, ?_⟩
  · intro g hg v hv
    obtain ⟨ke, hke, hcomp⟩ := hstd g hg
    unfold entryCompat at hcomp
    simp only [Bool.and_eq_true] at hcomp
    obtain ⟨m, off, hget, hlsb, hwd⟩ := fieldCompat_spec hcomp.1
    obtain ⟨pv, v', he, htv, hmem⟩ := s2 ke hke
    have := eval_src d op env c.dataout ke.2 g.src pv hcomp.2 he hdo v hv
    rw [htv] at this
    cases this
    have hdec := decode_encodeDict d.layout L hwf dict hin hkd c.cdb henc ke.1 m off v hget hmem
    obtain ⟨_, _, he', hbw⟩ := wf_entry hwf (layoutGet?_mem hget)
    cases he'
    obtain ⟨hm, hw0, hoff⟩ := bitsWF_spec hbw
    have hnat := decodeMask_nat c.cdb (maskWidth m) (tz m) off hw0 ok1 (by rw [← hm, len1]; exact hoff)
    rw [← hm, hdec, len1, hlsb, hwd] at hnat
    rw [fieldOf_eq]
    exact hnat.symm
  · intro i hi
    obtain ⟨kv, hkv, m, off, hget, hlo, hhi⟩ := encodeDict_bits_covered d.layout L hwf dict hin c.cdb henc i hi
    obtain ⟨e, pv, hm, _, _⟩ := s1 kv hkv
    obtain ⟨g, hg_mem, hcomp⟩ := hall (kv.1, e) hm
    unfold entryCompat at hcomp
    simp only [Bool.and_eq_true] at hcomp
    obtain ⟨m', off', hget', hlsb, hwd⟩ := fieldCompat_spec hcomp.1
    rw [hget] at hget'; cases hget'
    exact ⟨g, hg_mem, by omega, by omega⟩

/-- the CDB a compatible constructor builds is a byte string (every element below 256) -/
theorem compatible_bytesOK (d : CmdDesc) (s : Cdb) (L : Nat) (hc : compatible d s L = true)
    (op : OpCode) (hL : initCdbLen op.value = .ok L) (args : Env) (c : Command)
    (hb : build d op args = .ok c) (env : Env) (henv : bindArgs args d.params = .ok env)
    (hr : ArgsInRange s op env c.dataout) : BytesOK c.cdb := by
  obtain ⟨env', L', dict, h1, h2, hdo, hw, henc⟩ := build_spec d op args c hb
  rw [henv] at h1; cases h1
  rw [hL] at h2; cases h2
  unfold compatible at hc
  simp only [Bool.and_eq_true, List.all_eq_true, List.any_eq_true] at hc
  obtain ⟨⟨⟨hwf, hkeys⟩, hall⟩, hstd⟩ := hc
  obtain ⟨s1, s2, s3⟩ := evalWiring_spec op env d.wiring dict hw
  have hin : InRange d.layout dict := by
    intro kv hkv m off hg
    obtain ⟨e, pv, hm, he, htv⟩ := s1 kv hkv
    obtain ⟨g, hg_mem, hcomp⟩ := hall (kv.1, e) hm
    unfold entryCompat at hcomp
    simp only [Bool.and_eq_true] at hcomp
    obtain ⟨m', off', hg', _, hwd⟩ := fieldCompat_spec hcomp.1
    rw [hg] at hg'; cases hg'
    obtain ⟨v, hv, hlt⟩ := hr g hg_mem
    have := eval_src d op env c.dataout e g.src pv hcomp.2 he hdo v hv
    rw [htv] at this
    have hk : kv.2 = .int v := Except.ok.inj this
    exact ⟨v, hk, by rw [hwd]; exact hlt⟩
  obtain ⟨r, e1, ok1, len1, nat1⟩ := encodeDict_terms d.layout L hwf dict hin (zeros L) (BytesOK_zeros L) (by simp [zeros])
  rw [henc] at e1; cases e1
  exact ok1

end Compat
