import ScsiVerif.Lemmas.Field
/-! Pure `Nat` facts about XOR-ing a list of disjoint shifted values ("terms") together. -/
namespace Conv

/-- a value `v` (< 2^w) placed at bit position `p` -/
structure Term where
  p : Nat
  w : Nat
  v : Nat
  deriving Repr, DecidableEq

def Term.val (t : Term) : Nat := t.v <<< t.p
def Term.ok (t : Term) : Prop := t.v < 2^t.w
def Term.inRange (t : Term) (i : Nat) : Prop := t.p ≤ i ∧ i < t.p + t.w
def Term.disj (a b : Term) : Prop := a.p + a.w ≤ b.p ∨ b.p + b.w ≤ a.p

instance (a b : Term) : Decidable (a.disj b) := by unfold Term.disj; infer_instance
instance (t : Term) (i : Nat) : Decidable (t.inRange i) := by unfold Term.inRange; infer_instance

def xorAll : List Term → Nat
  | [] => 0
  | t :: ts => t.val ^^^ xorAll ts

theorem Term.testBit_val (t : Term) (h : t.ok) (i : Nat) :
    t.val.testBit i = (decide (t.inRange i) && t.v.testBit (i - t.p)) := by
  unfold Term.val Term.inRange
  rw [Nat.testBit_shiftLeft]
  by_cases hp : t.p ≤ i
  · by_cases hw : i < t.p + t.w
    · simp [hp, hw]
    · have : t.v.testBit (i - t.p) = false :=
        Nat.testBit_lt_two_pow (Nat.lt_of_lt_of_le h (Nat.pow_le_pow_right (by decide) (by omega)))
      simp [hp, hw, this]
  · simp [hp]

theorem xorAll_outside (ts : List Term) (hok : ∀ t ∈ ts, t.ok) (i : Nat)
    (h : ∀ t ∈ ts, ¬ t.inRange i) : (xorAll ts).testBit i = false := by
  induction ts with
  | nil => simp [xorAll]
  | cons t ts ih =>
    simp only [xorAll, Nat.testBit_xor]
    rw [t.testBit_val (hok t (by simp)), ih (fun x hx => hok x (by simp [hx])) (fun x hx => h x (by simp [hx]))]
    have := h t (by simp)
    simp [this]

theorem xorAll_inside (ts : List Term) (hok : ∀ t ∈ ts, t.ok) (hd : ts.Pairwise Term.disj)
    (t : Term) (ht : t ∈ ts) (i : Nat) (hi : t.inRange i) :
    (xorAll ts).testBit i = t.v.testBit (i - t.p) := by
  induction ts with
  | nil => simp at ht
  | cons a ts ih =>
    simp only [xorAll, Nat.testBit_xor]
    rw [List.pairwise_cons] at hd
    rcases List.mem_cons.mp ht with h | h
    · subst h
      rw [t.testBit_val (hok t (by simp))]
      have : (xorAll ts).testBit i = false := by
        apply xorAll_outside ts (fun x hx => hok x (by simp [hx]))
        intro x hx hxi
        have := hd.1 x hx
        unfold Term.disj at this; unfold Term.inRange at hi hxi; omega
      simp [this, hi]
    · rw [a.testBit_val (hok a (by simp)), ih (fun x hx => hok x (by simp [hx])) hd.2 h]
      have : ¬ a.inRange i := by
        intro hai
        have := hd.1 t h
        unfold Term.disj at this; unfold Term.inRange at hi hai; omega
      simp [this]

/-- reading back the field of any one term -/
theorem xorAll_field (ts : List Term) (hok : ∀ t ∈ ts, t.ok) (hd : ts.Pairwise Term.disj)
    (t : Term) (ht : t ∈ ts) : (xorAll ts >>> t.p) % 2^t.w = t.v := by
  apply Nat.eq_of_testBit_eq
  intro i
  rw [testBit_field]
  by_cases hi : i < t.w
  · rw [xorAll_inside ts hok hd t ht (t.p + i) (by unfold Term.inRange; omega)]
    simp [hi]
  · have : t.v.testBit i = false :=
      Nat.testBit_lt_two_pow (Nat.lt_of_lt_of_le (hok t ht) (Nat.pow_le_pow_right (by decide) (by omega)))
    simp [hi, this]

/-- a field disjoint from every term reads zero -/
theorem xorAll_field_other (ts : List Term) (hok : ∀ t ∈ ts, t.ok) (p w : Nat)
    (hd : ∀ t ∈ ts, t.p + t.w ≤ p ∨ p + w ≤ t.p) : (xorAll ts >>> p) % 2^w = 0 := by
  apply Nat.eq_of_testBit_eq
  intro i
  rw [testBit_field, Nat.zero_testBit]
  by_cases hi : i < w
  · rw [xorAll_outside ts hok]
    · simp
    · intro t ht hr
      have := hd t ht
      unfold Term.inRange at hr; omega
  · simp [hi]

theorem xorAll_append (a b : List Term) : xorAll (a ++ b) = xorAll a ^^^ xorAll b := by
  induction a with
  | nil => simp [xorAll]
  | cons t ts ih => simp [xorAll, ih, Nat.xor_assoc]

theorem xorAll_perm {a b : List Term} (h : a.Perm b) : xorAll a = xorAll b := by
  induction h with
  | nil => rfl
  | cons x _ ih => simp [xorAll, ih]
  | swap x y l => simp only [xorAll]; rw [← Nat.xor_assoc, ← Nat.xor_assoc, Nat.xor_comm y.val]
  | trans _ _ ih1 ih2 => exact ih1.trans ih2

/-- a number whose set bits all lie inside the (disjoint) ranges is the XOR of its own fields -/
theorem xorAll_rebuild (N : Nat) (rs : List (Nat × Nat))
    (hd : (rs.map (fun r => (⟨r.1, r.2, (N >>> r.1) % 2^r.2⟩ : Term))).Pairwise Term.disj)
    (hcov : ∀ i, N.testBit i = true → ∃ r ∈ rs, r.1 ≤ i ∧ i < r.1 + r.2) :
    xorAll (rs.map (fun r => (⟨r.1, r.2, (N >>> r.1) % 2^r.2⟩ : Term))) = N := by
  have hok : ∀ t ∈ rs.map (fun r => (⟨r.1, r.2, (N >>> r.1) % 2^r.2⟩ : Term)), t.ok := by
    intro t ht
    obtain ⟨r, _, rfl⟩ := List.mem_map.mp ht
    exact Nat.mod_lt _ (Nat.two_pow_pos _)
  apply Nat.eq_of_testBit_eq
  intro i
  by_cases hin : ∃ r ∈ rs, r.1 ≤ i ∧ i < r.1 + r.2
  · obtain ⟨r, hr, hri⟩ := hin
    rw [xorAll_inside _ hok hd ⟨r.1, r.2, (N >>> r.1) % 2^r.2⟩ (List.mem_map.mpr ⟨r, hr, rfl⟩) i hri]
    simp only [testBit_field]
    have : i - r.1 < r.2 := by omega
    have e : r.1 + (i - r.1) = i := by omega
    simp [this, e]
  · rw [xorAll_outside _ hok]
    · cases hN : N.testBit i with
      | false => rfl
      | true => exact absurd (hcov i hN) hin
    · intro t ht hti
      obtain ⟨r, hr, rfl⟩ := List.mem_map.mp ht
      exact hin ⟨r, hr, hti⟩

end Conv
