import ScsiVerif.Lemmas.Terms
/-! `encodeDict` / `decodeBits` over a well-formed layout, expressed through `Term`s. -/
namespace Conv

theorem pairwiseB_iff {α : Type} (r : α → α → Bool) (l : List α) :
    pairwiseB r l = true ↔ l.Pairwise (fun a b => r a b = true) := by
  induction l with
  | nil => simp [pairwiseB]
  | cons x xs ih => simp [pairwiseB, ih, List.all_eq_true]

theorem pairwise_forall {α : Type} {R : α → α → Prop} (hs : ∀ a b, R a b → R b a) {l : List α}
    (hl : l.Pairwise R) : ∀ a ∈ l, ∀ b ∈ l, a ≠ b → R a b := by
  induction l with
  | nil => intro a ha; simp at ha
  | cons x xs ih =>
    rw [List.pairwise_cons] at hl
    intro a ha b hb hab
    rcases List.mem_cons.mp ha with rfl | ha' <;> rcases List.mem_cons.mp hb with rfl | hb'
    · exact absurd rfl hab
    · exact hl.1 b hb'
    · exact hs _ _ (hl.1 a ha')
    · exact ih hl.2 a ha' b hb' hab

theorem bitsWF_spec {L m off : Nat} (h : bitsWF L m off = true) :
    m = mkMask (maskWidth m) (tz m) ∧ 0 < maskWidth m ∧ off + numBytes m ≤ L := by
  unfold bitsWF at h
  simp only [Bool.and_eq_true, beq_iff_eq, decide_eq_true_eq] at h
  exact ⟨h.1.1, h.1.2, h.2⟩

theorem layoutGet?_mem {layout : Layout} {k : String} {f : FieldSpec}
    (h : layoutGet? layout k = some f) : (k, f) ∈ layout := by
  unfold layoutGet? at h
  cases hf : layout.find? (·.1 == k) with
  | none => simp [hf] at h
  | some kf =>
    simp only [hf, Option.map_some, Option.some.injEq] at h
    have h1 := List.find?_some hf
    have h2 := List.mem_of_find?_eq_some hf
    simp only [beq_iff_eq] at h1
    cases kf with
    | mk a b => simp at h h1; subst h h1; exact h2

theorem wf_entry {layout : Layout} {L : Nat} (hwf : layout.wf L = true) {k : String} {f : FieldSpec}
    (hm : (k, f) ∈ layout) : ∃ m off, f = .bits m off ∧ bitsWF L m off = true := by
  unfold Layout.wf at hwf
  simp only [Bool.and_eq_true, List.all_eq_true] at hwf
  have := hwf.1.1 (k, f) hm
  cases f with
  | blob u o l => simp [FieldSpec.range?] at this
  | bits m off =>
    refine ⟨m, off, rfl, ?_⟩
    simp only [FieldSpec.range?] at this
    split at this
    · assumption
    · simp at this

theorem wf_range {L m off : Nat} (h : bitsWF L m off = true) :
    (FieldSpec.bits m off).range? L = some (lsbPos L m off, maskWidth m) := by
  simp [FieldSpec.range?, h]

/-- two entries of a well-formed layout with different keys occupy disjoint bit ranges -/
theorem wf_disj {layout : Layout} {L : Nat} (hwf : layout.wf L = true) {k k' : String}
    {m off m' off' : Nat} (h : (k, FieldSpec.bits m off) ∈ layout)
    (h' : (k', FieldSpec.bits m' off') ∈ layout) (hne : k ≠ k') :
    lsbPos L m off + maskWidth m ≤ lsbPos L m' off' ∨ lsbPos L m' off' + maskWidth m' ≤ lsbPos L m off := by
  obtain ⟨_, _, he, hb⟩ := wf_entry hwf h
  obtain ⟨_, _, he', hb'⟩ := wf_entry hwf h'
  cases he; cases he'
  unfold Layout.wf at hwf
  simp only [Bool.and_eq_true] at hwf
  have hp := (pairwiseB_iff _ _).mp hwf.2
  have := pairwise_forall (R := fun a b => (match a.2.range? L, b.2.range? L with
    | some ra, some rb => rangeDisj ra rb
    | _, _ => false) = true) (by
      intro a b hab
      cases ha : a.2.range? L <;> cases hb : b.2.range? L <;> simp [ha, hb] at hab ⊢
      unfold rangeDisj at *
      simp only [Bool.or_eq_true, decide_eq_true_eq] at *
      omega) hp _ h _ h' (by intro e; cases e; exact hne rfl)
  simp only [wf_range hb, wf_range hb', rangeDisj, Bool.or_eq_true, decide_eq_true_eq] at this
  exact this

/-- keys are distinct in a well-formed layout, so the lookup finds exactly the listed entry -/
theorem wf_get {layout : Layout} {L : Nat} (hwf : layout.wf L = true) {k : String} {f : FieldSpec}
    (hm : (k, f) ∈ layout) : layoutGet? layout k = some f := by
  unfold Layout.wf at hwf
  simp only [Bool.and_eq_true] at hwf
  have hp := (pairwiseB_iff _ _).mp hwf.1.2
  clear hwf
  induction layout with
  | nil => simp at hm
  | cons x xs ih =>
    rw [List.pairwise_cons] at hp
    unfold layoutGet?
    rcases List.mem_cons.mp hm with rfl | hm'
    · simp [List.find?_cons]
    · have : x.1 ≠ k := by
        have := hp.1 (k, f) hm'
        simpa using this
      have hb : (x.1 == k) = false := by simpa using this
      simp only [List.find?_cons, hb]
      have := ih hm' hp.2
      unfold layoutGet? at this
      exact this

/-- what a key/value pair contributes to the buffer -/
def termOf (L : Nat) (layout : Layout) (kv : String × Val) : Option Term :=
  match layoutGet? layout kv.1, kv.2 with
  | some (.bits m off), .int n => some ⟨lsbPos L m off, maskWidth m, n⟩
  | _, _ => none

def termsOf (L : Nat) (layout : Layout) (d : Dict) : List Term := d.filterMap (termOf L layout)

/-- every supplied value that has a layout entry is an integer that fits the field -/
def InRange (layout : Layout) (d : Dict) : Prop :=
  ∀ kv ∈ d, ∀ m off, layoutGet? layout kv.1 = some (.bits m off) →
    ∃ n, kv.2 = .int n ∧ n < 2^(maskWidth m)

theorem encodeDict_terms (layout : Layout) (L : Nat) (hwf : layout.wf L = true) (d : Dict)
    (hr : InRange layout d) (buf : Bytes) (hb : BytesOK buf) (hl : buf.length = L) :
    ∃ r, encodeDict d layout buf = .ok r ∧ BytesOK r ∧ r.length = L ∧
      baToInt r = baToInt buf ^^^ xorAll (termsOf L layout d) := by
  induction d generalizing buf with
  | nil => exact ⟨buf, rfl, hb, hl, by simp [termsOf, xorAll]⟩
  | cons kv d ih =>
    have hr' : InRange layout d := fun x hx => hr x (by simp [hx])
    unfold encodeDict
    rw [List.foldlM_cons]
    cases hg : layoutGet? layout kv.1 with
    | none =>
      simp only [bind, Except.bind]
      have : termOf L layout kv = none := by simp [termOf, hg]
      obtain ⟨r, h1, h2, h3, h4⟩ := ih hr' buf hb hl
      refine ⟨r, h1, h2, h3, ?_⟩
      rw [h4]; simp [termsOf, List.filterMap_cons, this]
    | some f =>
      obtain ⟨m, off, rfl, hbw⟩ := wf_entry hwf (layoutGet?_mem hg)
      obtain ⟨hm, hw, hoff⟩ := bitsWF_spec hbw
      obtain ⟨n, hn, hnlt⟩ := hr kv (by simp) m off hg
      simp only [hn, encodeField]
      obtain ⟨r1, e1, ok1, len1, nat1⟩ := encodeMask_nat buf (maskWidth m) (tz m) off n hw hb
        (by rw [← hm, hl]; exact hoff) hnlt
      rw [← hm] at e1 nat1
      simp only [e1, bind, Except.bind]
      obtain ⟨r, h1, h2, h3, h4⟩ := ih hr' r1 ok1 (by rw [len1, hl])
      refine ⟨r, h1, h2, h3, ?_⟩
      have ht : termOf L layout kv = some ⟨lsbPos L m off, maskWidth m, n⟩ := by
        simp [termOf, hg, hn]
      rw [h4, nat1, hl]
      simp [termsOf, List.filterMap_cons, ht, xorAll, Term.val, Nat.xor_assoc]

theorem termsOf_ok (layout : Layout) (L : Nat) (d : Dict) (hr : InRange layout d) :
    ∀ t ∈ termsOf L layout d, t.ok := by
  intro t ht
  obtain ⟨kv, hkv, hk⟩ := List.mem_filterMap.mp ht
  unfold termOf at hk
  split at hk
  · rename_i m off n hg hv
    cases hk
    obtain ⟨n', hn', hlt⟩ := hr kv hkv m off hg
    rw [hv] at hn'; cases hn'
    exact hlt
  · simp at hk

def KeysDistinct (d : Dict) : Prop := d.Pairwise (fun a b => a.1 ≠ b.1)

theorem termsOf_disj (layout : Layout) (L : Nat) (hwf : layout.wf L = true) (d : Dict)
    (hk : KeysDistinct d) : (termsOf L layout d).Pairwise Term.disj := by
  unfold termsOf
  apply List.Pairwise.filterMap (termOf L layout) _ hk
  intro a a' hne b hb b' hb'
  unfold termOf at hb hb'
  split at hb
  · rename_i m off n hg _
    split at hb'
    · rename_i m' off' n' hg' _
      simp only [Option.mem_def, Option.some.injEq] at hb hb'
      subst hb hb'
      exact wf_disj hwf (layoutGet?_mem hg) (layoutGet?_mem hg') hne
    · simp at hb'
  · simp at hb

/-- decode-after-encode for one supplied key -/
theorem decode_encodeDict (layout : Layout) (L : Nat) (hwf : layout.wf L = true) (d : Dict)
    (hr : InRange layout d) (hk : KeysDistinct d) (r : Bytes)
    (he : encodeDict d layout (zeros L) = .ok r)
    (k : String) (m off n : Nat) (hg : layoutGet? layout k = some (.bits m off))
    (hin : (k, Val.int n) ∈ d) : decodeMask r m off = n := by
  obtain ⟨r', e, ok, len, nat⟩ := encodeDict_terms layout L hwf d hr (zeros L) (BytesOK_zeros L) (by simp [zeros])
  rw [he] at e; cases e
  obtain ⟨_, _, he', hbw⟩ := wf_entry hwf (layoutGet?_mem hg)
  cases he'
  obtain ⟨hm, hw, hoff⟩ := bitsWF_spec hbw
  have := decodeMask_nat r (maskWidth m) (tz m) off hw ok (by rw [← hm, len]; exact hoff)
  rw [← hm] at this
  rw [this, nat, baToInt_zeros, Nat.zero_xor, len]
  have hmem : (⟨lsbPos L m off, maskWidth m, n⟩ : Term) ∈ termsOf L layout d := by
    apply List.mem_filterMap.mpr
    exact ⟨(k, .int n), hin, by simp [termOf, hg]⟩
  exact xorAll_field _ (termsOf_ok layout L d hr) (termsOf_disj layout L hwf d hk) _ hmem

/-- a layout key that was *not* supplied decodes to 0 -/
theorem decode_encodeDict_absent (layout : Layout) (L : Nat) (hwf : layout.wf L = true) (d : Dict)
    (hr : InRange layout d) (r : Bytes) (he : encodeDict d layout (zeros L) = .ok r)
    (k : String) (m off : Nat) (hg : layoutGet? layout k = some (.bits m off))
    (hout : ∀ kv ∈ d, kv.1 ≠ k) : decodeMask r m off = 0 := by
  obtain ⟨r', e, ok, len, nat⟩ := encodeDict_terms layout L hwf d hr (zeros L) (BytesOK_zeros L) (by simp [zeros])
  rw [he] at e; cases e
  obtain ⟨_, _, he', hbw⟩ := wf_entry hwf (layoutGet?_mem hg)
  cases he'
  obtain ⟨hm, hw, hoff⟩ := bitsWF_spec hbw
  have := decodeMask_nat r (maskWidth m) (tz m) off hw ok (by rw [← hm, len]; exact hoff)
  rw [← hm] at this
  rw [this, nat, baToInt_zeros, Nat.zero_xor, len]
  apply xorAll_field_other _ (termsOf_ok layout L d hr)
  intro t ht
  obtain ⟨kv, hkv, hkt⟩ := List.mem_filterMap.mp ht
  unfold termOf at hkt
  split at hkt
  · rename_i m' off' n' hg' _
    cases hkt
    exact wf_disj hwf (layoutGet?_mem hg') (layoutGet?_mem hg) (hout kv hkv)
  · simp at hkt

/-- every set bit of an encoded buffer lies inside the field of a supplied key -/
theorem encodeDict_bits_covered (layout : Layout) (L : Nat) (hwf : layout.wf L = true) (d : Dict)
    (hr : InRange layout d) (r : Bytes) (he : encodeDict d layout (zeros L) = .ok r) (i : Nat)
    (hi : (baToInt r).testBit i = true) :
    ∃ kv ∈ d, ∃ m off, layoutGet? layout kv.1 = some (.bits m off) ∧
      lsbPos L m off ≤ i ∧ i < lsbPos L m off + maskWidth m := by
  obtain ⟨r', e, ok, len, nat⟩ := encodeDict_terms layout L hwf d hr (zeros L) (BytesOK_zeros L) (by simp [zeros])
  rw [he] at e; cases e
  rw [nat, baToInt_zeros, Nat.zero_xor] at hi
  apply Classical.byContradiction
  intro hno
  have : (xorAll (termsOf L layout d)).testBit i = false := by
    apply xorAll_outside _ (termsOf_ok layout L d hr)
    intro t ht hti
    obtain ⟨kv, hkv, hkt⟩ := List.mem_filterMap.mp ht
    unfold termOf at hkt
    split at hkt
    · rename_i m off n hg _
      cases hkt
      exact hno ⟨kv, hkv, m, off, hg, hti⟩
    · simp at hkt
  rw [this] at hi; cases hi

end Conv
