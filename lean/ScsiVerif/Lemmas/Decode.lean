import ScsiVerif.Lemmas.DataCompat
import ScsiVerif.Model.Formats.Decode
import ScsiVerif.Std.DataIn
/-! Helper lemmas for the response-decoder theorems of C04: `decodeInto` on a conformant block,
dict updates with fresh keys, `mapM` over descriptors, splitting a buffer into fixed-size pieces. -/
namespace DecL
open Conv PVal Std DataCompat

/-- what the library reports for a block decoded with table `lay`: every key of the table with the
device's value, in table order -/
def reported (lay : Layout) (v : Vals) : PDict := ofDict (expected lay v)

theorem reported_keys (lay : Layout) (v : Vals) : (reported lay v).map (·.1) = lay.map (·.1) := by
  simp [reported, ofDict, expected, List.map_map, Function.comp_def]

theorem set_fresh (d : PDict) (k : String) (x : PV) (h : ∀ kv ∈ d, kv.1 ≠ k) : d.set k x = d ++ [(k, x)] := by
  unfold PDict.set
  have : d.any (·.1 == k) = false := by
    rw [List.any_eq_false]
    intro kv hkv
    simpa using h kv hkv
  simp [this]

theorem update_fresh (d e : PDict) (he : e.Pairwise (fun a b => a.1 ≠ b.1))
    (hd : ∀ kv ∈ d, ∀ x ∈ e, kv.1 ≠ x.1) : d.update e = d ++ e := by
  unfold PDict.update
  induction e generalizing d with
  | nil => simp
  | cons x e ih =>
    rw [List.pairwise_cons] at he
    simp only [List.foldl_cons]
    rw [set_fresh d x.1 x.2 (fun kv hkv => hd kv hkv x (by simp))]
    rw [ih (d ++ [x]) he.2 (by
      intro kv hkv y hy
      rcases List.mem_append.mp hkv with h | h
      · exact hd kv h y (by simp [hy])
      · simp at h; subst h; exact he.1 y hy)]
    simp

theorem compatible_keys {lay : Layout} {fs : List DField} {L : Nat} (hc : compatible lay fs L = true) :
    lay.Pairwise (fun a b => a.1 ≠ b.1) := by
  unfold compatible at hc
  simp only [Bool.and_eq_true] at hc
  exact ((pairwiseB_iff _ _).mp hc.1.2).imp (fun h => by simpa using h)

theorem reported_pairwise {lay : Layout} (hk : lay.Pairwise (fun a b => a.1 ≠ b.1)) (v : Vals) :
    (reported lay v).Pairwise (fun a b => a.1 ≠ b.1) := by
  have := reported_keys lay v
  have h2 : ((reported lay v).map (·.1)).Pairwise (· ≠ ·) := by
    rw [this, List.pairwise_map]; exact hk
  rw [List.pairwise_map] at h2
  exact h2

/-- `decode_bits(block ++ anything, table, result)` for a table compatible with the block's format -/
theorem decodeInto_std (lay : Layout) (b : Block) (hc : compatible lay b.rel b.len = true)
    (v : Vals) (hr : InRangeD b.rel v) (tr : Bytes) (r : PDict)
    (hfresh : ∀ kv ∈ r, ∀ kf ∈ lay, kv.1 ≠ kf.1) :
    decodeInto (b.enc v ++ tr) lay r = .ok (r ++ reported lay v) := by
  unfold decodeInto Block.enc
  rw [compatible_sound lay b.rel b.len hc v hr tr]
  simp only [bind, Except.bind, pure, Except.pure]
  congr 1
  apply update_fresh
  · exact reported_pairwise (compatible_keys hc) v
  · intro kv hkv x hx
    have : x.1 ∈ (reported lay v).map (·.1) := List.mem_map.mpr ⟨x, hx, rfl⟩
    rw [reported_keys] at this
    obtain ⟨kf, hkf, hkf'⟩ := List.mem_map.mp this
    rw [← hkf']
    exact hfresh kv hkv kf hkf

theorem decodeInto_std_nil (lay : Layout) (b : Block) (hc : compatible lay b.rel b.len = true)
    (v : Vals) (hr : InRangeD b.rel v) (tr : Bytes) :
    decodeInto (b.enc v ++ tr) lay [] = .ok (reported lay v) := by
  have := decodeInto_std lay b hc v hr tr [] (by intro kv hkv; simp at hkv)
  simpa using this

theorem enc_length (b : Block) (v : Vals) : (b.enc v).length = b.len := by
  unfold Block.enc encodeD
  rw [toBytes_eq_intToBa]; simp

theorem enc_ok (b : Block) (v : Vals) : BytesOK (b.enc v) := by
  unfold Block.enc encodeD
  rw [toBytes_eq_intToBa]; exact intToBa_ok _ _

/-- `[f(x) for x in xs]` where `f` never raises -/
theorem mapM_ok {α β : Type} (f : α → Except PyErr β) (g : α → β) (l : List α)
    (h : ∀ x ∈ l, f x = .ok (g x)) : l.mapM f = .ok (l.map g) := by
  induction l with
  | nil => rfl
  | cons x xs ih =>
    rw [List.mapM_cons, h x (by simp), ih (fun y hy => h y (by simp [hy]))]
    rfl

/-- cutting the concatenation of `k`-byte items back into the items -/
theorem pieces_flatten (k : Nat) (hk : 0 < k) (items : List Bytes) (h : ∀ x ∈ items, x.length = k) :
    pieces k items.flatten = items := by
  induction items with
  | nil => unfold pieces; simp
  | cons x xs ih =>
    have hx : x.length = k := h x (by simp)
    have hne : ¬ ((x :: xs).flatten.length = 0 ∨ k = 0) := by
      simp only [List.flatten_cons, List.length_append]; omega
    rw [pieces, dif_neg hne]
    simp only [List.flatten_cons]
    rw [List.take_left' hx, List.drop_left' hx, ih (fun y hy => h y (by simp [hy]))]

theorem flatten_length_const (k : Nat) (items : List Bytes) (h : ∀ x ∈ items, x.length = k) :
    items.flatten.length = k * items.length := by
  induction items with
  | nil => simp
  | cons x xs ih =>
    simp only [List.flatten_cons, List.length_append, List.length_cons]
    rw [ih (fun y hy => h y (by simp [hy])), h x (by simp), Nat.mul_succ]; omega

/-- `data[a:b]` where the prefix before `a` and the body up to `b` are known -/
theorem slice_mid (pre body post : Bytes) (a b : Nat) (ha : pre.length = a) (hb : a + body.length = b) :
    slice (pre ++ body ++ post) a b = body := by
  unfold slice
  rw [List.take_left' (by simp; omega), List.drop_left' ha]

theorem b2i_be (n k : Nat) (h : n < 2 ^ (8 * k)) : Dec.b2i (toBytes n k) = n := by
  unfold Dec.b2i
  rw [toBytes_eq_intToBa, baToInt_intToBa, Nat.mod_eq_of_lt h]

end DecL

namespace DecL
open Conv PVal Std DataCompat

theorem compatible_format {lay : Layout} {fs : List DField} {L : Nat} (hc : compatible lay fs L = true) :
    formatOK L fs = true := by
  unfold compatible at hc
  simp only [Bool.and_eq_true] at hc
  exact hc.1.1

/-- a byte-aligned field of a block, read with `scsi_ba_to_int(data[a:a+n])` -/
theorem b2i_slice_field (b : Block) (hf : formatOK b.len b.rel = true) (v : Vals) (hr : InRangeD b.rel v)
    (tr : Bytes) (g : DField) (hg : g ∈ b.rel) (n : Nat) (hmsb : g.msb = 7) (hw : g.width = 8 * n)
    (hin : g.byte + n ≤ b.len) :
    Dec.b2i (slice (b.enc v ++ tr) g.byte (g.byte + n)) = v g.key := by
  unfold Dec.b2i
  rw [slice_append_left _ _ _ _ (by rw [enc_length]; exact hin)]
  rw [baToInt_slice _ (enc_ok b v) _ _ (by rw [enc_length]; exact hin), enc_length]
  have := field_of_encodeD b.len b.rel hf v hr g hg
  unfold Block.enc
  have hok := (formatOK_spec hf).1 g hg
  unfold DField.ok at hok
  simp only [Bool.and_eq_true, decide_eq_true_eq] at hok
  have e : g.lsb b.len = 8 * (b.len - g.byte - n) := by
    unfold DField.lsb; rw [hmsb, hw]; omega
  rw [e, hw] at this
  exact this

end DecL

namespace DecL
open Conv PVal Std DataCompat

theorem shift_mod_shift (N a w : Nat) (hw : w ≤ 8) :
    ((N >>> a) % 2 ^ 8) >>> (8 - w) = (N >>> (a + 8 - w)) % 2 ^ w := by
  apply Nat.eq_of_testBit_eq
  intro i
  simp only [Nat.testBit_shiftRight, Nat.testBit_mod_two_pow]
  by_cases hi : i < w
  · have : 8 - w + i < 8 := by omega
    have e : a + (8 - w + i) = a + 8 - w + i := by omega
    simp [hi, this, e]
  · have : ¬ 8 - w + i < 8 := by omega
    simp [hi, this]

/-- the top `w` bits of byte `g.byte`, read as `data[i] >> (8 - w)` -/
theorem idx_top_field (b : Block) (hf : formatOK b.len b.rel = true) (v : Vals) (hr : InRangeD b.rel v)
    (tr : Bytes) (g : DField) (hg : g ∈ b.rel) (hmsb : g.msb = 7) (hw : g.width ≤ 8) :
    ∃ x, idx (b.enc v ++ tr) g.byte = .ok x ∧ x >>> (8 - g.width) = v g.key := by
  have hok := (formatOK_spec hf).1 g hg
  unfold DField.ok at hok
  simp only [Bool.and_eq_true, decide_eq_true_eq] at hok
  have hlt : g.byte < (b.enc v).length := by rw [enc_length]; exact hok.1.1.1
  refine ⟨(b.enc v)[g.byte], ?_, ?_⟩
  · unfold idx
    rw [List.getElem?_append_left hlt, List.getElem?_eq_getElem hlt]
  · have hs : slice (b.enc v) g.byte (g.byte + 1) = [(b.enc v)[g.byte]] := by
      unfold slice
      rw [List.drop_take]
      simp [List.take_one, List.head?_drop, List.getElem?_eq_getElem hlt]
    have h1 := baToInt_slice (b.enc v) (enc_ok b v) g.byte 1 (by omega)
    rw [hs, enc_length] at h1
    simp only [baToInt, List.length_nil, Nat.zero_mul, Nat.shiftLeft_zero, Nat.add_zero, Nat.mul_one] at h1
    rw [h1, shift_mod_shift _ _ _ hw]
    have := field_of_encodeD b.len b.rel hf v hr g hg
    unfold Block.enc
    have e : g.lsb b.len = 8 * (b.len - g.byte - 1) + 8 - g.width := by
      unfold DField.lsb; rw [hmsb]; omega
    rw [e] at this
    exact this

end DecL

namespace DecL
open Conv PVal Std DataCompat

theorem get?_reported (lay : Layout) (v : Vals) (k : String) (f : FieldSpec)
    (h : layoutGet? lay k = some f) : (reported lay v).get? k = some (ofVal (expVal f (v k))) := by
  unfold layoutGet? at h
  unfold PDict.get? reported expected ofDict
  induction lay with
  | nil => simp at h
  | cons x xs ih =>
    simp only [List.map_cons, List.find?_cons] at h ⊢
    by_cases hx : x.1 = k
    · have : (x.1 == k) = true := by simpa using hx
      simp only [this] at h ⊢
      simp at h
      simp [h, hx]
    · have : (x.1 == k) = false := by simpa using hx
      simp only [this] at h ⊢
      exact ih h

theorem getInt_reported (lay : Layout) (v : Vals) (k : String) (m off : Nat)
    (h : layoutGet? lay k = some (.bits m off)) : getInt (reported lay v) k = .ok (v k) := by
  unfold getInt
  rw [get?_reported lay v k _ h]
  rfl


end DecL

namespace DecL
open Conv PVal Std DataCompat

theorem toBytes_length (n k : Nat) : (toBytes n k).length = k := by
  rw [toBytes_eq_intToBa]; simp

theorem slice_prefix (a rest : Bytes) (n : Nat) (h : a.length = n) : slice (a ++ rest) 0 n = a := by
  unfold slice
  rw [List.take_left' h]; rfl

theorem mapM_map_ok {α β γ : Type} (f : β → Except PyErr γ) (e : α → β) (g : α → γ) (l : List α)
    (h : ∀ x ∈ l, f (e x) = .ok (g x)) : (l.map e).mapM f = .ok (l.map g) := by
  induction l with
  | nil => rfl
  | cons x xs ih =>
    rw [List.map_cons, List.mapM_cons, h x (by simp), ih (fun y hy => h y (by simp [hy]))]
    rfl

theorem mapIdx_map' {α β γ : Type} (f : Nat → β → γ) (g : α → β) (l : List α) :
    (l.map g).mapIdx f = l.mapIdx (fun i x => f i (g x)) := by
  apply List.ext_getElem <;> simp

end DecL
