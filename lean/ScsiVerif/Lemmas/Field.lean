import ScsiVerif.Lemmas.Conv
/-! Nat-level meaning of `encodeMask` / `decodeMask` for contiguous masks. -/
namespace Conv

theorem encodeMask_nat (buf : Bytes) (w s off v : Nat) (hw : 0 < w) (hb : BytesOK buf)
    (hoff : off + numBytes (mkMask w s) ≤ buf.length) (hv : v < 2^w) :
    ∃ r, encodeMask buf (mkMask w s) off v = .ok r ∧ BytesOK r ∧ r.length = buf.length ∧
      baToInt r = baToInt buf ^^^ (v <<< lsbPos buf.length (mkMask w s) off) := by
  have hfit := mkMask_fits w s hw
  unfold encodeMask
  simp only [mkMask_ne_zero w s hw, if_false, tz_mkMask w s hw]
  have hlen : (intToBa (v <<< s) (numBytes (mkMask w s))).length = numBytes (mkMask w s) := by simp
  obtain ⟨r, hr, _, _⟩ := xorAt_spec (intToBa (v <<< s) (numBytes (mkMask w s))) buf off (by rw [hlen]; exact hoff)
  obtain ⟨h1, h2, h3⟩ := baToInt_xorAt _ buf r off hb (intToBa_ok _ _) (by rw [hlen]; exact hoff) hr
  refine ⟨r, hr, h1, h2, ?_⟩
  rw [h3, baToInt_intToBa, hlen]
  have hlt : v <<< s < 2 ^ (8 * numBytes (mkMask w s)) := by
    rw [Nat.shiftLeft_eq]
    calc v * 2^s < 2^w * 2^s := Nat.mul_lt_mul_of_pos_right hv (Nat.two_pow_pos s)
      _ = 2^(w+s) := (Nat.pow_add 2 w s).symm
      _ ≤ 2^(8 * numBytes (mkMask w s)) := Nat.pow_le_pow_right (by decide) (by omega)
  rw [Nat.mod_eq_of_lt hlt]
  unfold lsbPos
  rw [tz_mkMask w s hw, ← Nat.shiftLeft_add, Nat.add_comm]

theorem decodeMask_nat (data : Bytes) (w s off : Nat) (hw : 0 < w) (hb : BytesOK data)
    (hoff : off + numBytes (mkMask w s) ≤ data.length) :
    decodeMask data (mkMask w s) off = (baToInt data >>> lsbPos data.length (mkMask w s) off) % 2^w := by
  have hfit := mkMask_fits w s hw
  unfold decodeMask lsbPos
  rw [tz_mkMask w s hw, mkMask_shiftRight, baToInt_slice data hb off _ hoff]
  apply Nat.eq_of_testBit_eq
  intro i
  simp only [Nat.testBit_and, Nat.testBit_shiftRight, Nat.testBit_mod_two_pow,
    Nat.testBit_two_pow_sub_one]
  by_cases hi : i < w
  · have : s + i < 8 * numBytes (mkMask w s) := by omega
    simp [hi, this, Nat.add_assoc]
  · simp [hi]

/-- every bit of the result of an encode, in terms of the bits before -/
theorem testBit_encode (N v p w i : Nat) (hv : v < 2^w) :
    (N ^^^ (v <<< p)).testBit i =
      if p ≤ i ∧ i < p + w then (N.testBit i ^^ v.testBit (i - p)) else N.testBit i := by
  rw [Nat.testBit_xor, Nat.testBit_shiftLeft]
  by_cases h : p ≤ i ∧ i < p + w
  · simp [h]
  · simp only [h, if_false]
    by_cases hp : p ≤ i
    · have : v.testBit (i - p) = false :=
        Nat.testBit_lt_two_pow (Nat.lt_of_lt_of_le hv (Nat.pow_le_pow_right (by decide) (by omega)))
      simp [this]
    · simp [hp]

theorem testBit_field (N p w i : Nat) :
    ((N >>> p) % 2^w).testBit i = (decide (i < w) && N.testBit (p + i)) := by
  simp [Nat.testBit_mod_two_pow, Nat.testBit_shiftRight]

/-- reading a field back after XOR-ing a value into it, when the field's bits were zero -/
theorem field_xor_same (N v p w : Nat) (hv : v < 2^w) (hz : (N >>> p) % 2^w = 0) :
    ((N ^^^ (v <<< p)) >>> p) % 2^w = v := by
  apply Nat.eq_of_testBit_eq
  intro i
  rw [testBit_field, testBit_encode N v p w _ hv]
  by_cases hi : i < w
  · have c : p ≤ p + i ∧ p + i < p + w := by omega
    have hz' := congrArg (fun x => Nat.testBit x i) hz
    simp only [testBit_field, hi, decide_true, Bool.true_and, Nat.zero_testBit] at hz'
    simp [hi, c, hz']
  · have : v.testBit i = false :=
      Nat.testBit_lt_two_pow (Nat.lt_of_lt_of_le hv (Nat.pow_le_pow_right (by decide) (by omega)))
    simp [hi, this]

/-- reading a *disjoint* field is unaffected -/
theorem field_xor_other (N v p w p' w' : Nat) (hv : v < 2^w) (hd : p' + w' ≤ p ∨ p + w ≤ p') :
    ((N ^^^ (v <<< p)) >>> p') % 2^w' = (N >>> p') % 2^w' := by
  apply Nat.eq_of_testBit_eq
  intro i
  rw [testBit_field, testBit_field, testBit_encode N v p w _ hv]
  by_cases hi : i < w'
  · have c : ¬ (p ≤ p' + i ∧ p' + i < p + w) := by omega
    simp [hi, c]
  · simp [hi]

end Conv
