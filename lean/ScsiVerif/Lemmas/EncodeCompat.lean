import ScsiVerif.Lemmas.DataCompat
/-! Encode-side soundness of `DataCompat.compatible`: `encode_dict` into a zeroed buffer with a
compatible table produces exactly the standard's structure holding the supplied values. -/
namespace DataCompat
open Conv Std

/-- the values the caller's dictionary supplies for the table's keys (0 for everything else) -/
def valsFor (lay : Layout) (d : Dict) : Vals := fun k =>
  match layoutGet? lay k, dictGet? d k with
  | some _, some (.int n) => n
  | _, _ => 0

theorem dictGet?_of_mem {d : Dict} (hk : KeysDistinct d) {k : String} {x : Val} (h : (k, x) ∈ d) :
    dictGet? d k = some x := by
  unfold dictGet?
  induction d with
  | nil => simp at h
  | cons a as ih =>
    unfold KeysDistinct at hk
    rw [List.pairwise_cons] at hk
    simp only [List.find?_cons]
    rcases List.mem_cons.mp h with rfl | h'
    · simp
    · have hne : a.1 ≠ k := hk.1 (k, x) h'
      have : (a.1 == k) = false := by simpa using hne
      simp only [this]
      exact ih hk.2 h'

theorem compat_entry {lay : Layout} {fs : List DField} {L : Nat} (hc : compatible lay fs L = true)
    {k : String} {m off : Nat} (h : (k, FieldSpec.bits m off) ∈ lay) :
    ∃ g ∈ fs, g.key = k ∧ lsbPos L m off = g.lsb L ∧ maskWidth m = g.width := by
  unfold compatible at hc
  simp only [Bool.and_eq_true, List.all_eq_true, List.any_eq_true, beq_iff_eq] at hc
  obtain ⟨g, hg, hgk, hm⟩ := hc.2 _ h
  simp only [entryMatches, Bool.and_eq_true, beq_iff_eq] at hm
  exact ⟨g, hg, hgk, hm.1.2, hm.2⟩

theorem std_key_unique {fs : List DField} {L : Nat} (hf : formatOK L fs = true) {g g' : DField}
    (hg : g ∈ fs) (hg' : g' ∈ fs) (hk : g.key = g'.key) : g = g' := by
  have hp := (formatOK_spec hf).2.1
  apply Classical.byContradiction
  intro hne
  exact pairwise_forall (fun a b h => fun e => h e.symm) hp g hg g' hg' hne hk

/-- **encode-side soundness**: for a bit-field table that is well formed and compatible with the
standard's block, `encode_dict(d, table, bytearray(L))` is the standard's structure for the values
`d` supplies — each at the position the standard assigns, every other bit zero. -/
theorem encode_sound (lay : Layout) (fs : List DField) (L : Nat) (hwf : lay.wf L = true)
    (hc : compatible lay fs L = true) (d : Dict) (hr : InRange lay d) (hk : KeysDistinct d) :
    encodeDict d lay (zeros L) = .ok (encodeD L fs (valsFor lay d)) := by
  have hf : formatOK L fs = true := by
    unfold compatible at hc; simp only [Bool.and_eq_true] at hc; exact hc.1.1
  obtain ⟨r, e1, ok1, len1, nat1⟩ := encodeDict_terms lay L hwf d hr (zeros L) (BytesOK_zeros L) (by simp [zeros])
  rw [e1]
  congr 1
  -- values supplied for standard fields fit
  have hrange : InRangeD fs (valsFor lay d) := by
    intro g hg
    unfold valsFor
    cases hl : layoutGet? lay g.key with
    | none => simp; exact Nat.two_pow_pos _
    | some f =>
      cases hd : dictGet? d g.key with
      | none => simp; exact Nat.two_pow_pos _
      | some x =>
        cases x with
        | bytes b => simp; exact Nat.two_pow_pos _
        | int n =>
          simp only
          obtain ⟨m, off, rfl, _⟩ := wf_entry hwf (layoutGet?_mem hl)
          obtain ⟨g', hg', hk', _, hw⟩ := compat_entry hc (layoutGet?_mem hl)
          have : g' = g := std_key_unique hf hg' hg hk'
          subst this
          have hmem : (g'.key, Val.int n) ∈ d := by
            unfold dictGet? at hd
            cases hfind : d.find? (·.1 == g'.key) with
            | none => simp [hfind] at hd
            | some kv =>
              simp only [hfind, Option.map_some, Option.some.injEq] at hd
              have h1 := List.find?_some hfind
              have h2 := List.mem_of_find?_eq_some hfind
              simp only [beq_iff_eq] at h1
              cases kv with
              | mk a b => simp at hd h1; subst hd h1; exact h2
          obtain ⟨n', hn', hlt⟩ := hr _ hmem m off hl
          cases hn'
          rw [← hw]; exact hlt
  obtain ⟨ok2, len2, nat2⟩ := encodeD_facts L fs hf (valsFor lay d) hrange
  apply baToInt_inj r _ ok1 ok2 (by rw [len1, len2])
  rw [nat1, baToInt_zeros, Nat.zero_xor, nat2]
  have hok1 := termsOf_ok lay L d hr
  have hd1 := termsOf_disj lay L hwf d hk
  have hok2 : ∀ t ∈ termsD L fs (valsFor lay d), t.ok := by
    intro t ht
    obtain ⟨g, hg, rfl⟩ := List.mem_map.mp ht
    exact hrange g hg
  have hd2 := termsD_disj hf (valsFor lay d)
  apply Nat.eq_of_testBit_eq
  intro i
  by_cases hA : ∃ t ∈ termsOf L lay d, t.inRange i
  · obtain ⟨t, ht, hti⟩ := hA
    rw [xorAll_inside _ hok1 hd1 t ht i hti]
    obtain ⟨kv, hkv, hkt⟩ := List.mem_filterMap.mp ht
    unfold termOf at hkt
    split at hkt
    · rename_i m off n hg hv
      cases hkt
      obtain ⟨g, hgm, hgk, hlsb, hw⟩ := compat_entry hc (layoutGet?_mem hg)
      have hval : valsFor lay d g.key = n := by
        unfold valsFor
        rw [hgk, hg, dictGet?_of_mem hk (show (kv.1, Val.int n) ∈ d by rw [← hv]; exact hkv)]
      have ht2 : (⟨g.lsb L, g.width, valsFor lay d g.key⟩ : Term) ∈ termsD L fs (valsFor lay d) :=
        List.mem_map.mpr ⟨g, hgm, rfl⟩
      rw [xorAll_inside _ hok2 hd2 _ ht2 i (by unfold Term.inRange at hti ⊢; simp only at hti ⊢; omega)]
      simp only [hval, hlsb]
    · simp at hkt
  · rw [xorAll_outside _ hok1 i (fun t ht hti => hA ⟨t, ht, hti⟩)]
    symm
    by_cases hB : ∃ t ∈ termsD L fs (valsFor lay d), t.inRange i
    · obtain ⟨t, ht, hti⟩ := hB
      rw [xorAll_inside _ hok2 hd2 t ht i hti]
      obtain ⟨g, hg, rfl⟩ := List.mem_map.mp ht
      simp only
      -- the value of this standard field is 0, otherwise a term of the dictionary would cover bit i
      have hz : valsFor lay d g.key = 0 := by
        unfold valsFor
        cases hl : layoutGet? lay g.key with
        | none => rfl
        | some f =>
          cases hdd : dictGet? d g.key with
          | none => rfl
          | some x =>
            cases x with
            | bytes b => rfl
            | int n =>
              exfalso
              obtain ⟨m, off, rfl, _⟩ := wf_entry hwf (layoutGet?_mem hl)
              obtain ⟨g', hg', hk', hlsb, hw⟩ := compat_entry hc (layoutGet?_mem hl)
              have : g' = g := std_key_unique hf hg' hg hk'
              subst this
              have hmem : (g'.key, Val.int n) ∈ d := by
                unfold dictGet? at hdd
                cases hfind : d.find? (·.1 == g'.key) with
                | none => simp [hfind] at hdd
                | some kv =>
                  simp only [hfind, Option.map_some, Option.some.injEq] at hdd
                  have h1 := List.find?_some hfind
                  have h2 := List.mem_of_find?_eq_some hfind
                  simp only [beq_iff_eq] at h1
                  cases kv with
                  | mk a b => simp at hdd h1; subst hdd h1; exact h2
              apply hA
              refine ⟨⟨lsbPos L m off, maskWidth m, n⟩, ?_, ?_⟩
              · exact List.mem_filterMap.mpr ⟨(g'.key, .int n), hmem, by simp [termOf, hl]⟩
              · unfold Term.inRange at hti ⊢; simp only at hti ⊢; omega
      rw [hz]; simp
    · rw [xorAll_outside _ hok2 i (fun t ht hti => hB ⟨t, ht, hti⟩)]

end DataCompat
