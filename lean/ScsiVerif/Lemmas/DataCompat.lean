import ScsiVerif.Model.DataCompat
import ScsiVerif.Lemmas.Sum
import ScsiVerif.Lemmas.Roundtrip
import ScsiVerif.Lemmas.Compat
/-! Soundness of `DataCompat.compatible`: `decode_bits` with a compatible table returns exactly the
values a conformant device put into the standard's structure — whatever follows the structure. -/
namespace DataCompat
open Conv Std

theorem toBytes_eq_intToBa (n k : Nat) : toBytes n k = intToBa n k := by
  induction k with
  | zero => rfl
  | succ k ih =>
    simp only [toBytes, intToBa, ih]
    congr 1
    rw [show (0xFF : Nat) = 2 ^ 8 - 1 from by decide, Nat.and_two_pow_sub_one_eq_mod,
      Nat.shiftRight_eq_div_pow, Nat.mul_comm k 8, Nat.pow_mul]

def termsD (L : Nat) (fs : List DField) (v : Vals) : List Term :=
  fs.map (fun g => ⟨g.lsb L, g.width, v g.key⟩)

theorem valueD_eq_sumAll (L : Nat) (fs : List DField) (v : Vals) : valueD L fs v = sumAll (termsD L fs v) := by
  unfold valueD termsD
  induction fs with
  | nil => rfl
  | cons g fs ih => simp only [List.foldr_cons, List.map_cons, sumAll, Term.val, Nat.shiftLeft_eq, ih]

theorem pairwiseD_iff {α : Type} (r : α → α → Bool) (l : List α) :
    pairwiseD r l = true ↔ l.Pairwise (fun a b => r a b = true) := by
  induction l with
  | nil => simp [pairwiseD]
  | cons x xs ih => simp [pairwiseD, ih, List.all_eq_true]

theorem formatOK_spec {L : Nat} {fs : List DField} (h : formatOK L fs = true) :
    (∀ g ∈ fs, g.ok L = true) ∧ fs.Pairwise (fun a b => a.key ≠ b.key) ∧
    (termsD L fs (fun _ => 0)).Pairwise Term.disj := by
  unfold formatOK at h
  simp only [Bool.and_eq_true, List.all_eq_true] at h
  refine ⟨h.1.1, ?_, ?_⟩
  · exact ((pairwiseD_iff _ _).mp h.1.2).imp (fun h => by simpa using h)
  · unfold termsD
    rw [List.pairwise_map]
    exact ((pairwiseD_iff _ _).mp h.2).imp (fun h => by
      unfold disjD at h; unfold Term.disj; simpa using h)

theorem termsD_disj {L : Nat} {fs : List DField} (h : formatOK L fs = true) (v : Vals) :
    (termsD L fs v).Pairwise Term.disj := by
  have := (formatOK_spec h).2.2
  unfold termsD at this ⊢
  rw [List.pairwise_map] at this ⊢
  exact this

theorem ok_top {L : Nat} {g : DField} (h : g.ok L = true) : g.lsb L + g.width ≤ 8 * L := by
  unfold DField.ok at h
  simp only [Bool.and_eq_true, decide_eq_true_eq] at h
  unfold DField.lsb
  omega

/-- the structure as a number: fits `L` bytes and is the XOR of its fields -/
theorem valueD_facts (L : Nat) (fs : List DField) (hf : formatOK L fs = true) (v : Vals) (hr : InRangeD fs v) :
    valueD L fs v = xorAll (termsD L fs v) ∧ valueD L fs v < 2 ^ (8 * L) := by
  have hok : ∀ t ∈ termsD L fs v, t.ok := by
    intro t ht
    obtain ⟨g, hg, rfl⟩ := List.mem_map.mp ht
    exact hr g hg
  have hd := termsD_disj hf v
  have e : valueD L fs v = xorAll (termsD L fs v) := by
    rw [valueD_eq_sumAll, sumAll_eq_xorAll _ hok hd]
  refine ⟨e, ?_⟩
  rw [e]
  apply Nat.lt_pow_two_of_testBit
  intro i hi
  apply xorAll_outside _ hok
  intro t ht hti
  obtain ⟨g, hg, rfl⟩ := List.mem_map.mp ht
  have := ok_top ((formatOK_spec hf).1 g hg)
  unfold Term.inRange at hti
  simp only at hti
  omega

theorem encodeD_facts (L : Nat) (fs : List DField) (hf : formatOK L fs = true) (v : Vals) (hr : InRangeD fs v) :
    BytesOK (encodeD L fs v) ∧ (encodeD L fs v).length = L ∧
    baToInt (encodeD L fs v) = xorAll (termsD L fs v) := by
  obtain ⟨e, hlt⟩ := valueD_facts L fs hf v hr
  unfold encodeD
  rw [toBytes_eq_intToBa]
  refine ⟨intToBa_ok _ _, by simp, ?_⟩
  rw [baToInt_intToBa, Nat.mod_eq_of_lt hlt, e]

/-- reading any one standard field back from the structure -/
theorem field_of_encodeD (L : Nat) (fs : List DField) (hf : formatOK L fs = true) (v : Vals) (hr : InRangeD fs v)
    (g : DField) (hg : g ∈ fs) : (baToInt (encodeD L fs v) >>> g.lsb L) % 2 ^ g.width = v g.key := by
  rw [(encodeD_facts L fs hf v hr).2.2]
  have hok : ∀ t ∈ termsD L fs v, t.ok := by
    intro t ht
    obtain ⟨g, hg, rfl⟩ := List.mem_map.mp ht
    exact hr g hg
  exact xorAll_field _ hok (termsD_disj hf v) ⟨g.lsb L, g.width, v g.key⟩ (List.mem_map.mpr ⟨g, hg, rfl⟩)

theorem slice_append_left (a t : Bytes) (i j : Nat) (h : j ≤ a.length) : slice (a ++ t) i j = slice a i j := by
  unfold slice
  rw [List.take_append_of_le_length h]

theorem decodeMask_append (a t : Bytes) (m off : Nat) (h : off + numBytes m ≤ a.length) :
    decodeMask (a ++ t) m off = decodeMask a m off := by
  unfold decodeMask
  rw [slice_append_left a t _ _ h]

/-- one table entry decodes to the device's value -/
theorem decodeField_std (L : Nat) (fs : List DField) (hf : formatOK L fs = true) (v : Vals) (hr : InRangeD fs v)
    (tr : Bytes) (k : String) (f : FieldSpec) (g : DField) (hg : g ∈ fs) (hk : g.key = k)
    (hm : entryMatches L f g = true) :
    decodeField (encodeD L fs v ++ tr) f = expVal f (v k) := by
  obtain ⟨hb, hl, _⟩ := encodeD_facts L fs hf v hr
  have hfield := field_of_encodeD L fs hf v hr g hg
  cases f with
  | bits m off =>
    simp only [entryMatches, Bool.and_eq_true, beq_iff_eq] at hm
    obtain ⟨⟨hbw, hlsb⟩, hw⟩ := hm
    obtain ⟨hmk, hw0, hoff⟩ := bitsWF_spec hbw
    simp only [decodeField, expVal]
    rw [decodeMask_append _ _ _ _ (by rw [hl]; exact hoff)]
    have := decodeMask_nat (encodeD L fs v) (maskWidth m) (tz m) off hw0 hb (by rw [← hmk, hl]; exact hoff)
    rw [← hmk, hl, hlsb, hw, hfield, hk] at this
    rw [this]
  | blob unit off len =>
    simp only [entryMatches, Bool.and_eq_true, beq_iff_eq, decide_eq_true_eq] at hm
    obtain ⟨⟨⟨⟨hby, hmsb⟩, hwd⟩, hin⟩, hpos⟩ := hm
    simp only [decodeField, expVal]
    rw [slice_append_left _ _ _ _ (by rw [hl]; exact hin)]
    have hs : BytesOK (slice (encodeD L fs v) off (off + len * unit)) := hb.slice _ _
    have hlen : (slice (encodeD L fs v) off (off + len * unit)).length = len * unit := by
      simp [slice, hl]; omega
    have h1 := intToBa_baToInt _ hs
    rw [hlen] at h1
    rw [← h1]
    congr 2
    rw [baToInt_slice _ hb off (len * unit) (by rw [hl]; exact hin), hl, ← hk, ← hfield]
    have : g.lsb L = 8 * (L - off - len * unit) := by
      unfold DField.lsb; rw [hby, hmsb, hwd]; omega
    rw [this, hwd]

theorem decodeBits_go' (data : Bytes) (layout : Layout) (acc : Dict)
    (hnz : ∀ kf ∈ layout, ∀ off, kf.2 ≠ .bits 0 off)
    (hkeys : layout.Pairwise (fun a b => a.1 ≠ b.1))
    (hacc : ∀ kv ∈ acc, ∀ kf ∈ layout, kv.1 ≠ kf.1) :
    decodeBits data layout acc = .ok (acc ++ decodedOf data layout) := by
  induction layout generalizing acc with
  | nil => simp [decodeBits, decodedOf, pure, Except.pure]
  | cons kf rest ih =>
    unfold decodeBits
    rw [List.foldlM_cons]
    rw [List.pairwise_cons] at hkeys
    have hstep : decodeStep data acc kf = .ok (acc ++ [(kf.1, decodeField data kf.2)]) := by
      unfold decodeStep
      have hset := dictSet_absent acc kf.1 (decodeField data kf.2) (fun kv hkv => hacc kv hkv kf (by simp))
      cases hf : kf.2 with
      | blob u o l => simp only [hf] at hset ⊢; rw [hset]
      | bits m off =>
        cases m with
        | zero => exact absurd hf (hnz kf (by simp) off)
        | succ n => simp only [hf] at hset ⊢; rw [hset]
    simp only [hstep, bind, Except.bind]
    have := ih (acc ++ [(kf.1, decodeField data kf.2)]) (fun x hx => hnz x (by simp [hx])) hkeys.2 (by
      intro kv hkv x hx
      rcases List.mem_append.mp hkv with h | h
      · exact hacc kv h x (by simp [hx])
      · simp at h; subst h; exact hkeys.1 x hx)
    unfold decodeBits at this
    rw [this]
    simp [decodedOf]

/-- **Main soundness theorem for response tables.**  If the table is compatible with the
standard's format, then for all in-range field values and any trailing bytes, `decode_bits` of the
standard's structure returns every key of the table with exactly the value the device encoded. -/
theorem compatible_sound (lay : Layout) (fs : List DField) (L : Nat) (hc : compatible lay fs L = true)
    (v : Vals) (hr : InRangeD fs v) (tr : Bytes) :
    decodeBits (encodeD L fs v ++ tr) lay [] = .ok (expected lay v) := by
  unfold compatible at hc
  simp only [Bool.and_eq_true, List.all_eq_true, List.any_eq_true, beq_iff_eq] at hc
  obtain ⟨⟨hf, hkeys⟩, hall⟩ := hc
  have hk : lay.Pairwise (fun a b => a.1 ≠ b.1) :=
    ((pairwiseB_iff _ _).mp hkeys).imp (fun h => by simpa using h)
  have hnz : ∀ kf ∈ lay, ∀ off, kf.2 ≠ .bits 0 off := by
    intro kf hkf off he
    obtain ⟨g, _, _, hm⟩ := hall kf hkf
    rw [he] at hm
    simp only [entryMatches, Bool.and_eq_true] at hm
    obtain ⟨hmk, hw0, _⟩ := bitsWF_spec hm.1.1
    exact mkMask_ne_zero _ _ hw0 hmk.symm
  have := decodeBits_go' (encodeD L fs v ++ tr) lay [] hnz hk (by intro kv hkv; simp at hkv)
  rw [this]
  simp only [List.nil_append, decodedOf, expected]
  congr 1
  apply List.map_congr_left
  intro kf hkf
  obtain ⟨g, hg, hgk, hm⟩ := hall kf hkf
  rw [decodeField_std L fs hf v hr tr kf.1 kf.2 g hg hgk hm]

end DataCompat
