import ScsiVerif.Model.Command
/-! Everything `Cmd.build` does, as one existential statement (used by C03/C17). -/
namespace Cmd
open Conv

theorem build_parts (d : CmdDesc) (op : OpCode) (args : Env) (c : Command) (h : build d op args = .ok c) :
    ∃ env vo no vi ni L dict, bindArgs args d.params = .ok env ∧ evalGuards op env d.guards = .ok () ∧
      eval op env d.dataoutLen = .ok vo ∧ allocLen vo = .ok no ∧
      eval op env d.datainLen = .ok vi ∧ allocLen vi = .ok ni ∧
      initCdbLen op.value = .ok L ∧
      (d.dataoutSet = none → c.dataout = .bytes (zeros no)) ∧
      (∀ x, d.dataoutSet = some x → eval op env x = .ok c.dataout) ∧
      c.datain = zeros ni ∧
      evalWiring op env d.wiring = .ok dict ∧ encodeDict dict d.layout (zeros L) = .ok c.cdb := by
  unfold build at h
  simp only [bind, Except.bind] at h
  cases h1 : bindArgs args d.params with
  | error x => simp [h1] at h
  | ok env =>
    simp only [h1] at h
    cases h2 : evalGuards op env d.guards with
    | error x => simp [h2] at h
    | ok u =>
      simp only [h2] at h
      cases h3 : eval op env d.dataoutLen with
      | error x => simp [h3] at h
      | ok v3 =>
        simp only [h3] at h
        cases h4 : allocLen v3 with
        | error x => simp [h4] at h
        | ok n4 =>
          simp only [h4] at h
          cases h5 : eval op env d.datainLen with
          | error x => simp [h5] at h
          | ok v5 =>
            simp only [h5] at h
            cases h6 : allocLen v5 with
            | error x => simp [h6] at h
            | ok n6 =>
              simp only [h6] at h
              cases h7 : initCdbLen op.value with
              | error x => simp [h7] at h
              | ok L =>
                simp only [h7] at h
                cases hds : d.dataoutSet with
                | none =>
                  simp only [hds, pure, Except.pure] at h
                  cases h9 : evalWiring op env d.wiring with
                  | error x => simp [h9] at h
                  | ok dict =>
                    simp only [h9] at h
                    cases h10 : encodeDict dict d.layout (zeros L) with
                    | error x => simp [h10] at h
                    | ok cdb =>
                      simp only [h10] at h
                      cases h
                      exact ⟨env, v3, n4, v5, n6, L, dict, (by first | rfl | assumption), (by first | rfl | assumption), (by first | rfl | assumption), (by first | rfl | assumption), (by first | rfl | assumption), (by first | rfl | assumption), (by first | rfl | assumption),
                        (fun _ => rfl), (by intro x hx; cases hx), rfl, (by first | rfl | assumption), (by first | rfl | assumption)⟩
                | some x =>
                  simp only [hds] at h
                  cases h8 : eval op env x with
                  | error e => simp [h8] at h
                  | ok dv =>
                    simp only [h8] at h
                    cases h9 : evalWiring op env d.wiring with
                    | error x => simp [h9] at h
                    | ok dict =>
                      simp only [h9] at h
                      cases h10 : encodeDict dict d.layout (zeros L) with
                      | error x => simp [h10] at h
                      | ok cdb =>
                        simp only [h10, pure, Except.pure] at h
                        cases h
                        exact ⟨env, v3, n4, v5, n6, L, dict, (by first | rfl | assumption), (by first | rfl | assumption), (by first | rfl | assumption), (by first | rfl | assumption), (by first | rfl | assumption), (by first | rfl | assumption), (by first | rfl | assumption),
                          (by intro hn; cases hn), (by intro y hy; cases hy; first | rfl | assumption), rfl, (by first | rfl | assumption), (by first | rfl | assumption)⟩

/-- a guard that fires is the constructor's result -/
theorem build_guard_fires (d : CmdDesc) (op : OpCode) (args env : Env) (c : Expr) (e : PyErr)
    (rest : List (Expr × PyErr)) (hg : d.guards = (c, e) :: rest)
    (henv : bindArgs args d.params = .ok env) (v : PVal) (hc : eval op env c = .ok v) (ht : v.truthy = true) :
    build d op args = .error e := by
  unfold build
  simp only [bind, Except.bind, henv, hg, evalGuards, hc, ht, if_true]

end Cmd

namespace Cmd
@[simp] theorem asInt_int (n : Nat) : asInt (.int n) = some n := rfl
theorem eval_param' {op : OpCode} {env : Env} {p : String} {pv : PVal} (h : env.get? p = some pv) :
    eval op env (.param p) = .ok pv := by
  simp [eval, h]
end Cmd
