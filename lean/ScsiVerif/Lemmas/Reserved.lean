import ScsiVerif.Lemmas.Decode
/-!
Reading bits the standard leaves *reserved*: a table entry whose bits are disjoint from every field of
the standard's structure reads zero from a conformant device's data.  Used where a decoder looks at a
structure through a table that belongs to another format of the same response (REPORT TARGET PORT
GROUPS reads FORMAT TYPE from the byte that, in the length-only header format, is byte 0 of the first
descriptor).
-/
namespace DecL
open Conv PVal Std DataCompat

/-- the bit range `[p, p+w)` touches no field of the structure -/
def reservedB (L : Nat) (fs : List DField) (p w : Nat) : Bool :=
  fs.all (fun g => decide (g.lsb L + g.width ≤ p) || decide (p + w ≤ g.lsb L))

/-- key `k` of table `lay` is a well-formed bit field lying on reserved bits of the `L`-byte format `fs` -/
def reservedKey (L : Nat) (fs : List DField) (lay : Layout) (k : String) : Bool :=
  match layoutGet? lay k with
  | some (.bits m off) => bitsWF L m off && reservedB L fs (lsbPos L m off) (maskWidth m)
  | _ => false

theorem decodeMask_reserved (L : Nat) (fs : List DField) (hf : formatOK L fs = true) (v : Vals) (hr : InRangeD fs v)
    (tr : Bytes) (m off : Nat) (hwf : bitsWF L m off = true)
    (hres : reservedB L fs (lsbPos L m off) (maskWidth m) = true) :
    decodeMask (encodeD L fs v ++ tr) m off = 0 := by
  obtain ⟨hb, hl, hx⟩ := encodeD_facts L fs hf v hr
  obtain ⟨hmk, hw0, hoff⟩ := bitsWF_spec hwf
  rw [decodeMask_append _ _ _ _ (by rw [hl]; exact hoff)]
  have := decodeMask_nat (encodeD L fs v) (maskWidth m) (tz m) off hw0 hb (by rw [← hmk, hl]; exact hoff)
  rw [← hmk, hl, hx] at this
  rw [this]
  apply xorAll_field_other
  · intro t ht
    obtain ⟨g, hg, rfl⟩ := List.mem_map.mp ht
    exact hr g hg
  · intro t ht
    obtain ⟨g, hg, rfl⟩ := List.mem_map.mp ht
    unfold reservedB at hres
    simp only [List.all_eq_true, Bool.or_eq_true, decide_eq_true_eq] at hres
    exact hres g hg

theorem get?_decodedOf (data : Bytes) (lay : Layout) (k : String) (f : FieldSpec)
    (h : layoutGet? lay k = some f) : (ofDict (decodedOf data lay)).get? k = some (ofVal (decodeField data f)) := by
  unfold layoutGet? at h
  unfold PDict.get? decodedOf ofDict
  induction lay with
  | nil => simp at h
  | cons x xs ih =>
    simp only [List.map_cons, List.find?_cons] at h ⊢
    by_cases hx : x.1 = k
    · have : (x.1 == k) = true := by simpa using hx
      simp only [this] at h ⊢
      simp at h
      simp [h]
    · have : (x.1 == k) = false := by simpa using hx
      simp only [this] at h ⊢
      exact ih h

theorem decodedOf_keys (data : Bytes) (lay : Layout) : (ofDict (decodedOf data lay)).map (·.1) = lay.map (·.1) := by
  simp [decodedOf, ofDict, List.map_map, Function.comp_def]

/-- `decode_bits(data, table, {})` for any table with distinct keys and non-zero masks: every entry is
    read from its bits, whatever the data -/
theorem decodeInto_any (data : Bytes) (lay : Layout)
    (hnz : ∀ kf ∈ lay, ∀ off, kf.2 ≠ .bits 0 off) (hkeys : lay.Pairwise (fun a b => a.1 ≠ b.1)) :
    decodeInto data lay [] = .ok (ofDict (decodedOf data lay)) := by
  unfold decodeInto
  rw [decodeBits_go' data lay [] hnz hkeys (by intro kv hkv; simp at hkv)]
  simp only [bind, Except.bind, pure, Except.pure, List.nil_append]
  congr 1
  have := update_fresh [] (ofDict (decodedOf data lay)) (by
    have h2 : ((ofDict (decodedOf data lay)).map (·.1)).Pairwise (· ≠ ·) := by
      rw [decodedOf_keys, List.pairwise_map]; exact hkeys
    rw [List.pairwise_map] at h2
    exact h2) (by intro kv hkv; simp at hkv)
  simpa using this

/-- table well-formedness needed by `decodeInto_any`, as a Bool -/
def tableOK (lay : Layout) : Bool :=
  lay.all (fun kf => match kf.2 with | .bits m _ => m != 0 | .blob _ _ _ => true) &&
  pairwiseB (fun (a b : String × FieldSpec) => a.1 != b.1) lay

theorem tableOK_spec {lay : Layout} (h : tableOK lay = true) :
    (∀ kf ∈ lay, ∀ off, kf.2 ≠ .bits 0 off) ∧ lay.Pairwise (fun a b => a.1 ≠ b.1) := by
  unfold tableOK at h
  simp only [Bool.and_eq_true, List.all_eq_true] at h
  refine ⟨?_, ((pairwiseB_iff _ _).mp h.2).imp (fun h => by simpa using h)⟩
  intro kf hkf off he
  have := h.1 kf hkf
  rw [he] at this
  simp at this

/-- **a reserved key reads 0**: decoding a conformant structure through a table one of whose keys lies on
    reserved bits yields 0 under that key -/
theorem decodeInto_reserved (b : Block) (hf : formatOK b.len b.rel = true) (v : Vals) (hr : InRangeD b.rel v) (tr : Bytes)
    (lay : Layout) (hok : tableOK lay = true) (k : String) (hk : reservedKey b.len b.rel lay k = true) :
    ∃ r, decodeInto (b.enc v ++ tr) lay [] = .ok r ∧ getInt r k = .ok 0 := by
  obtain ⟨hnz, hkeys⟩ := tableOK_spec hok
  refine ⟨_, decodeInto_any _ lay hnz hkeys, ?_⟩
  unfold reservedKey at hk
  cases hq : layoutGet? lay k with
  | none => rw [hq] at hk; cases hk
  | some f =>
    rw [hq] at hk
    cases f with
    | blob u o l => cases hk
    | bits m off =>
      simp only [Bool.and_eq_true] at hk
      unfold getInt
      rw [get?_decodedOf _ lay k _ hq]
      simp only [decodeField, ofVal]
      unfold Block.enc
      rw [decodeMask_reserved b.len b.rel hf v hr tr m off hk.1 hk.2]

end DecL
