import ScsiVerif.Lemmas.Decode
/-! Single bytes of a conformant structure: a field that lies inside one byte, read with `data[i]`,
shifts and masks (the decoders' dispatch tests such as `data[0] & 0x40`, `data[2] >> 5`). -/
namespace DecL
open Conv PVal Std DataCompat

theorem shift_mod_shift' (N a s w : Nat) (hw : s + w ≤ 8) :
    (((N >>> a) % 2 ^ 8) >>> s) % 2 ^ w = (N >>> (a + s)) % 2 ^ w := by
  apply Nat.eq_of_testBit_eq
  intro i
  simp only [Nat.testBit_shiftRight, Nat.testBit_mod_two_pow]
  by_cases hi : i < w
  · have : s + i < 8 := by omega
    have e : a + (s + i) = a + s + i := by omega
    simp [hi, this, e]
  · simp [hi]

/-- a field inside one byte: `(data[byte] >> (msb+1-width)) % 2^width` is the device's value -/
theorem idx_field (b : Block) (hf : formatOK b.len b.rel = true) (v : Vals) (hr : InRangeD b.rel v)
    (tr : Bytes) (g : DField) (hg : g ∈ b.rel) (hw : g.width ≤ g.msb + 1) :
    ∃ x, idx (b.enc v ++ tr) g.byte = .ok x ∧ (x >>> (g.msb + 1 - g.width)) % 2 ^ g.width = v g.key := by
  have hok := (formatOK_spec hf).1 g hg
  unfold DField.ok at hok
  simp only [Bool.and_eq_true, decide_eq_true_eq] at hok
  have hlt : g.byte < (b.enc v).length := by rw [enc_length]; exact hok.1.1.1
  refine ⟨(b.enc v)[g.byte], ?_, ?_⟩
  · unfold idx
    rw [List.getElem?_append_left hlt, List.getElem?_eq_getElem hlt]
  · have hs : slice (b.enc v) g.byte (g.byte + 1) = [(b.enc v)[g.byte]] := by
      unfold slice
      rw [List.drop_take]
      simp [List.take_one, List.head?_drop, List.getElem?_eq_getElem hlt]
    have h1 := baToInt_slice (b.enc v) (enc_ok b v) g.byte 1 (by omega)
    rw [hs, enc_length] at h1
    simp only [baToInt, List.length_nil, Nat.zero_mul, Nat.shiftLeft_zero, Nat.add_zero, Nat.mul_one] at h1
    rw [h1, shift_mod_shift' _ _ _ _ (by omega)]
    have := field_of_encodeD b.len b.rel hf v hr g hg
    unfold Block.enc
    have e : g.lsb b.len = 8 * (b.len - g.byte - 1) + (g.msb + 1 - g.width) := by
      unfold DField.lsb; omega
    rw [e] at this
    exact this

theorem and_two_pow (x j : Nat) : x &&& 2 ^ j = ((x >>> j) % 2) * 2 ^ j := by
  apply Nat.eq_of_testBit_eq
  intro i
  rw [Nat.testBit_and, Nat.testBit_two_pow, Nat.mul_comm, Nat.testBit_two_pow_mul]
  by_cases h : j = i
  · subst h
    simp [Nat.testBit_shiftRight, Nat.testBit_mod_two_pow, Nat.testBit]
  · have : ¬ (j ≤ i ∧ i - j = 0) := by omega
    by_cases hji : j ≤ i
    · have hne : i - j ≠ 0 := by omega
      have : ((x >>> j) % 2).testBit (i - j) = false := by
        have : (x >>> j) % 2 < 2 ^ (i - j) := by
          have h1 : (x >>> j) % 2 < 2 := Nat.mod_lt _ (by decide)
          have h2 : 2 ^ 1 ≤ 2 ^ (i - j) := Nat.pow_le_pow_right (by decide) (by omega)
          omega
        exact Nat.testBit_lt_two_pow this
      simp [h, hji, this]
    · simp [h, hji]

/-- a one-bit field tested with `data[byte] & (1 << msb)` -/
theorem idx_bit (b : Block) (hf : formatOK b.len b.rel = true) (v : Vals) (hr : InRangeD b.rel v)
    (tr : Bytes) (g : DField) (hg : g ∈ b.rel) (hw : g.width = 1) :
    ∃ x, idx (b.enc v ++ tr) g.byte = .ok x ∧ x &&& 2 ^ g.msb = v g.key * 2 ^ g.msb := by
  obtain ⟨x, hx, hv⟩ := idx_field b hf v hr tr g hg (by omega)
  refine ⟨x, hx, ?_⟩
  rw [hw] at hv
  simp only [Nat.add_sub_cancel, Nat.pow_one] at hv
  rw [and_two_pow, hv]

end DecL
