import ScsiVerif.Model.Conv
/-!
# Std.Cdb — the oracle for C01/C14: CDB formats in the standards' own notation

Transcribed from SPC-4/5, SBC-3, SMC-3, MMC-5, SAT-3, SAM-5 (from knowledge; the documents are not
available in the sandbox).  A field is `⟨T10 name, first byte, msb bit in that byte, width in bits, source⟩`,
i.e. exactly how the CDB tables of the standards are read: the field starts at bit `msb` of byte
`byte` and continues towards less significant bits / following bytes.

This file shares **no code** with the model of `converter.py`: `fieldOf` is defined on the CDB read
as one big-endian number.
-/
namespace Std

/-- what the library caller supplies for a field -/
inductive Src
  | arg (param : String)            -- the constructor argument of that name
  | opcode                          -- the operation code of the command
  | sa (libName : String) (t10Value : Nat)  -- a service action (library's name, T10 value)
  | const (n : Nat)
  | paramListLen                    -- the length of the data-out buffer
  | ataLba12 (param : String)       -- SAT byte order of a 24-bit ATA LBA
  | ataLba16 (param : String)       -- SAT byte order of a 48-bit ATA LBA
  deriving DecidableEq, Repr

structure Field where
  name : String
  byte : Nat
  msb : Nat
  width : Nat
  src : Src
  deriving DecidableEq, Repr

/-- position of the field's least significant bit, counted from the least significant bit of the
    last byte of an `L`-byte CDB -/
def Field.lsb (f : Field) (L : Nat) : Nat := 8 * (L - 1 - f.byte) + f.msb + 1 - f.width

/-- the field is well placed inside an `L`-byte CDB -/
def Field.ok (f : Field) (L : Nat) : Bool :=
  decide (f.byte < L) && decide (f.msb < 8) && decide (0 < f.width) &&
  decide (f.width ≤ 8 * (L - 1 - f.byte) + f.msb + 1)

/-- big-endian value of a byte string (own definition, independent of the library model) -/
def beValue : List Nat → Nat
  | [] => 0
  | b :: bs => b * 256 ^ bs.length + beValue bs

/-- **what a conformant target reads** for field `f` from an `L`-byte CDB -/
def fieldOf (L : Nat) (f : Field) (cdb : List Nat) : Nat := (beValue cdb / 2 ^ f.lsb L) % 2 ^ f.width

/-- SAT: ATA PASS-THROUGH(12) bytes 5,6,7 carry LBA(7:0), LBA(15:8), LBA(23:16) -/
def ataLba12 (lba : Nat) : Nat := beValue [lba % 256, (lba / 2^8) % 256, (lba / 2^16) % 256]

/-- SAT: ATA PASS-THROUGH(16) bytes 7..12 carry LBA(31:24), (7:0), (39:32), (15:8), (47:40), (23:16) -/
def ataLba16 (lba : Nat) : Nat :=
  beValue [(lba / 2^24) % 256, lba % 256, (lba / 2^32) % 256, (lba / 2^8) % 256, (lba / 2^40) % 256,
           (lba / 2^16) % 256]

/-- SAM-5: CDB length by group code (bits 7-5 of the operation code); `none` for the reserved,
    variable-length (7Fh and the rest of group 3) and vendor-specific groups -/
def samLen (opcode : Nat) : Option Nat :=
  match opcode / 32 with
  | 0 => some 6
  | 1 => some 10
  | 2 => some 10
  | 4 => some 16
  | 5 => some 12
  | _ => none

/-- bytes of a number, most significant first (own definition) -/
def toBytes (n : Nat) : Nat → List Nat
  | 0 => []
  | k+1 => (n / 256 ^ k) % 256 :: toBytes n k

/-- the CDB the standard prescribes: every field holds its value, every other bit is zero -/
def encode (L : Nat) (fields : List Field) (valOf : Field → Nat) : List Nat :=
  toBytes (fields.foldl (fun acc g => acc + valOf g * 2 ^ g.lsb L) 0) L

structure Cdb where
  /-- library class that implements the command (python module basename, class name) -/
  module : String
  cls : String
  /-- key of the command in the library's opcode tables = T10 command name with underscores;
      for service-action commands the key suffix of the carrier opcode (`9E`, `A3`) -/
  opName : String
  /-- T10 operation code -/
  opcode : Nat
  fields : List Field
  deriving Repr

private def op : Field := ⟨"OPERATION CODE", 0, 7, 8, .opcode⟩

/-- All 42 command classes of the library. -/
def cdbs : List Cdb := [
  -- SPC
  ⟨"scsi_cdb_testunitready", "TestUnitReady", "TEST_UNIT_READY", 0x00, [op]⟩,
  ⟨"scsi_cdb_inquiry", "Inquiry", "INQUIRY", 0x12,
    [op, ⟨"EVPD", 1, 0, 1, .arg "evpd"⟩, ⟨"PAGE CODE", 2, 7, 8, .arg "page_code"⟩,
     ⟨"ALLOCATION LENGTH", 3, 7, 16, .arg "alloclen"⟩]⟩,
  ⟨"scsi_cdb_modesense6", "ModeSense6", "MODE_SENSE_6", 0x1A,
    [op, ⟨"DBD", 1, 3, 1, .arg "dbd"⟩, ⟨"PC", 2, 7, 2, .arg "pc"⟩, ⟨"PAGE CODE", 2, 5, 6, .arg "page_code"⟩,
     ⟨"SUBPAGE CODE", 3, 7, 8, .arg "sub_page_code"⟩, ⟨"ALLOCATION LENGTH", 4, 7, 8, .arg "alloclen"⟩]⟩,
  ⟨"scsi_cdb_modesense10", "ModeSense10", "MODE_SENSE_10", 0x5A,
    [op, ⟨"LLBAA", 1, 4, 1, .arg "llbaa"⟩, ⟨"DBD", 1, 3, 1, .arg "dbd"⟩, ⟨"PC", 2, 7, 2, .arg "pc"⟩,
     ⟨"PAGE CODE", 2, 5, 6, .arg "page_code"⟩, ⟨"SUBPAGE CODE", 3, 7, 8, .arg "sub_page_code"⟩,
     ⟨"ALLOCATION LENGTH", 7, 7, 16, .arg "alloclen"⟩]⟩,
  ⟨"scsi_cdb_modesense6", "ModeSelect6", "MODE_SELECT_6", 0x15,
    [op, ⟨"PF", 1, 4, 1, .arg "pf"⟩, ⟨"SP", 1, 0, 1, .arg "sp"⟩,
     ⟨"PARAMETER LIST LENGTH", 4, 7, 8, .paramListLen⟩]⟩,
  ⟨"scsi_cdb_modesense10", "ModeSelect10", "MODE_SELECT_10", 0x55,
    [op, ⟨"PF", 1, 4, 1, .arg "pf"⟩, ⟨"SP", 1, 0, 1, .arg "sp"⟩,
     ⟨"PARAMETER LIST LENGTH", 7, 7, 16, .paramListLen⟩]⟩,
  ⟨"scsi_cdb_report_luns", "ReportLuns", "REPORT_LUNS", 0xA0,
    [op, ⟨"SELECT REPORT", 2, 7, 8, .arg "report"⟩, ⟨"ALLOCATION LENGTH", 6, 7, 32, .arg "alloclen"⟩]⟩,
  ⟨"scsi_cdb_report_priority", "ReportPriority", "A3", 0xA3,
    [op, ⟨"SERVICE ACTION", 1, 4, 5, .sa "REPORT_PRIORITY" 0x0E⟩,
     ⟨"PRIORITY REPORTED", 2, 7, 2, .arg "priority"⟩, ⟨"ALLOCATION LENGTH", 6, 7, 32, .arg "alloclen"⟩]⟩,
  ⟨"scsi_cdb_report_target_port_groups", "ReportTargetPortGroups", "A3", 0xA3,
    [op, ⟨"PARAMETER DATA FORMAT", 1, 7, 3, .arg "data_format"⟩,
     ⟨"SERVICE ACTION", 1, 4, 5, .sa "REPORT_TARGET_PORT_GROUPS" 0x0A⟩,
     ⟨"ALLOCATION LENGTH", 6, 7, 32, .arg "alloclen"⟩]⟩,
  ⟨"scsi_cdb_persistentreservein", "PersistentReserveIn", "PERSISTENT_RESERVE_IN", 0x5E,
    [op, ⟨"SERVICE ACTION", 1, 4, 5, .arg "service_action"⟩, ⟨"ALLOCATION LENGTH", 7, 7, 16, .arg "alloclen"⟩]⟩,
  ⟨"scsi_cdb_persistentreservein", "PersistentReserveInReadKeys", "PERSISTENT_RESERVE_IN", 0x5E,
    [op, ⟨"SERVICE ACTION", 1, 4, 5, .sa "READ_KEYS" 0x00⟩, ⟨"ALLOCATION LENGTH", 7, 7, 16, .arg "alloclen"⟩]⟩,
  ⟨"scsi_cdb_persistentreservein", "PersistentReserveInReadReservation", "PERSISTENT_RESERVE_IN", 0x5E,
    [op, ⟨"SERVICE ACTION", 1, 4, 5, .sa "READ_RESERVATION" 0x01⟩, ⟨"ALLOCATION LENGTH", 7, 7, 16, .arg "alloclen"⟩]⟩,
  ⟨"scsi_cdb_persistentreservein", "PersistentReserveInReportCapabilities", "PERSISTENT_RESERVE_IN", 0x5E,
    [op, ⟨"SERVICE ACTION", 1, 4, 5, .sa "REPORT_CAPABILITIES" 0x02⟩, ⟨"ALLOCATION LENGTH", 7, 7, 16, .arg "alloclen"⟩]⟩,
  ⟨"scsi_cdb_persistentreservein", "PersistentReserveInReadFullStatus", "PERSISTENT_RESERVE_IN", 0x5E,
    [op, ⟨"SERVICE ACTION", 1, 4, 5, .sa "READ_FULL_STATUS" 0x03⟩, ⟨"ALLOCATION LENGTH", 7, 7, 16, .arg "alloclen"⟩]⟩,
  ⟨"scsi_cdb_persistentreserveout", "PersistentReserveOut", "PERSISTENT_RESERVE_OUT", 0x5F,
    [op, ⟨"SERVICE ACTION", 1, 4, 5, .arg "service_action"⟩, ⟨"SCOPE", 2, 7, 4, .arg "scope"⟩,
     ⟨"TYPE", 2, 3, 4, .arg "pr_type"⟩, ⟨"PARAMETER LIST LENGTH", 5, 7, 32, .paramListLen⟩]⟩,
  -- EXTENDED COPY(LID1): service action 00h (not written by the library: covered by "every other bit zero")
  ⟨"scsi_cdb_extended_copy_spc4", "ExtendedCopy", "EXTENDED_COPY", 0x83,
    [op, ⟨"PARAMETER LIST LENGTH", 10, 7, 32, .paramListLen⟩]⟩,
  -- EXTENDED COPY(LID4): service action 01h
  ⟨"scsi_cdb_extended_copy_spc5", "ExtendedCopy", "EXTENDED_COPY", 0x83,
    [op, ⟨"SERVICE ACTION", 1, 4, 5, .const 0x01⟩, ⟨"PARAMETER LIST LENGTH", 10, 7, 32, .paramListLen⟩]⟩,
  ⟨"scsi_cdb_preventallow_mediumremoval", "PreventAllowMediumRemoval", "PREVENT_ALLOW_MEDIUM_REMOVAL", 0x1E,
    [op, ⟨"PREVENT", 4, 1, 2, .arg "prevent"⟩]⟩,
  -- SBC
  ⟨"scsi_cdb_read10", "Read10", "READ_10", 0x28,
    [op, ⟨"RDPROTECT", 1, 7, 3, .arg "rdprotect"⟩, ⟨"DPO", 1, 4, 1, .arg "dpo"⟩, ⟨"FUA", 1, 3, 1, .arg "fua"⟩,
     ⟨"RARC", 1, 2, 1, .arg "rarc"⟩, ⟨"LOGICAL BLOCK ADDRESS", 2, 7, 32, .arg "lba"⟩,
     ⟨"GROUP NUMBER", 6, 4, 5, .arg "group"⟩, ⟨"TRANSFER LENGTH", 7, 7, 16, .arg "tl"⟩]⟩,
  ⟨"scsi_cdb_read12", "Read12", "READ_12", 0xA8,
    [op, ⟨"RDPROTECT", 1, 7, 3, .arg "rdprotect"⟩, ⟨"DPO", 1, 4, 1, .arg "dpo"⟩, ⟨"FUA", 1, 3, 1, .arg "fua"⟩,
     ⟨"RARC", 1, 2, 1, .arg "rarc"⟩, ⟨"LOGICAL BLOCK ADDRESS", 2, 7, 32, .arg "lba"⟩,
     ⟨"TRANSFER LENGTH", 6, 7, 32, .arg "tl"⟩, ⟨"GROUP NUMBER", 10, 4, 5, .arg "group"⟩]⟩,
  ⟨"scsi_cdb_read16", "Read16", "READ_16", 0x88,
    [op, ⟨"RDPROTECT", 1, 7, 3, .arg "rdprotect"⟩, ⟨"DPO", 1, 4, 1, .arg "dpo"⟩, ⟨"FUA", 1, 3, 1, .arg "fua"⟩,
     ⟨"RARC", 1, 2, 1, .arg "rarc"⟩, ⟨"LOGICAL BLOCK ADDRESS", 2, 7, 64, .arg "lba"⟩,
     ⟨"TRANSFER LENGTH", 10, 7, 32, .arg "tl"⟩, ⟨"GROUP NUMBER", 14, 4, 5, .arg "group"⟩]⟩,
  ⟨"scsi_cdb_write10", "Write10", "WRITE_10", 0x2A,
    [op, ⟨"WRPROTECT", 1, 7, 3, .arg "wrprotect"⟩, ⟨"DPO", 1, 4, 1, .arg "dpo"⟩, ⟨"FUA", 1, 3, 1, .arg "fua"⟩,
     ⟨"LOGICAL BLOCK ADDRESS", 2, 7, 32, .arg "lba"⟩, ⟨"GROUP NUMBER", 6, 4, 5, .arg "group"⟩,
     ⟨"TRANSFER LENGTH", 7, 7, 16, .arg "tl"⟩]⟩,
  ⟨"scsi_cdb_write12", "Write12", "WRITE_12", 0xAA,
    [op, ⟨"WRPROTECT", 1, 7, 3, .arg "wrprotect"⟩, ⟨"DPO", 1, 4, 1, .arg "dpo"⟩, ⟨"FUA", 1, 3, 1, .arg "fua"⟩,
     ⟨"LOGICAL BLOCK ADDRESS", 2, 7, 32, .arg "lba"⟩, ⟨"TRANSFER LENGTH", 6, 7, 32, .arg "tl"⟩,
     ⟨"GROUP NUMBER", 10, 4, 5, .arg "group"⟩]⟩,
  ⟨"scsi_cdb_write16", "Write16", "WRITE_16", 0x8A,
    [op, ⟨"WRPROTECT", 1, 7, 3, .arg "wrprotect"⟩, ⟨"DPO", 1, 4, 1, .arg "dpo"⟩, ⟨"FUA", 1, 3, 1, .arg "fua"⟩,
     ⟨"LOGICAL BLOCK ADDRESS", 2, 7, 64, .arg "lba"⟩, ⟨"TRANSFER LENGTH", 10, 7, 32, .arg "tl"⟩,
     ⟨"GROUP NUMBER", 14, 4, 5, .arg "group"⟩]⟩,
  ⟨"scsi_cdb_writesame10", "WriteSame10", "WRITE_SAME_10", 0x41,
    [op, ⟨"WRPROTECT", 1, 7, 3, .arg "wrprotect"⟩, ⟨"ANCHOR", 1, 4, 1, .arg "anchor"⟩, ⟨"UNMAP", 1, 3, 1, .arg "unmap"⟩,
     ⟨"LOGICAL BLOCK ADDRESS", 2, 7, 32, .arg "lba"⟩, ⟨"GROUP NUMBER", 6, 4, 5, .arg "group"⟩,
     ⟨"NUMBER OF LOGICAL BLOCKS", 7, 7, 16, .arg "nb"⟩]⟩,
  ⟨"scsi_cdb_writesame16", "WriteSame16", "WRITE_SAME_16", 0x93,
    [op, ⟨"WRPROTECT", 1, 7, 3, .arg "wrprotect"⟩, ⟨"ANCHOR", 1, 4, 1, .arg "anchor"⟩, ⟨"UNMAP", 1, 3, 1, .arg "unmap"⟩,
     ⟨"NDOB", 1, 0, 1, .arg "ndob"⟩, ⟨"LOGICAL BLOCK ADDRESS", 2, 7, 64, .arg "lba"⟩,
     ⟨"NUMBER OF LOGICAL BLOCKS", 10, 7, 32, .arg "nb"⟩, ⟨"GROUP NUMBER", 14, 4, 5, .arg "group"⟩]⟩,
  ⟨"scsi_cdb_synchronize_cache10", "SynchronizeCache10", "SYNCHRONIZE_CACHE_10", 0x35,
    [op, ⟨"IMMED", 1, 1, 1, .arg "immed"⟩, ⟨"LOGICAL BLOCK ADDRESS", 2, 7, 32, .arg "lba"⟩,
     ⟨"GROUP NUMBER", 6, 4, 5, .arg "group"⟩, ⟨"NUMBER OF LOGICAL BLOCKS", 7, 7, 16, .arg "numblks"⟩]⟩,
  ⟨"scsi_cdb_synchronize_cache16", "SynchronizeCache16", "SYNCHRONIZE_CACHE_16", 0x91,
    [op, ⟨"IMMED", 1, 1, 1, .arg "immed"⟩, ⟨"LOGICAL BLOCK ADDRESS", 2, 7, 64, .arg "lba"⟩,
     ⟨"NUMBER OF LOGICAL BLOCKS", 10, 7, 32, .arg "numblks"⟩, ⟨"GROUP NUMBER", 14, 4, 5, .arg "group"⟩]⟩,
  ⟨"scsi_cdb_readcapacity10", "ReadCapacity10", "READ_CAPACITY_10", 0x25, [op]⟩,
  ⟨"scsi_cdb_readcapacity16", "ReadCapacity16", "9E", 0x9E,
    [op, ⟨"SERVICE ACTION", 1, 4, 5, .sa "READ_CAPACITY_16" 0x10⟩, ⟨"ALLOCATION LENGTH", 10, 7, 32, .arg "alloclen"⟩]⟩,
  ⟨"scsi_cdb_getlbastatus", "GetLBAStatus", "9E", 0x9E,
    [op, ⟨"SERVICE ACTION", 1, 4, 5, .sa "GET_LBA_STATUS" 0x12⟩, ⟨"STARTING LOGICAL BLOCK ADDRESS", 2, 7, 64, .arg "lba"⟩,
     ⟨"ALLOCATION LENGTH", 10, 7, 32, .arg "alloclen"⟩]⟩,
  -- SAT
  ⟨"scsi_cdb_atapassthrough12", "ATAPassThrough12", "ATA_PASS_THROUGH_12", 0xA1,
    [op, ⟨"PROTOCOL", 1, 4, 4, .arg "protocal"⟩,
     ⟨"OFF_LINE", 2, 7, 2, .arg "off_line"⟩, ⟨"CK_COND", 2, 5, 1, .arg "ck_cond"⟩, ⟨"T_TYPE", 2, 4, 1, .arg "t_type"⟩,
     ⟨"T_DIR", 2, 3, 1, .arg "t_dir"⟩, ⟨"BYTE_BLOCK", 2, 2, 1, .arg "byte_block"⟩, ⟨"T_LENGTH", 2, 1, 2, .arg "t_length"⟩,
     ⟨"FEATURES (7:0)", 3, 7, 8, .arg "fetures"⟩, ⟨"COUNT (7:0)", 4, 7, 8, .arg "count"⟩,
     ⟨"LBA (7:0),(15:8),(23:16)", 5, 7, 24, .ataLba12 "lba"⟩,
     ⟨"DEVICE", 8, 7, 8, .arg "device"⟩, ⟨"COMMAND", 9, 7, 8, .arg "command"⟩, ⟨"CONTROL", 11, 7, 8, .arg "control"⟩]⟩,
  ⟨"scsi_cdb_atapassthrough16", "ATAPassThrough16", "ATA_PASS_THROUGH_16", 0x85,
    [op, ⟨"PROTOCOL", 1, 4, 4, .arg "protocal"⟩, ⟨"EXTEND", 1, 0, 1, .arg "extend"⟩,
     ⟨"OFF_LINE", 2, 7, 2, .arg "off_line"⟩, ⟨"CK_COND", 2, 5, 1, .arg "ck_cond"⟩, ⟨"T_TYPE", 2, 4, 1, .arg "t_type"⟩,
     ⟨"T_DIR", 2, 3, 1, .arg "t_dir"⟩, ⟨"BYTE_BLOCK", 2, 2, 1, .arg "byte_block"⟩, ⟨"T_LENGTH", 2, 1, 2, .arg "t_length"⟩,
     ⟨"FEATURES (15:0)", 3, 7, 16, .arg "fetures"⟩, ⟨"COUNT (15:0)", 5, 7, 16, .arg "count"⟩,
     ⟨"LBA (31:24),(7:0),(39:32),(15:8),(47:40),(23:16)", 7, 7, 48, .ataLba16 "lba"⟩,
     ⟨"DEVICE", 13, 7, 8, .arg "device"⟩, ⟨"COMMAND", 14, 7, 8, .arg "command"⟩, ⟨"CONTROL", 15, 7, 8, .arg "control"⟩]⟩,
  -- SMC
  ⟨"scsi_cdb_exchangemedium", "ExchangeMedium", "EXCHANGE_MEDIUM", 0xA6,
    [op, ⟨"MEDIUM TRANSPORT ADDRESS", 2, 7, 16, .arg "xfer"⟩, ⟨"SOURCE ADDRESS", 4, 7, 16, .arg "source"⟩,
     ⟨"FIRST DESTINATION ADDRESS", 6, 7, 16, .arg "dest1"⟩, ⟨"SECOND DESTINATION ADDRESS", 8, 7, 16, .arg "dest2"⟩,
     ⟨"INV1", 10, 1, 1, .arg "inv1"⟩, ⟨"INV2", 10, 0, 1, .arg "inv2"⟩]⟩,
  ⟨"scsi_cdb_initelementstatus", "InitializeElementStatus", "INITIALIZE_ELEMENT_STATUS", 0x07, [op]⟩,
  ⟨"scsi_cdb_initelementstatuswithrange", "InitializeElementStatusWithRange", "INITIALIZE_ELEMENT_STATUS_WITH_RANGE", 0x37,
    [op, ⟨"FAST", 1, 1, 1, .arg "fast"⟩, ⟨"RANGE", 1, 0, 1, .arg "rng"⟩,
     ⟨"STARTING ELEMENT ADDRESS", 2, 7, 16, .arg "xfer"⟩, ⟨"NUMBER OF ELEMENTS", 6, 7, 16, .arg "elements"⟩]⟩,
  ⟨"scsi_cdb_movemedium", "MoveMedium", "MOVE_MEDIUM", 0xA5,
    [op, ⟨"MEDIUM TRANSPORT ADDRESS", 2, 7, 16, .arg "xfer"⟩, ⟨"SOURCE ADDRESS", 4, 7, 16, .arg "source"⟩,
     ⟨"DESTINATION ADDRESS", 6, 7, 16, .arg "dest"⟩, ⟨"INVERT", 10, 0, 1, .arg "invert"⟩]⟩,
  ⟨"scsi_cdb_openclose_exportimport_element", "OpenCloseImportExportElement", "OPEN_CLOSE_IMPORT_EXPORT_ELEMENT", 0x1B,
    [op, ⟨"ELEMENT ADDRESS", 2, 7, 16, .arg "xfer"⟩, ⟨"ACTION CODE", 4, 4, 5, .arg "acode"⟩]⟩,
  ⟨"scsi_cdb_positiontoelement", "PositionToElement", "POSITION_TO_ELEMENT", 0x2B,
    [op, ⟨"MEDIUM TRANSPORT ADDRESS", 2, 7, 16, .arg "xfer"⟩, ⟨"DESTINATION ADDRESS", 4, 7, 16, .arg "dest"⟩,
     ⟨"INVERT", 8, 0, 1, .arg "invert"⟩]⟩,
  -- ELEMENT TYPE CODE is bits 3-0 in SMC-3; codes 5h-Fh are reserved, the three low bits carry every
  -- assigned code, which is what is checked here (see DESIGN.md, trusted base).
  ⟨"scsi_cdb_readelementstatus", "ReadElementStatus", "READ_ELEMENT_STATUS", 0xB8,
    [op, ⟨"VOLTAG", 1, 4, 1, .arg "voltag"⟩, ⟨"ELEMENT TYPE CODE", 1, 2, 3, .arg "element_type"⟩,
     ⟨"STARTING ELEMENT ADDRESS", 2, 7, 16, .arg "start"⟩, ⟨"NUMBER OF ELEMENTS", 4, 7, 16, .arg "num"⟩,
     ⟨"CURDATA", 6, 1, 1, .arg "curdata"⟩, ⟨"DVCID", 6, 0, 1, .arg "dvcid"⟩,
     ⟨"ALLOCATION LENGTH", 7, 7, 24, .arg "alloclen"⟩]⟩,
  -- MMC
  ⟨"scsi_cdb_readcd", "ReadCd", "READ_CD", 0xBE,
    [op, ⟨"EXPECTED SECTOR TYPE", 1, 4, 3, .arg "est"⟩, ⟨"DAP", 1, 1, 1, .arg "dap"⟩,
     ⟨"STARTING LOGICAL BLOCK ADDRESS", 2, 7, 32, .arg "lba"⟩, ⟨"TRANSFER LENGTH", 6, 7, 24, .arg "tl"⟩,
     ⟨"SYNC, HEADER CODES, USER DATA, EDC+ECC", 9, 7, 5, .arg "mcsb"⟩, ⟨"C2 ERROR INFORMATION", 9, 2, 2, .arg "c2ei"⟩,
     ⟨"SUB-CHANNEL SELECTION BITS", 10, 2, 3, .arg "scsb"⟩]⟩,
  ⟨"scsi_cdb_readdiscinformation", "ReadDiscInformation", "READ_DISC_INFORMATION", 0x51,
    [op, ⟨"DATA TYPE", 1, 2, 3, .arg "data_type"⟩, ⟨"ALLOCATION LENGTH", 7, 7, 16, .arg "alloc_len"⟩]⟩
]

end Std
