import ScsiVerif.Std.Cdb
/-!
# Std.Facade — the documented facade: which command each `SCSI.<method>` sends (oracle for C13)
(method, python module of the command class, class).  PERSISTENT RESERVE IN selects one of four
classes by service action.
-/
namespace Std

def facadeMap : List (String × List (String × String)) := [
  ("exchangemedium", [("scsi_cdb_exchangemedium", "ExchangeMedium")]),
  ("getlbastatus", [("scsi_cdb_getlbastatus", "GetLBAStatus")]),
  ("inquiry", [("scsi_cdb_inquiry", "Inquiry")]),
  ("initializeelementstatus", [("scsi_cdb_initelementstatus", "InitializeElementStatus")]),
  ("initializeelementstatuswithrange", [("scsi_cdb_initelementstatuswithrange", "InitializeElementStatusWithRange")]),
  ("modeselect6", [("scsi_cdb_modesense6", "ModeSelect6")]),
  ("modesense6", [("scsi_cdb_modesense6", "ModeSense6")]),
  ("modesense10", [("scsi_cdb_modesense10", "ModeSense10")]),
  ("modeselect10", [("scsi_cdb_modesense10", "ModeSelect10")]),
  ("opencloseimportexportelement", [("scsi_cdb_openclose_exportimport_element", "OpenCloseImportExportElement")]),
  ("positiontoelement", [("scsi_cdb_positiontoelement", "PositionToElement")]),
  ("preventallowmediumremoval", [("scsi_cdb_preventallow_mediumremoval", "PreventAllowMediumRemoval")]),
  ("read10", [("scsi_cdb_read10", "Read10")]),
  ("read12", [("scsi_cdb_read12", "Read12")]),
  ("read16", [("scsi_cdb_read16", "Read16")]),
  ("readcapacity10", [("scsi_cdb_readcapacity10", "ReadCapacity10")]),
  ("readcapacity16", [("scsi_cdb_readcapacity16", "ReadCapacity16")]),
  ("readcd", [("scsi_cdb_readcd", "ReadCd")]),
  ("readdiscinformation", [("scsi_cdb_readdiscinformation", "ReadDiscInformation")]),
  ("readelementstatus", [("scsi_cdb_readelementstatus", "ReadElementStatus")]),
  ("movemedium", [("scsi_cdb_movemedium", "MoveMedium")]),
  ("synchronizecache10", [("scsi_cdb_synchronize_cache10", "SynchronizeCache10")]),
  ("synchronizecache16", [("scsi_cdb_synchronize_cache16", "SynchronizeCache16")]),
  ("testunitready", [("scsi_cdb_testunitready", "TestUnitReady")]),
  ("write10", [("scsi_cdb_write10", "Write10")]),
  ("write12", [("scsi_cdb_write12", "Write12")]),
  ("write16", [("scsi_cdb_write16", "Write16")]),
  ("writesame16", [("scsi_cdb_writesame16", "WriteSame16")]),
  ("writesame10", [("scsi_cdb_writesame10", "WriteSame10")]),
  ("reportluns", [("scsi_cdb_report_luns", "ReportLuns")]),
  ("reportpriority", [("scsi_cdb_report_priority", "ReportPriority")]),
  ("reporttargetportgroups", [("scsi_cdb_report_target_port_groups", "ReportTargetPortGroups")]),
  ("atapassthrough12", [("scsi_cdb_atapassthrough12", "ATAPassThrough12")]),
  ("atapassthrough16", [("scsi_cdb_atapassthrough16", "ATAPassThrough16")]),
  ("persistentreservein", [("scsi_cdb_persistentreservein", "PersistentReserveInReadKeys"),
                           ("scsi_cdb_persistentreservein", "PersistentReserveInReadReservation"),
                           ("scsi_cdb_persistentreservein", "PersistentReserveInReportCapabilities"),
                           ("scsi_cdb_persistentreservein", "PersistentReserveInReadFullStatus")]),
  ("persistentreserveout", [("scsi_cdb_persistentreserveout", "PersistentReserveOut")]),
  ("extendedcopy4", [("scsi_cdb_extended_copy_spc4", "ExtendedCopy")]),
  ("extendedcopy5", [("scsi_cdb_extended_copy_spc5", "ExtendedCopy")])]

/-- which response decoders exist: methods whose result is decoded from the data-in buffer -/
def decodes : List String := [
  "getlbastatus", "inquiry", "modeselect6", "modesense6", "modesense10", "modeselect10", "readcapacity10",
  "readcapacity16", "readcd", "readdiscinformation", "readelementstatus", "reportluns", "reportpriority",
  "reporttargetportgroups", "persistentreservein"]

end Std
