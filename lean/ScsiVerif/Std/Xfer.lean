import ScsiVerif.Std.Cdb
/-!
# Std.Xfer — which data transfer each command's CDB announces (oracle for C03)

Stated on the standard's own terms: "ALLOCATION LENGTH bytes of data-in", "TRANSFER LENGTH logical
blocks of data-in", "the caller's write data", "a parameter list whose length PARAMETER LIST LENGTH
announces", the SAT transfer rules, "no data phase".
-/
namespace Std

inductive Xfer
  | noData
  | allocIn (lenArg : String)              -- data-in: ALLOCATION LENGTH bytes
  | blocksIn (tlArg : String)              -- data-in: TRANSFER LENGTH × block size bytes
  | dataOut (dataArg : String)             -- data-out: the caller's write data
  | dataOutUnless (dataArg flagArg : String) -- WRITE SAME(16): the caller's block, nothing when NDOB=1
  | paramList                              -- data-out: the marshalled parameter list
  | ata                                    -- SAT transfer rules (T_LENGTH / BYTE_BLOCK / T_TYPE / T_DIR)
  | readCd (tlArg : String)                -- MMC READ CD: sector-layout dependent, library over-allocates
  deriving DecidableEq, Repr

def xfers : List (String × String × Xfer) := [
  ("scsi_cdb_testunitready", "TestUnitReady", .noData),
  ("scsi_cdb_inquiry", "Inquiry", .allocIn "alloclen"),
  ("scsi_cdb_modesense6", "ModeSense6", .allocIn "alloclen"),
  ("scsi_cdb_modesense10", "ModeSense10", .allocIn "alloclen"),
  ("scsi_cdb_modesense6", "ModeSelect6", .paramList),
  ("scsi_cdb_modesense10", "ModeSelect10", .paramList),
  ("scsi_cdb_report_luns", "ReportLuns", .allocIn "alloclen"),
  ("scsi_cdb_report_priority", "ReportPriority", .allocIn "alloclen"),
  ("scsi_cdb_report_target_port_groups", "ReportTargetPortGroups", .allocIn "alloclen"),
  ("scsi_cdb_persistentreservein", "PersistentReserveIn", .allocIn "alloclen"),
  ("scsi_cdb_persistentreservein", "PersistentReserveInReadKeys", .allocIn "alloclen"),
  ("scsi_cdb_persistentreservein", "PersistentReserveInReadReservation", .allocIn "alloclen"),
  ("scsi_cdb_persistentreservein", "PersistentReserveInReportCapabilities", .allocIn "alloclen"),
  ("scsi_cdb_persistentreservein", "PersistentReserveInReadFullStatus", .allocIn "alloclen"),
  ("scsi_cdb_persistentreserveout", "PersistentReserveOut", .paramList),
  ("scsi_cdb_extended_copy_spc4", "ExtendedCopy", .paramList),
  ("scsi_cdb_extended_copy_spc5", "ExtendedCopy", .paramList),
  ("scsi_cdb_preventallow_mediumremoval", "PreventAllowMediumRemoval", .noData),
  ("scsi_cdb_read10", "Read10", .blocksIn "tl"),
  ("scsi_cdb_read12", "Read12", .blocksIn "tl"),
  ("scsi_cdb_read16", "Read16", .blocksIn "tl"),
  ("scsi_cdb_write10", "Write10", .dataOut "data"),
  ("scsi_cdb_write12", "Write12", .dataOut "data"),
  ("scsi_cdb_write16", "Write16", .dataOut "data"),
  ("scsi_cdb_writesame10", "WriteSame10", .dataOut "data"),
  ("scsi_cdb_writesame16", "WriteSame16", .dataOutUnless "data" "ndob"),
  ("scsi_cdb_synchronize_cache10", "SynchronizeCache10", .noData),
  ("scsi_cdb_synchronize_cache16", "SynchronizeCache16", .noData),
  ("scsi_cdb_readcapacity10", "ReadCapacity10", .allocIn "alloclen"),
  ("scsi_cdb_readcapacity16", "ReadCapacity16", .allocIn "alloclen"),
  ("scsi_cdb_getlbastatus", "GetLBAStatus", .allocIn "alloclen"),
  ("scsi_cdb_atapassthrough12", "ATAPassThrough12", .ata),
  ("scsi_cdb_atapassthrough16", "ATAPassThrough16", .ata),
  ("scsi_cdb_exchangemedium", "ExchangeMedium", .noData),
  ("scsi_cdb_initelementstatus", "InitializeElementStatus", .noData),
  ("scsi_cdb_initelementstatuswithrange", "InitializeElementStatusWithRange", .noData),
  ("scsi_cdb_movemedium", "MoveMedium", .noData),
  ("scsi_cdb_openclose_exportimport_element", "OpenCloseImportExportElement", .noData),
  ("scsi_cdb_positiontoelement", "PositionToElement", .noData),
  ("scsi_cdb_readelementstatus", "ReadElementStatus", .allocIn "alloclen"),
  ("scsi_cdb_readcd", "ReadCd", .readCd "tl"),
  ("scsi_cdb_readdiscinformation", "ReadDiscInformation", .allocIn "alloc_len")]

/-- SAT: number of bytes an ATA PASS-THROUGH command transfers, from the CDB's transfer fields.
`tlen3` is the length conveyed outside the CDB when T_LENGTH = 3 (the caller's `extra_tl`). -/
def ataBytes (tLength byteBlock tType features count blocksize : Nat) (tlen3 : Option Nat) : Nat :=
  let units := match tLength with
    | 0 => 0
    | 1 => features
    | 2 => count
    | _ => tlen3.getD 0
  let unit := if byteBlock = 0 then 1 else if tType = 0 then 512 else blocksize
  if tLength = 0 then 0 else units * unit

end Std
