import ScsiVerif.Std.DataIn
/-!
# Std.DataIn2 — whole responses with variable-length descriptors, as the standards prescribe them

Each encoder concatenates the blocks of `Std.DataIn` and writes the standards' length fields
(`n−3`, `n−7`, ADDITIONAL LENGTH = bytes that follow).  A descriptor is given by the values of its
fixed fields (`Vals`) and the variable parts as byte strings; that a length field inside `Vals`
equals the length of the variable part is a hypothesis of the theorems (the device is conformant).
-/
namespace Std

/-! ## REPORT PRIORITY (SPC-4 6.36) -/

/-- priority descriptor: 8 fixed bytes (ADDITIONAL DESCRIPTOR LENGTH at bytes 6–7) + TransportID -/
def encPriorityDescriptor (d : Vals × List Nat) : List Nat := priorityDescriptor.enc d.1 ++ d.2

def prioBodyLen (ds : List (Vals × List Nat)) : Nat := ds.foldr (fun d acc => 8 + d.2.length + acc) 0

/-- PRIORITY PARAMETER DATA LENGTH (n−3), then the priority descriptors -/
def encReportPriority (ds : List (Vals × List Nat)) : List Nat :=
  toBytes (prioBodyLen ds) 4 ++ (ds.map encPriorityDescriptor).flatten



/-! ## REPORT TARGET PORT GROUPS (SPC-4 6.37) -/

/-- target port group descriptor: 8 fixed bytes (TARGET PORT COUNT at byte 7) + one 4-byte target
    port descriptor per port -/
def encTpg (g : Vals × List Vals) : List Nat :=
  tpgDescriptor.enc g.1 ++ (g.2.map targetPortDescriptor.enc).flatten

def tpgBodyLen (gs : List (Vals × List Vals)) : Nat := gs.foldr (fun g acc => 8 + 4 * g.2.length + acc) 0

/-- length only header format: RETURN DATA LENGTH (n−3), then the descriptors -/
def encRtpg (gs : List (Vals × List Vals)) : List Nat :=
  toBytes (tpgBodyLen gs) 4 ++ (gs.map encTpg).flatten

/-- extended header format: RETURN DATA LENGTH (n−3), FORMAT TYPE 001b / IMPLICIT TRANSITION TIME /
    two reserved bytes, then the descriptors -/
def encRtpgExt (h : Vals) (gs : List (Vals × List Vals)) : List Nat :=
  toBytes (4 + tpgBodyLen gs) 4 ++ rtpgExtHeader.enc h ++ (gs.map encTpg).flatten

end Std

namespace Std

/-! ## MODE SENSE(6) / MODE SENSE(10) (SPC-4 7.5) -/

/-- mode parameter list: header(6), block descriptors (BLOCK DESCRIPTOR LENGTH bytes), mode page -/
def encModeSense6 (hv : Vals) (bd page : List Nat) : List Nat := modeHeader6.enc hv ++ bd ++ page

/-- mode parameter list: header(10), block descriptors (BLOCK DESCRIPTOR LENGTH bytes), mode page -/
def encModeSense10 (hv : Vals) (bd page : List Nat) : List Nat := modeHeader10.enc hv ++ bd ++ page

/-- page_0 mode page format: PS / SPF (0) / PAGE CODE, PAGE LENGTH, mode parameters -/
def encModePage0 (pv : Vals) (body : List Nat) : List Nat := modePage0Header.enc pv ++ body

/-- sub_page mode page format: PS / SPF (1) / PAGE CODE, SUBPAGE CODE, PAGE LENGTH (2 bytes), mode parameters -/
def encModeSubPage (pv : Vals) (body : List Nat) : List Nat := modeSubPageHeader.enc pv ++ body

end Std

namespace Std

/-! ## READ ELEMENT STATUS (SMC-3 6.11) -/

/-- an element descriptor: values of the 12 fixed bytes, primary volume tag, alternate volume tag,
    the remaining bytes (reserved / identifier fields) up to ELEMENT DESCRIPTOR LENGTH -/
abbrev EDesc := Vals × List Nat × List Nat × List Nat

def encElementDescriptor (e : EDesc) : List Nat := elementDescriptor.enc e.1 ++ (e.2.1 ++ (e.2.2.1 ++ e.2.2.2))

/-- an element status page: header values and its element descriptors -/
abbrev EPage := Vals × List EDesc

def encElementPage (p : EPage) : List Nat := elementStatusPage.enc p.1 ++ (p.2.map encElementDescriptor).flatten

/-- element status data: 8-byte header (BYTE COUNT OF REPORT AVAILABLE at bytes 5–7), then the pages -/
def encReadElementStatus (hv : Vals) (ps : List EPage) : List Nat :=
  elementStatusHeader.enc hv ++ (ps.map encElementPage).flatten

end Std

namespace Std

/-! ## PERSISTENT RESERVE IN, READ FULL STATUS (SPC-4 6.15.5) with the fixed-size TransportIDs (SPC-4 7.6.4) -/

/-- FCP TransportID: N_PORT NAME at bytes 8–15 -/
def tidFcp : Block := ⟨"tid_fcp", 0, 24, [⟨"tpid_format", 0, 7, 2⟩, ⟨"protocol_id", 0, 3, 4⟩, ⟨"n_port_name", 8, 7, 64⟩]⟩
/-- SBP (IEEE 1394) TransportID: EUI-64 NAME at bytes 8–15 -/
def tidSbp : Block := ⟨"tid_sbp", 0, 24, [⟨"tpid_format", 0, 7, 2⟩, ⟨"protocol_id", 0, 3, 4⟩, ⟨"eui64_name", 8, 7, 64⟩]⟩
/-- SRP TransportID: INITIATOR PORT IDENTIFIER at bytes 8–23 -/
def tidSrp : Block := ⟨"tid_srp", 0, 24, [⟨"tpid_format", 0, 7, 2⟩, ⟨"protocol_id", 0, 3, 4⟩, ⟨"initiator_port_identifier", 8, 7, 128⟩]⟩
/-- SAS TransportID: SAS ADDRESS at bytes 4–11 -/
def tidSas : Block := ⟨"tid_sas", 0, 24, [⟨"tpid_format", 0, 7, 2⟩, ⟨"protocol_id", 0, 3, 4⟩, ⟨"sas_address", 4, 7, 64⟩]⟩

/-- iSCSI TransportID header (SPC-4 7.6.4.6): FORMAT CODE, PROTOCOL IDENTIFIER (5h), ADDITIONAL LENGTH (n−3) at bytes 2–3 -/
def tidIscsiHeader : Block := ⟨"tid_iscsi", 0, 4, [⟨"tpid_format", 0, 7, 2⟩, ⟨"protocol_id", 0, 3, 4⟩, ⟨"additional_length", 2, 7, 16⟩]⟩

/-- iSCSI TransportID, format 00b: the ISCSI NAME, null-terminated and null-padded (`pad` ≥ 1 NUL bytes) -/
def encTidIscsiName (name : List Nat) (pad : Nat) : List Nat :=
  tidIscsiHeader.enc (fun k => if k = "protocol_id" then 5 else if k = "additional_length" then name.length + pad else 0)
    ++ name ++ List.replicate pad 0

/-- the fixed-size TransportID kinds: block, PROTOCOL IDENTIFIER, the library's key for the name, its bytes `[a, b)` -/
structure TidKind where
  blk : Block
  pid : Nat
  key : String
  a : Nat
  b : Nat

def tidKinds : List TidKind :=
  [⟨tidFcp, 0, "n_port_name", 8, 16⟩, ⟨tidSbp, 3, "eui64_name", 8, 16⟩, ⟨tidSrp, 4, "initiator_port_identifier", 8, 24⟩,
   ⟨tidSas, 6, "sas_address", 4, 12⟩]

/-- a full status descriptor: 24 fixed bytes (ADDITIONAL DESCRIPTOR LENGTH at bytes 20–23) + TransportID -/
def encFullStatusDescriptor (d : Vals × TidKind × Vals) : List Nat := fullStatusDescriptor.enc d.1 ++ d.2.1.blk.enc d.2.2

/-- PRGENERATION, ADDITIONAL LENGTH (n−7), full status descriptors -/
def encReadFullStatus (gen : Nat) (ds : List (Vals × TidKind × Vals)) : List Nat :=
  toBytes gen 4 ++ toBytes (48 * ds.length) 4 ++ (ds.map encFullStatusDescriptor).flatten

/-- REPORT CAPABILITIES parameter data once more (SPC-4 table 186), the PERSISTENT RESERVATION TYPE MASK spelled out
    bit by bit (table 187) instead of as one 16-bit field: the second reading of the same eight bytes -/
def prReportCapabilitiesBits : Block := ⟨"prreportcapabilities_bits", 0, 8,
  [⟨"length", 0, 7, 16⟩, ⟨"rlr_c", 2, 7, 1⟩, ⟨"crh", 2, 4, 1⟩, ⟨"sip_c", 2, 3, 1⟩, ⟨"atp_c", 2, 2, 1⟩, ⟨"ptpl_c", 2, 0, 1⟩,
   ⟨"tmv", 3, 7, 1⟩, ⟨"allow_commands", 3, 6, 3⟩, ⟨"ptpl_a", 3, 0, 1⟩,
   ⟨"wr_ex_ar", 4, 7, 1⟩, ⟨"ex_ac_ro", 4, 6, 1⟩, ⟨"wr_ex_ro", 4, 5, 1⟩, ⟨"ex_ac", 4, 3, 1⟩, ⟨"wr_ex", 4, 1, 1⟩,
   ⟨"ex_ac_ar", 5, 0, 1⟩]⟩

/-- a TransportID inside a full status descriptor: one of the fixed-size formats, or the iSCSI name format (00b) -/
inductive Tid
  | fixed (K : TidKind) (tv : Vals)
  | iscsi (name : List Nat) (pad : Nat)

def Tid.bytes : Tid → List Nat
  | .fixed K tv => K.blk.enc tv
  | .iscsi name pad => encTidIscsiName name pad

/-- full status descriptor with any of those TransportIDs -/
def encFullStatusDescriptorAny (d : Vals × Tid) : List Nat := fullStatusDescriptor.enc d.1 ++ d.2.bytes

def fsdBodyLen (ds : List (Vals × Tid)) : Nat := ds.foldr (fun d acc => 24 + d.2.bytes.length + acc) 0

/-- PRGENERATION, ADDITIONAL LENGTH (n−7), full status descriptors of varying size -/
def encReadFullStatusAny (gen : Nat) (ds : List (Vals × Tid)) : List Nat :=
  toBytes gen 4 ++ toBytes (fsdBodyLen ds) 4 ++ (ds.map encFullStatusDescriptorAny).flatten

end Std

namespace Std

/-! ## Device Identification VPD page 83h (SPC-4 7.8.6): designation descriptors -/

/-- the designator formats the library decodes -/
inductive Des
  | vendor (body : List Nat)                 -- type 0h: vendor specific
  | t10 (vid rest : List Nat)                -- type 1h: T10 VENDOR IDENTIFICATION (8 bytes) + vendor specific identifier
  | eui8 (cid : Nat) (ext : List Nat)        -- type 2h, 8 bytes: IEEE COMPANY_ID (3 bytes), VENDOR SPECIFIC EXTENSION IDENTIFIER (5 bytes)
  | eui12 (cid : Nat) (ext dir : List Nat)   -- type 2h, 12 bytes: … then DIRECTORY ID (4 bytes)
  | eui16 (idext : List Nat) (cid : Nat) (ext : List Nat) -- type 2h, 16 bytes: IDENTIFIER EXTENSION (8 bytes), COMPANY_ID, extension identifier
  | naa (code : Nat) (v : Vals)              -- type 3h: NAA 2h / 3h / 5h / 6h
  | port (v : Vals)                          -- type 4h: relative target port identifier
  | tpg (v : Vals)                           -- type 5h: target port group
  | lug (v : Vals)                           -- type 6h: logical unit group
  | md5 (b : List Nat)                       -- type 7h: MD5 logical unit identifier (16 bytes)
  | name (body : List Nat)                   -- type 8h: SCSI name string

def naaBlock (code : Nat) : Block :=
  if code = 2 then naaIeeeExtended else if code = 3 then naaLocallyAssigned
  else if code = 5 then naaIeeeRegistered else naaIeeeRegisteredExtended

def Des.ty : Des → Nat
  | .vendor _ => 0 | .t10 _ _ => 1 | .eui8 _ _ => 2 | .eui12 _ _ _ => 2 | .eui16 _ _ _ => 2 | .naa _ _ => 3 | .port _ => 4 | .tpg _ => 5 | .lug _ => 6 | .md5 _ => 7 | .name _ => 8

/-- the DESIGNATOR field -/
def Des.bytes : Des → List Nat
  | .vendor b => b
  | .t10 vid rest => vid ++ rest
  | .eui8 cid ext => toBytes cid 3 ++ ext
  | .eui12 cid ext dir => toBytes cid 3 ++ ext ++ dir
  | .eui16 idext cid ext => idext ++ toBytes cid 3 ++ ext
  | .naa code v => (naaBlock code).enc v
  | .port v => relativePortDesignator.enc v
  | .tpg v => targetPortGroupDesignator.enc v
  | .lug v => logicalUnitGroupDesignator.enc v
  | .md5 b => b
  | .name b => b

/-- designation descriptor: 4-byte header (DESIGNATOR LENGTH at byte 3) + DESIGNATOR -/
def encDesignation (d : Vals × Des) : List Nat := designationDescriptor.enc d.1 ++ d.2.bytes

def desBodyLen (ds : List (Vals × Des)) : Nat := ds.foldr (fun d acc => 4 + d.2.bytes.length + acc) 0

/-- the page: common VPD header with PAGE LENGTH (n−3), then the designation descriptors -/
def encVpd83 (hv : Vals) (ds : List (Vals × Des)) : List Nat := vpdHeader.enc hv ++ (ds.map encDesignation).flatten

end Std
