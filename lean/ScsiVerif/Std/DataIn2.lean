import ScsiVerif.Std.DataIn
/-!
# Std.DataIn2 — whole responses with variable-length descriptors, as the standards prescribe them

Each encoder concatenates the blocks of `Std.DataIn` and writes the standards' length fields
(`n−3`, `n−7`, ADDITIONAL LENGTH = bytes that follow).  A descriptor is given by the values of its
fixed fields (`Vals`) and the variable parts as byte strings; that a length field inside `Vals`
equals the length of the variable part is a hypothesis of the theorems (the device is conformant).
-/
namespace Std

/-! ## REPORT PRIORITY (SPC-4 6.36) -/

/-- priority descriptor: 8 fixed bytes (ADDITIONAL DESCRIPTOR LENGTH at bytes 6–7) + TransportID -/
def encPriorityDescriptor (d : Vals × List Nat) : List Nat := priorityDescriptor.enc d.1 ++ d.2

def prioBodyLen (ds : List (Vals × List Nat)) : Nat := ds.foldr (fun d acc => 8 + d.2.length + acc) 0

/-- PRIORITY PARAMETER DATA LENGTH (n−3), then the priority descriptors -/
def encReportPriority (ds : List (Vals × List Nat)) : List Nat :=
  toBytes (prioBodyLen ds) 4 ++ (ds.map encPriorityDescriptor).flatten

end Std
