import ScsiVerif.Std.DataFmt
/-!
# Std.DataIn — the response (data-in) formats the library parses, as the standards prescribe them

Transcribed from SPC-4/5, SBC-3, SMC-3, MMC-5 from knowledge (the documents are not available in
the sandbox).  Every block is a list of `⟨library key, byte, msb, width⟩`; byte numbers are the
standards' own (absolute inside the structure the block belongs to; `base` says where the block
starts).  Structured responses are concatenations of blocks with the standards' length fields
written out (`n−3`, `n−7`, …).  Left out on purpose (not certain enough, see DESIGN.md §8):
ATA Information VPD page, SOP/PCIe TransportID and designator, READ CD main-channel table 354.
-/
namespace Std

/-- a block: `len` bytes starting at byte `base` of the enclosing structure -/
structure Block where
  name : String
  base : Nat
  len : Nat
  fields : List DField
  deriving Repr

def rebase (b : Nat) (g : DField) : DField := { g with byte := g.byte - b }

/-- fields with byte numbers relative to the start of the block -/
def Block.rel (b : Block) : List DField := b.fields.map (rebase b.base)

/-- the bytes of the block for the values `v` -/
def Block.enc (b : Block) (v : Vals) : List Nat := encodeD b.len b.rel v

/-! ## flat formats -/

/-- READ CAPACITY(10) parameter data (SBC-3 table 110) -/
def readCapacity10 : Block := ⟨"readcapacity10", 0, 8,
  [⟨"returned_lba", 0, 7, 32⟩, ⟨"block_length", 4, 7, 32⟩]⟩

/-- READ CAPACITY(16) parameter data (SBC-3 table 112) -/
def readCapacity16 : Block := ⟨"readcapacity16", 0, 32,
  [⟨"returned_lba", 0, 7, 64⟩, ⟨"block_length", 8, 7, 32⟩, ⟨"p_type", 12, 3, 3⟩, ⟨"prot_en", 12, 0, 1⟩,
   ⟨"p_i_exponent", 13, 7, 4⟩, ⟨"lbppbe", 13, 3, 4⟩, ⟨"lbpme", 14, 7, 1⟩, ⟨"lbprz", 14, 6, 1⟩,
   ⟨"lowest_aligned_lba", 14, 5, 14⟩]⟩

/-- standard INQUIRY data (SPC-4 table 142), through the SPI-specific byte 56 -/
def inquiryStandard : Block := ⟨"inquiry_standard", 0, 58,
  [⟨"peripheral_qualifier", 0, 7, 3⟩, ⟨"peripheral_device_type", 0, 4, 5⟩, ⟨"rmb", 1, 7, 1⟩, ⟨"version", 2, 7, 8⟩,
   ⟨"normaca", 3, 5, 1⟩, ⟨"hisup", 3, 4, 1⟩, ⟨"response_data_format", 3, 3, 4⟩, ⟨"additional_length", 4, 7, 8⟩,
   ⟨"sccs", 5, 7, 1⟩, ⟨"acc", 5, 6, 1⟩, ⟨"tpgs", 5, 5, 2⟩, ⟨"3pc", 5, 3, 1⟩, ⟨"protect", 5, 0, 1⟩,
   ⟨"encserv", 6, 6, 1⟩, ⟨"vs", 6, 5, 1⟩, ⟨"multip", 6, 4, 1⟩, ⟨"addr16", 6, 0, 1⟩,
   ⟨"wbus16", 7, 5, 1⟩, ⟨"sync", 7, 4, 1⟩, ⟨"cmdque", 7, 1, 1⟩, ⟨"vs2", 7, 0, 1⟩,
   ⟨"t10_vendor_identification", 8, 7, 64⟩, ⟨"product_identification", 16, 7, 128⟩,
   ⟨"product_revision_level", 32, 7, 32⟩,
   ⟨"clocking", 56, 3, 2⟩, ⟨"qas", 56, 1, 1⟩, ⟨"ius", 56, 0, 1⟩]⟩

/-- the first four bytes of every VPD page: qualifier/type, PAGE CODE, PAGE LENGTH (n−3) -/
def vpdHeader : Block := ⟨"vpd_header", 0, 4,
  [⟨"peripheral_qualifier", 0, 7, 3⟩, ⟨"peripheral_device_type", 0, 4, 5⟩, ⟨"page_code", 1, 7, 8⟩,
   ⟨"page_length", 2, 7, 16⟩]⟩

/-- a whole VPD page of `len` bytes: the common header followed by the page's own fields -/
def vpdPage (name : String) (len : Nat) (fs : List DField) : Block := ⟨name, 0, len, vpdHeader.fields ++ fs⟩

/-- Block Limits VPD page B0h (SBC-3 table 185) -/
def vpdBlockLimits : Block := vpdPage "vpd_b0" 64
  [⟨"wsnz", 4, 0, 1⟩, ⟨"max_caw_len", 5, 7, 8⟩, ⟨"opt_xfer_len_gran", 6, 7, 16⟩, ⟨"max_xfer_len", 8, 7, 32⟩,
   ⟨"opt_xfer_len", 12, 7, 32⟩, ⟨"max_pfetch_len", 16, 7, 32⟩, ⟨"max_unmap_lba_count", 20, 7, 32⟩,
   ⟨"max_unmap_bd_count", 24, 7, 32⟩, ⟨"opt_unmap_gran", 28, 7, 32⟩, ⟨"ugavalid", 32, 7, 1⟩,
   ⟨"unmap_gran_alignment", 32, 6, 31⟩, ⟨"max_ws_len", 36, 7, 64⟩]

/-- Block Device Characteristics VPD page B1h (SBC-3 table 181) -/
def vpdBlockDevChar : Block := vpdPage "vpd_b1" 64
  [⟨"medium_rotation_rate", 4, 7, 16⟩, ⟨"product_type", 6, 7, 8⟩, ⟨"wabereq", 7, 7, 2⟩, ⟨"wacereq", 7, 5, 2⟩,
   ⟨"nominal_form_factor", 7, 3, 4⟩, ⟨"fuab", 8, 1, 1⟩, ⟨"vbuls", 8, 0, 1⟩]

/-- Logical Block Provisioning VPD page B2h (SBC-3 table 187; no provisioning group descriptor) -/
def vpdLbp : Block := vpdPage "vpd_b2" 8
  [⟨"threshold_exponent", 4, 7, 8⟩, ⟨"lbpu", 5, 7, 1⟩, ⟨"lpbws", 5, 6, 1⟩, ⟨"lbpws10", 5, 5, 1⟩, ⟨"lbprz", 5, 2, 1⟩,
   ⟨"anc_sup", 5, 1, 1⟩, ⟨"dp", 5, 0, 1⟩, ⟨"provisioning_type", 6, 2, 3⟩]

/-- Referrals VPD page B3h (SBC-3 table 190) -/
def vpdReferrals : Block := vpdPage "vpd_b3" 16
  [⟨"user_data_segment_size", 8, 7, 32⟩, ⟨"user_data_segment_multiplier", 12, 7, 32⟩]

/-- Extended INQUIRY Data VPD page 86h (SPC-4 table 594) -/
def vpdExtended : Block := vpdPage "vpd_86" 64
  [⟨"activate_microcode", 4, 7, 2⟩, ⟨"spt", 4, 5, 3⟩, ⟨"grd_chk", 4, 2, 1⟩, ⟨"app_chk", 4, 1, 1⟩, ⟨"ref_chk", 4, 0, 1⟩,
   ⟨"uask_sup", 5, 5, 1⟩, ⟨"group_sup", 5, 4, 1⟩, ⟨"prior_sup", 5, 3, 1⟩, ⟨"headsup", 5, 2, 1⟩, ⟨"ordsup", 5, 1, 1⟩,
   ⟨"simpsup", 5, 0, 1⟩, ⟨"wu_sup", 6, 3, 1⟩, ⟨"crd_sup", 6, 2, 1⟩, ⟨"nv_sup", 6, 1, 1⟩, ⟨"v_sup", 6, 0, 1⟩,
   ⟨"p_i_i_sup", 7, 4, 1⟩, ⟨"luiclr", 7, 0, 1⟩, ⟨"r_sup", 8, 4, 1⟩, ⟨"cbcs", 8, 0, 1⟩,
   ⟨"multi_it_nexus_microcode_download", 9, 3, 4⟩, ⟨"extended_self_test_completion_minutes", 10, 7, 16⟩,
   ⟨"poa_sup", 12, 7, 1⟩, ⟨"hra_sup", 12, 6, 1⟩, ⟨"vsa_sup", 12, 5, 1⟩,
   ⟨"maximum_supported_sense_data_length", 13, 7, 8⟩]

/-- PERSISTENT RESERVE IN, READ RESERVATION parameter data with a reservation (SPC-4 table 183) -/
def prReadReservation : Block := ⟨"prreadreservation", 0, 24,
  [⟨"pr_generation", 0, 7, 32⟩, ⟨"additional_length", 4, 7, 32⟩, ⟨"reservation_key", 8, 7, 64⟩,
   ⟨"scope", 21, 7, 4⟩, ⟨"type", 21, 3, 4⟩]⟩

/-- PERSISTENT RESERVE IN, REPORT CAPABILITIES parameter data (SPC-4 table 186); the type mask
    as one 16-bit field … -/
def prReportCapabilities : Block := ⟨"prreportcapabilities", 0, 8,
  [⟨"length", 0, 7, 16⟩, ⟨"rlr_c", 2, 7, 1⟩, ⟨"crh", 2, 4, 1⟩, ⟨"sip_c", 2, 3, 1⟩, ⟨"atp_c", 2, 2, 1⟩, ⟨"ptpl_c", 2, 0, 1⟩,
   ⟨"tmv", 3, 7, 1⟩, ⟨"allow_commands", 3, 6, 3⟩, ⟨"ptpl_a", 3, 0, 1⟩, ⟨"pr_type_mask", 4, 7, 16⟩]⟩

/-- … and the bits of the PERSISTENT RESERVATION TYPE MASK field (bytes 4–5) -/
def prTypeMask : Block := ⟨"prtypemask", 0, 8,
  [⟨"wr_ex_ar", 4, 7, 1⟩, ⟨"ex_ac_ro", 4, 6, 1⟩, ⟨"wr_ex_ro", 4, 5, 1⟩, ⟨"ex_ac", 4, 3, 1⟩, ⟨"wr_ex", 4, 1, 1⟩,
   ⟨"ex_ac_ar", 5, 0, 1⟩]⟩

/-- READ DISC INFORMATION, standard disc information (MMC-5 table 361), without OPC table entries -/
def discInfoStandard : Block := ⟨"discinfo_standard", 0, 34,
  [⟨"disc_information_length", 0, 7, 16⟩, ⟨"disc_information_data_type", 2, 7, 3⟩, ⟨"erasable", 2, 4, 1⟩,
   ⟨"state_of_last_session", 2, 3, 2⟩, ⟨"disc_status", 2, 1, 2⟩, ⟨"number_of_first_track_on_disc", 3, 7, 8⟩,
   ⟨"number_of_sessions_lsb", 4, 7, 8⟩, ⟨"first_track_number_in_last_session_lsb", 5, 7, 8⟩,
   ⟨"last_track_number_in_last_session_lsb", 6, 7, 8⟩, ⟨"did_v", 7, 7, 1⟩, ⟨"dbc_v", 7, 6, 1⟩, ⟨"uru", 7, 5, 1⟩,
   ⟨"dac_v", 7, 4, 1⟩, ⟨"legacy", 7, 2, 1⟩, ⟨"bg_format_status", 7, 1, 2⟩, ⟨"disc_type", 8, 7, 8⟩,
   ⟨"number_of_sessions_msb", 9, 7, 8⟩, ⟨"first_track_number_in_last_session_msb", 10, 7, 8⟩,
   ⟨"last_track_number_in_last_session_msb", 11, 7, 8⟩, ⟨"disc_identification", 12, 7, 32⟩,
   ⟨"last_session_lead_in_start_address", 16, 7, 32⟩, ⟨"last_possible_lead_out_start_address", 20, 7, 32⟩,
   ⟨"disc_bar_code", 24, 7, 64⟩, ⟨"disc_application_code", 32, 7, 8⟩, ⟨"number_of_opc_tables", 33, 7, 8⟩]⟩

/-- READ DISC INFORMATION, track resources information (MMC-5 table 369) -/
def discInfoTrack : Block := ⟨"discinfo_track", 0, 12,
  [⟨"disc_information_length", 0, 7, 16⟩, ⟨"disc_information_data_type", 2, 7, 3⟩,
   ⟨"maximum_possible_number_of_the_tracks", 4, 7, 16⟩, ⟨"number_of_the_assigned_tracks", 6, 7, 16⟩,
   ⟨"maximum_possible_number_of_appendable_tracks", 8, 7, 16⟩, ⟨"current_number_of_appendable_tracks", 10, 7, 16⟩]⟩

/-- READ DISC INFORMATION, POW resources information (MMC-5 table 370) -/
def discInfoPow : Block := ⟨"discinfo_pow", 0, 16,
  [⟨"disc_information_length", 0, 7, 16⟩, ⟨"disc_information_data_type", 2, 7, 3⟩,
   ⟨"remaining_pow_replacements", 4, 7, 32⟩, ⟨"remaining_pow_reallocation_map_entries", 8, 7, 32⟩,
   ⟨"number_of_remaining_pow_updates", 12, 7, 32⟩]⟩

/-! ## descriptors of the structured formats -/

/-- GET LBA STATUS: LBA status descriptor (SBC-3 table 77) -/
def lbaStatusDescriptor : Block := ⟨"lba_status_descriptor", 0, 16,
  [⟨"lba", 0, 7, 64⟩, ⟨"num_blocks", 8, 7, 32⟩, ⟨"p_status", 12, 3, 4⟩]⟩

/-- REPORT LUNS: one LUN -/
def lunEntry : Block := ⟨"lun", 0, 8, [⟨"lun", 0, 7, 64⟩]⟩

/-- REPORT TARGET PORT GROUPS: target port group descriptor header (SPC-4 table 286) -/
def tpgDescriptor : Block := ⟨"tpg_descriptor", 0, 8,
  [⟨"pref", 0, 7, 1⟩, ⟨"asymmetric_access_state", 0, 3, 4⟩, ⟨"t_sup", 1, 7, 1⟩, ⟨"o_sup", 1, 6, 1⟩, ⟨"u_sup", 1, 3, 1⟩,
   ⟨"s_sup", 1, 2, 1⟩, ⟨"an_sup", 1, 1, 1⟩, ⟨"ao_sup", 1, 0, 1⟩, ⟨"target_port_group", 2, 7, 16⟩,
   ⟨"status_code", 5, 7, 8⟩, ⟨"vendor", 6, 7, 8⟩, ⟨"target_port_count", 7, 7, 8⟩]⟩

/-- REPORT TARGET PORT GROUPS: target port descriptor -/
def targetPortDescriptor : Block := ⟨"target_port_descriptor", 0, 4, [⟨"relative_target_port_id", 2, 7, 16⟩]⟩

/-- REPORT TARGET PORT GROUPS: bytes 4–7 of the extended header parameter data format -/
def rtpgExtHeader : Block := ⟨"rtpg_ext_header", 4, 4,
  [⟨"format_type", 4, 6, 3⟩, ⟨"implicit_transition_time", 5, 7, 8⟩]⟩

/-- REPORT PRIORITY: priority descriptor header (SPC-4 table 273) -/
def priorityDescriptor : Block := ⟨"priority_descriptor", 0, 8,
  [⟨"current_priority", 0, 3, 4⟩, ⟨"rtpi", 2, 7, 16⟩, ⟨"adlen", 6, 7, 16⟩]⟩

/-- READ ELEMENT STATUS: element status data header (SMC-3 table 40) -/
def elementStatusHeader : Block := ⟨"element_status_header", 0, 8,
  [⟨"first_element_address", 0, 7, 16⟩, ⟨"num_elements", 2, 7, 16⟩, ⟨"byte_count", 5, 7, 24⟩]⟩

/-- READ ELEMENT STATUS: element status page header (SMC-3 table 41) -/
def elementStatusPage : Block := ⟨"element_status_page", 0, 8,
  [⟨"element_type", 0, 3, 4⟩, ⟨"pvoltag", 1, 7, 1⟩, ⟨"avoltag", 1, 6, 1⟩, ⟨"element_descriptor_length", 2, 7, 16⟩,
   ⟨"byte_count", 5, 7, 24⟩]⟩

/-- READ ELEMENT STATUS: the 12 fixed bytes of an element descriptor; the bits of byte 2 are those
    of the import/export descriptor (SMC-3 table 46), of which the medium transport (table 43),
    storage (table 44) and data transfer (table 48) descriptors use a subset -/
def elementDescriptor : Block := ⟨"element_descriptor", 0, 12,
  [⟨"element_address", 0, 7, 16⟩, ⟨"oir", 2, 7, 1⟩, ⟨"cmc", 2, 6, 1⟩, ⟨"inenab", 2, 5, 1⟩, ⟨"exenab", 2, 4, 1⟩,
   ⟨"access", 2, 3, 1⟩, ⟨"except", 2, 2, 1⟩, ⟨"impexp", 2, 1, 1⟩, ⟨"full", 2, 0, 1⟩,
   ⟨"additional_sense_code", 4, 7, 8⟩, ⟨"additional_sense_code_qualifier", 5, 7, 8⟩,
   ⟨"svalid", 9, 7, 1⟩, ⟨"invert", 9, 6, 1⟩, ⟨"ed", 9, 3, 1⟩, ⟨"medium_type", 9, 2, 3⟩,
   ⟨"source_storage_element_address", 10, 7, 16⟩]⟩

/-- PERSISTENT RESERVE IN, READ FULL STATUS: full status descriptor header (SPC-4 table 189) -/
def fullStatusDescriptor : Block := ⟨"full_status_descriptor", 0, 24,
  [⟨"reservation_key", 0, 7, 64⟩, ⟨"all_tg_pt", 12, 1, 1⟩, ⟨"r_holder", 12, 0, 1⟩, ⟨"scope", 13, 7, 4⟩, ⟨"type", 13, 3, 4⟩,
   ⟨"relative_target_port_id", 18, 7, 16⟩, ⟨"additional_desc_length", 20, 7, 32⟩]⟩

/-- TransportID: byte 0 (SPC-4 7.6.4.1) -/
def transportIdHeader : Block := ⟨"transport_id_header", 0, 1, [⟨"tpid_format", 0, 7, 2⟩, ⟨"protocol_id", 0, 3, 4⟩]⟩

/-- Device Identification VPD page 83h: designation descriptor header (SPC-4 table 589) -/
def designationDescriptor : Block := ⟨"designation_descriptor", 0, 4,
  [⟨"protocol_identifier", 0, 7, 4⟩, ⟨"code_set", 0, 3, 4⟩, ⟨"piv", 1, 7, 1⟩, ⟨"association", 1, 5, 2⟩,
   ⟨"designator_type", 1, 3, 4⟩, ⟨"designator_length", 3, 7, 8⟩]⟩

def naaType : Block := ⟨"naa_type", 0, 1, [⟨"naa", 0, 7, 4⟩]⟩
/-- NAA IEEE Extended designator (NAA = 2h) -/
def naaIeeeExtended : Block := ⟨"naa2", 0, 8,
  [⟨"naa", 0, 7, 4⟩, ⟨"vendor_specific_identifier_a", 0, 3, 12⟩, ⟨"ieee_company_id", 2, 7, 24⟩,
   ⟨"vendor_specific_identifier_b", 5, 7, 24⟩]⟩
/-- NAA Locally Assigned designator (NAA = 3h) -/
def naaLocallyAssigned : Block := ⟨"naa3", 0, 8, [⟨"naa", 0, 7, 4⟩, ⟨"locally_administered_value", 0, 3, 60⟩]⟩
/-- NAA IEEE Registered designator (NAA = 5h) -/
def naaIeeeRegistered : Block := ⟨"naa5", 0, 8,
  [⟨"naa", 0, 7, 4⟩, ⟨"ieee_company_id", 0, 3, 24⟩, ⟨"vendor_specific_identifier", 3, 3, 36⟩]⟩
/-- NAA IEEE Registered Extended designator (NAA = 6h) -/
def naaIeeeRegisteredExtended : Block := ⟨"naa6", 0, 16,
  [⟨"naa", 0, 7, 4⟩, ⟨"ieee_company_id", 0, 3, 24⟩, ⟨"vendor_specific_identifier", 3, 3, 36⟩,
   ⟨"vendor_specific_identifier_extension", 8, 7, 64⟩]⟩
def relativePortDesignator : Block := ⟨"relport", 0, 4, [⟨"relative_port", 2, 7, 16⟩]⟩
def targetPortGroupDesignator : Block := ⟨"tpgdes", 0, 4, [⟨"target_portal_group", 2, 7, 16⟩]⟩
def logicalUnitGroupDesignator : Block := ⟨"lugdes", 0, 4, [⟨"logical_unit_group", 2, 7, 16⟩]⟩

/-- mode parameter header(6) (SPC-4 table 452) -/
def modeHeader6 : Block := ⟨"mode_header6", 0, 4,
  [⟨"mode_data_length", 0, 7, 8⟩, ⟨"medium_type", 1, 7, 8⟩, ⟨"device_specific_parameter", 2, 7, 8⟩,
   ⟨"block_descriptor_length", 3, 7, 8⟩]⟩
/-- mode parameter header(10) (SPC-4 table 453) -/
def modeHeader10 : Block := ⟨"mode_header10", 0, 8,
  [⟨"mode_data_length", 0, 7, 16⟩, ⟨"medium_type", 2, 7, 8⟩, ⟨"device_specific_parameter", 3, 7, 8⟩,
   ⟨"longlba", 4, 0, 1⟩, ⟨"block_descriptor_length", 6, 7, 16⟩]⟩
/-- page_0 mode page format: bytes 0–1 -/
def modePage0Header : Block := ⟨"mode_page0_header", 0, 2,
  [⟨"ps", 0, 7, 1⟩, ⟨"spf", 0, 6, 1⟩, ⟨"page_code", 0, 5, 6⟩, ⟨"page_length", 1, 7, 8⟩]⟩
/-- sub_page mode page format: bytes 0–3 -/
def modeSubPageHeader : Block := ⟨"mode_subpage_header", 0, 4,
  [⟨"ps", 0, 7, 1⟩, ⟨"spf", 0, 6, 1⟩, ⟨"page_code", 0, 5, 6⟩, ⟨"sub_page_code", 1, 7, 8⟩, ⟨"page_length", 2, 7, 16⟩]⟩
/-- Control mode page 0Ah, bytes 2–11 (SPC-4 table 457) -/
def modeControl : Block := ⟨"mode_control", 2, 10,
  [⟨"tst", 2, 7, 3⟩, ⟨"tmf_only", 2, 4, 1⟩, ⟨"dpicz", 2, 3, 1⟩, ⟨"d_sense", 2, 2, 1⟩, ⟨"gltsd", 2, 1, 1⟩, ⟨"rlec", 2, 0, 1⟩,
   ⟨"queue_algorithm_modifier", 3, 7, 4⟩, ⟨"nuar", 3, 3, 1⟩, ⟨"qerr", 3, 2, 2⟩,
   ⟨"vs", 4, 7, 1⟩, ⟨"rac", 4, 6, 1⟩, ⟨"ua_intlck_ctrl", 4, 5, 2⟩, ⟨"swp", 4, 3, 1⟩,
   ⟨"ato", 5, 7, 1⟩, ⟨"tas", 5, 6, 1⟩, ⟨"atmpe", 5, 5, 1⟩, ⟨"rwwp", 5, 4, 1⟩, ⟨"autoload_mode", 5, 2, 3⟩,
   ⟨"busy_timeout_period", 8, 7, 16⟩, ⟨"extended_self_test_completion_time", 10, 7, 16⟩]⟩
/-- Control Extension mode page 0Ah/01h, bytes 4–31 (SPC-4 table 460) -/
def modeControlExt : Block := ⟨"mode_control_ext", 4, 28,
  [⟨"tcmos", 4, 2, 1⟩, ⟨"scsip", 4, 1, 1⟩, ⟨"ialuae", 4, 0, 1⟩, ⟨"initial_command_priority", 5, 3, 4⟩,
   ⟨"maximum_sense_data_length", 6, 7, 8⟩]⟩
/-- Disconnect-Reconnect mode page 02h, bytes 2–15 (SPC-4 table 461) -/
def modeDisconnect : Block := ⟨"mode_disconnect", 2, 14,
  [⟨"buffer_full_ratio", 2, 7, 8⟩, ⟨"buffer_empty_ratio", 3, 7, 8⟩, ⟨"bus_inactivity_limit", 4, 7, 16⟩,
   ⟨"disconnect_time_limit", 6, 7, 16⟩, ⟨"connect_time_limit", 8, 7, 16⟩, ⟨"maximum_burst_size", 10, 7, 16⟩,
   ⟨"emdp", 12, 7, 1⟩, ⟨"fair_arbitration", 12, 6, 3⟩, ⟨"dimm", 12, 3, 1⟩, ⟨"dtdc", 12, 2, 3⟩,
   ⟨"first_burst_size", 14, 7, 16⟩]⟩
/-- Element Address Assignment mode page 1Dh, bytes 2–19 (SMC-3 table 61) -/
def modeElementAddress : Block := ⟨"mode_element_address", 2, 18,
  [⟨"first_medium_transport_element_address", 2, 7, 16⟩, ⟨"num_medium_transport_elements", 4, 7, 16⟩,
   ⟨"first_storage_element_address", 6, 7, 16⟩, ⟨"num_storage_elements", 8, 7, 16⟩,
   ⟨"first_import_element_address", 10, 7, 16⟩, ⟨"num_import_elements", 12, 7, 16⟩,
   ⟨"first_data_transfer_element_address", 14, 7, 16⟩, ⟨"num_data_transfer_elements", 16, 7, 16⟩]⟩

/-- READ CD: sector header (MMC-5: MSF address + mode) -/
def cdSectorHeader : Block := ⟨"cd_sector_header", 0, 4,
  [⟨"minute", 0, 7, 8⟩, ⟨"second", 1, 7, 8⟩, ⟨"frame", 2, 7, 8⟩, ⟨"mode", 3, 7, 8⟩]⟩
/-- READ CD: formatted Q sub-channel data, 16 bytes (MMC-5 table 357) -/
def cdSubchannelQ : Block := ⟨"cd_subchannel_q", 0, 16,
  [⟨"c", 0, 7, 4⟩, ⟨"adr", 0, 3, 4⟩, ⟨"track-number", 1, 7, 8⟩, ⟨"index-number", 2, 7, 8⟩, ⟨"min", 3, 7, 8⟩,
   ⟨"sec", 4, 7, 8⟩, ⟨"frame", 5, 7, 8⟩, ⟨"zero", 6, 7, 8⟩, ⟨"amin", 7, 7, 8⟩, ⟨"asec", 8, 7, 8⟩, ⟨"aframe", 9, 7, 8⟩,
   ⟨"crc", 10, 7, 16⟩, ⟨"p", 15, 7, 1⟩]⟩

/-- every block, with the library table it is the standard for (`Gen.tables` key: class, attribute) -/
def blocks : List (Block × String × String) := [
  (readCapacity10, "ReadCapacity10", "_datain_bits"),
  (readCapacity16, "ReadCapacity16", "_datain_bits"),
  (inquiryStandard, "Inquiry", "_datain_bits"),
  (inquiryStandard, "Inquiry", "_standard_bits"),
  (vpdHeader, "Inquiry", "_datain_bits"),
  (vpdHeader, "Inquiry", "_pagecode_bits"),
  (vpdBlockLimits, "Inquiry", "_datain_bits"),
  (vpdBlockLimits, "Inquiry", "_pagecode_bits"),
  (vpdBlockLimits, "Inquiry", "_block_limits_bits"),
  (vpdBlockDevChar, "Inquiry", "_datain_bits"),
  (vpdBlockDevChar, "Inquiry", "_pagecode_bits"),
  (vpdLbp, "Inquiry", "_datain_bits"),
  (vpdLbp, "Inquiry", "_pagecode_bits"),
  (vpdReferrals, "Inquiry", "_datain_bits"),
  (vpdReferrals, "Inquiry", "_pagecode_bits"),
  (vpdExtended, "Inquiry", "_datain_bits"),
  (vpdExtended, "Inquiry", "_pagecode_bits"),
  (vpdBlockDevChar, "Inquiry", "_block_dev_char_bits"),
  (vpdLbp, "Inquiry", "_logical_block_provisioning_bits"),
  (vpdReferrals, "Inquiry", "_referrals_bits"),
  (vpdExtended, "Inquiry", "_extended_bits"),
  (prReadReservation, "PersistentReserveInReadReservation", "_bits"),
  (prReportCapabilities, "PersistentReserveInReportCapabilities", "_bits"),
  (prTypeMask, "PersistentReserveInReportCapabilities", "_pr_type_mask_bits"),
  (discInfoStandard, "ReadDiscInformation", "_sdi_bits"),
  (discInfoTrack, "ReadDiscInformation", "_tri_bits"),
  (discInfoPow, "ReadDiscInformation", "_pow_bits"),
  (lbaStatusDescriptor, "GetLBAStatus", "_datain_bits"),
  (lunEntry, "ReportLuns", "_datain_bits"),
  (tpgDescriptor, "ReportTargetPortGroups", "_tpgd_bits"),
  (rtpgExtHeader, "ReportTargetPortGroups", "_ext_hdr_bits"),
  (priorityDescriptor, "ReportPriority", "_data_bits"),
  (elementStatusHeader, "ReadElementStatus", "_datain_bits"),
  (elementStatusPage, "ReadElementStatus", "_element_status_page_bits"),
  (elementDescriptor, "ReadElementStatus", "_element_status_descriptor_bits"),
  (elementDescriptor, "ReadElementStatus", "_data_transfer_descriptor_bits"),
  (elementDescriptor, "ReadElementStatus", "_storage_descriptor_bits"),
  (elementDescriptor, "ReadElementStatus", "_import_export_descriptor_bits"),
  (fullStatusDescriptor, "PersistentReserveInReadFullStatus", "_full_status_desc_bits"),
  (transportIdHeader, "PersistentReserveInReadFullStatus", "_transport_id_bits"),
  (designationDescriptor, "Inquiry", "_designator_bits"),
  (naaType, "Inquiry", "_naa_type_bits"),
  (naaIeeeExtended, "Inquiry", "_naa_ieee_extended_bits"),
  (naaLocallyAssigned, "Inquiry", "_naa_locally_assigned_bits"),
  (naaIeeeRegistered, "Inquiry", "_naa_ieee_registered_bits"),
  (naaIeeeRegisteredExtended, "Inquiry", "_naa_ieee_registered_extended_bits"),
  (relativePortDesignator, "Inquiry", "_relative_port_bits"),
  (targetPortGroupDesignator, "Inquiry", "_target_portal_group_bits"),
  (logicalUnitGroupDesignator, "Inquiry", "_logical_unit_group_bits"),
  (modeHeader6, "MODESENSE6", "mode_parameter_header_bits"),
  (modeHeader10, "MODESENSE10", "mode_parameter_header_bits"),
  (modePage0Header, "MODESENSE6", "page_zero_bits"),
  (modeSubPageHeader, "MODESENSE6", "sub_page_bits"),
  (modeControl, "MODESENSE6", "control_bits"),
  (modeControlExt, "MODESENSE6", "control_extension_1_bits"),
  (modeDisconnect, "MODESENSE6", "disconnect_reconnect_bits"),
  (modeElementAddress, "MODESENSE6", "element_address_bits"),
  (modePage0Header, "MODESENSE10", "page_zero_bits"),
  (modeSubPageHeader, "MODESENSE10", "sub_page_bits"),
  (modeControl, "MODESENSE10", "control_bits"),
  (modeControlExt, "MODESENSE10", "control_extension_1_bits"),
  (modeDisconnect, "MODESENSE10", "disconnect_reconnect_bits"),
  (modeElementAddress, "MODESENSE10", "element_address_bits"),
  (cdSectorHeader, "ReadCd", "_sh_bits"),
  (cdSubchannelQ, "ReadCd", "_sc2_bits")]


/-- the 8-byte PERSISTENT RESERVE IN header (READ KEYS / READ RESERVATION) when nothing follows -/
def prHeader : Block := ⟨"pr_header", 0, 8, [⟨"pr_generation", 0, 7, 32⟩, ⟨"additional_length", 4, 7, 32⟩]⟩

/-- every block by name (for the line protocol) -/
def allBlocks : List Block :=
  (blocks.map (·.1)).foldl (fun acc b => if acc.any (·.name == b.name) then acc else acc ++ [b]) [] ++ [prHeader, targetPortDescriptor]

/-! ## structured responses: headers with the standards' length fields, then the descriptors -/

/-- GET LBA STATUS parameter data (SBC-3 table 76): PARAMETER DATA LENGTH (n−3), 4 reserved bytes,
    LBA status descriptors -/
def encGetLbaStatus (ds : List Vals) : List Nat :=
  toBytes (4 + 16 * ds.length) 4 ++ [0, 0, 0, 0] ++ (ds.map lbaStatusDescriptor.enc).flatten

/-- REPORT LUNS parameter data (SPC-4 table 289): LUN LIST LENGTH (n−7), 4 reserved bytes, the LUNs -/
def encReportLuns (luns : List Vals) : List Nat :=
  toBytes (8 * luns.length) 4 ++ [0, 0, 0, 0] ++ (luns.map lunEntry.enc).flatten

/-- PERSISTENT RESERVE IN / READ KEYS parameter data (SPC-4 table 181): PRGENERATION,
    ADDITIONAL LENGTH (n−7), the reservation keys -/
def encReadKeys (gen : Nat) (keys : List Nat) : List Nat :=
  toBytes gen 4 ++ toBytes (8 * keys.length) 4 ++ (keys.map (toBytes · 8)).flatten

end Std
