import ScsiVerif.Std.DataIn
/-!
# Std.DataOut — parameter lists the library composes (oracle for C05), as the standards prescribe

From SPC-4/5 (from knowledge).  MODE SELECT parameter lists use the mode parameter header / mode
page blocks of `Std.DataIn`.
-/
namespace Std

/-- basic PERSISTENT RESERVE OUT parameter list, 24 bytes (SPC-4 table 198) -/
def prOutBasic : Block := ⟨"prout_basic", 0, 24,
  [⟨"reservation_key", 0, 7, 64⟩, ⟨"service_action_reservation_key", 8, 7, 64⟩,
   ⟨"spec_i_pt", 20, 3, 1⟩, ⟨"all_tg_pt", 20, 2, 1⟩, ⟨"aptpl", 20, 0, 1⟩]⟩

/-- basic parameter list with SPEC_I_PT: bytes 24–27 TRANSPORTID PARAMETER DATA LENGTH, then TransportIDs -/
def prOutBasicSpec : Block := ⟨"prout_basic_spec", 0, 28,
  prOutBasic.fields ++ [⟨"transportid_parameter_data_length", 24, 7, 32⟩]⟩

/-- PERSISTENT RESERVE OUT with REGISTER AND MOVE parameter list header (SPC-4 table 200) -/
def prOutRegisterAndMove : Block := ⟨"prout_ram", 0, 24,
  [⟨"reservation_key", 0, 7, 64⟩, ⟨"service_action_reservation_key", 8, 7, 64⟩, ⟨"unreg", 17, 1, 1⟩, ⟨"aptpl", 17, 0, 1⟩,
   ⟨"relative_target_port_id", 18, 7, 16⟩, ⟨"transportid_length", 20, 7, 32⟩]⟩

/-- EXTENDED COPY(LID1) parameter list header (SPC-4 table 101) -/
def xcopyLid1Header : Block := ⟨"xcopy_lid1_header", 0, 16,
  [⟨"list_identifier", 0, 7, 8⟩, ⟨"str", 1, 5, 1⟩, ⟨"nrcr", 1, 4, 1⟩, ⟨"priority", 1, 2, 3⟩,
   ⟨"target_descriptor_list_length", 2, 7, 16⟩, ⟨"segment_descriptor_list_length", 8, 7, 32⟩,
   ⟨"inline_data_length", 12, 7, 32⟩]⟩

/-- EXTENDED COPY(LID4) parameter list header (SPC-4 table 103) -/
def xcopyLid4Header : Block := ⟨"xcopy_lid4_header", 0, 48,
  [⟨"parameter_list_format", 0, 7, 8⟩, ⟨"str", 1, 5, 1⟩, ⟨"list_id_usage", 1, 4, 2⟩, ⟨"priority", 1, 2, 3⟩,
   ⟨"header_cscd_descriptor_list_length", 2, 7, 16⟩, ⟨"g_sense", 15, 1, 1⟩, ⟨"immed", 15, 0, 1⟩,
   ⟨"header_cscd_descriptor_type_code", 16, 7, 8⟩, ⟨"list_identifier", 20, 7, 32⟩,
   ⟨"cscd_descriptor_list_length", 42, 7, 16⟩, ⟨"segment_descriptor_list_length", 44, 7, 16⟩,
   ⟨"inline_data_length", 46, 7, 16⟩]⟩

/-- CSCD (target) descriptor, 32 bytes: common bytes 0–3 and the device type specific parameters in
    bytes 28–31 for block and sequential-access devices (SPC-4 tables 104, 110, 111) -/
def xcopyTargetDescriptor : Block := ⟨"xcopy_target_descriptor", 0, 32,
  [⟨"descriptor_type_code", 0, 7, 8⟩, ⟨"lu_id_type", 1, 7, 2⟩, ⟨"peripheral_device_type", 1, 4, 5⟩,
   ⟨"relative_initiator_port_identifier", 2, 7, 16⟩,
   ⟨"pad", 28, 2, 1⟩, ⟨"fixed", 28, 0, 1⟩, ⟨"disk_block_length", 29, 7, 24⟩]⟩

/-- the same with the sequential-access name of bytes 29–31 -/
def xcopyTargetDescriptorSeq : Block := ⟨"xcopy_target_descriptor_seq", 0, 32,
  [⟨"descriptor_type_code", 0, 7, 8⟩, ⟨"lu_id_type", 1, 7, 2⟩, ⟨"peripheral_device_type", 1, 4, 5⟩,
   ⟨"relative_initiator_port_identifier", 2, 7, 16⟩,
   ⟨"pad", 28, 2, 1⟩, ⟨"fixed", 28, 0, 1⟩, ⟨"stream_block_length", 29, 7, 24⟩]⟩

/-- Identification descriptor CSCD descriptor, bytes 4–7 (SPC-4 table 108); the designator follows -/
def xcopyIdentHeader : Block := ⟨"xcopy_ident_header", 4, 4,
  [⟨"code_set", 4, 3, 4⟩, ⟨"association", 5, 5, 2⟩, ⟨"designator_type", 5, 3, 4⟩, ⟨"designator_length", 7, 7, 8⟩]⟩

/-- block → stream / stream → block segment descriptor, 24 bytes (SPC-4 tables 117, 118) -/
def xcopySegBlockStream : Block := ⟨"xcopy_seg_block_stream", 0, 24,
  [⟨"descriptor_type_code", 0, 7, 8⟩, ⟨"cat", 1, 0, 1⟩, ⟨"descriptor_length", 2, 7, 16⟩,
   ⟨"source_target_descriptor_id", 4, 7, 16⟩, ⟨"destination_target_descriptor_id", 6, 7, 16⟩,
   ⟨"stream_device_transfer_length", 9, 7, 24⟩, ⟨"block_device_number_of_blocks", 14, 7, 16⟩,
   ⟨"block_device_logical_block_address", 16, 7, 64⟩]⟩

/-- block → block segment descriptor, 28 bytes (SPC-4 table 119; FCO is SPC-5) -/
def xcopySegBlockBlock : Block := ⟨"xcopy_seg_block_block", 0, 28,
  [⟨"descriptor_type_code", 0, 7, 8⟩, ⟨"fco", 1, 2, 1⟩, ⟨"dc", 1, 1, 1⟩, ⟨"cat", 1, 0, 1⟩, ⟨"descriptor_length", 2, 7, 16⟩,
   ⟨"source_target_descriptor_id", 4, 7, 16⟩, ⟨"destination_target_descriptor_id", 6, 7, 16⟩,
   ⟨"block_device_number_of_blocks", 10, 7, 16⟩, ⟨"source_block_device_logical_block_address", 12, 7, 64⟩,
   ⟨"destination_block_device_logical_block_address", 20, 7, 64⟩]⟩

/-- the same fields under the SPC-5 module's key names -/
def renameKeys (m : List (String × String)) (b : Block) (name : String) : Block :=
  { b with name := name, fields := b.fields.map (fun g => { g with key := ((m.find? (·.1 == g.key)).map (·.2)).getD g.key }) }

def spc5Names : List (String × String) :=
  [("source_target_descriptor_id", "source_cscd_descriptor_id"), ("destination_target_descriptor_id", "destination_cscd_descriptor_id")]

def xcopySegBlockStream5 : Block := renameKeys spc5Names xcopySegBlockStream "xcopy_seg_block_stream5"
def xcopySegBlockBlock5 : Block := renameKeys spc5Names xcopySegBlockBlock "xcopy_seg_block_block5"

/-- every parameter-list block with the library table it is the standard for -/
def outBlocks : List (Block × String × String × String) := [
  (prOutBasic, "PersistentReserveOut", "scsi_cdb_persistentreserveout", "_basic_parameter_list_bits"),
  (prOutBasicSpec, "PersistentReserveOut", "scsi_cdb_persistentreserveout", "_basic_parameter_list_bits"),
  (prOutRegisterAndMove, "PersistentReserveOut", "scsi_cdb_persistentreserveout", "_ram_parameter_list_bits"),
  (xcopyLid1Header, "ExtendedCopy", "scsi_cdb_extended_copy_spc4", "_parameter_list_bits"),
  (xcopyLid4Header, "ExtendedCopy", "scsi_cdb_extended_copy_spc5", "_parameter_list_bits"),
  (xcopyTargetDescriptor, "ExtendedCopy", "scsi_cdb_extended_copy_spc4", "_target_descriptor_bits"),
  (xcopyTargetDescriptor, "ExtendedCopy", "scsi_cdb_extended_copy_spc4", "_device_specific_target_descriptor_parameters_block"),
  (xcopyTargetDescriptorSeq, "ExtendedCopy", "scsi_cdb_extended_copy_spc4", "_device_specific_target_descriptor_parameters_sequential"),
  (xcopyTargetDescriptor, "ExtendedCopy", "scsi_cdb_extended_copy_spc4", "_device_specific_target_descriptor_parameters_processor"),
  (xcopyIdentHeader, "ExtendedCopy", "scsi_cdb_extended_copy_spc4", "_target_designator_bits"),
  (xcopySegBlockStream, "ExtendedCopy", "scsi_cdb_extended_copy_spc4", "_segment_descriptor_bits_block_to_stream"),
  (xcopySegBlockStream, "ExtendedCopy", "scsi_cdb_extended_copy_spc4", "_segment_descriptor_bits_stream_to_block"),
  (xcopySegBlockBlock, "ExtendedCopy", "scsi_cdb_extended_copy_spc4", "_segment_descriptor_bits_block_to_block"),
  (xcopyTargetDescriptor, "ExtendedCopy", "scsi_cdb_extended_copy_spc5", "_cscd_descriptor_bits"),
  (xcopyTargetDescriptor, "ExtendedCopy", "scsi_cdb_extended_copy_spc5", "_device_specific_cscd_descriptor_parameters_block"),
  (xcopyTargetDescriptorSeq, "ExtendedCopy", "scsi_cdb_extended_copy_spc5", "_device_specific_cscd_descriptor_parameters_sequential"),
  (xcopyTargetDescriptor, "ExtendedCopy", "scsi_cdb_extended_copy_spc5", "_device_specific_cscd_descriptor_parameters_processor"),
  (xcopyIdentHeader, "ExtendedCopy", "scsi_cdb_extended_copy_spc5", "_cscd_designator_bits"),
  (xcopySegBlockStream5, "ExtendedCopy", "scsi_cdb_extended_copy_spc5", "_segment_descriptor_bits_block_to_stream"),
  (xcopySegBlockStream5, "ExtendedCopy", "scsi_cdb_extended_copy_spc5", "_segment_descriptor_bits_stream_to_block"),
  (xcopySegBlockBlock5, "ExtendedCopy", "scsi_cdb_extended_copy_spc5", "_segment_descriptor_bits_block_to_block")]

def allOutBlocks : List Block :=
  (outBlocks.map (·.1)).foldl (fun acc b => if acc.any (·.name == b.name) then acc else acc ++ [b]) []

end Std
