import ScsiVerif.Std.Cdb
/-!
# Std.Target — a standards-conformant block target (oracle for C12)

Decodes CDBs **by byte position** as SBC/SPC lay them out (independently of the library's tables),
keeps a block map, answers READ/WRITE (10/12/16), WRITE SAME (10/16; WSNZ = 0: a block count of zero means
"to the end of the medium"), SYNCHRONIZE CACHE, READ CAPACITY
(10/16), INQUIRY, TEST UNIT READY.  Anything else, or an out-of-range access, is CHECK CONDITION.
-/
namespace Std.Target

abbrev Bytes := List Nat

structure T where
  blockSize : Nat
  capacity : Nat                    -- number of logical blocks
  blocks : List (Nat × Nat × Bytes) -- written extents (first LBA, end LBA exclusive, contents of each block), latest first;
                                    -- unwritten blocks read as zeros
  pdt : Nat                         -- peripheral device type reported by INQUIRY
  vendor : Bytes                    -- 8 bytes
  product : Bytes                   -- 16 bytes
  deriving DecidableEq, Repr

/-- the abstract disk: logical block address ↦ contents -/
def disk (t : T) (lba : Nat) : Bytes :=
  match t.blocks.find? (fun e => decide (e.1 ≤ lba ∧ lba < e.2.1)) with
  | some e => e.2.2
  | none => List.replicate t.blockSize 0

def be (cdb : Bytes) (off n : Nat) : Nat := beValue ((cdb.drop off).take n)

def toBe (v : Nat) : Nat → Bytes := toBytes v

/-- split a data-out buffer into logical blocks -/
def chunks (bs : Nat) : Nat → Bytes → List Bytes
  | 0, _ => []
  | n + 1, d => d.take bs :: chunks bs n (d.drop bs)

/-- every block from `lba` to the end of the medium gets the contents `b` -/
def fillToEnd (t : T) (lba : Nat) (b : Bytes) : T := { t with blocks := (lba, t.capacity, b) :: t.blocks }

def writeBlocks (t : T) (lba : Nat) : List Bytes → T
  | [] => t
  | b :: rest => writeBlocks { t with blocks := (lba, lba + 1, b) :: t.blocks } (lba + 1) rest

def readBlocks (t : T) (lba : Nat) : Nat → Bytes
  | 0 => []
  | n + 1 => disk t lba ++ readBlocks t (lba + 1) n

inductive Status | good | checkCondition
  deriving DecidableEq, Repr

structure Reply where
  status : Status
  datain : Bytes
  deriving DecidableEq, Repr

def sense : Reply := ⟨.checkCondition, []⟩

/-- (lba, transfer length) of the READ/WRITE/WRITE SAME family, by CDB size -/
def addr (cdb : Bytes) : Nat × Nat :=
  match cdb.length with
  | 10 => (be cdb 2 4, be cdb 7 2)
  | 12 => (be cdb 2 4, be cdb 6 4)
  | 16 => (be cdb 2 8, be cdb 10 4)
  | _ => (0, 0)

def inquiryData (t : T) (n : Nat) : Bytes :=
  ([t.pdt % 32, 0, 0x06, 0x02, 31, 0, 0, 0] ++ t.vendor.take 8 ++ t.product.take 16 ++ [0x30, 0x30, 0x30, 0x31]).take n

/-- execute one command: `(cdb, data-out, data-in buffer length)` -/
def step (t : T) (cdb dataout : Bytes) (datainLen : Nat) : T × Reply :=
  match cdb.head? with
  | none => (t, sense)
  | some op =>
    if op = 0x28 ∨ op = 0xA8 ∨ op = 0x88 then
      let (lba, tl) := addr cdb
      if lba + tl ≤ t.capacity then (t, ⟨.good, (readBlocks t lba tl).take datainLen⟩) else (t, sense)
    else if op = 0x2A ∨ op = 0xAA ∨ op = 0x8A then
      let (lba, tl) := addr cdb
      if lba + tl ≤ t.capacity ∧ dataout.length = tl * t.blockSize then
        (writeBlocks t lba (chunks t.blockSize tl dataout), ⟨.good, []⟩)
      else (t, sense)
    else if op = 0x41 ∨ op = 0x93 then
      let (lba, nb) := addr cdb
      let ndob := op = 0x93 ∧ (be cdb 1 1) % 2 = 1
      let blk := if ndob then List.replicate t.blockSize 0 else dataout
      -- WSNZ = 0, no MAXIMUM WRITE SAME LENGTH: NUMBER OF LOGICAL BLOCKS 0 means "to the last logical block of the medium"
      if lba + nb ≤ t.capacity ∧ blk.length = t.blockSize then
        (if nb = 0 then fillToEnd t lba blk else writeBlocks t lba (List.replicate nb blk), ⟨.good, []⟩)
      else (t, sense)
    else if op = 0x35 ∨ op = 0x91 then (t, ⟨.good, []⟩)
    else if op = 0x00 then (t, ⟨.good, []⟩)
    else if op = 0x25 then
      (t, ⟨.good, (toBe (min (t.capacity - 1) 0xFFFFFFFF) 4 ++ toBe t.blockSize 4).take datainLen⟩)
    else if op = 0x9E ∧ (be cdb 1 1) % 32 = 0x10 then
      (t, ⟨.good, (toBe (t.capacity - 1) 8 ++ toBe t.blockSize 4 ++ List.replicate 20 0).take (min datainLen (be cdb 10 4))⟩)
    else if op = 0x12 ∧ (be cdb 1 1) % 2 = 0 then (t, ⟨.good, inquiryData t (min datainLen (be cdb 3 2))⟩)
    else (t, sense)

end Std.Target
