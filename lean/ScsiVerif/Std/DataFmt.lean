import ScsiVerif.Std.Cdb
/-!
# Std.DataFmt — parameter-data formats in the standards' own notation (oracle for C04/C05/C06)

A field is `⟨key, first byte, msb bit in that byte, width in bits⟩`, read exactly like the tables
of SPC/SBC/SMC/MMC: it starts at bit `msb` of byte `byte` and runs towards less significant bits /
following bytes.  `key` is the name under which the library reports the field (a byte-string field
of `n` bytes is a field of width `8·n` whose value is the big-endian number of the string).

The structure the standard prescribes is *stated arithmetically*: the `L`-byte big-endian number
`Σ value · 2^(position of the field's lsb)`, every other bit zero.  No code is shared with the
model of `converter.py`.
-/
namespace Std

structure DField where
  key : String
  byte : Nat
  msb : Nat
  width : Nat
  deriving DecidableEq, Repr

/-- position of the field's least significant bit, counted from the least significant bit of the
    last byte of an `L`-byte structure -/
def DField.lsb (f : DField) (L : Nat) : Nat := 8 * (L - 1 - f.byte) + f.msb + 1 - f.width

def DField.ok (f : DField) (L : Nat) : Bool :=
  decide (f.byte < L) && decide (f.msb < 8) && decide (0 < f.width) &&
  decide (f.width ≤ 8 * (L - 1 - f.byte) + f.msb + 1)

/-- the values a device puts into the fields -/
abbrev Vals := String → Nat

/-- the number the structure is, read big-endian -/
def valueD (L : Nat) (fs : List DField) (v : Vals) : Nat :=
  fs.foldr (fun g acc => v g.key * 2 ^ g.lsb L + acc) 0

/-- **the structure the standard prescribes** -/
def encodeD (L : Nat) (fs : List DField) (v : Vals) : List Nat := toBytes (valueD L fs v) L

def disjD (L : Nat) (a b : DField) : Bool :=
  decide (a.lsb L + a.width ≤ b.lsb L) || decide (b.lsb L + b.width ≤ a.lsb L)

def pairwiseD {α : Type} (r : α → α → Bool) : List α → Bool
  | [] => true
  | x :: xs => xs.all (r x) && pairwiseD r xs

/-- the format is consistent: fields inside `L` bytes, distinct keys, no two fields share a bit -/
def formatOK (L : Nat) (fs : List DField) : Bool :=
  fs.all (·.ok L) && pairwiseD (fun a b => a.key != b.key) fs && pairwiseD (disjD L) fs

/-- all values fit their fields -/
def InRangeD (fs : List DField) (v : Vals) : Prop := ∀ g ∈ fs, v g.key < 2 ^ g.width

end Std
