import ScsiVerif.Props.C04d
/-!
# C04 (continued) — Device Identification VPD page (83h), whole page

Every designation descriptor inside PAGE LENGTH, in order, each with its designator decoded by type:
vendor specific, T10 vendor ID, EUI-64 (8-, 12- and 16-byte formats), NAA (IEEE Extended / Locally Assigned / IEEE Registered / IEEE
Registered Extended), relative target port, target port group, logical unit group, MD5, SCSI name string.
-/
namespace C04
open Conv PVal Std DataCompat DecL Dec

def naaTable (code : Nat) : Layout :=
  if code = 2 then Gen.Inquiry_naa_ieee_extended_bits else if code = 3 then Gen.Inquiry_naa_locally_assigned_bits
  else if code = 5 then Gen.Inquiry_naa_ieee_registered_bits else Gen.Inquiry_naa_ieee_registered_extended_bits

def naaCodeOK (code : Nat) : Prop := code = 2 ∨ code = 3 ∨ code = 5 ∨ code = 6

theorem naa_facts (code : Nat) :
    compatible Gen.Inquiry_naa_type_bits (naaBlock code).rel (naaBlock code).len = true ∧
    compatible (naaTable code) (naaBlock code).rel (naaBlock code).len = true ∧
    keysDisjoint Gen.Inquiry_naa_type_bits (naaTable code) = true := by
  unfold naaTable naaBlock
  split
  · decide +kernel
  split
  · decide +kernel
  split
  · decide +kernel
  · decide +kernel

/-- what the library reports for a designator -/
def desReported : Des → PDict
  | .vendor b => [("vendor_specific", .bytes b)]
  | .t10 vid rest => [("t10_vendor_id", .bytes vid), ("vendor_specific_id", .bytes rest)]
  | .eui8 cid ext => [("ieee_company_id", .int cid), ("vendor_specific_extension_id", .bytes ext)]
  | .eui12 cid ext dir => [("ieee_company_id", .int cid), ("vendor_specific_extension_id", .bytes ext), ("directory_id", .bytes dir)]
  | .eui16 idext cid ext => [("identifier_extension", .bytes idext), ("ieee_company_id", .int cid), ("vendor_specific_extension_id", .bytes ext)]
  | .naa code v => reported Gen.Inquiry_naa_type_bits v ++ reported (naaTable code) v
  | .port v => reported Gen.Inquiry_relative_port_bits v
  | .tpg v => reported Gen.Inquiry_target_portal_group_bits v
  | .lug v => reported Gen.Inquiry_logical_unit_group_bits v
  | .md5 b => [("md5_logical_identifier", .bytes b)]
  | .name b => [("scsi_name_string", .bytes b)]

def DesOK : Des → Prop
  | .vendor _ => True
  | .t10 vid _ => vid.length = 8
  | .eui8 cid ext => cid < 2 ^ 24 ∧ ext.length = 5
  | .eui12 cid ext dir => cid < 2 ^ 24 ∧ ext.length = 5 ∧ dir.length = 4
  | .eui16 idext cid ext => idext.length = 8 ∧ cid < 2 ^ 24 ∧ ext.length = 5
  | .naa code v => naaCodeOK code ∧ InRangeD (naaBlock code).rel v ∧ v "naa" = code
  | .port v => InRangeD relativePortDesignator.rel v
  | .tpg v => InRangeD targetPortGroupDesignator.rel v
  | .lug v => InRangeD logicalUnitGroupDesignator.rel v
  | .md5 b => b.length = 16
  | .name _ => True

theorem relport_c : compatible Gen.Inquiry_relative_port_bits relativePortDesignator.rel 4 = true := by decide +kernel
theorem tpgdes_c : compatible Gen.Inquiry_target_portal_group_bits targetPortGroupDesignator.rel 4 = true := by decide +kernel
theorem lugdes_c : compatible Gen.Inquiry_logical_unit_group_bits logicalUnitGroupDesignator.rel 4 = true := by decide +kernel

theorem decodeInto_block (lay : Layout) (b : Block) (hc : compatible lay b.rel b.len = true) (v : Vals) (hr : InRangeD b.rel v) :
    decodeInto (b.enc v) lay [] = .ok (reported lay v) := by
  have := decodeInto_std_nil lay b hc v hr []
  rw [List.append_nil] at this
  exact this

theorem des_vendor (b : Bytes) : Dec.designator 0 b = .ok [("vendor_specific", .bytes b)] := by
  simp [Dec.designator, Des.ty, Des.bytes, desReported, DESIGNATOR_VENDOR, DESIGNATOR_T10, DESIGNATOR_EUI64, DESIGNATOR_NAA,
      DESIGNATOR_RELPORT, DESIGNATOR_TPG, DESIGNATOR_LUG, DESIGNATOR_MD5, DESIGNATOR_NAME, DESIGNATOR_PCIE, pure, Except.pure, bind, Except.bind, PDict.set]

theorem des_t10 (vid rest : Bytes) (hv : vid.length = 8) :
    Dec.designator 1 (vid ++ rest) = .ok [("t10_vendor_id", .bytes vid), ("vendor_specific_id", .bytes rest)] := by
  simp [Dec.designator, Des.ty, Des.bytes, desReported, DESIGNATOR_VENDOR, DESIGNATOR_T10, DESIGNATOR_EUI64, DESIGNATOR_NAA,
      DESIGNATOR_RELPORT, DESIGNATOR_TPG, DESIGNATOR_LUG, DESIGNATOR_MD5, DESIGNATOR_NAME, DESIGNATOR_PCIE, pure, Except.pure, bind, Except.bind, PDict.set, List.take_left' hv, List.drop_left' hv]

/-- EUI-64, 8-byte format -/
theorem des_eui8 (cid : Nat) (ext : Bytes) (hc : cid < 2 ^ 24) (he : ext.length = 5) :
    Dec.designator 2 (toBytes cid 3 ++ ext) = .ok [("ieee_company_id", .int cid), ("vendor_specific_extension_id", .bytes ext)] := by
  have hl : (toBytes cid 3 ++ ext).length = 8 := by rw [List.length_append, toBytes_length, he]
  have h1 : slice (toBytes cid 3 ++ ext) 0 3 = toBytes cid 3 := slice_prefix _ _ 3 (toBytes_length _ _)
  have h2 : slice (toBytes cid 3 ++ ext) 3 8 = ext := by
    have := slice_mid (toBytes cid 3) ext [] 3 8 (toBytes_length _ _) (by omega)
    simpa using this
  have hb : b2i (toBytes cid 3) = cid := b2i_be cid 3 hc
  simp [Dec.designator, DESIGNATOR_VENDOR, DESIGNATOR_T10, DESIGNATOR_EUI64, DESIGNATOR_NAA,
      DESIGNATOR_RELPORT, DESIGNATOR_TPG, DESIGNATOR_LUG, DESIGNATOR_MD5, DESIGNATOR_NAME, DESIGNATOR_PCIE, pure, Except.pure, bind, Except.bind, PDict.set,
      hl, h1, h2, hb]

/-- EUI-64, 12-byte format -/
theorem des_eui12 (cid : Nat) (ext dir : Bytes) (hc : cid < 2 ^ 24) (he : ext.length = 5) (hd : dir.length = 4) :
    Dec.designator 2 (toBytes cid 3 ++ ext ++ dir) =
      .ok [("ieee_company_id", .int cid), ("vendor_specific_extension_id", .bytes ext), ("directory_id", .bytes dir)] := by
  have hl : (toBytes cid 3 ++ ext ++ dir).length = 12 := by rw [List.length_append, List.length_append, toBytes_length, he, hd]
  have h1 : slice (toBytes cid 3 ++ ext ++ dir) 0 3 = toBytes cid 3 := by
    rw [List.append_assoc]; exact slice_prefix _ _ 3 (toBytes_length _ _)
  have h2 : slice (toBytes cid 3 ++ ext ++ dir) 3 8 = ext := slice_mid (toBytes cid 3) ext dir 3 8 (toBytes_length _ _) (by omega)
  have h3 : (toBytes cid 3 ++ ext ++ dir).drop 8 = dir :=
    List.drop_left' (by rw [List.length_append, toBytes_length, he])
  have hb : b2i (toBytes cid 3) = cid := b2i_be cid 3 hc
  generalize toBytes cid 3 ++ ext ++ dir = data at hl h1 h2 h3 ⊢
  simp [Dec.designator, DESIGNATOR_VENDOR, DESIGNATOR_T10, DESIGNATOR_EUI64, DESIGNATOR_NAA,
      DESIGNATOR_RELPORT, DESIGNATOR_TPG, DESIGNATOR_LUG, DESIGNATOR_MD5, DESIGNATOR_NAME, DESIGNATOR_PCIE, pure, Except.pure, bind, Except.bind, PDict.set,
      hl, h1, h2, h3, hb]

/-- EUI-64, 16-byte format -/
theorem des_eui16 (idext : Bytes) (cid : Nat) (ext : Bytes) (hi : idext.length = 8) (hc : cid < 2 ^ 24) (he : ext.length = 5) :
    Dec.designator 2 (idext ++ toBytes cid 3 ++ ext) =
      .ok [("identifier_extension", .bytes idext), ("ieee_company_id", .int cid), ("vendor_specific_extension_id", .bytes ext)] := by
  have hl : (idext ++ toBytes cid 3 ++ ext).length = 16 := by rw [List.length_append, List.length_append, toBytes_length, he, hi]
  have h1 : (idext ++ toBytes cid 3 ++ ext).take 8 = idext := by
    rw [List.append_assoc]; exact List.take_left' hi
  have h2 : slice (idext ++ toBytes cid 3 ++ ext) 8 11 = toBytes cid 3 :=
    slice_mid idext (toBytes cid 3) ext 8 11 hi (by rw [toBytes_length])
  have h3 : (idext ++ toBytes cid 3 ++ ext).drop 11 = ext :=
    List.drop_left' (by rw [List.length_append, toBytes_length, hi])
  have hb : b2i (toBytes cid 3) = cid := b2i_be cid 3 hc
  generalize idext ++ toBytes cid 3 ++ ext = data at hl h1 h2 h3 ⊢
  simp [Dec.designator, DESIGNATOR_VENDOR, DESIGNATOR_T10, DESIGNATOR_EUI64, DESIGNATOR_NAA,
      DESIGNATOR_RELPORT, DESIGNATOR_TPG, DESIGNATOR_LUG, DESIGNATOR_MD5, DESIGNATOR_NAME, DESIGNATOR_PCIE, pure, Except.pure, bind, Except.bind, PDict.set,
      hl, h1, h2, h3, hb]

theorem des_md5 (b : Bytes) (hb : b.length = 16) : Dec.designator 7 b = .ok [("md5_logical_identifier", .bytes b)] := by
  have ht : b.take 16 = b := List.take_of_length_le (by omega)
  simp [Dec.designator, Des.ty, Des.bytes, desReported, DESIGNATOR_VENDOR, DESIGNATOR_T10, DESIGNATOR_EUI64, DESIGNATOR_NAA,
      DESIGNATOR_RELPORT, DESIGNATOR_TPG, DESIGNATOR_LUG, DESIGNATOR_MD5, DESIGNATOR_NAME, DESIGNATOR_PCIE, pure, Except.pure, bind, Except.bind, PDict.set, ht]

theorem des_name (b : Bytes) : Dec.designator 8 b = .ok [("scsi_name_string", .bytes b)] := by
  simp [Dec.designator, Des.ty, Des.bytes, desReported, DESIGNATOR_VENDOR, DESIGNATOR_T10, DESIGNATOR_EUI64, DESIGNATOR_NAA,
      DESIGNATOR_RELPORT, DESIGNATOR_TPG, DESIGNATOR_LUG, DESIGNATOR_MD5, DESIGNATOR_NAME, DESIGNATOR_PCIE, pure, Except.pure, bind, Except.bind, PDict.set]

theorem des_port (v : Vals) (h : InRangeD relativePortDesignator.rel v) :
    Dec.designator 4 (relativePortDesignator.enc v) = .ok (reported Gen.Inquiry_relative_port_bits v) := by
  have hd := decodeInto_block _ _ relport_c v h
  simp [Dec.designator, Des.ty, Des.bytes, desReported, DESIGNATOR_VENDOR, DESIGNATOR_T10, DESIGNATOR_EUI64, DESIGNATOR_NAA,
      DESIGNATOR_RELPORT, DESIGNATOR_TPG, DESIGNATOR_LUG, DESIGNATOR_MD5, DESIGNATOR_NAME, DESIGNATOR_PCIE, pure, Except.pure, bind, Except.bind, hd]

theorem des_tpg (v : Vals) (h : InRangeD targetPortGroupDesignator.rel v) :
    Dec.designator 5 (targetPortGroupDesignator.enc v) = .ok (reported Gen.Inquiry_target_portal_group_bits v) := by
  have hd := decodeInto_block _ _ tpgdes_c v h
  simp [Dec.designator, Des.ty, Des.bytes, desReported, DESIGNATOR_VENDOR, DESIGNATOR_T10, DESIGNATOR_EUI64, DESIGNATOR_NAA,
      DESIGNATOR_RELPORT, DESIGNATOR_TPG, DESIGNATOR_LUG, DESIGNATOR_MD5, DESIGNATOR_NAME, DESIGNATOR_PCIE, pure, Except.pure, bind, Except.bind, hd]

theorem des_lug (v : Vals) (h : InRangeD logicalUnitGroupDesignator.rel v) :
    Dec.designator 6 (logicalUnitGroupDesignator.enc v) = .ok (reported Gen.Inquiry_logical_unit_group_bits v) := by
  have hd := decodeInto_block _ _ lugdes_c v h
  simp [Dec.designator, Des.ty, Des.bytes, desReported, DESIGNATOR_VENDOR, DESIGNATOR_T10, DESIGNATOR_EUI64, DESIGNATOR_NAA,
      DESIGNATOR_RELPORT, DESIGNATOR_TPG, DESIGNATOR_LUG, DESIGNATOR_MD5, DESIGNATOR_NAME, DESIGNATOR_PCIE, pure, Except.pure, bind, Except.bind, hd]

theorem naa_key (v : Vals) : getInt (reported Gen.Inquiry_naa_type_bits v) "naa" = .ok (v "naa") :=
  getInt_reported _ v "naa" 240 0 (by decide)

/-- the four `if naa == …` updates are one update with the table of that NAA value -/
theorem naaFields_eq (data : Bytes) (code : Nat) (hcode : naaCodeOK code) (d : PDict) :
    Dec.naaFields data code d = decodeInto data (naaTable code) d := by
  unfold Dec.naaFields naaTable
  rcases hcode with rfl | rfl | rfl | rfl
  · simp only [Nat.reduceEqDiff, reduceIte, bind, Except.bind, pure, Except.pure]
    cases decodeInto data Gen.Inquiry_naa_ieee_extended_bits d <;> rfl
  · simp only [Nat.reduceEqDiff, reduceIte, bind, Except.bind, pure, Except.pure]
    cases decodeInto data Gen.Inquiry_naa_locally_assigned_bits d <;> rfl
  · simp only [Nat.reduceEqDiff, reduceIte, bind, Except.bind, pure, Except.pure]
    cases decodeInto data Gen.Inquiry_naa_ieee_registered_bits d <;> rfl
  · simp only [Nat.reduceEqDiff, reduceIte, bind, Except.bind, pure, Except.pure]
    cases decodeInto data Gen.Inquiry_naa_ieee_registered_extended_bits d <;> rfl

theorem naaDesignator_std (code : Nat) (v : Vals) (hcode : naaCodeOK code) (hr : InRangeD (naaBlock code).rel v) (hn : v "naa" = code) :
    Dec.naaDesignator ((naaBlock code).enc v) [] = .ok (reported Gen.Inquiry_naa_type_bits v ++ reported (naaTable code) v) := by
  obtain ⟨hA, hB, hD⟩ := naa_facts code
  have h1 := decodeInto_block _ _ hA v hr
  have h2 := decodeInto_std (naaTable code) (naaBlock code) hB v hr [] (reported Gen.Inquiry_naa_type_bits v) (keysDisjoint_spec hD v)
  rw [List.append_nil] at h2
  unfold Dec.naaDesignator
  rw [h1]
  simp only [bind, Except.bind]
  rw [naa_key, hn]
  dsimp only
  rw [naaFields_eq _ code hcode, h2]

theorem des_naa (code : Nat) (v : Vals) (hcode : naaCodeOK code) (hr : InRangeD (naaBlock code).rel v) (hn : v "naa" = code) :
    Dec.designator 3 ((naaBlock code).enc v) = .ok (reported Gen.Inquiry_naa_type_bits v ++ reported (naaTable code) v) := by
  have h := naaDesignator_std code v hcode hr hn
  simp [Dec.designator, DESIGNATOR_VENDOR, DESIGNATOR_T10, DESIGNATOR_EUI64, DESIGNATOR_NAA,
      DESIGNATOR_RELPORT, DESIGNATOR_TPG, DESIGNATOR_LUG, DESIGNATOR_MD5, DESIGNATOR_NAME, DESIGNATOR_PCIE, pure, Except.pure, bind, Except.bind, h]

/-- `Inquiry.unmarshall_designator` on each designator format -/
theorem designator_std (d : Des) (h : DesOK d) : Dec.designator d.ty d.bytes = .ok (desReported d) := by
  cases d with
  | vendor b => exact des_vendor b
  | t10 vid rest => exact des_t10 vid rest h
  | eui8 cid ext => exact des_eui8 cid ext h.1 h.2
  | eui12 cid ext dir => exact des_eui12 cid ext dir h.1 h.2.1 h.2.2
  | eui16 idext cid ext => exact des_eui16 idext cid ext h.1 h.2.1 h.2.2
  | md5 b => exact des_md5 b h
  | name b => exact des_name b
  | port v => exact des_port v h
  | tpg v => exact des_tpg v h
  | lug v => exact des_lug v h
  | naa code v => exact des_naa code v h.1 h.2.1 h.2.2

/-! ## designation descriptors and the page -/

theorem desig_c : compatible Gen.Inquiry_designator_bits designationDescriptor.rel 4 = true := by decide +kernel

/-- a designation descriptor is well formed: header values fit, DESIGNATOR TYPE and DESIGNATOR LENGTH describe the designator -/
def DesigOK (d : Vals × Des) : Prop :=
  InRangeD designationDescriptor.rel d.1 ∧ d.1 "designator_type" = d.2.ty ∧ d.1 "designator_length" = d.2.bytes.length ∧ DesOK d.2

/-- the header fields as reported: PROTOCOL IDENTIFIER only when PIV = 1 and the association is target port / target device -/
def ddFields (hv : Vals) : PDict :=
  if hv "piv" = 0 ∨ (hv "association" ≠ 1 ∧ hv "association" ≠ 2)
  then (reported Gen.Inquiry_designator_bits hv).del "protocol_identifier"
  else reported Gen.Inquiry_designator_bits hv

def designationReported (d : Vals × Des) : PV := .dict (ddFields d.1 ++ [("designator", .dict (desReported d.2))])

theorem dd_keys (hv : Vals) (kv : String × PV) (h : kv ∈ ddFields hv) : kv.1 ∈ Gen.Inquiry_designator_bits.map (·.1) := by
  unfold ddFields at h
  have h' : kv ∈ reported Gen.Inquiry_designator_bits hv := by
    split at h
    · exact (List.mem_filter.mp h).1
    · exact h
  have hm : kv.1 ∈ (reported Gen.Inquiry_designator_bits hv).map (·.1) := List.mem_map.mpr ⟨kv, h', rfl⟩
  rw [reported_keys] at hm
  exact hm

theorem dd_set (hv : Vals) (x : PV) : (ddFields hv).set "designator" x = ddFields hv ++ [("designator", x)] := by
  apply set_fresh
  intro kv hkv heq
  have := dd_keys hv kv hkv
  rw [heq] at this
  revert this
  decide

theorem getInt_del_other (d : PDict) (k k' : String) (hne : k ≠ k') : getInt (d.del k') k = getInt d k := by
  unfold getInt PDict.get? PDict.del
  induction d with
  | nil => rfl
  | cons x xs ih =>
    simp only [List.filter_cons]
    by_cases hx : x.1 = k'
    · have h1 : (x.1 != k') = false := by simpa using hx
      have h2 : (x.1 == k) = false := by
        have : x.1 ≠ k := by rw [hx]; exact fun h => hne h.symm
        simpa using this
      simp only [h1, List.find?_cons, h2]
      exact ih
    · have h1 : (x.1 != k') = true := by simpa using hx
      simp only [h1, if_true, List.find?_cons]
      by_cases hk : x.1 = k
      · have : (x.1 == k) = true := by simpa using hk
        simp [this]
      · have : (x.1 == k) = false := by simpa using hk
        simp only [this]
        exact ih

theorem dd_type (hv : Vals) : getInt (ddFields hv) "designator_type" = .ok (hv "designator_type") := by
  have h0 : getInt (reported Gen.Inquiry_designator_bits hv) "designator_type" = .ok (hv "designator_type") :=
    getInt_reported _ hv "designator_type" 15 1 (by decide)
  unfold ddFields
  split
  · rw [getInt_del_other _ _ _ (by decide)]; exact h0
  · exact h0

theorem desig_piv (hv : Vals) : getInt (reported Gen.Inquiry_designator_bits hv) "piv" = .ok (hv "piv") :=
  getInt_reported _ hv "piv" 128 1 (by decide)
theorem desig_assoc (hv : Vals) : getInt (reported Gen.Inquiry_designator_bits hv) "association" = .ok (hv "association") :=
  getInt_reported _ hv "association" 48 1 (by decide)

theorem encDesignation_length (d : Vals × Des) : (encDesignation d).length = 4 + d.2.bytes.length := by
  unfold encDesignation
  rw [List.length_append, enc_length]; rfl

/-- one iteration of the loop, on exactly the bytes of one designation descriptor -/
theorem designationDescriptor_std (d : Vals × Des) (h : DesigOK d) :
    Dec.designationDescriptor (encDesignation d) d.2.bytes.length = .ok (ddFields d.1 ++ [("designator", .dict (desReported d.2))]) := by
  obtain ⟨hr, hty, hlen, hdes⟩ := h
  unfold Dec.designationDescriptor
  unfold encDesignation
  rw [decodeInto_std_nil _ _ desig_c d.1 hr _]
  simp only [bind, Except.bind, pure, Except.pure]
  rw [desig_piv, desig_assoc]
  dsimp only
  have hdd : (if d.1 "piv" = 0 ∨ d.1 "association" ≠ 1 ∧ d.1 "association" ≠ 2 then
      (reported Gen.Inquiry_designator_bits d.1).del "protocol_identifier" else reported Gen.Inquiry_designator_bits d.1) = ddFields d.1 := rfl
  rw [hdd, dd_type, hty]
  dsimp only
  have hsl : slice (designationDescriptor.enc d.1 ++ d.2.bytes) 4 (4 + d.2.bytes.length) = d.2.bytes := by
    have := slice_mid (designationDescriptor.enc d.1) d.2.bytes [] 4 (4 + d.2.bytes.length) (enc_length _ _) rfl
    simpa using this
  rw [hsl, designator_std d.2 hdes]
  dsimp only
  rw [dd_set]

theorem dlen_mem : (⟨"designator_length", 3, 7, 8⟩ : DField) ∈ designationDescriptor.rel := by decide

theorem desig_len_byte (v : Vals) (hr : InRangeD designationDescriptor.rel v) (t : Bytes) :
    ∃ x, idx (designationDescriptor.enc v ++ t) 3 = .ok x ∧ x >>> (8 - 8) = v "designator_length" :=
  idx_top_field designationDescriptor (compatible_format desig_c) v hr t ⟨"designator_length", 3, 7, 8⟩ dlen_mem rfl (Nat.le_refl 8)

theorem desig_byte3 (d : Vals × Des) (h : DesigOK d) (rest : Bytes) : (encDesignation d ++ rest)[3]? = some d.2.bytes.length := by
  obtain ⟨x, hx, hxv⟩ := desig_len_byte d.1 h.1 (d.2.bytes ++ rest)
  simp only [Nat.sub_self, Nat.shiftRight_zero] at hxv
  unfold idx at hx
  unfold encDesignation
  rw [List.append_assoc]
  cases hq : (designationDescriptor.enc d.1 ++ (d.2.bytes ++ rest))[3]? with
  | none => rw [hq] at hx; cases hx
  | some y =>
    rw [hq] at hx
    injection hx with hx
    rw [hx, hxv, h.2.2.1]

/-- the loop visits exactly the designation descriptors -/
theorem desChunks_std (ds : List (Vals × Des)) (h : ∀ d ∈ ds, DesigOK d) :
    Dec.desChunks (ds.map encDesignation).flatten = ds.map encDesignation := by
  induction ds with
  | nil => unfold Dec.desChunks; simp
  | cons d ds ih =>
    have hd := h d (by simp)
    have hne : ¬ ((List.map encDesignation (d :: ds)).flatten.length = 0) := by
      simp only [List.map_cons, List.flatten_cons, List.length_append, encDesignation_length]; omega
    rw [Dec.desChunks, dif_neg hne]
    simp only [List.map_cons, List.flatten_cons]
    rw [desig_byte3 d hd]
    dsimp only
    have hl : (encDesignation d).length = d.2.bytes.length + 4 := by rw [encDesignation_length]; omega
    rw [List.take_left' hl, List.drop_left' hl, ih (fun x hx => h x (by simp [hx]))]

theorem desig_idx3 (d : Vals × Des) (h : DesigOK d) : idx (encDesignation d) 3 = .ok d.2.bytes.length := by
  have hb := desig_byte3 d h []
  rw [List.append_nil] at hb
  unfold idx
  rw [hb]

theorem designators_one (d : Vals × Des) (h : DesigOK d) :
    (do let l ← idx (encDesignation d) 3
        let dd ← Dec.designationDescriptor (encDesignation d) l
        pure (PV.dict dd)) = (.ok (designationReported d) : Except PyErr PV) := by
  rw [desig_idx3 d h, bind_ok, designationDescriptor_std d h, bind_ok]
  rfl

theorem designators_std (ds : List (Vals × Des)) (h : ∀ d ∈ ds, DesigOK d) :
    Dec.designators (ds.map encDesignation).flatten = .ok (ds.map designationReported) := by
  unfold Dec.designators
  rw [desChunks_std ds h]
  apply mapM_map_ok
  intro d hd
  exact designators_one d (h d hd)

theorem encDesignations_length (ds : List (Vals × Des)) : (ds.map encDesignation).flatten.length = desBodyLen ds := by
  induction ds with
  | nil => rfl
  | cons d ds ih =>
    simp only [List.map_cons, List.flatten_cons, List.length_append, ih, desBodyLen, List.foldr_cons, encDesignation_length]

/-- **Device Identification VPD page (83h)**: every designation descriptor inside PAGE LENGTH (n−3), in order,
    each designator decoded by its type; nothing beyond the page -/
theorem vpd_device_identification_decodes (hv : Vals) (ds : List (Vals × Des)) (hr : InRangeD vpdHeader.rel hv)
    (hpc : hv "page_code" = 0x83) (hlen : hv "page_length" = desBodyLen ds) (h : ∀ d ∈ ds, DesigOK d) (tr : Bytes) :
    Dec.inquiry (encVpd83 hv ds ++ tr) 1 =
      .ok (.dict [("peripheral_qualifier", .int (hv "peripheral_qualifier")),
                  ("peripheral_device_type", .int (hv "peripheral_device_type")),
                  ("page_code", .int 0x83), ("designator_descriptors", .list (ds.map designationReported))]) := by
  unfold Dec.inquiry encVpd83
  rw [if_neg (by decide), vpd_bytes 0x83 _ hv hr hpc (by rw [hlen, encDesignations_length]) tr]
  unfold Dec.inquiryVpdPage
  rw [if_neg (by decide), if_neg (by decide), if_neg (by decide), if_neg (by decide), if_neg (by decide), if_neg (by decide),
    if_neg (by decide), if_neg (by decide), if_pos rfl]
  rw [List.drop_left' (show (vpdHeader.enc hv).length = 4 from enc_length _ _), designators_std ds h]
  simp [PDict.set, pure, Except.pure, bind, Except.bind]

/-- the hypotheses are satisfiable: an NAA IEEE Registered designator, a relative target port, a SCSI name string -/
example : ∃ ds : List (Vals × Des), ds.length = 3 ∧ (∀ d ∈ ds, DesigOK d) := by
  refine ⟨[(fun k => if k = "designator_type" then 3 else if k = "designator_length" then 8 else if k = "code_set" then 1 else 0,
            .naa 5 (fun k => if k = "naa" then 5 else if k = "ieee_company_id" then 0x0014EE else 0x123456789)),
           (fun k => if k = "designator_type" then 4 else if k = "designator_length" then 4 else if k = "piv" then 1 else if k = "association" then 1 else 6,
            .port (fun _ => 2)),
           (fun k => if k = "designator_type" then 8 else if k = "designator_length" then 4 else 1, .name [0x69, 0x71, 0x6E, 0])],
          rfl, ?_⟩
  intro d hd
  simp only [List.mem_cons, List.not_mem_nil, or_false] at hd
  rcases hd with rfl | rfl | rfl
  · exact ⟨by intro g hg; revert g; decide, rfl, rfl, Or.inr (Or.inr (Or.inl rfl)), by intro g hg; revert g; decide, rfl⟩
  · exact ⟨by intro g hg; revert g; decide, rfl, rfl, by intro g hg; revert g; decide⟩
  · exact ⟨by intro g hg; revert g; decide, rfl, rfl, trivial⟩

end C04
