import ScsiVerif.Props.C06b
import ScsiVerif.Props.C04e
/-!
# C06 (continued) — designators of the Device Identification page, parse → rebuild

For every designator format other than NAA: what `Inquiry.unmarshall_designator` reports for a conformant designator
(`C04.desReported`, proved in C04e to be the decoder's output) is rebuilt by `Inquiry.marshall_designator` into exactly
the designator's bytes.  (NAA designators are rebuilt through two tables and a truncation; they are covered by the
correspondence only — hence `_partial`.)
-/
namespace C06
open Conv PVal Std DataCompat DecL C04

theorem relport_ok : C05.pairOK (relativePortDesignator, Gen.Inquiry_relative_port_bits) = true ∧
    covers Gen.Inquiry_relative_port_bits relativePortDesignator = true := by decide +kernel
theorem tpgdes_ok : C05.pairOK (targetPortGroupDesignator, Gen.Inquiry_target_portal_group_bits) = true ∧
    covers Gen.Inquiry_target_portal_group_bits targetPortGroupDesignator = true := by decide +kernel
theorem lugdes_ok : C05.pairOK (logicalUnitGroupDesignator, Gen.Inquiry_logical_unit_group_bits) = true ∧
    covers Gen.Inquiry_logical_unit_group_bits logicalUnitGroupDesignator = true := by decide +kernel

def notNaa : Des → Prop
  | .naa _ _ => False
  | _ => True

/-- **parse → rebuild of a designator** (all formats but NAA) -/
theorem designator_rebuild_partial (d : Des) (h : DesOK d) (hn : notNaa d) :
    Enc.designator d.ty (desReported d) = .ok (some d.bytes) := by
  cases d with
  | naa code v => exact absurd hn (by simp [notNaa])
  | vendor b => simp [Enc.designator, Des.ty, Des.bytes, desReported, getBytes, PDict.get?, pure, Except.pure, bind, Except.bind]
  | t10 vid rest => simp [Enc.designator, Des.ty, Des.bytes, desReported, getBytes, PDict.get?, pure, Except.pure, bind, Except.bind]
  | md5 b => simp [Enc.designator, Des.ty, Des.bytes, desReported, getBytes, PDict.get?, pure, Except.pure, bind, Except.bind]
  | name b => simp [Enc.designator, Des.ty, Des.bytes, desReported, getBytes, PDict.get?, pure, Except.pure, bind, Except.bind]
  | eui8 cid ext =>
    simp [Enc.designator, Des.ty, Des.bytes, desReported, getBytes, getInt, PDict.get?, Enc.hasKey, pure, Except.pure, bind, Except.bind,
      toBytes_eq_intToBa]
  | eui12 cid ext dir =>
    simp [Enc.designator, Des.ty, Des.bytes, desReported, getBytes, getInt, PDict.get?, Enc.hasKey, pure, Except.pure, bind, Except.bind,
      toBytes_eq_intToBa]
  | eui16 idext cid ext =>
    simp [Enc.designator, Des.ty, Des.bytes, desReported, getBytes, getInt, PDict.get?, Enc.hasKey, pure, Except.pure, bind, Except.bind,
      toBytes_eq_intToBa]
  | port v =>
    have e := encodeFrom_reported relativePortDesignator _ relport_ok.1 relport_ok.2 v h
    simp only [Enc.designator, Des.ty, Des.bytes, desReported, Nat.reduceEqDiff, reduceIte, if_true]
    have e' : encodeFrom (reported Gen.Inquiry_relative_port_bits v) Gen.Inquiry_relative_port_bits (zeros 4) = .ok (relativePortDesignator.enc v) := e
    rw [e']; rfl
  | tpg v =>
    have e := encodeFrom_reported targetPortGroupDesignator _ tpgdes_ok.1 tpgdes_ok.2 v h
    simp only [Enc.designator, Des.ty, Des.bytes, desReported, Nat.reduceEqDiff, reduceIte, if_true]
    have e' : encodeFrom (reported Gen.Inquiry_target_portal_group_bits v) Gen.Inquiry_target_portal_group_bits (zeros 4) = .ok (targetPortGroupDesignator.enc v) := e
    rw [e']; rfl
  | lug v =>
    have e := encodeFrom_reported logicalUnitGroupDesignator _ lugdes_ok.1 lugdes_ok.2 v h
    simp only [Enc.designator, Des.ty, Des.bytes, desReported, Nat.reduceEqDiff, reduceIte, if_true]
    have e' : encodeFrom (reported Gen.Inquiry_logical_unit_group_bits v) Gen.Inquiry_logical_unit_group_bits (zeros 4) = .ok (logicalUnitGroupDesignator.enc v) := e
    rw [e']; rfl

/-- parse then rebuild: the bytes come back (composition with `C04.designator_std`) -/
theorem designator_roundtrip_partial (d : Des) (h : DesOK d) (hn : notNaa d) :
    (Dec.designator d.ty d.bytes >>= fun r => Enc.designator d.ty r) = .ok (some d.bytes) := by
  rw [designator_std d h]
  exact designator_rebuild_partial d h hn

/-- the hypotheses are satisfiable: an EUI-64 designator in its 12-byte format -/
example : DesOK (.eui12 0x0014EE [1, 2, 3, 4, 5] [9, 9, 9, 9]) ∧ notNaa (.eui12 0x0014EE [1, 2, 3, 4, 5] [9, 9, 9, 9]) := by
  simp [DesOK, notNaa]

end C06
