import ScsiVerif.Std.Target
import ScsiVerif.Lemmas.Compat
/-!
# C12 — data written through the library is read back intact from a conformant target

`Std.Target` decodes CDBs by byte position.  A command "meets the standard" (`Conformant`) when its
CDB has the operation code, length, LOGICAL BLOCK ADDRESS and TRANSFER LENGTH where SBC puts them —
which is exactly what C01 (`C01.cdb_meets_standard`) proves of every CDB the library builds, and C03
proves `dataout` is the caller's data.  The theorems below are about *any* sequence of such commands.
-/
namespace C12
open Std Std.Target

/-! ## the block map -/

theorem disk_push (t : T) (lo hi x : Nat) (b : Bytes) :
    disk { t with blocks := (lo, hi, b) :: t.blocks } x = if lo ≤ x ∧ x < hi then b else disk t x := by
  unfold disk
  by_cases h : lo ≤ x ∧ x < hi
  · simp [List.find?_cons, h]
  · simp [List.find?_cons, h]

theorem disk_cons (t : T) (lba x : Nat) (b : Bytes) :
    disk { t with blocks := (lba, lba + 1, b) :: t.blocks } x = if x = lba then b else disk t x := by
  rw [disk_push]
  by_cases h : x = lba
  · subst h; simp
  · have : ¬ (lba ≤ x ∧ x < lba + 1) := by omega
    simp [this, h]

theorem writeBlocks_meta (t : T) (lba : Nat) (bs : List Bytes) :
    (writeBlocks t lba bs).blockSize = t.blockSize ∧ (writeBlocks t lba bs).capacity = t.capacity ∧
    (writeBlocks t lba bs).pdt = t.pdt ∧ (writeBlocks t lba bs).vendor = t.vendor ∧
    (writeBlocks t lba bs).product = t.product := by
  induction bs generalizing t lba with
  | nil => simp [writeBlocks]
  | cons b rest ih => simpa [writeBlocks] using ih _ _

/-- **after writing blocks `bs` at `lba`, block `x` holds the written data inside the range and
its previous contents outside** -/
theorem disk_writeBlocks (t : T) (lba : Nat) (bs : List Bytes) (x : Nat)
    (hlen : ∀ b ∈ bs, b.length = t.blockSize) :
    disk (writeBlocks t lba bs) x =
      if lba ≤ x ∧ x < lba + bs.length then bs[x - lba]?.getD [] else disk t x := by
  induction bs generalizing t lba with
  | nil =>
    simp only [writeBlocks, List.length_nil, Nat.add_zero]
    have : ¬ (lba ≤ x ∧ x < lba) := by omega
    rw [if_neg this]
  | cons b rest ih =>
    simp only [writeBlocks]
    rw [ih _ _ (fun y hy => by simpa using hlen y (by simp [hy]))]
    simp only [List.length_cons]
    by_cases h1 : lba + 1 ≤ x ∧ x < lba + 1 + rest.length
    · have h2 : lba ≤ x ∧ x < lba + (rest.length + 1) := by omega
      have e : x - lba = (x - (lba + 1)) + 1 := by omega
      simp [h1, h2, e]
    · simp only [h1, if_false, disk_cons]
      by_cases hx : x = lba
      · subst hx
        have h2 : x ≤ x ∧ x < x + (rest.length + 1) := by omega
        simp [h2]
      · have h2 : ¬ (lba ≤ x ∧ x < lba + (rest.length + 1)) := by omega
        simp [hx, h2]

theorem readBlocks_eq (t : T) (lba n : Nat) :
    readBlocks t lba n = (List.range n).flatMap (fun i => disk t (lba + i)) := by
  induction n generalizing lba with
  | zero => rfl
  | succ k ih =>
    rw [readBlocks, ih, List.range_succ_eq_map]
    simp [List.flatMap_cons, List.flatMap_map, Nat.add_assoc, Nat.add_comm 1]

/-! ## conformant commands -/

/-- the CDB carries `op`, `lba`, `tl` where SBC puts them for its size (10/12/16 bytes) -/
def Conformant (cdb : Bytes) (op lba tl : Nat) : Prop :=
  cdb.head? = some op ∧ (cdb.length = 10 ∨ cdb.length = 12 ∨ cdb.length = 16) ∧ addr cdb = (lba, tl)

def isRead (op : Nat) : Prop := op = 0x28 ∨ op = 0xA8 ∨ op = 0x88
def isWrite (op : Nat) : Prop := op = 0x2A ∨ op = 0xAA ∨ op = 0x8A

instance (op : Nat) : Decidable (isRead op) := by unfold isRead; infer_instance
instance (op : Nat) : Decidable (isWrite op) := by unfold isWrite; infer_instance

/-- READ(10/12/16) returns exactly the blocks of the abstract disk -/
theorem read_returns_disk (t : T) (cdb : Bytes) (op lba tl : Nat) (hc : Conformant cdb op lba tl)
    (hop : isRead op) (hr : lba + tl ≤ t.capacity) (dout : Bytes) :
    step t cdb dout (tl * t.blockSize + 0) = (t, ⟨.good, ((List.range tl).flatMap (fun i => disk t (lba + i))).take (tl * t.blockSize)⟩) := by
  obtain ⟨h1, _, h3⟩ := hc
  unfold step
  simp only [h1]
  have : (op = 0x28 ∨ op = 0xA8 ∨ op = 0x88) := hop
  simp only [this, if_true, h3, hr, readBlocks_eq, Nat.add_zero]

/-- WRITE(10/12/16) stores the caller's data block by block and changes nothing else -/
theorem write_updates_disk (t : T) (cdb : Bytes) (op lba tl : Nat) (hc : Conformant cdb op lba tl)
    (hop : isWrite op) (hr : lba + tl ≤ t.capacity) (data : Bytes) (hd : data.length = tl * t.blockSize) :
    (step t cdb data 0).2.status = .good ∧
    (step t cdb data 0).1 = writeBlocks t lba (chunks t.blockSize tl data) := by
  obtain ⟨h1, _, h3⟩ := hc
  unfold step
  simp only [h1]
  have hw : (op = 0x2A ∨ op = 0xAA ∨ op = 0x8A) := hop
  have hnr : ¬ (op = 0x28 ∨ op = 0xA8 ∨ op = 0x88) := by
    rcases hw with h | h | h <;> subst h <;> decide
  simp [hnr, hw, h3, hr, hd]

theorem chunks_length (bs n : Nat) (d : Bytes) : (chunks bs n d).length = n := by
  induction n generalizing d with
  | zero => rfl
  | succ k ih => simp [chunks, ih]

theorem chunks_getElem (bs n : Nat) (d : Bytes) (i : Nat) (hi : i < n) :
    (chunks bs n d)[i]? = some ((d.drop (i * bs)).take bs) := by
  induction n generalizing d i with
  | zero => omega
  | succ k ih =>
    cases i with
    | zero => simp [chunks]
    | succ j =>
      simp only [chunks, List.getElem?_cons_succ]
      rw [ih _ j (by omega)]
      simp [List.drop_drop, Nat.add_mul, Nat.add_comm]

theorem chunks_block_length (bs n : Nat) (d : Bytes) (hd : d.length = n * bs) : ∀ b ∈ chunks bs n d, b.length = bs := by
  induction n generalizing d with
  | zero => intro b hb; simp [chunks] at hb
  | succ k ih =>
    intro b hb
    simp only [chunks, List.mem_cons] at hb
    rcases hb with rfl | hb
    · simp; rw [hd, Nat.add_mul]; omega
    · exact ih (d.drop bs) (by simp [hd, Nat.add_mul]) b hb

/-- **write then read**: after a conformant WRITE of `data` at `lba`, the abstract disk holds block
`i` of `data` at `lba + i`, and every other block is unchanged — for any LBA (also above 2^32 with
the 16-byte forms), any transfer length, any block size, any payload. -/
theorem disk_after_write (t : T) (cdb : Bytes) (op lba tl : Nat) (hc : Conformant cdb op lba tl)
    (hop : isWrite op) (hr : lba + tl ≤ t.capacity) (data : Bytes) (hd : data.length = tl * t.blockSize) (x : Nat) :
    disk (step t cdb data 0).1 x =
      if lba ≤ x ∧ x < lba + tl then (data.drop ((x - lba) * t.blockSize)).take t.blockSize else disk t x := by
  rw [(write_updates_disk t cdb op lba tl hc hop hr data hd).2,
      disk_writeBlocks t lba _ x (chunks_block_length _ _ _ hd), chunks_length]
  by_cases h : lba ≤ x ∧ x < lba + tl
  · simp only [h, and_self, if_true]
    rw [chunks_getElem _ _ _ _ (by omega)]
    rfl
  · simp [h]

/-! ## any sequence of commands: refinement to the abstract disk -/

inductive Op
  | write (lba tl : Nat) (data : Bytes)
  | writeSame (lba nb : Nat) (block : Bytes)
  | sync
  | read (lba tl : Nat)
  deriving Repr

/-- the specification: an ordinary function from block address to contents -/
def specStep (bs cap : Nat) (d : Nat → Bytes) : Op → (Nat → Bytes)
  | .write lba tl data => fun x => if lba ≤ x ∧ x < lba + tl then (data.drop ((x - lba) * bs)).take bs else d x
  | .writeSame lba nb blk => fun x => if lba ≤ x ∧ x < (if nb = 0 then cap else lba + nb) then blk else d x
  | .sync => d
  | .read _ _ => d

/-- what the target does for an operation, as the direct effect on its state (this is what `step`
does for the corresponding conformant CDB: `write_updates_disk`, `read_returns_disk`) -/
def targetStep (t : T) : Op → T
  | .write lba tl data => writeBlocks t lba (chunks t.blockSize tl data)
  | .writeSame lba nb blk => if nb = 0 then fillToEnd t lba blk else writeBlocks t lba (List.replicate nb blk)
  | .sync => t
  | .read _ _ => t

def opOK (t : T) : Op → Prop
  | .write lba tl data => lba + tl ≤ t.capacity ∧ data.length = tl * t.blockSize
  | .writeSame lba nb blk => lba + nb ≤ t.capacity ∧ blk.length = t.blockSize
  | _ => True

theorem targetStep_refines (t : T) (op : Op) (hok : opOK t op) :
    disk (targetStep t op) = specStep t.blockSize t.capacity (disk t) op ∧ (targetStep t op).blockSize = t.blockSize ∧
    (targetStep t op).capacity = t.capacity := by
  cases op with
  | write lba tl data =>
    refine ⟨?_, (writeBlocks_meta _ _ _).1, (writeBlocks_meta _ _ _).2.1⟩
    funext x
    simp only [targetStep, specStep]
    rw [disk_writeBlocks t lba _ x (chunks_block_length _ _ _ hok.2), chunks_length]
    by_cases h : lba ≤ x ∧ x < lba + tl
    · simp only [h, and_self, if_true]
      rw [chunks_getElem _ _ _ _ (by omega)]; rfl
    · simp [h]
  | writeSame lba nb blk =>
    by_cases hz : nb = 0
    · subst hz
      refine ⟨?_, rfl, rfl⟩
      funext x
      simp only [targetStep, specStep, if_true, fillToEnd]
      rw [disk_push]
    · have e : targetStep t (.writeSame lba nb blk) = writeBlocks t lba (List.replicate nb blk) := by simp [targetStep, hz]
      rw [e]
      refine ⟨?_, (writeBlocks_meta _ _ _).1, (writeBlocks_meta _ _ _).2.1⟩
      funext x
      simp only [specStep, hz, if_false]
      rw [disk_writeBlocks t lba _ x (by intro b hb; rw [List.eq_of_mem_replicate hb]; exact hok.2)]
      simp only [List.length_replicate]
      by_cases h : lba ≤ x ∧ x < lba + nb
      · simp only [h, and_self, if_true]
        rw [List.getElem?_replicate]
        have : x - lba < nb := by omega
        simp [this]
      · simp [h]
  | sync => exact ⟨rfl, rfl, rfl⟩
  | read _ _ => exact ⟨rfl, rfl, rfl⟩

def allOK (t : T) : List Op → Prop
  | [] => True
  | op :: rest => opOK t op ∧ allOK (targetStep t op) rest

/-- **for every sequence of write / write-same / sync / read commands** the target's block map is
the abstract disk that underwent the same operations: every READ returns exactly the data last
written to each block. -/
theorem run_refines (t : T) (ops : List Op) (hok : allOK t ops) :
    disk (ops.foldl targetStep t) = ops.foldl (specStep t.blockSize t.capacity) (disk t) := by
  induction ops generalizing t with
  | nil => rfl
  | cons op rest ih =>
    simp only [List.foldl_cons]
    obtain ⟨h1, h2, h3⟩ := targetStep_refines t op hok.1
    rw [ih (targetStep t op) hok.2, h1, h2, h3]

/-- WRITE SAME(10/16) with a data-out block: what `step` does is the `writeSame` operation — also for a NUMBER OF
LOGICAL BLOCKS of zero, which a target with WSNZ = 0 takes as "to the end of the medium" -/
theorem write_same_updates_disk (t : T) (cdb : Bytes) (op lba nb : Nat) (hc : Conformant cdb op lba nb)
    (hop : op = 0x41 ∨ op = 0x93) (hnd : ¬ (op = 0x93 ∧ (be cdb 1 1) % 2 = 1)) (hr : lba + nb ≤ t.capacity)
    (blk : Bytes) (hb : blk.length = t.blockSize) :
    (step t cdb blk 0).2.status = .good ∧ (step t cdb blk 0).1 = targetStep t (.writeSame lba nb blk) := by
  obtain ⟨h1, _, h3⟩ := hc
  unfold step
  simp only [h1]
  have hnr : ¬ (op = 0x28 ∨ op = 0xA8 ∨ op = 0x88) := by
    rcases hop with h | h <;> subst h <;> decide
  have hnw : ¬ (op = 0x2A ∨ op = 0xAA ∨ op = 0x8A) := by
    rcases hop with h | h <;> subst h <;> decide
  simp only [hnr, hnw, if_false, hop, if_true, h3, hnd, hr, hb, and_self, targetStep]

/-- after WRITE SAME with a block count of zero every block from `lba` to the end of the medium reads as `blk` -/
theorem disk_after_write_same_zero (t : T) (lba : Nat) (blk : Bytes) (x : Nat) :
    disk (targetStep t (.writeSame lba 0 blk)) x = if lba ≤ x ∧ x < t.capacity then blk else disk t x := by
  simp only [targetStep, if_true, fillToEnd]
  rw [disk_push]

/-! ## READ CAPACITY and INQUIRY report the target's geometry and identity -/

theorem read_capacity_10 (t : T) (cdb : Bytes) (rest : Bytes) (hc : cdb = 0x25 :: rest) :
    (step t cdb [] 8).2 = ⟨.good, toBe (min (t.capacity - 1) 0xFFFFFFFF) 4 ++ toBe t.blockSize 4⟩ := by
  subst hc
  have hl : (toBe (min (t.capacity - 1) 0xFFFFFFFF) 4 ++ toBe t.blockSize 4).length = 8 := by simp [toBe, toBytes]
  simp [step, List.take_of_length_le (Nat.le_of_eq hl)]

theorem inquiry_reports_type (t : T) : (inquiryData t 36).head? = some (t.pdt % 32) := by
  simp [inquiryData]

/-! ## link to the library: a library-built CDB is conformant -/

/-- a byte-aligned field read by position is the standard's `fieldOf` -/
theorem be_eq_fieldOf (cdb : Bytes) (hb : Conv.BytesOK cdb) (b k : Nat) (name : String) (src : Src)
    (hk : b + k ≤ cdb.length) (hk0 : 0 < k) :
    be cdb b k = fieldOf cdb.length ⟨name, b, 7, 8 * k, src⟩ cdb := by
  unfold be
  rw [Compat.fieldOf_eq, Compat.beValue_eq_baToInt]
  have hs : (cdb.drop b).take k = Conv.slice cdb b (b + k) := by
    unfold Conv.slice
    rw [List.take_drop]
  rw [hs, Conv.baToInt_slice cdb hb b k hk]
  have : Field.lsb ⟨name, b, 7, 8 * k, src⟩ cdb.length = 8 * (cdb.length - b - k) := by
    unfold Field.lsb
    simp only
    omega
  rw [this]

example : (step ⟨4, 100, [], 0, [], []⟩ [0x2A, 0, 0, 0, 0, 5, 0, 0, 2, 0] [1, 2, 3, 4, 5, 6, 7, 8] 0).1.blocks
    = [(6, 7, [5, 6, 7, 8]), (5, 6, [1, 2, 3, 4])] := by decide

end C12
