import ScsiVerif.Props.C10
/-!
# C10 (continued) — order independence for layouts that mix bit fields and blobs

`C10.order_independent` covers layouts of bit fields.  Here: any layout whose entries lie inside the
buffer and whose **blob** entries (`'b'`, `'w'`, `'dw'`) share no byte with any other entry — bit
fields may share bytes among themselves.  For every dictionary with distinct keys, integer values
for bit fields (any size) and byte strings of the declared length for blobs, every permutation of
the dictionary encodes to the same bytes.

Method: every step of `encode_dict` is a *pointwise* update of the buffer (`new[j] = F j old[j]`);
pointwise updates compose pointwise, XOR updates commute with each other, and an update whose byte
range is disjoint from another's commutes with it.
-/
namespace Conv.C10
open Conv

/-- the byte range `[lo, hi)` an entry touches -/
def FieldSpec.range (f : FieldSpec) : Nat × Nat :=
  match f with
  | .bits m off => (off, off + numBytes m)
  | .blob unit off len => (off, off + len * unit)

def isBlob : FieldSpec → Bool
  | .blob _ _ _ => true
  | .bits _ _ => false

def rangesDisjoint (a b : Nat × Nat) : Bool := decide (a.2 ≤ b.1) || decide (b.2 ≤ a.1)

/-- entries inside `L` bytes, no zero mask, distinct keys, every blob byte-disjoint from every other entry -/
def mixedWF (lay : Layout) (L : Nat) : Bool :=
  lay.all (fun kf => decide ((FieldSpec.range kf.2).2 ≤ L) && (match kf.2 with | .bits m _ => m != 0 | .blob _ _ _ => true)) &&
  pairwiseB (fun (a b : String × FieldSpec) => a.1 != b.1) lay &&
  pairwiseB (fun (a b : String × FieldSpec) => !(isBlob a.2 || isBlob b.2) || rangesDisjoint (FieldSpec.range a.2) (FieldSpec.range b.2)) lay

/-- the pointwise update a supplied `(key, value)` performs (`none`: the pair is outside the theorem's domain) -/
def updOf (lay : Layout) (kv : String × Val) : Option (Nat → Nat → Nat) :=
  match layoutGet? lay kv.1, kv.2 with
  | none, _ => some (fun _ x => x)
  | some (.bits m off), .int v =>
    some (fun j x => if off ≤ j ∧ j < off + numBytes m then x ^^^ ((intToBa (v <<< tz m) (numBytes m))[j - off]?.getD 0) else x)
  | some (.blob unit off len), .bytes b =>
    if b.length = len * unit then some (fun j x => if off ≤ j ∧ j < off + len * unit then b[j - off]?.getD 0 else x) else none
  | _, _ => none

/-- type-correct supplied values: integers for bit fields, byte strings of the declared length for blobs -/
def Typed (lay : Layout) (d : Dict) : Prop := ∀ kv ∈ d, (updOf lay kv).isSome

def pw (F : Nat → Nat → Nat) (buf : Bytes) : Bytes := buf.mapIdx F

theorem pw_get (F : Nat → Nat → Nat) (buf : Bytes) (j : Nat) : (pw F buf)[j]? = (buf[j]?).map (F j) := by
  simp [pw]

theorem setSlice_pw (buf : Bytes) (a n : Nat) (v : Bytes) (hv : v.length = n) (h : a + n ≤ buf.length) :
    setSlice buf a (a + n) v = pw (fun j x => if a ≤ j ∧ j < a + n then v[j - a]?.getD 0 else x) buf := by
  apply List.ext_getElem?
  intro j
  rw [pw_get]
  unfold setSlice
  have h1 : (List.take a buf).length = a := by simp; omega
  have hmax : max a (a + n) = a + n := by omega
  rw [hmax]
  by_cases hj1 : j < a
  · rw [List.append_assoc, List.getElem?_append_left (by omega), List.getElem?_take]
    have : ¬ (a ≤ j ∧ j < a + n) := by omega
    simp [hj1, this]
  · by_cases hj2 : j < a + n
    · rw [List.append_assoc, List.getElem?_append_right (by omega), List.getElem?_append_left (by omega), h1]
      have hjb : j < buf.length := by omega
      have hjv : j - a < v.length := by omega
      simp [List.getElem?_eq_getElem hjb, List.getElem?_eq_getElem hjv, show a ≤ j ∧ j < a + n from ⟨by omega, hj2⟩]
    · rw [List.getElem?_append_right (by simp; omega)]
      simp only [List.length_append, h1, hv, List.getElem?_drop]
      have e : a + n + (j - (a + n)) = j := by omega
      rw [e]
      have : ¬ (a ≤ j ∧ j < a + n) := by omega
      cases hq : buf[j]? <;> simp [this]

theorem xorAt_pw (buf v : Bytes) (pos : Nat) (h : pos + v.length ≤ buf.length) :
    xorAt buf pos v = .ok (pw (fun j x => if pos ≤ j ∧ j < pos + v.length then x ^^^ (v[j - pos]?.getD 0) else x) buf) := by
  obtain ⟨r, hr, hl, hj⟩ := xorAt_spec v buf pos h
  rw [hr]
  congr 1
  apply List.ext_getElem?
  intro j
  rw [hj j, pw_get]
  by_cases c : pos ≤ j ∧ j < pos + v.length
  · simp [c]
  · cases hq : buf[j]? <;> simp [c]

theorem pw_length (F : Nat → Nat → Nat) (buf : Bytes) : (pw F buf).length = buf.length := by simp [pw]

theorem pw_pw (F G : Nat → Nat → Nat) (buf : Bytes) : pw F (pw G buf) = pw (fun j x => F j (G j x)) buf := by
  apply List.ext_getElem?
  intro j
  rw [pw_get, pw_get, pw_get]
  cases buf[j]? <;> rfl

theorem pw_id (buf : Bytes) : pw (fun _ x => x) buf = buf := by
  apply List.ext_getElem?
  intro j
  rw [pw_get]
  cases buf[j]? <;> rfl

/-- the update of a pair (identity outside the domain; only used inside it) -/
def Fof (lay : Layout) (kv : String × Val) : Nat → Nat → Nat := (updOf lay kv).getD (fun _ x => x)

theorem mixedWF_entry {lay : Layout} {L : Nat} (h : mixedWF lay L = true) {k : String} {f : FieldSpec} (hm : (k, f) ∈ lay) :
    (FieldSpec.range f).2 ≤ L ∧ (∀ m off, f = .bits m off → m ≠ 0) := by
  unfold mixedWF at h
  simp only [Bool.and_eq_true, List.all_eq_true, decide_eq_true_eq] at h
  have := h.1.1 (k, f) hm
  refine ⟨this.1, ?_⟩
  intro m off hf
  have h2 := this.2
  rw [hf] at h2
  simpa using h2

/-- one step of `encode_dict` is the pointwise update of the pair -/
theorem step_pw (lay : Layout) (L : Nat) (hwf : mixedWF lay L = true) (b : Bytes) (hl : b.length = L) (kv : String × Val)
    (F : Nat → Nat → Nat) (hF : updOf lay kv = some F) :
    encodeDict [kv] lay b = (.ok (pw F b) : Except PyErr Bytes) := by
  simp only [encodeDict, List.foldlM_cons, List.foldlM_nil, bind_pure]
  unfold updOf at hF
  cases hg : layoutGet? lay kv.1 with
  | none =>
    rw [hg] at hF
    simp only at hF
    injection hF with hF
    rw [← hF, pw_id]
  | some f =>
    rw [hg] at hF
    obtain ⟨hin, hnz⟩ := mixedWF_entry hwf (layoutGet?_mem hg)
    cases f with
    | bits m off =>
      cases hv : kv.2 with
      | bytes bb => rw [hv] at hF; simp at hF
      | int v =>
        rw [hv] at hF
        simp only at hF
        injection hF with hF
        simp only [encodeField, encodeMask, hnz m off rfl, if_false]
        have hlen : (intToBa (v <<< tz m) (numBytes m)).length = numBytes m := by simp
        have hb : off + (intToBa (v <<< tz m) (numBytes m)).length ≤ b.length := by
          rw [hlen, hl]; exact hin
        rw [xorAt_pw b _ off hb, hlen, ← hF]
    | blob unit off len =>
      cases hv : kv.2 with
      | int v => rw [hv] at hF; simp at hF
      | bytes bb =>
        rw [hv] at hF
        simp only at hF
        split at hF
        · rename_i hbl
          injection hF with hF
          simp only [encodeField]
          rw [setSlice_pw b off (len * unit) bb hbl (by rw [hl]; exact hin), ← hF]
        · cases hF

/-- `encode_dict` of a typed dictionary is one pointwise update: the composition of the pairs' updates, in order -/
theorem encodeDict_pw (lay : Layout) (L : Nat) (hwf : mixedWF lay L = true) (d : Dict) (ht : Typed lay d)
    (buf : Bytes) (hl : buf.length = L) :
    encodeDict d lay buf = .ok (pw (fun j x => d.foldl (fun acc kv => Fof lay kv j acc) x) buf) := by
  induction d generalizing buf with
  | nil => simp [encodeDict, pw_id, pure, Except.pure]
  | cons kv d ih =>
    obtain ⟨F, hF⟩ := Option.isSome_iff_exists.mp (ht kv (by simp))
    have hstep := step_pw lay L hwf buf hl kv F hF
    have hcons : encodeDict (kv :: d) lay buf = (encodeDict [kv] lay buf >>= fun b => encodeDict d lay b) := by
      simp only [encodeDict, List.foldlM_cons, List.foldlM_nil, bind_pure]
    rw [hcons, hstep]
    simp only [bind, Except.bind]
    rw [ih (fun x hx => ht x (by simp [hx])) (pw F buf) (by rw [pw_length]; exact hl), pw_pw]
    congr 2
    funext j x
    simp only [List.foldl_cons, Fof, hF, Option.getD_some]

/-- a fold of pairwise commuting updates does not depend on the order -/
theorem foldl_perm_comm {α β : Type} (f : β → α → β) (l l' : List α) (hp : l.Perm l')
    (hc : ∀ a ∈ l, ∀ b ∈ l, ∀ x, f (f x a) b = f (f x b) a) (x : β) : l.foldl f x = l'.foldl f x := by
  induction hp generalizing x with
  | nil => rfl
  | cons a _ ih => exact ih (fun p hp q hq y => hc p (by simp [hp]) q (by simp [hq]) y) (f x a)
  | swap a b l => simp only [List.foldl_cons]; rw [hc b (by simp) a (by simp) x]
  | trans h1 _ ih1 ih2 =>
    rw [ih1 hc x]
    exact ih2 (fun p hp q hq y => hc p (h1.mem_iff.mpr hp) q (h1.mem_iff.mpr hq) y) x

theorem mixedWF_keys {lay : Layout} {L : Nat} (h : mixedWF lay L = true) : lay.Pairwise (fun a b => a.1 ≠ b.1) := by
  unfold mixedWF at h
  simp only [Bool.and_eq_true] at h
  exact ((pairwiseB_iff _ _).mp h.1.2).imp (fun h => by simpa using h)

/-- two different entries of which one is a blob touch disjoint byte ranges -/
theorem mixedWF_disj {lay : Layout} {L : Nat} (h : mixedWF lay L = true) {k1 k2 : String} {f1 f2 : FieldSpec}
    (h1 : (k1, f1) ∈ lay) (h2 : (k2, f2) ∈ lay) (hne : k1 ≠ k2) (hb : isBlob f1 = true ∨ isBlob f2 = true) :
    (FieldSpec.range f1).2 ≤ (FieldSpec.range f2).1 ∨ (FieldSpec.range f2).2 ≤ (FieldSpec.range f1).1 := by
  unfold mixedWF at h
  simp only [Bool.and_eq_true] at h
  have hp := (pairwiseB_iff _ _).mp h.2
  have hsym : ∀ a b : String × FieldSpec,
      (!(isBlob a.2 || isBlob b.2) || rangesDisjoint (FieldSpec.range a.2) (FieldSpec.range b.2)) = true →
      (!(isBlob b.2 || isBlob a.2) || rangesDisjoint (FieldSpec.range b.2) (FieldSpec.range a.2)) = true := by
    intro a b hab
    simp only [rangesDisjoint, Bool.or_eq_true, Bool.not_eq_true', Bool.or_eq_false_iff, decide_eq_true_eq] at hab ⊢
    rcases hab with ⟨ha, hb⟩ | hd | hd
    · exact Or.inl ⟨hb, ha⟩
    · exact Or.inr (Or.inr hd)
    · exact Or.inr (Or.inl hd)
  have := pairwise_forall hsym hp (k1, f1) h1 (k2, f2) h2 (by
    intro heq
    exact hne (congrArg Prod.fst heq))
  simp only [rangesDisjoint, Bool.or_eq_true, Bool.not_eq_true', Bool.or_eq_false_iff, decide_eq_true_eq] at this
  rcases this with ⟨ha, hb'⟩ | hd | hd
  · rcases hb with hb | hb
    · rw [ha] at hb; cases hb
    · rw [hb'] at hb; cases hb
  · exact Or.inl hd
  · exact Or.inr hd

/-- the byte range outside which the update of a typed pair is the identity -/
theorem Fof_outside (lay : Layout) (kv : String × Val) (f : FieldSpec) (hg : layoutGet? lay kv.1 = some f)
    (j x : Nat) (hj : j < (FieldSpec.range f).1 ∨ (FieldSpec.range f).2 ≤ j) : Fof lay kv j x = x := by
  unfold Fof updOf
  rw [hg]
  cases f with
  | bits m off =>
    cases kv.2 with
    | bytes b => rfl
    | int v =>
      simp only [Option.getD_some, FieldSpec.range] at hj ⊢
      have : ¬ (off ≤ j ∧ j < off + numBytes m) := by omega
      rw [if_neg this]
  | blob unit off len =>
    cases kv.2 with
    | int v => rfl
    | bytes b =>
      simp only [FieldSpec.range] at hj ⊢
      split
      · simp only [Option.getD_some]
        have : ¬ (off ≤ j ∧ j < off + len * unit) := by omega
        rw [if_neg this]
      · rfl

/-- the updates of two pairs with different keys commute at every byte -/
theorem Fof_comm (lay : Layout) (L : Nat) (hwf : mixedWF lay L = true) (a b : String × Val) (hne : a.1 ≠ b.1) (j x : Nat) :
    Fof lay b j (Fof lay a j x) = Fof lay a j (Fof lay b j x) := by
  cases hga : layoutGet? lay a.1 with
  | none => simp [Fof, updOf, hga]
  | some fa =>
    cases hgb : layoutGet? lay b.1 with
    | none => simp [Fof, updOf, hgb]
    | some fb =>
      by_cases hblob : isBlob fa = true ∨ isBlob fb = true
      · -- disjoint byte ranges: at most one of the two acts on byte j
        have hd := mixedWF_disj hwf (layoutGet?_mem hga) (layoutGet?_mem hgb) hne hblob
        by_cases hja : j < (FieldSpec.range fa).1 ∨ (FieldSpec.range fa).2 ≤ j
        · rw [Fof_outside lay a fa hga j x hja, Fof_outside lay a fa hga j _ hja]
        · have hjb : j < (FieldSpec.range fb).1 ∨ (FieldSpec.range fb).2 ≤ j := by omega
          rw [Fof_outside lay b fb hgb j _ hjb, Fof_outside lay b fb hgb j x hjb]
      · -- both are bit fields: XOR updates commute
        have ha : isBlob fa = false := by
          cases h : isBlob fa with
          | true => exact absurd (Or.inl h) hblob
          | false => rfl
        have hb : isBlob fb = false := by
          cases h : isBlob fb with
          | true => exact absurd (Or.inr h) hblob
          | false => rfl
        cases fa with
        | blob u o l => cases ha
        | bits ma oa =>
          cases fb with
          | blob u o l => cases hb
          | bits mb ob =>
            unfold Fof updOf
            rw [hga, hgb]
            cases a.2 with
            | bytes _ => cases b.2 <;> rfl
            | int va =>
              cases b.2 with
              | bytes _ => rfl
              | int vb =>
                simp only [Option.getD_some]
                by_cases c1 : oa ≤ j ∧ j < oa + numBytes ma <;> by_cases c2 : ob ≤ j ∧ j < ob + numBytes mb
                · simp only [if_pos c1, if_pos c2]
                  rw [Nat.xor_assoc, Nat.xor_assoc, Nat.xor_comm ((intToBa (va <<< tz ma) (numBytes ma))[j - oa]?.getD 0)]
                · simp only [if_pos c1, if_neg c2]
                · simp only [if_neg c1, if_pos c2]
                · simp only [if_neg c1, if_neg c2]

/-- **Order independence for layouts mixing bit fields and blobs.**  For a layout whose blobs share no byte with
any other entry, and every dictionary with distinct keys and type-correct values, every permutation of the
dictionary encodes to the same bytes (and the encoding succeeds). -/
theorem order_independent_mixed (lay : Layout) (L : Nat) (hwf : mixedWF lay L = true) (d d' : Dict)
    (hp : d.Perm d') (hk : KeysDistinct d) (ht : Typed lay d) (buf : Bytes) (hl : buf.length = L) :
    ∃ r, encodeDict d lay buf = .ok r ∧ encodeDict d' lay buf = .ok r := by
  have ht' : Typed lay d' := fun kv hkv => ht kv (hp.mem_iff.mpr hkv)
  refine ⟨_, encodeDict_pw lay L hwf d ht buf hl, ?_⟩
  rw [encodeDict_pw lay L hwf d' ht' buf hl]
  congr 2
  funext j x
  symm
  apply foldl_perm_comm _ d d' hp
  intro a ha b hb y
  by_cases hab : a = b
  · subst hab; rfl
  · have hne : a.1 ≠ b.1 := by
      unfold KeysDistinct at hk
      exact pairwise_forall (fun _ _ h => fun e => h e.symm) hk a ha b hb hab
    exact Fof_comm lay L hwf a b hne j y

/-- the hypotheses are satisfiable: two bit fields sharing byte 0, a `'w'` blob at a non-zero offset, a `'b'` blob -/
example : mixedWF [("a", .bits 0xF0 0), ("b", .bits 0x0F 0), ("w", .blob 2 2 2), ("s", .blob 1 6 3)] 10 = true ∧
    Typed [("a", .bits 0xF0 0), ("b", .bits 0x0F 0), ("w", .blob 2 2 2), ("s", .blob 1 6 3)]
      [("s", .bytes [1, 2, 3]), ("a", .int 9), ("w", .bytes [0xAA, 0xBB, 0xCC, 0xDD]), ("b", .int 5)] := by
  refine ⟨by decide +kernel, ?_⟩
  intro kv hkv
  simp only [List.mem_cons, List.not_mem_nil, or_false] at hkv
  rcases hkv with rfl | rfl | rfl | rfl <;> decide +kernel

end Conv.C10
