import ScsiVerif.Props.C01
/-! C01: finite obligations decided by the kernel on the regenerated tables (part b; split only so that lake checks the parts in parallel). -/
namespace C01

theorem ReportPriority_cdb : cmdOK "scsi_cdb_report_priority" "ReportPriority" = true := by decide +kernel
theorem ReportPriority_sets : setsOK "scsi_cdb_report_priority" "ReportPriority" = true := by decide +kernel
theorem ReportTargetPortGroups_cdb : cmdOK "scsi_cdb_report_target_port_groups" "ReportTargetPortGroups" = true := by decide +kernel
theorem ReportTargetPortGroups_sets : setsOK "scsi_cdb_report_target_port_groups" "ReportTargetPortGroups" = true := by decide +kernel
theorem PersistentReserveIn_cdb : cmdOK "scsi_cdb_persistentreservein" "PersistentReserveIn" = true := by decide +kernel
theorem PersistentReserveIn_sets : setsOK "scsi_cdb_persistentreservein" "PersistentReserveIn" = true := by decide +kernel
theorem PersistentReserveInReadKeys_cdb : cmdOK "scsi_cdb_persistentreservein" "PersistentReserveInReadKeys" = true := by decide +kernel
theorem PersistentReserveInReadKeys_sets : setsOK "scsi_cdb_persistentreservein" "PersistentReserveInReadKeys" = true := by decide +kernel
theorem PersistentReserveInReadReservation_cdb : cmdOK "scsi_cdb_persistentreservein" "PersistentReserveInReadReservation" = true := by decide +kernel
theorem PersistentReserveInReadReservation_sets : setsOK "scsi_cdb_persistentreservein" "PersistentReserveInReadReservation" = true := by decide +kernel
theorem PersistentReserveInReportCapabilities_cdb : cmdOK "scsi_cdb_persistentreservein" "PersistentReserveInReportCapabilities" = true := by decide +kernel
theorem PersistentReserveInReportCapabilities_sets : setsOK "scsi_cdb_persistentreservein" "PersistentReserveInReportCapabilities" = true := by decide +kernel
theorem PersistentReserveInReadFullStatus_cdb : cmdOK "scsi_cdb_persistentreservein" "PersistentReserveInReadFullStatus" = true := by decide +kernel
theorem PersistentReserveInReadFullStatus_sets : setsOK "scsi_cdb_persistentreservein" "PersistentReserveInReadFullStatus" = true := by decide +kernel

end C01
