import ScsiVerif.Lemmas.Layout
/-!
# C10 — the bit-field codec obeys its algebraic laws for every layout

Property theorems only.  The model is `ScsiVerif.Model.Conv` (a line-by-line mirror of
`pyscsi/utils/converter.py`, tied to the code by the correspondence harness).
All quantifiers are unbounded: any width `w ≥ 1`, any bit alignment `s`, any byte offset, any
buffer length, any prior contents.
-/
namespace Conv.C10

open Conv

/-- the bit numbered `k` (0 = least significant) of byte `j` of a buffer -/
def bitAt (buf : Bytes) (j k : Nat) : Bool := (buf[j]?.getD 0).testBit k

/-- absolute position, counted from the least significant bit of the last byte -/
def absPos (L j k : Nat) : Nat := 8 * (L - 1 - j) + k

theorem bitAt_eq (buf : Bytes) (hb : BytesOK buf) (j k : Nat) (hj : j < buf.length) (hk : k < 8) :
    bitAt buf j k = (baToInt buf).testBit (absPos buf.length j k) := by
  rw [testBit_baToInt buf hb]
  unfold bitAt absPos
  have h1 : (8 * (buf.length - 1 - j) + k) / 8 = buf.length - 1 - j := by omega
  have h2 : (8 * (buf.length - 1 - j) + k) % 8 = k := by omega
  have h3 : buf.length - 1 - (buf.length - 1 - j) = j := by omega
  have h4 : buf.length - 1 - j < buf.length := by omega
  simp [h1, h2, h3, h4]

/-! ## integer ↔ byte array -/

/-- bytes → int after int → bytes is reduction modulo `256^n` … -/
theorem int_ba_int_mod (v n : Nat) : baToInt (intToBa v n) = v % 2^(8*n) := baToInt_intToBa v n

/-- … hence the identity for every integer below `256**size`, for every size -/
theorem int_ba_int (v n : Nat) (h : v < 2^(8*n)) : baToInt (intToBa v n) = v := by
  rw [baToInt_intToBa, Nat.mod_eq_of_lt h]

/-- int → bytes after bytes → int is the identity on every byte array -/
theorem ba_int_ba (l : Bytes) (h : BytesOK l) : intToBa (baToInt l) l.length = l :=
  intToBa_baToInt l h

/-- the conversion is big-endian: byte `j` holds bits `8(n-1-j) … 8(n-1-j)+7` of the value -/
theorem big_endian (v n j : Nat) (hj : j < n) :
    (intToBa v n)[j]? = some ((v / 2^(8*(n-1-j))) % 256) := by
  rw [intToBa_getElem? v n j hj, Nat.shiftRight_eq_div_pow,
      show (0xFF:Nat) = 2^8 - 1 from by decide, Nat.and_two_pow_sub_one_eq_mod]
  simp [Nat.mul_comm]

theorem length_intToBa (v n : Nat) : (intToBa v n).length = n := intToBa_length v n
theorem bytes_intToBa (v n : Nat) : BytesOK (intToBa v n) := intToBa_ok v n

/-! ## one bit-mask field -/

/-- the bits the field `[mkMask w s, off]` occupies in a buffer of length `L` -/
def inField (L w s off i : Nat) : Prop :=
  lsbPos L (mkMask w s) off ≤ i ∧ i < lsbPos L (mkMask w s) off + w

instance (L w s off i : Nat) : Decidable (inField L w s off i) := by unfold inField; infer_instance

/-- the field lies inside the byte window `off … off+numBytes-1` the code touches -/
theorem field_inside_window (L w s off i : Nat) (hw : 0 < w) (hoff : off + numBytes (mkMask w s) ≤ L)
    (hi : inField L w s off i) :
    8 * (L - off - numBytes (mkMask w s)) ≤ i ∧ i < 8 * (L - off) := by
  unfold inField lsbPos at hi
  rw [tz_mkMask w s hw] at hi
  have := mkMask_fits w s hw
  omega

/-- **Encoding writes the value into exactly the bits of its field and no others.**
For every contiguous mask (any width ≥ 1, any alignment, hence any number of bytes), any offset
inside the buffer, any in-range value and any prior contents: the call succeeds, the length is
unchanged, every bit outside the field is unchanged and bit `i` of the field is XOR-ed with bit
`i - lsb` of the value. -/
theorem encode_exact (buf : Bytes) (w s off v : Nat) (hw : 0 < w) (hb : BytesOK buf)
    (hoff : off + numBytes (mkMask w s) ≤ buf.length) (hv : v < 2^w) :
    ∃ r, encodeMask buf (mkMask w s) off v = .ok r ∧ BytesOK r ∧ r.length = buf.length ∧
      ∀ i, (baToInt r).testBit i =
        if inField buf.length w s off i
        then ((baToInt buf).testBit i ^^ v.testBit (i - lsbPos buf.length (mkMask w s) off))
        else (baToInt buf).testBit i := by
  obtain ⟨r, h1, h2, h3, h4⟩ := encodeMask_nat buf w s off v hw hb hoff hv
  refine ⟨r, h1, h2, h3, ?_⟩
  intro i
  rw [h4, testBit_encode _ _ _ w _ hv]
  rfl

/-- the same statement byte-wise: bit `k` of byte `j` -/
theorem encode_exact_bytes (buf : Bytes) (w s off v : Nat) (hw : 0 < w) (hb : BytesOK buf)
    (hoff : off + numBytes (mkMask w s) ≤ buf.length) (hv : v < 2^w) :
    ∃ r, encodeMask buf (mkMask w s) off v = .ok r ∧ r.length = buf.length ∧
      ∀ j k, j < buf.length → k < 8 →
        bitAt r j k =
          if inField buf.length w s off (absPos buf.length j k)
          then (bitAt buf j k ^^ v.testBit (absPos buf.length j k - lsbPos buf.length (mkMask w s) off))
          else bitAt buf j k := by
  obtain ⟨r, h1, h2, h3, h4⟩ := encode_exact buf w s off v hw hb hoff hv
  refine ⟨r, h1, h3, ?_⟩
  intro j k hj hk
  rw [bitAt_eq r h2 j k (by omega) hk, bitAt_eq buf hb j k hj hk, h3, h4]

/-- outside the buffer the call is refused with `IndexError`, never a silent partial write -/
theorem encode_out_of_bounds (buf : Bytes) (m off v : Nat) (hm : m ≠ 0)
    (hoff : buf.length < off + numBytes m) : encodeMask buf m off v = .error .indexError := by
  unfold encodeMask
  simp only [hm, if_false]
  apply xorAt_error
  · intro h
    have := congrArg List.length h
    simp at this
    have := numBytes_pos m
    omega
  · simpa using hoff

/-- **Decoding reads exactly the bits of the field.** -/
theorem decode_exact (data : Bytes) (w s off : Nat) (hw : 0 < w) (hb : BytesOK data)
    (hoff : off + numBytes (mkMask w s) ≤ data.length) :
    ∀ i, (decodeMask data (mkMask w s) off).testBit i =
      (decide (i < w) && (baToInt data).testBit (lsbPos data.length (mkMask w s) off + i)) := by
  intro i
  rw [decodeMask_nat data w s off hw hb hoff, testBit_field]

/-- … so two buffers that agree on the field's bits decode to the same value, whatever else differs -/
theorem decode_depends_only_on_field (a b : Bytes) (w s off : Nat) (hw : 0 < w)
    (ha : BytesOK a) (hb : BytesOK b) (hl : a.length = b.length)
    (hoff : off + numBytes (mkMask w s) ≤ a.length)
    (hagree : ∀ i, inField a.length w s off i → (baToInt a).testBit i = (baToInt b).testBit i) :
    decodeMask a (mkMask w s) off = decodeMask b (mkMask w s) off := by
  apply Nat.eq_of_testBit_eq
  intro i
  rw [decode_exact a w s off hw ha hoff, decode_exact b w s off hw hb (by omega), ← hl]
  by_cases hi : i < w
  · rw [hagree _ (by unfold inField; omega)]
  · simp [hi]

/-- the decoded value always fits the field -/
theorem decode_lt (data : Bytes) (w s off : Nat) (hw : 0 < w) (hb : BytesOK data)
    (hoff : off + numBytes (mkMask w s) ≤ data.length) :
    decodeMask data (mkMask w s) off < 2^w := by
  rw [decodeMask_nat data w s off hw hb hoff]
  exact Nat.mod_lt _ (Nat.two_pow_pos _)

/-- **Decoding after encoding returns the value**, with arbitrary prior contents outside the
field (the field's own bits must be zero: the code XORs). -/
theorem decode_encode (buf : Bytes) (w s off v : Nat) (hw : 0 < w) (hb : BytesOK buf)
    (hoff : off + numBytes (mkMask w s) ≤ buf.length) (hv : v < 2^w)
    (hz : decodeMask buf (mkMask w s) off = 0) :
    ∃ r, encodeMask buf (mkMask w s) off v = .ok r ∧ decodeMask r (mkMask w s) off = v := by
  obtain ⟨r, h1, h2, h3, h4⟩ := encodeMask_nat buf w s off v hw hb hoff hv
  refine ⟨r, h1, ?_⟩
  rw [decodeMask_nat buf w s off hw hb hoff] at hz
  rw [decodeMask_nat r w s off hw h2 (by omega), h4, h3]
  exact field_xor_same _ _ _ _ hv hz

/-- encoding one field leaves the decoded value of every non-overlapping field unchanged -/
theorem encode_other_field (buf : Bytes) (w s off v w' s' off' : Nat) (hw : 0 < w) (hw' : 0 < w')
    (hb : BytesOK buf) (hoff : off + numBytes (mkMask w s) ≤ buf.length)
    (hoff' : off' + numBytes (mkMask w' s') ≤ buf.length) (hv : v < 2^w)
    (hd : lsbPos buf.length (mkMask w' s') off' + w' ≤ lsbPos buf.length (mkMask w s) off ∨
          lsbPos buf.length (mkMask w s) off + w ≤ lsbPos buf.length (mkMask w' s') off') :
    ∃ r, encodeMask buf (mkMask w s) off v = .ok r ∧
      decodeMask r (mkMask w' s') off' = decodeMask buf (mkMask w' s') off' := by
  obtain ⟨r, h1, h2, h3, h4⟩ := encodeMask_nat buf w s off v hw hb hoff hv
  refine ⟨r, h1, ?_⟩
  rw [decodeMask_nat buf w' s' off' hw' hb hoff', decodeMask_nat r w' s' off' hw' h2 (by omega), h4, h3]
  exact field_xor_other _ _ _ _ _ _ hv hd

/-! ## whole layouts -/

/-- **The result does not depend on the order in which fields are supplied**: for a well-formed
layout, permuting the supplied dictionary yields the same bytes. -/
theorem order_independent (layout : Layout) (L : Nat) (hwf : layout.wf L = true) (d d' : Dict)
    (hp : d.Perm d') (hr : InRange layout d) (buf : Bytes) (hb : BytesOK buf) (hl : buf.length = L) :
    ∃ r, encodeDict d layout buf = .ok r ∧ encodeDict d' layout buf = .ok r := by
  have hr' : InRange layout d' := fun kv hkv => hr kv (hp.mem_iff.mpr hkv)
  obtain ⟨r, h1, h2, h3, h4⟩ := encodeDict_terms layout L hwf d hr buf hb hl
  obtain ⟨r', h1', h2', h3', h4'⟩ := encodeDict_terms layout L hwf d' hr' buf hb hl
  refine ⟨r, h1, ?_⟩
  rw [h1']
  congr 1
  apply baToInt_inj _ _ h2' h2 (by omega)
  rw [h4, h4']; unfold termsOf; rw [xorAll_perm (hp.filterMap _)]

/-- all supplied fields decode to their values after encoding them together into a zeroed buffer -/
theorem layout_decode_encode (layout : Layout) (L : Nat) (hwf : layout.wf L = true) (d : Dict)
    (hr : InRange layout d) (hk : KeysDistinct d) :
    ∃ r, encodeDict d layout (zeros L) = .ok r ∧ r.length = L ∧
      ∀ k m off n, layoutGet? layout k = some (.bits m off) → (k, Val.int n) ∈ d →
        decodeMask r m off = n := by
  obtain ⟨r, h1, _, h3, _⟩ := encodeDict_terms layout L hwf d hr (zeros L) (BytesOK_zeros L) (by simp [zeros])
  exact ⟨r, h1, h3, fun k m off n hg hin => decode_encodeDict layout L hwf d hr hk r h1 k m off n hg hin⟩

/-! ## blob kinds (`'b'`, `'w'`, `'dw'`) -/

/-- a blob of the declared length is stored at its offset, the buffer keeps its length, all other
bytes are unchanged, and decoding returns the blob -/
theorem blob_roundtrip (buf : Bytes) (unit off len : Nat) (v : Bytes)
    (hv : v.length = len * unit) (hoff : off + len * unit ≤ buf.length) :
    ∃ r, encodeField buf (.blob unit off len) (.bytes v) = .ok r ∧ r.length = buf.length ∧
      decodeField r (.blob unit off len) = .bytes v ∧
      (∀ j, j < off ∨ off + len * unit ≤ j → r[j]? = buf[j]?) := by
  refine ⟨setSlice buf off (off + len * unit) v, rfl, ?_, ?_, ?_⟩
  · simp [setSlice]; omega
  · simp only [decodeField, setSlice, slice]
    congr 1
    have h1 : (List.take off buf).length = off := by simp; omega
    rw [List.append_assoc, List.take_append, List.drop_append]
    simp [h1, hv]
  · intro j hj
    simp only [setSlice]
    have h1 : (List.take off buf).length = off := by simp; omega
    rcases hj with hj | hj
    · rw [List.append_assoc, List.getElem?_append_left (by omega), List.getElem?_take]
      simp [hj]
    · rw [List.getElem?_append_right (by simp; omega)]
      simp only [List.length_append, h1, hv, List.getElem?_drop]
      congr 1; omega

/-! ## non-vacuity: the hypotheses are satisfiable by non-trivial inputs -/

example : 0 < 12 ∧ BytesOK [0xAB, 0x00, 0x0F, 0xCD] ∧ 1 + numBytes (mkMask 12 4) ≤ 4 ∧ 0xABC < 2^12 ∧
    decodeMask [0xAB, 0x00, 0x0F, 0xCD] (mkMask 12 4) 1 = 0 ∧
    (encodeMask [0xAB, 0x00, 0x0F, 0xCD] (mkMask 12 4) 1 0xABC).toOption = some [0xAB, 0xAB, 0xCF, 0xCD] := by
  decide +kernel

end Conv.C10
