import ScsiVerif.Model.Attach
import ScsiVerif.Std.T10
import ScsiVerif.Gen.Opcodes
/-!
# C16 — attaching to a device selects the command set of its peripheral device type
-/
namespace C16
open Attach

/-- SPC: peripheral device type → command standard (the assignments the property names) -/
def stdSet (t : Nat) : Option String :=
  match t with
  | 0x00 => some "sbc"   -- direct access block device
  | 0x04 => some "sbc"   -- write-once device
  | 0x07 => some "sbc"   -- optical memory device
  | 0x01 => some "ssc"   -- sequential-access device
  | 0x05 => some "mmc"   -- CD/DVD device
  | 0x08 => some "smc"   -- media changer
  | _ => none             -- processor and everything else: any set offering the primary commands

def byteOK (b : Nat) : Bool :=
  let d := attachDev {} b
  d.devicetype == some (b % 32) &&
  (match stdSet (b % 32) with
   | some s => d.opcodes == s
   | none => true)

theorem all_first_bytes : (List.range 256).all byteOK = true := by decide +kernel

/-- **for all 32 device types × all 8 qualifiers**: a freshly opened device that reports type `t`
gets SBC for 00h/04h/07h, SSC for 01h, MMC for 05h, SMC for 08h; the qualifier bits play no role. -/
theorem selection (b : Nat) (hb : b < 256) :
    (attachDev {} b).devicetype = some (b % 32) ∧
    ∀ s, stdSet (b % 32) = some s → (attachDev {} b).opcodes = s := by
  have h := List.all_eq_true.mp all_first_bytes b (List.mem_range.mpr hb)
  unfold byteOK at h
  simp only [Bool.and_eq_true, beq_iff_eq] at h
  refine ⟨h.1, ?_⟩
  intro s hs
  rw [hs] at h
  simpa using h.2

/-- whatever a device reports, after an attach it holds one of the five command sets (given it did before) -/
theorem selected_is_a_set (d : Dev) (b : Nat) (hd : d.opcodes ∈ ["spc", "sbc", "ssc", "smc", "mmc"]) :
    (attachDev d b).opcodes ∈ ["spc", "sbc", "ssc", "smc", "mmc"] := by
  unfold attachDev pdtChain
  simp only
  split <;> (try split) <;> (try split) <;> (try split) <;> (try split) <;> simp_all

/-- every command set (hence the one selected for processor and unrecognised types) offers the
primary commands INQUIRY, TEST UNIT READY and REPORT LUNS with their T10 operation codes -/
def primaryOK (set : List (String × Cmd.OpCode)) : Bool :=
  ((set.find? (·.1 == "INQUIRY")).map (·.2.value) == some 0x12) &&
  ((set.find? (·.1 == "TEST_UNIT_READY")).map (·.2.value) == some 0x00) &&
  ((set.find? (·.1 == "REPORT_LUNS")).map (·.2.value) == some 0xA0)

theorem every_set_offers_primary_commands : Gen.sets.all (fun s => primaryOK s.2) = true := by decide +kernel

theorem set_names : Gen.sets.map (·.1) = ["spc", "sbc", "ssc", "smc", "mmc"] := by decide +kernel

/-- exactly one INQUIRY per attach -/
theorem one_inquiry (d : Dev) (b : Nat) : (attachDev d b).inquiries = d.inquiries + 1 := rfl

/-! ## re-attaching: no leak between devices -/

theorem attach_other (w : World) (k j b : Nat) (h : j ≠ k) : (attach w k b)[j]? = w[j]? := by
  unfold attach
  simp only [List.getElem?_mapIdx]
  cases w[j]? with
  | none => rfl
  | some d => simp [h]

theorem attach_same (w : World) (k b : Nat) (d : Dev) (h : w[k]? = some d) :
    (attach w k b)[k]? = some (attachDev d b) := by
  unfold attach
  simp [List.getElem?_mapIdx, h]

/-- the events of a history that concern device `j` -/
def eventsOf (j : Nat) (h : List (Nat × Nat)) : List Nat := (h.filter (·.1 = j)).map (·.2)

/-- **for every attach / re-attach history over any number of devices**: the state of device `j`
(its command set, device type, number of INQUIRYs received) is what its *own* attaches make it —
no other device's type ever leaks into it. -/
theorem no_leak (w : World) (h : List (Nat × Nat)) (j : Nat) (d : Dev) (hd : w[j]? = some d) :
    (run w h)[j]? = some ((eventsOf j h).foldl attachDev d) := by
  induction h generalizing w d with
  | nil => simpa [run, eventsOf] using hd
  | cons e rest ih =>
    obtain ⟨k, b⟩ := e
    simp only [run]
    by_cases hk : k = j
    · subst hk
      have := ih (attach w k b) (attachDev d b) (attach_same w k b d hd)
      simpa [eventsOf, List.filter_cons] using this
    · have hne : j ≠ k := fun x => hk x.symm
      have := ih (attach w k b) d (by rw [attach_other w k j b hne]; exact hd)
      simpa [eventsOf, List.filter_cons, hk] using this

/-- in particular the command set of device `j` after any history is determined by the last type it
reported among the recognised ones (and `spc` if it never reported one) -/
theorem last_report_wins (d : Dev) (bs : List Nat) (b : Nat) (s : String) (hs : pdtChain (b &&& 0x1F) = some s) :
    ((bs ++ [b]).foldl attachDev d).opcodes = s := by
  rw [List.foldl_append]
  simp [attachDev, hs]

example : (run [{}, {}] [(0, 0x05), (1, 0x1F), (0, 0x20)])[1]? = some { opcodes := "spc", devicetype := some 31, inquiries := 1 } := by
  decide

end C16
