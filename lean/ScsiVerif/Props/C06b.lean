import ScsiVerif.Props.C06
import ScsiVerif.Props.C04b
import ScsiVerif.Model.Formats.Encode
/-!
# C06 (continued) — whole structures: rebuilding what was parsed reproduces the canonical response

`C04*` proves that the decoders return what the device encoded (`Dec.x (Std.enc… ) = reported …`).
Here the builders (`Enc.*`, models of `marshall_datain`) are shown to produce the standard's
structure from exactly those reported values, for every descriptor count and every value:

    Enc.x (what Dec.x reports for the response r) = r          (bytes → dict → bytes)
    Dec.x (Enc.x d) = d   for d in reported form                (dict → bytes → dict)

for GET LBA STATUS, REPORT PRIORITY and REPORT TARGET PORT GROUPS (length-only header format).
-/
namespace C06
open Conv PVal Std DataCompat DecL C04

theorem layoutGet?_of_mem {lay : Layout} (hk : lay.Pairwise (fun a b => a.1 ≠ b.1)) {k : String} {f : FieldSpec}
    (h : (k, f) ∈ lay) : layoutGet? lay k = some f := by
  unfold layoutGet?
  induction lay with
  | nil => cases h
  | cons x xs ih =>
    rw [List.pairwise_cons] at hk
    simp only [List.find?_cons]
    rcases List.mem_cons.mp h with h | h
    · subst h; simp
    · have : x.1 ≠ k := hk.1 (k, f) h
      have hb : (x.1 == k) = false := by simpa using this
      rw [hb]
      exact ih hk.2 h

/-- one step of `toConv` (the keys `encode_dict` looks at) -/
def convStep (lay : Layout) (acc : Dict) (kv : String × PV) : Except PyErr Dict :=
  match layoutGet? lay kv.1 with
  | Option.none => .ok acc
  | some _ =>
    match kv.2 with
    | .int n => .ok (acc ++ [(kv.1, Val.int n)])
    | .bytes b => .ok (acc ++ [(kv.1, Val.bytes b)])
    | _ => .error .typeError

theorem toConv_eq (lay : Layout) (d : PDict) : toConv lay d = d.foldlM (convStep lay) [] := rfl

theorem convStep_entry (lay : Layout) (acc : Dict) (k : String) (f : FieldSpec) (x : Nat) (hget : layoutGet? lay k = some f) :
    convStep lay acc (k, ofVal (expVal f x)) = .ok (acc ++ [(k, expVal f x)]) := by
  cases f <;> simp [convStep, hget, expVal, ofVal]

/-- the converter sees exactly the table's keys of a reported dictionary -/
theorem toConv_reported_go (lay : Layout) (hk : lay.Pairwise (fun a b => a.1 ≠ b.1)) (v : Vals) (suf : Layout)
    (hsub : ∀ x ∈ suf, x ∈ lay) (acc : Dict) :
    (ofDict (expected suf v)).foldlM (convStep lay) acc = .ok (acc ++ expected suf v) := by
  induction suf generalizing acc with
  | nil => simp [expected, ofDict, pure, Except.pure]
  | cons x xs ih =>
    have hget : layoutGet? lay x.1 = some x.2 := layoutGet?_of_mem hk (hsub x (by simp))
    have hstep := convStep_entry lay acc x.1 x.2 (v x.1) hget
    have hrest := ih (fun y hy => hsub y (by simp [hy])) (acc ++ [(x.1, expVal x.2 (v x.1))])
    show (((x.1, ofVal (expVal x.2 (v x.1))) :: ofDict (expected xs v)).foldlM (convStep lay) acc) = _
    rw [List.foldlM_cons, hstep]
    simp only [bind, Except.bind]
    rw [hrest]
    simp [expected]

theorem toConv_reported (lay : Layout) (hk : lay.Pairwise (fun a b => a.1 ≠ b.1)) (v : Vals) :
    toConv lay (reported lay v) = .ok (expected lay v) := by
  rw [toConv_eq]
  unfold reported
  have := toConv_reported_go lay hk v lay (fun x hx => hx) []
  simpa using this

/-- **a parsed block rebuilds to itself** (nested-value version of `rebuild_canonical`) -/
theorem encodeFrom_reported (b : Block) (lay : Layout) (hOK : C05.pairOK (b, lay) = true) (hcov : covers lay b = true)
    (v : Vals) (hr : InRangeD b.rel v) :
    encodeFrom (reported lay v) lay (zeros b.len) = .ok (b.enc v) := by
  have hOK' := hOK
  unfold C05.pairOK at hOK'
  simp only [Bool.and_eq_true] at hOK'
  have hk := wf_keys hOK'.1
  obtain ⟨d, hd, he⟩ := rebuild_canonical b lay hOK hcov v hr
  have hexp : d = expected lay v := by
    have := compatible_sound lay b.rel b.len hOK'.2 v hr []
    rw [List.append_nil] at this
    unfold Block.enc at hd
    rw [this] at hd
    injection hd with hd
    exact hd.symm
  unfold encodeFrom
  rw [toConv_reported lay hk v]
  simp only [bind, Except.bind]
  rw [← hexp]
  exact he

/-! ## GET LBA STATUS -/

theorem lba_ok : C05.pairOK (lbaStatusDescriptor, Gen.GetLBAStatus_datain_bits) = true ∧
    covers Gen.GetLBAStatus_datain_bits lbaStatusDescriptor = true := by decide +kernel

/-- **bytes → dict → bytes**: rebuilding what the parser reports for a GET LBA STATUS response
    reproduces the response (PARAMETER DATA LENGTH n−3 included), for every descriptor count -/
theorem getLbaStatus_rebuild (ds : List Vals) (hr : ∀ v ∈ ds, InRangeD lbaStatusDescriptor.rel v) :
    Enc.getLbaStatus [("lbas", .list (ds.map (fun v => PV.dict (reported Gen.GetLBAStatus_datain_bits v))))] =
      .ok (encGetLbaStatus ds) := by
  unfold Enc.getLbaStatus
  simp only [PDict.get?, List.find?_cons, beq_self_eq_true, Option.map_some]
  rw [mapM_map_ok _ _ lbaStatusDescriptor.enc]
  · simp only [bind, Except.bind, pure, Except.pure]
    have hlen : ((ds.map lbaStatusDescriptor.enc).flatten).length = 16 * ds.length := by
      rw [flatten_length_const 16 _ (by
        intro x hx
        obtain ⟨v, _, rfl⟩ := List.mem_map.mp hx
        exact enc_length _ v)]
      simp
    unfold encGetLbaStatus
    rw [hlen, toBytes_eq_intToBa]
    rfl
  · intro v hv
    simp only [Enc.asDict, bind, Except.bind]
    exact encodeFrom_reported lbaStatusDescriptor _ lba_ok.1 lba_ok.2 v (hr v hv)

/-- **both directions at once**: the response parses to `d`, and `d` rebuilds to the response -/
theorem getLbaStatus_roundtrip (ds : List Vals) (hr : ∀ v ∈ ds, InRangeD lbaStatusDescriptor.rel v)
    (hfit : 4 + 16 * ds.length < 2 ^ 32) :
    ∃ d, Dec.getLbaStatus (encGetLbaStatus ds) = .ok (.dict d) ∧ Enc.getLbaStatus d = .ok (encGetLbaStatus ds) := by
  refine ⟨[("lbas", .list (ds.map (fun v => PV.dict (reported Gen.GetLBAStatus_datain_bits v))))], ?_, getLbaStatus_rebuild ds hr⟩
  have := getLbaStatus_decodes ds hr hfit []
  rw [List.append_nil] at this
  exact this

/-! ## REPORT PRIORITY -/

theorem prio_ok : C05.pairOK (priorityDescriptor, Gen.ReportPriority_data_bits) = true ∧
    covers Gen.ReportPriority_data_bits priorityDescriptor = true := by decide +kernel

/-- keys the table does not know are skipped by the converter -/
theorem toConv_extra (lay : Layout) (hk : lay.Pairwise (fun a b => a.1 ≠ b.1)) (v : Vals) (k : String) (x : PV)
    (hnot : layoutGet? lay k = none) :
    toConv lay (reported lay v ++ [(k, x)]) = .ok (expected lay v) := by
  rw [toConv_eq, List.foldlM_append]
  have := toConv_reported lay hk v
  rw [toConv_eq] at this
  rw [this]
  simp [bind, Except.bind, convStep, hnot, pure, Except.pure]

theorem set_same (d : PDict) (k : String) (x : PV) (h : (k, x) ∈ d) (hk : d.Pairwise (fun a b => a.1 ≠ b.1)) :
    d.set k x = d := by
  unfold PDict.set
  have hany : d.any (·.1 == k) = true := List.any_eq_true.mpr ⟨(k, x), h, by simp⟩
  rw [if_pos hany]
  induction d with
  | nil => rfl
  | cons y ys ih =>
    rw [List.pairwise_cons] at hk
    simp only [List.map_cons]
    rcases List.mem_cons.mp h with h | h
    · subst h
      simp only [beq_self_eq_true, if_true]
      congr 1
      have : ys.map (fun kv => if (kv.1 == k) = true then (k, x) else kv) = ys.map id := by
        apply List.map_congr_left
        intro z hz
        have : (k ≠ z.1) := hk.1 z hz
        have hb : (z.1 == k) = false := by simpa using this.symm
        simp [hb]
      rw [this, List.map_id]
    · have hne : y.1 ≠ k := hk.1 (k, x) h
      have hb : (y.1 == k) = false := by simpa using hne
      simp only [hb]
      congr 1
      exact ih h hk.2 (List.any_eq_true.mpr ⟨(k, x), h, by simp⟩)

/-- one priority descriptor as the parser reports it rebuilds to the descriptor -/
theorem prio_rebuild_one (d : Vals × Bytes) (h : PrioOK d) :
    (do let l ← Enc.asDict (prioReported d)
        let tid ← (match l.get? "transport_id" with
          | Option.none => pure []
          | some (.bytes b) => pure b
          | some _ => Except.error PyErr.typeError)
        let r ← encodeFrom (l.set "adlen" (.int tid.length)) Gen.ReportPriority_data_bits (zeros 8)
        pure (r ++ tid)) = (.ok (encPriorityDescriptor d) : Except PyErr Bytes) := by
  have hOK := prio_ok.1
  unfold C05.pairOK at hOK
  simp only [Bool.and_eq_true] at hOK
  have hk := wf_keys hOK.1
  have hget : (reported Gen.ReportPriority_data_bits d.1 ++ [("transport_id", PV.bytes d.2)]).get? "transport_id" = some (.bytes d.2) := by
    unfold PDict.get?
    rw [List.find?_append]
    have : (reported Gen.ReportPriority_data_bits d.1).find? (fun x => x.1 == "transport_id") = none := by
      rw [List.find?_eq_none]
      intro x hx
      have hm : x.1 ∈ (reported Gen.ReportPriority_data_bits d.1).map (·.1) := List.mem_map.mpr ⟨x, hx, rfl⟩
      rw [reported_keys] at hm
      intro heq
      simp only [beq_iff_eq] at heq
      rw [heq] at hm
      revert hm
      decide
    rw [this]
    simp
  have hpair : (reported Gen.ReportPriority_data_bits d.1 ++ [("transport_id", PV.bytes d.2)]).Pairwise (fun a b => a.1 ≠ b.1) := by
    rw [List.pairwise_append]
    refine ⟨reported_pairwise hk d.1, by simp, ?_⟩
    intro a ha b hb
    simp only [List.mem_singleton] at hb
    subst hb
    have hm : a.1 ∈ (reported Gen.ReportPriority_data_bits d.1).map (·.1) := List.mem_map.mpr ⟨a, ha, rfl⟩
    rw [reported_keys] at hm
    intro heq
    have hm' : "transport_id" ∈ Gen.ReportPriority_data_bits.map (·.1) := by
      rw [← (show a.1 = "transport_id" from heq)]; exact hm
    revert hm'
    decide
  have hadlen : ("adlen", PV.int d.2.length) ∈ reported Gen.ReportPriority_data_bits d.1 ++ [("transport_id", PV.bytes d.2)] := by
    apply List.mem_append_left
    rw [← h.2]
    unfold reported expected ofDict
    simp only [List.map_map, List.mem_map]
    exact ⟨("adlen", .bits 65535 6), by decide, rfl⟩
  unfold prioReported Enc.asDict
  simp only [bind, Except.bind, pure, Except.pure]
  rw [hget]
  dsimp only
  rw [set_same _ _ _ hadlen hpair]
  unfold encodeFrom
  rw [toConv_extra _ hk d.1 "transport_id" _ (by decide)]
  simp only [bind, Except.bind]
  have he := encodeFrom_reported priorityDescriptor _ prio_ok.1 prio_ok.2 d.1 h.1
  unfold encodeFrom at he
  rw [toConv_reported _ hk d.1] at he
  simp only [bind, Except.bind] at he
  rw [show zeros 8 = zeros priorityDescriptor.len from rfl, he]
  rfl

/-- **bytes → dict → bytes** for REPORT PRIORITY: every descriptor with its TransportID, ADDITIONAL
    DESCRIPTOR LENGTH and PRIORITY PARAMETER DATA LENGTH recomputed by the builder -/
theorem reportPriority_rebuild (ds : List (Vals × Bytes)) (h : ∀ d ∈ ds, PrioOK d) :
    Enc.reportPriority [("priority_descriptors", .list (ds.map prioReported))] = .ok (encReportPriority ds) := by
  unfold Enc.reportPriority
  simp only [PDict.get?, List.find?_cons, beq_self_eq_true, Option.map_some]
  rw [mapM_map_ok _ _ encPriorityDescriptor]
  · simp only [bind, Except.bind, pure, Except.pure]
    unfold encReportPriority
    rw [encPriorityDescriptors_length, toBytes_eq_intToBa]
  · intro d hd
    exact prio_rebuild_one d (h d hd)

theorem reportPriority_roundtrip (ds : List (Vals × Bytes)) (h : ∀ d ∈ ds, PrioOK d) (hfit : prioBodyLen ds < 2 ^ 32) :
    ∃ d, Dec.reportPriority (encReportPriority ds) = .ok (.dict d) ∧ Enc.reportPriority d = .ok (encReportPriority ds) := by
  refine ⟨[("priority_descriptors", .list (ds.map prioReported))], ?_, reportPriority_rebuild ds h⟩
  have := reportPriority_decodes ds h hfit []
  rw [List.append_nil] at this
  exact this

/-! ## REPORT TARGET PORT GROUPS (length only header format) -/

theorem tpgd_ok : C05.pairOK (tpgDescriptor, Gen.ReportTargetPortGroups_tpgd_bits) = true ∧
    covers Gen.ReportTargetPortGroups_tpgd_bits tpgDescriptor = true := by decide +kernel

theorem tport_id_mem : (⟨"relative_target_port_id", 2, 7, 16⟩ : DField) ∈ targetPortDescriptor.rel := by decide

/-- a target port descriptor is two reserved bytes and the 2-byte RELATIVE TARGET PORT IDENTIFIER -/
theorem tport_enc (p : Vals) (hr : InRangeD targetPortDescriptor.rel p) :
    targetPortDescriptor.enc p = zeros 2 ++ intToBa (p "relative_target_port_id") 2 := by
  have hlt : p "relative_target_port_id" < 2 ^ 16 := hr ⟨"relative_target_port_id", 2, 7, 16⟩ tport_id_mem
  have hlen : (zeros 2 ++ intToBa (p "relative_target_port_id") 2).length = 4 := by simp [zeros]
  apply baToInt_inj _ _ (enc_ok _ _) (BytesOK.append (BytesOK_zeros 2) (intToBa_ok _ _))
  · rw [enc_length, hlen]; rfl
  · have h1 : baToInt (targetPortDescriptor.enc p) = p "relative_target_port_id" := by
      unfold Block.enc encodeD
      rw [toBytes_eq_intToBa, baToInt_intToBa]
      have : valueD targetPortDescriptor.len targetPortDescriptor.rel p = p "relative_target_port_id" * 2 ^ 0 + 0 := rfl
      rw [this]
      simp only [Nat.pow_zero, Nat.mul_one, Nat.add_zero]
      apply Nat.mod_eq_of_lt
      have : (2:Nat) ^ 16 ≤ 2 ^ (8 * targetPortDescriptor.len) := Nat.pow_le_pow_right (by decide) (by decide)
      omega
    rw [h1, baToInt_append, baToInt_zeros, baToInt_intToBa, Nat.mod_eq_of_lt (by simpa using hlt)]
    simp

theorem getList_last (d : PDict) (k : String) (l : List PV) (hfresh : ∀ kv ∈ d, kv.1 ≠ k) :
    getList (d ++ [(k, PV.list l)]) k = .ok l := by
  unfold getList PDict.get?
  rw [List.find?_append]
  have : d.find? (fun x => x.1 == k) = none := by
    rw [List.find?_eq_none]
    intro x hx
    simpa using hfresh x hx
  rw [this]
  simp

theorem tpgd_keys_fresh (v : Vals) : ∀ kv ∈ reported Gen.ReportTargetPortGroups_tpgd_bits v, kv.1 ≠ "target_ports" := by
  intro kv hkv heq
  have hm : kv.1 ∈ (reported Gen.ReportTargetPortGroups_tpgd_bits v).map (·.1) := List.mem_map.mpr ⟨kv, hkv, rfl⟩
  rw [reported_keys, heq] at hm
  revert hm
  decide

/-- the target port descriptors of one group, as the builder writes them -/
theorem ports_rebuild (ps : List Vals) (h : ∀ p ∈ ps, InRangeD targetPortDescriptor.rel p) :
    (ps.map portReported).mapM (fun p => do
        let p ← Enc.asDict p
        pure (zeros 2 ++ intToBa (← getInt p "relative_target_port_id") 2)) =
      (.ok (ps.map targetPortDescriptor.enc) : Except PyErr (List Bytes)) := by
  apply mapM_map_ok
  intro p hp
  simp only [portReported, Enc.asDict, bind, Except.bind, getInt, PDict.get?, List.find?_cons, beq_self_eq_true, Option.map_some, pure, Except.pure]
  rw [tport_enc p (h p hp)]

/-- one target port group descriptor as the parser reports it rebuilds to the descriptor -/
theorem tpg_rebuild_one (g : Vals × List Vals) (h : TpgOK g) :
    (do let gd ← Enc.asDict (tpgReported g)
        let hdr ← encodeFrom gd Gen.ReportTargetPortGroups_tpgd_bits (zeros 8)
        let ports ← getList gd "target_ports"
        let ps ← ports.mapM (fun p => do
          let p ← Enc.asDict p
          pure (zeros 2 ++ intToBa (← getInt p "relative_target_port_id") 2))
        pure (hdr ++ ps.flatten)) = (.ok (encTpg g) : Except PyErr Bytes) := by
  have hOK := tpgd_ok.1
  unfold C05.pairOK at hOK
  simp only [Bool.and_eq_true] at hOK
  have hk := wf_keys hOK.1
  have henc : encodeFrom (reported Gen.ReportTargetPortGroups_tpgd_bits g.1 ++ [("target_ports", PV.list (g.2.map portReported))])
      Gen.ReportTargetPortGroups_tpgd_bits (zeros 8) = .ok (tpgDescriptor.enc g.1) := by
    have he := encodeFrom_reported tpgDescriptor _ tpgd_ok.1 tpgd_ok.2 g.1 h.1
    unfold encodeFrom at he ⊢
    rw [toConv_reported _ hk g.1] at he
    rw [toConv_extra _ hk g.1 "target_ports" _ (by decide)]
    exact he
  unfold tpgReported
  rw [show Enc.asDict (PV.dict (reported Gen.ReportTargetPortGroups_tpgd_bits g.1 ++ [("target_ports", PV.list (g.2.map portReported))]))
      = .ok (reported Gen.ReportTargetPortGroups_tpgd_bits g.1 ++ [("target_ports", PV.list (g.2.map portReported))]) from rfl]
  rw [bind_ok, henc, bind_ok, getList_last _ _ _ (tpgd_keys_fresh g.1), bind_ok, ports_rebuild g.2 h.2.2, bind_ok]
  rfl

/-- **bytes → dict → bytes** for REPORT TARGET PORT GROUPS (length only header format): every group with
    its target ports, RETURN DATA LENGTH recomputed by the builder -/
theorem rtpg_rebuild (gs : List (Vals × List Vals)) (h : ∀ g ∈ gs, TpgOK g) :
    Enc.reportTargetPortGroups [("format_type", .int 0), ("target_port_group_descriptors", .list (gs.map tpgReported))] =
      .ok (encRtpg gs) := by
  unfold Enc.reportTargetPortGroups
  have hg : getList [("format_type", PV.int 0), ("target_port_group_descriptors", PV.list (gs.map tpgReported))]
      "target_port_group_descriptors" = .ok (gs.map tpgReported) := by
    simp [getList, PDict.get?]
  have hft : PDict.get? [("format_type", PV.int 0), ("target_port_group_descriptors", PV.list (gs.map tpgReported))] "format_type"
      = some (.int 0) := by
    simp [PDict.get?]
  rw [hft]
  simp only [Bool.false_eq_true, if_false]
  rw [show (pure [] : Except PyErr Bytes) = Except.ok [] from rfl, bind_ok, hg, bind_ok]
  rw [mapM_map_ok _ _ encTpg gs (fun g hgm => tpg_rebuild_one g (h g hgm)), bind_ok]
  unfold encRtpg
  simp only [List.nil_append, pure, Except.pure]
  rw [encTpgs_length, toBytes_eq_intToBa]

theorem rtpg_roundtrip (gs : List (Vals × List Vals)) (h : ∀ g ∈ gs, TpgOK g) (hfit : tpgBodyLen gs < 2 ^ 32) :
    ∃ d, Dec.reportTargetPortGroups (encRtpg gs) = .ok (.dict d) ∧ Enc.reportTargetPortGroups d = .ok (encRtpg gs) := by
  refine ⟨[("format_type", .int 0), ("target_port_group_descriptors", .list (gs.map tpgReported))], ?_, rtpg_rebuild gs h⟩
  have := rtpg_decodes gs h hfit []
  rw [List.append_nil] at this
  exact this

/-! ## REPORT LUNS -/

theorem lun_ok : C05.pairOK (lunEntry, Gen.ReportLuns_datain_bits) = true ∧ covers Gen.ReportLuns_datain_bits lunEntry = true := by
  decide +kernel

theorem mapM_mapIdx_ok {α β γ : Type} (f : Nat × β → Except PyErr γ) (e : Nat → α → β) (g : α → γ) (l : List α) (k : Nat)
    (h : ∀ i, ∀ x ∈ l, f (k + i, e (k + i) x) = .ok (g x)) :
    ((l.mapIdx (fun i x => e (k + i) x)).mapIdx (fun i y => (k + i, y))).mapM f = .ok (l.map g) := by
  induction l generalizing k with
  | nil => rfl
  | cons x xs ih =>
    simp only [List.mapIdx_cons, List.mapM_cons, Nat.add_zero, List.map_cons]
    have h0 : f (k, e k x) = .ok (g x) := by have := h 0 x (by simp); simpa using this
    have hrest := ih (k + 1) (fun i y hy => by
      have := h (i + 1) y (by simp [hy])
      have e1 : k + 1 + i = k + (i + 1) := by omega
      rw [e1]; exact this)
    have e2 : ∀ i, k + 1 + i = k + (i + 1) := by intro i; omega
    simp only [e2] at hrest
    rw [h0, bind_ok, hrest, bind_ok]
    rfl

theorem mapM_mapIdx_ok0 {α β γ : Type} (f : Nat × β → Except PyErr γ) (e : Nat → α → β) (g : α → γ) (l : List α)
    (h : ∀ i, ∀ x ∈ l, f (i, e i x) = .ok (g x)) :
    ((l.mapIdx (fun i x => e i x)).mapIdx (fun i y => (i, y))).mapM f = .ok (l.map g) := by
  have := mapM_mapIdx_ok f e g l 0 (fun i x hx => by simpa using h i x hx)
  simpa using this

/-- one LUN entry under the key the parser gave it (`lun<i>`) rebuilds to the 8-byte entry -/
theorem lun_rebuild_one (i : Nat) (v : Vals) (hr : InRangeD lunEntry.rel v) :
    (do let l ← Enc.asDict (PV.dict [("lun" ++ toString i, .int (v "lun"))])
        let x := match l.get? ("lun" ++ toString i) with
          | some x => x
          | Option.none => (l.get? "lun").getD (.int 0)
        encodeFrom [("lun", x)] Gen.ReportLuns_datain_bits (zeros 8)) = (.ok (lunEntry.enc v) : Except PyErr Bytes) := by
  have he := encodeFrom_reported lunEntry _ lun_ok.1 lun_ok.2 v hr
  rw [lun_reported] at he
  rw [show Enc.asDict (PV.dict [("lun" ++ toString i, PV.int (v "lun"))]) = .ok [("lun" ++ toString i, PV.int (v "lun"))] from rfl, bind_ok]
  have hg : PDict.get? [("lun" ++ toString i, PV.int (v "lun"))] ("lun" ++ toString i) = some (.int (v "lun")) := by
    simp [PDict.get?]
  simp only [hg]
  exact he

/-- **bytes → dict → bytes** for REPORT LUNS: the entries the parser reports under `lun0`, `lun1`, … rebuild, in order,
    to the LUN list with LUN LIST LENGTH (n−7) recomputed -/
theorem reportLuns_rebuild (luns : List Vals) (hr : ∀ v ∈ luns, InRangeD lunEntry.rel v) :
    Enc.reportLuns [("luns", .list (luns.mapIdx (fun i v => PV.dict [("lun" ++ toString i, .int (v "lun"))])))] =
      .ok (encReportLuns luns) := by
  unfold Enc.reportLuns
  rw [show PDict.get? [("luns", PV.list (luns.mapIdx (fun i v => PV.dict [("lun" ++ toString i, PV.int (v "lun"))])))] "luns"
      = some (.list (luns.mapIdx (fun i v => PV.dict [("lun" ++ toString i, PV.int (v "lun"))]))) from by simp [PDict.get?]]
  dsimp only
  rw [mapM_mapIdx_ok0 _ (fun i v => PV.dict [("lun" ++ toString i, PV.int (v "lun"))]) lunEntry.enc luns
    (fun i v hv => lun_rebuild_one i v (hr v hv)), bind_ok]
  have hlen : ((luns.map lunEntry.enc).flatten).length = 8 * luns.length := by
    rw [flatten_length_const 8 _ (by
      intro y hy
      obtain ⟨v, _, rfl⟩ := List.mem_map.mp hy
      exact enc_length _ v)]
    simp
  unfold encReportLuns
  simp only [pure, Except.pure]
  rw [hlen, toBytes_eq_intToBa]
  rfl

theorem reportLuns_roundtrip (luns : List Vals) (hr : ∀ v ∈ luns, InRangeD lunEntry.rel v) (hfit : 8 * luns.length < 2 ^ 32) :
    ∃ d, Dec.reportLuns (encReportLuns luns) = .ok (.dict d) ∧ Enc.reportLuns d = .ok (encReportLuns luns) := by
  refine ⟨[("luns", .list (luns.mapIdx (fun i v => PV.dict [("lun" ++ toString i, .int (v "lun"))])))], ?_, reportLuns_rebuild luns hr⟩
  have := reportLuns_decodes luns hr hfit []
  rw [List.append_nil] at this
  exact this

end C06
