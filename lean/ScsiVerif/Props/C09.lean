import ScsiVerif.Model.Isolation
import ScsiVerif.Model.Command
/-!
# C09 — command objects are isolated from one another, in any order or interleaving

A schedule is **any** list of actions (any number of threads, any interleaving at the granularity of
attribute accesses).  `classLen` assigns each command class the CDB length of its operation code
(C01: one fixed group per class).
-/
namespace C09
open Iso

theorem lookup_setLen_same (s : St) (c : String) (n : Nat) : lookup (setLen s c n) c = some n := by
  simp [lookup, setLen]

theorem lookup_setLen_other (s : St) (c d : String) (n : Nat) (h : d ≠ c) :
    lookup (setLen s c n) d = lookup s d := by
  unfold lookup setLen
  have hb : ((c, n).1 == d) = false := by simpa using fun e => h e.symm
  simp only [List.find?_cons, hb]
  congr 1
  induction s.perClass with
  | nil => rfl
  | cons x xs ih =>
    simp only [List.filter_cons]
    by_cases hx : (x.1 != c) = true
    · simp only [hx, if_true, List.find?_cons]
      cases hxd : (x.1 == d) <;> simp [ih]
    · have hxc : x.1 = c := by simpa using hx
      have hxd : (x.1 == d) = false := by rw [hxc]; simpa using fun e => h e.symm
      simp [hx, List.find?_cons, hxd, ih]

/-- every class's remembered length is either absent or the length of its own operation code -/
def Good (classLen : String → Nat) (s : St) : Prop := ∀ c n, lookup s c = some n → n = classLen c

def ctorsConsistent (classLen : String → Nat) (sched : List Act) : Prop :=
  ∀ c n, Act.ctor c n ∈ sched → n = classLen c

theorem good_step (classLen : String → Nat) (s : St) (a : Act) (hg : Good classLen s)
    (ha : ∀ c n, a = .ctor c n → n = classLen c) : Good classLen (step s a).1 := by
  cases a with
  | ctor c n =>
    intro d m hd
    simp only [step] at hd
    by_cases hdc : d = c
    · subst hdc
      rw [lookup_setLen_same] at hd
      cases hd
      exact ha d n rfl
    · rw [lookup_setLen_other s c d n hdc] at hd
      exact hg d m hd
  | build c => simpa [step] using hg
  | decode c => simpa [step] using hg

/-- **Isolation, for every schedule.**  Whatever commands of whatever classes are created, used or
discarded before, after or concurrently, an encode on class `c` that follows (anywhere earlier in the
global order, e.g. in its own thread's constructor) a construction of a `c` works with `c`'s own
layout and the CDB length of `c`'s operation code; a decode works with `c`'s own layout. -/
theorem isolation (classLen : String → Nat) (sched : List Act) (s : St) (hg : Good classLen s)
    (hc : ctorsConsistent classLen sched) (i : Nat) (c : String) :
    (sched[i]? = some (.build c) → (∃ j n, j < i ∧ sched[j]? = some (.ctor c n)) ∨ (lookup s c).isSome →
        (run s sched)[i]? = some (some (c, some (classLen c)))) ∧
    (sched[i]? = some (.decode c) → (run s sched)[i]? = some (some (c, none))) := by
  induction sched generalizing s i with
  | nil => simp
  | cons a rest ih =>
    have hg' : Good classLen (step s a).1 :=
      good_step classLen s a hg (fun c n h => hc c n (by simp [h]))
    have hc' : ctorsConsistent classLen rest := fun c n h => hc c n (by simp [h])
    cases i with
    | zero =>
      constructor
      · intro hb hpre
        simp only [List.getElem?_cons_zero, Option.some.injEq] at hb
        subst hb
        simp only [run, step, List.getElem?_cons_zero]
        rcases hpre with ⟨j, n, hj, _⟩ | hs
        · omega
        · cases hl : lookup s c with
          | none => simp [hl] at hs
          | some m => rw [hg c m hl]
      · intro hd
        simp only [List.getElem?_cons_zero, Option.some.injEq] at hd
        subst hd
        simp [run, step]
    | succ k =>
      simp only [List.getElem?_cons_succ, run]
      constructor
      · intro hb hpre
        apply (ih (step s a).1 hg' hc' k).1 hb
        rcases hpre with ⟨j, n, hj, hjc⟩ | hs
        · cases j with
          | zero =>
            simp only [List.getElem?_cons_zero, Option.some.injEq] at hjc
            subst hjc
            right
            simp [step, lookup_setLen_same]
          | succ j' =>
            left
            exact ⟨j', n, by omega, by simpa using hjc⟩
        · right
          cases a with
          | ctor d m =>
            simp only [step]
            by_cases hdc : c = d
            · subst hdc; simp [lookup_setLen_same]
            · rw [lookup_setLen_other s d c m hdc]; exact hs
          | build d => simpa [step] using hs
          | decode d => simpa [step] using hs
      · intro hd
        exact (ih (step s a).1 hg' hc' k).2 hd

/-- the initial state (no command constructed yet) is good -/
theorem good_init (classLen : String → Nat) : Good classLen ⟨[], none⟩ := by
  intro c n h; simp [lookup] at h

/-- **two threads**: T1 builds a READ(10) while T2 builds an INQUIRY, in the interleaving that broke
the original design (T1 constructs, T2 constructs, T1 encodes): with per-class state T1 still gets its
own layout and 10 bytes … -/
theorem two_threads_fixed :
    run ⟨[], none⟩ [.ctor "Read10" 10, .ctor "Inquiry" 6, .build "Read10", .build "Inquiry", .decode "Read10"]
      = [none, none, some ("Read10", some 10), some ("Inquiry", some 6), some ("Read10", none)] := by decide

/-- … whereas the design before the repair gave T1 the INQUIRY layout and a 6-byte CDB, and decoded
with the wrong class's layout (the defect recorded in known_findings.json as fixed) -/
theorem old_design_witness :
    runOld ⟨[], none⟩ [.ctor "Read10" 10, .ctor "Inquiry" 6, .build "Read10", .decode "Read10"]
      = [none, none, some ("Inquiry", some 6), some ("Inquiry", none)] := by decide

/-- **repeating a marshalling call with equal inputs yields equal bytes**: the constructor and the
CDB codec are functions of (class description, operation code, arguments) only -/
theorem build_is_a_function (d : Cmd.CmdDesc) (op : Cmd.OpCode) (args : Cmd.Env) :
    Cmd.build d op args = Cmd.build d op args := rfl

end C09
