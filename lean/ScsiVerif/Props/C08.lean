import ScsiVerif.Lemmas.Roundtrip
import ScsiVerif.Model.Sense
import ScsiVerif.Std.Sense
/-!
# C08 — sense data is always decodable and printable, with the right key/ASC/ASCQ
-/
namespace C08
open Conv Sense Std

theorem fixed_wf : Gen.SCSICheckCondition_fixed_format_sdata_bits.wf 18 = true := by decide +kernel
theorem desc_wf : Gen.SCSICheckCondition_desc_format_sdata_bits.wf 8 = true := by decide +kernel

theorem fixed_entries :
    layoutGet? Gen.SCSICheckCondition_fixed_format_sdata_bits "sense_key" = some (.bits 0x0F 2) ∧
    layoutGet? Gen.SCSICheckCondition_fixed_format_sdata_bits "additional_sense_code" = some (.bits 0xFF 12) ∧
    layoutGet? Gen.SCSICheckCondition_fixed_format_sdata_bits "additional_sense_code_qualifier" = some (.bits 0xFF 13) := by
  decide +kernel

theorem desc_entries :
    layoutGet? Gen.SCSICheckCondition_desc_format_sdata_bits "sense_key" = some (.bits 0x0F 1) ∧
    layoutGet? Gen.SCSICheckCondition_desc_format_sdata_bits "additional_sense_code" = some (.bits 0xFF 2) ∧
    layoutGet? Gen.SCSICheckCondition_desc_format_sdata_bits "additional_sense_code_qualifier" = some (.bits 0xFF 3) := by
  decide +kernel

theorem getInt_decoded (data : Bytes) (layout : Layout) (L : Nat) (hwf : layout.wf L = true)
    (k : String) (m off : Nat) (hg : layoutGet? layout k = some (.bits m off)) :
    getInt (decodedOf data layout) k = .ok (decodeMask data m off) := by
  unfold getInt
  rw [dictGet?_decodedOf data layout L hwf k _ hg]
  simp [decodeField]

/-- what `decode_bits` reads for a one-byte mask, for buffers of **any** length (a missing byte reads 0) -/
theorem decodeMask_byte (data : Bytes) (m off : Nat) (hm : m ≤ 0xFF) :
    decodeMask data m off = ((data[off]?.getD 0) >>> tz m) &&& (m >>> tz m) := by
  unfold decodeMask
  have hn : numBytes m = 1 := by
    unfold numBytes
    have : ¬ m > 0xFF := by omega
    simp [this]
  rw [hn]
  have : baToInt (slice data off (off + 1)) = data[off]?.getD 0 := by
    unfold slice
    cases h : data[off]? with
    | none =>
      have hl : data.length ≤ off := by
        rcases Nat.lt_or_ge off data.length with hlt | hge
        · rw [List.getElem?_eq_getElem hlt] at h; cases h
        · exact hge
      have : List.drop off (List.take (off + 1) data) = [] := by
        apply List.drop_eq_nil_of_le
        simp; omega
      simp [this, baToInt]
    | some x =>
      have hl : off < data.length := by
        rcases Nat.lt_or_ge off data.length with hlt | hge
        · exact hlt
        · rw [List.getElem?_eq_none hge] at h; cases h
      have : List.drop off (List.take (off + 1) data) = [x] := by
        apply List.ext_getElem?
        intro i
        simp only [List.getElem?_drop, List.getElem?_take]
        cases i with
        | zero => simp [h]
        | succ j => simp
      simp [this, baToInt]
  rw [this]

theorem tz_ff : tz 0xFF = 0 ∧ tz 0x0F = 0 := by decide +kernel

theorem low_nibble (x : Nat) : x &&& 0x0F = x % 16 := by
  rw [show (0x0F : Nat) = 2^4 - 1 from by decide, Nat.and_two_pow_sub_one_eq_mod]

theorem low_byte (x : Nat) (hx : x < 256) : x &&& 0xFF = x := by
  rw [show (0xFF : Nat) = 2^8 - 1 from by decide, Nat.and_two_pow_sub_one_eq_mod]
  exact Nat.mod_eq_of_lt hx

theorem str_ok_of_key (e : Err) (k : Nat) (hk : getInt e.data "sense_key" = .ok k) : ∃ s, str e = .ok s := by
  unfold str
  cases e.asc <;> cases e.ascq <;> simp [hk, bind, Except.bind, pure, Except.pure]

/-- **Construction and printing never raise**: for every non-empty sense buffer — any response
code, any length, any contents — the error object can be built and converted to text. -/
theorem never_raises (sense : Bytes) (hne : sense ≠ []) : ∃ e s, mk sense = .ok e ∧ str e = .ok s := by
  cases sense with
  | nil => exact absurd rfl hne
  | cons b0 rest =>
    unfold mk
    simp only
    obtain ⟨f1, f2, f3⟩ := fixed_entries
    obtain ⟨d1, d2, d3⟩ := desc_entries
    by_cases h1 : (b0 &&& 0x7F = 0x70 ∨ b0 &&& 0x7F = 0x71)
    · simp only [h1, if_true, decodeBits_wf _ _ 18 fixed_wf, bind, Except.bind,
        getInt_decoded _ _ 18 fixed_wf _ _ _ f2, getInt_decoded _ _ 18 fixed_wf _ _ _ f3, pure, Except.pure]
      obtain ⟨s, hs⟩ := str_ok_of_key ⟨b0 &&& 0x80, b0 &&& 0x7F, decodedOf (b0 :: rest) Gen.SCSICheckCondition_fixed_format_sdata_bits,
        some (decodeMask (b0 :: rest) 0xFF 12), some (decodeMask (b0 :: rest) 0xFF 13)⟩ _ (getInt_decoded _ _ 18 fixed_wf _ _ _ f1)
      exact ⟨_, s, rfl, hs⟩
    · by_cases h2 : (b0 &&& 0x7F = 0x72 ∨ b0 &&& 0x7F = 0x73)
      · simp only [h1, h2, if_true, if_false, decodeBits_wf _ _ 8 desc_wf, bind, Except.bind,
          getInt_decoded _ _ 8 desc_wf _ _ _ d2, getInt_decoded _ _ 8 desc_wf _ _ _ d3, pure, Except.pure]
        obtain ⟨s, hs⟩ := str_ok_of_key ⟨b0 &&& 0x80, b0 &&& 0x7F, decodedOf (b0 :: rest) Gen.SCSICheckCondition_desc_format_sdata_bits,
          some (decodeMask (b0 :: rest) 0xFF 2), some (decodeMask (b0 :: rest) 0xFF 3)⟩ _ (getInt_decoded _ _ 8 desc_wf _ _ _ d1)
        exact ⟨_, s, rfl, hs⟩
      · simp only [h1, h2, if_false]
        exact ⟨_, _, rfl, rfl⟩

/-- **The sense key, ASC and ASCQ reported are the values at the positions SPC defines** for the
format (fixed 70h/71h: byte 2 low nibble, bytes 12, 13; descriptor 72h/73h: byte 1 low nibble,
bytes 2, 3) — current or deferred, for buffers of every length (a byte beyond the end reads 0). -/
theorem reports_spc_fields (sense : Bytes) (hb : ∀ b ∈ sense, b < 256) (e : Err) (h : mk sense = .ok e) :
    triple e = senseFields sense := by
  cases sense with
  | nil => simp [mk] at h
  | cons b0 rest =>
    obtain ⟨f1, f2, f3⟩ := fixed_entries
    obtain ⟨d1, d2, d3⟩ := desc_entries
    have hrc : byteAt (b0 :: rest) 0 % 128 = b0 &&& 0x7F := by
      simp [byteAt]
      rw [show (0x7F : Nat) = 2^7 - 1 from by decide, Nat.and_two_pow_sub_one_eq_mod]
    have hby : ∀ i : Nat, (b0 :: rest)[i]?.getD 0 < 256 := by
      intro i
      cases hi : (b0 :: rest)[i]? with
      | none => simp
      | some x => simp; exact hb x (List.mem_of_getElem? hi)
    unfold mk at h
    simp only at h
    unfold senseFields
    rw [hrc]
    by_cases h1 : (b0 &&& 0x7F = 0x70 ∨ b0 &&& 0x7F = 0x71)
    · simp only [h1, if_true, decodeBits_wf _ _ 18 fixed_wf, bind, Except.bind,
        getInt_decoded _ _ 18 fixed_wf _ _ _ f2, getInt_decoded _ _ 18 fixed_wf _ _ _ f3, pure, Except.pure] at h ⊢
      cases h
      simp only [triple, getInt_decoded _ _ 18 fixed_wf _ _ _ f1, Except.toOption]
      rw [decodeMask_byte _ _ _ (by decide), decodeMask_byte _ _ _ (by decide), decodeMask_byte _ _ _ (by decide)]
      simp only [tz_ff.1, tz_ff.2, Nat.shiftRight_zero, low_nibble, byteAt]
      rw [low_byte _ (hby 12), low_byte _ (hby 13)]
    · by_cases h2 : (b0 &&& 0x7F = 0x72 ∨ b0 &&& 0x7F = 0x73)
      · simp only [h1, h2, if_true, if_false, decodeBits_wf _ _ 8 desc_wf, bind, Except.bind,
          getInt_decoded _ _ 8 desc_wf _ _ _ d2, getInt_decoded _ _ 8 desc_wf _ _ _ d3, pure, Except.pure] at h ⊢
        cases h
        simp only [triple, getInt_decoded _ _ 8 desc_wf _ _ _ d1, Except.toOption]
        rw [decodeMask_byte _ _ _ (by decide), decodeMask_byte _ _ _ (by decide), decodeMask_byte _ _ _ (by decide)]
        simp only [tz_ff.1, tz_ff.2, Nat.shiftRight_zero, low_nibble, byteAt]
        rw [low_byte _ (hby 2), low_byte _ (hby 3)]
      · simp only [h1, h2, if_false] at h ⊢
        cases h
        simp [triple, getInt, dictGet?]

/-- every one of the 65 536 ASC/ASCQ pairs and every one of the 16 sense keys has a description
(`describeAscq` and the key lookup are total functions: no `KeyError` is possible) -/
theorem every_code_described (asc ascq : Nat) : ∃ s, describeAscq asc ascq = s := ⟨_, rfl⟩

/-- **assigned codes are described by their T10 text** (the well-known assignments of `Std.ascqNames`,
compared case-insensitively), decided on the regenerated table -/
theorem known_codes_have_t10_text :
    Std.ascqNames.all (fun e => (lookupText Gen.senseAscq (e.1 * 256 + e.2.1)).map upper == some e.2.2) = true := by
  decide +kernel

theorem sense_keys_have_t10_names :
    Std.senseKeyNames.all (fun e => (lookupText Gen.senseKeys e.1).map upper == some e.2) = true := by
  decide +kernel

/-- the vendor-specific ranges are 80h–FFh -/
theorem vendor_range : Gen.vendorAscLo = 0x80 ∧ Gen.vendorAscHi = 0xFF := by decide +kernel

/-- **every listed pair is described by the table's own text** (also inside the vendor ranges: 5Dh/FFh) -/
theorem listed_pair_uses_table (asc ascq : Nat) (t : String)
    (ht : lookupText Gen.senseAscq (asc * 256 + ascq) = some t) : describeAscq asc ascq = t := by
  simp [describeAscq, ht]

/-- hence the well-known assignments are described by their T10 text -/
theorem known_codes_described (e : Nat × Nat × String) (he : e ∈ Std.ascqNames) :
    ∃ t, describeAscq e.1 e.2.1 = t ∧ upper t = e.2.2 := by
  have h := List.all_eq_true.mp known_codes_have_t10_text e he
  cases hl : lookupText Gen.senseAscq (e.1 * 256 + e.2.1) with
  | none => simp [hl] at h
  | some t =>
    simp only [hl, Option.map_some, beq_iff_eq, Option.some.injEq] at h
    exact ⟨t, listed_pair_uses_table _ _ t hl, h⟩

example : (mk [0x72, 0x05, 0x24, 0x00, 0, 0, 0, 0]).toOption.bind triple = some (5, 0x24, 0) := by decide +kernel

end C08
