import ScsiVerif.Props.C04f
/-!
# C04 (continued) — READ FULL STATUS with TransportIDs of varying size

The whole-response theorem of C04d again, now for registrants whose TransportID is either one of the fixed-size formats
(FCP, SBP, SRP, SAS) or an iSCSI name (format 00b, any name length and padding): every full status descriptor inside
ADDITIONAL LENGTH, stride 24 + ADDITIONAL DESCRIPTOR LENGTH, in order, for every descriptor count.
-/
namespace C04
open Conv PVal Std DataCompat DecL Dec

def TidOK : Tid → Prop
  | .fixed K tv => K ∈ tidKinds ∧ InRangeD K.blk.rel tv ∧ tv "protocol_id" = K.pid
  | .iscsi name pad => (∀ c ∈ name, 0 < c ∧ c < 128) ∧ name.length + pad < 2 ^ 16

def tidAnyReported : Tid → PDict
  | .fixed K tv => tidReported K tv
  | .iscsi name pad => reported Gen.PersistentReserveInReadFullStatus_transport_id_bits (iscsiVals name pad)
      ++ [("iscsi_name", .str (String.ofList (name.map Char.ofNat)))]

theorem transportId_any (t : Tid) (h : TidOK t) (rest : Bytes) : Dec.transportId (t.bytes ++ rest) = .ok (tidAnyReported t) := by
  cases t with
  | fixed K tv => exact transportId_fixed K h.1 tv h.2.1 h.2.2 rest
  | iscsi name pad => exact transportId_iscsi_name name pad h.1 h.2 rest

theorem tid_bytes_pos (t : Tid) (h : TidOK t) : 0 < t.bytes.length := by
  cases t with
  | fixed K tv => simp only [Tid.bytes]; rw [tid_len K h.1]; decide
  | iscsi name pad =>
    simp only [Tid.bytes, encTidIscsiName, List.length_append, enc_length]
    show 0 < 4 + _ + _
    omega

def FsdAnyOK (d : Vals × Tid) : Prop :=
  InRangeD fullStatusDescriptor.rel d.1 ∧ d.1 "additional_desc_length" = d.2.bytes.length ∧ TidOK d.2

def fsdAnyReported (d : Vals × Tid) : PV := .dict (fsdFields d.1 ++ [("transport_id", .dict (tidAnyReported d.2))])

theorem encFsdAny_length (d : Vals × Tid) : (encFullStatusDescriptorAny d).length = 24 + d.2.bytes.length := by
  unfold encFullStatusDescriptorAny
  rw [List.length_append, enc_length]; rfl

theorem fsdBody_length (ds : List (Vals × Tid)) : ((ds.map encFullStatusDescriptorAny).flatten).length = fsdBodyLen ds := by
  induction ds with
  | nil => rfl
  | cons d ds ih =>
    simp only [List.map_cons, List.flatten_cons, List.length_append, encFsdAny_length, ih, fsdBodyLen, List.foldr_cons]

/-- the descriptor loop: stride 24 + ADDITIONAL DESCRIPTOR LENGTH, whatever the size of each TransportID -/
theorem fullStatusDescriptors_any (ds : List (Vals × Tid)) (h : ∀ d ∈ ds, FsdAnyOK d) :
    Dec.fullStatusDescriptors (ds.map encFullStatusDescriptorAny).flatten = .ok (ds.map fsdAnyReported) := by
  induction ds with
  | nil => unfold Dec.fullStatusDescriptors; simp
  | cons d ds ih =>
    have hd := h d (by simp)
    have hpos := tid_bytes_pos d.2 hd.2.2
    have hne : ¬ ((List.map encFullStatusDescriptorAny (d :: ds)).flatten.length = 0) := by
      simp only [List.map_cons, List.flatten_cons, List.length_append, encFsdAny_length]; omega
    rw [Dec.fullStatusDescriptors, dif_neg hne]
    simp only [List.map_cons, List.flatten_cons]
    have e1 : encFullStatusDescriptorAny d ++ (ds.map encFullStatusDescriptorAny).flatten
        = fullStatusDescriptor.enc d.1 ++ (d.2.bytes ++ (ds.map encFullStatusDescriptorAny).flatten) := by
      unfold encFullStatusDescriptorAny; simp
    have hhdr : Dec.fullStatusHeader (encFullStatusDescriptorAny d ++ (ds.map encFullStatusDescriptorAny).flatten)
        = .ok (fsdFields d.1, d.2.bytes.length) := by
      unfold Dec.fullStatusHeader
      rw [e1, decodeInto_std_nil _ _ fsd_c d.1 hd.1 _]
      simp only [bind, Except.bind, pure, Except.pure]
      rw [getInt_reported _ d.1 "additional_desc_length" 4294967295 20 (by decide), hd.2.1]
      rfl
    rw [hhdr]
    dsimp only
    rw [if_pos hpos]
    have hdrop : (encFullStatusDescriptorAny d ++ (ds.map encFullStatusDescriptorAny).flatten).drop 24
        = d.2.bytes ++ (ds.map encFullStatusDescriptorAny).flatten := by
      rw [e1, List.drop_left' (show (fullStatusDescriptor.enc d.1).length = 24 from enc_length _ _)]
    rw [hdrop, transportId_any d.2 hd.2.2 _]
    dsimp only
    rw [List.drop_left' rfl, ih (fun x hx => h x (by simp [hx]))]
    dsimp only
    rw [fsd_set]
    rfl

/-- **READ FULL STATUS, TransportIDs of any supported kind and size** -/
theorem prReadFullStatus_decodes_any (gen : Nat) (ds : List (Vals × Tid)) (hg : gen < 2 ^ 32)
    (h : ∀ d ∈ ds, FsdAnyOK d) (hfit : fsdBodyLen ds < 2 ^ 32) (tr : Bytes) :
    Dec.prReadFullStatus (encReadFullStatusAny gen ds ++ tr) =
      .ok (.dict [("pr_generation", .int gen), ("full_status", .list (ds.map fsdAnyReported))]) := by
  have hbody := fsdBody_length ds
  have e0 : encReadFullStatusAny gen ds ++ tr
      = toBytes gen 4 ++ (toBytes (fsdBodyLen ds) 4 ++ (ds.map encFullStatusDescriptorAny).flatten ++ tr) := by
    unfold encReadFullStatusAny; simp
  have e1 : encReadFullStatusAny gen ds ++ tr
      = toBytes gen 4 ++ toBytes (fsdBodyLen ds) 4 ++ ((ds.map encFullStatusDescriptorAny).flatten ++ tr) := by
    unfold encReadFullStatusAny; simp
  have e : encReadFullStatusAny gen ds ++ tr
      = (toBytes gen 4 ++ toBytes (fsdBodyLen ds) 4) ++ (ds.map encFullStatusDescriptorAny).flatten ++ tr := by
    unfold encReadFullStatusAny; simp
  have h1 : slice (encReadFullStatusAny gen ds ++ tr) 0 4 = toBytes gen 4 := by
    rw [e0]; exact slice_prefix _ _ 4 (toBytes_length _ _)
  have h2 : slice (encReadFullStatusAny gen ds ++ tr) 4 8 = toBytes (fsdBodyLen ds) 4 := by
    rw [e1]; exact slice_mid _ _ _ 4 8 (toBytes_length _ _) (by rw [toBytes_length])
  unfold Dec.prReadFullStatus
  simp only [h1, h2, b2i_be _ 4 (by simpa using hfit), b2i_be _ 4 (by simpa using hg)]
  by_cases hz : fsdBodyLen ds = 0
  · have : ds = [] := by
      cases ds with
      | nil => rfl
      | cons d _ => simp only [fsdBodyLen, List.foldr_cons] at hz; omega
    subst this
    rw [if_pos hz]
    rfl
  · rw [if_neg hz]
    rw [e, slice_mid _ _ _ 8 _ (by simp [toBytes_length]) (by rw [hbody]; omega)]
    rw [fullStatusDescriptors_any ds h]
    rfl

/-- the hypotheses are satisfiable: an iSCSI registrant ("iqn.x", three NULs) followed by a SAS one -/
example : ∃ ds : List (Vals × Tid), ds.length = 2 ∧ (∀ d ∈ ds, FsdAnyOK d) := by
  refine ⟨[(fun k => if k = "additional_desc_length" then 12 else if k = "reservation_key" then 7 else 0,
            .iscsi [105, 113, 110, 46, 120] 3),
           (fun k => if k = "additional_desc_length" then 24 else 0,
            .fixed ⟨tidSas, 6, "sas_address", 4, 12⟩ (fun k => if k = "protocol_id" then 6 else if k = "sas_address" then 0x5000C50012345678 else 0))],
          rfl, ?_⟩
  intro d hd
  simp only [List.mem_cons, List.not_mem_nil, or_false] at hd
  rcases hd with rfl | rfl
  · exact ⟨by intro g hg; revert g; decide, by decide, by decide, by decide⟩
  · exact ⟨by intro g hg; revert g; decide, by decide, by simp [tidKinds], by intro g hg; revert g; decide, rfl⟩

end C04
