import ScsiVerif.Model.Exec
import ScsiVerif.Model.Facade
import ScsiVerif.Std.T10
/-!
# C07 — a command that did not complete with GOOD status never looks successful
-/
namespace C07
open Exec Conv

theorem status_values :
    st "GOOD" = 0x00 ∧ st "CHECK_CONDITION" = 0x02 ∧ st "CONDITIONS_MET" = 0x04 ∧ st "BUSY" = 0x08 ∧
    st "RESERVATION_CONFLICT" = 0x18 ∧ st "TASK_SET_FULL" = 0x28 ∧ st "ACA_ACTIVE" = 0x30 ∧
    st "TASK_ABORTED" = 0x40 := by decide +kernel

/-! ## iSCSI -/

/-- **returns normally only for GOOD**: for every status value, every sense, with and without raw sense -/
theorem iscsi_returns_only_good (status : Nat) (ts ps : Option Bytes) (raw : Bool)
    (h : (iscsi status ts ps raw).out = .returned) : status = 0x00 := by
  obtain ⟨g, c, _⟩ := status_values
  unfold iscsi at h
  rw [g, c] at h
  by_cases h1 : status = 2
  · simp only [h1, if_true] at h
    cases ts with
    | some x => cases x <;> simp [raiseCheckCondition] at h
    | none => cases ps with
      | none => simp [raiseCheckCondition] at h
      | some x => cases x <;> simp [raiseCheckCondition] at h
  · simp only [h1, if_false] at h
    by_cases h0 : status = 0
    · exact h0
    · simp [h0] at h

/-- GOOD does return (the error path is not over-broad) -/
theorem iscsi_good_returns (ts ps : Option Bytes) (raw : Bool) : (iscsi 0x00 ts ps raw).out = .returned := by
  obtain ⟨g, c, _⟩ := status_values
  simp [iscsi, g, c]

/-- **CHECK CONDITION surfaces as a CheckCondition error built from the sense the target sent now**
(never from an earlier command execution), and raw sense, when asked for, is that same buffer -/
theorem iscsi_check_condition (x : Nat) (xs : Bytes) (ps : Option Bytes) (raw : Bool) :
    let r := iscsi 0x02 (some (x :: xs)) ps raw
    r.out = .raised "CheckCondition" ∧ r.errSense = some (x :: xs) ∧ r.cmdSense = some (x :: xs) ∧
    r.rawSense = (if raw then some (x :: xs) else none) := by
  obtain ⟨_, c, _⟩ := status_values
  simp [iscsi, c, raiseCheckCondition]

/-- even without usable sense a CHECK CONDITION is an error, never a success -/
theorem iscsi_check_condition_always_raises (ts ps : Option Bytes) (raw : Bool) :
    ∃ e, (iscsi 0x02 ts ps raw).out = .raised e := by
  obtain ⟨_, c, _⟩ := status_values
  simp only [iscsi, c, if_true]
  unfold raiseCheckCondition
  split <;> exact ⟨_, rfl⟩

/-- **each other status raises the error named after it**; everything else `RuntimeError` -/
theorem iscsi_named_errors (ts ps : Option Bytes) (raw : Bool) :
    (iscsi 0x04 ts ps raw).out = .raised "ConditionsMet" ∧ (iscsi 0x08 ts ps raw).out = .raised "BusyStatus" ∧
    (iscsi 0x18 ts ps raw).out = .raised "ReservationConflict" ∧ (iscsi 0x28 ts ps raw).out = .raised "TaskSetFull" ∧
    (iscsi 0x30 ts ps raw).out = .raised "ACAActive" ∧ (iscsi 0x40 ts ps raw).out = .raised "TaskAborted" := by
  obtain ⟨g, c, cm, b, rc, tsf, aca, ta⟩ := status_values
  simp [iscsi, iscsiErrName, g, c, cm, b, rc, tsf, aca, ta]

theorem iscsi_other_status (status : Nat) (ts ps : Option Bytes) (raw : Bool)
    (h : status ∉ [0x00, 0x02, 0x04, 0x08, 0x18, 0x28, 0x30, 0x40]) :
    (iscsi status ts ps raw).out = .raised "RuntimeError" := by
  obtain ⟨g, c, cm, b, rc, tsf, aca, ta⟩ := status_values
  simp only [List.mem_cons, List.mem_nil_iff, or_false, not_or] at h
  obtain ⟨h0, h1, h2, h3, h4, h5, h6, h7⟩ := h
  simp [iscsi, iscsiErrName, g, c, cm, b, rc, tsf, aca, ta, h0, h1, h2, h3, h4, h5, h6, h7]

/-! ## SG_IO (under the binding contract) -/

/-- returns normally only for GOOD, or for CHECK CONDITION when the caller asked for raw sense —
and then the unmodified sense bytes are attached to the command -/
theorem sgio_returns (status : Nat) (sense : Option Bytes) (raw : Bool)
    (h : (sgio status sense raw).out = .returned) :
    status = 0x00 ∨ (status = 0x02 ∧ raw = true ∧ (sgio status sense raw).rawSense = sense) := by
  unfold sgio at h ⊢
  by_cases h0 : status = 0
  · exact Or.inl h0
  · by_cases h2 : status = 2
    · cases raw
      · simp only [h0, h2, if_false, if_true, Bool.false_eq_true] at h
        cases sense with
        | none => simp [raiseCheckCondition] at h
        | some l => cases l <;> simp [raiseCheckCondition] at h
      · right; simp [h2]
    · simp [h0, h2] at h

theorem sgio_check_condition (x : Nat) (xs : Bytes) :
    (sgio 0x02 (some (x :: xs)) false).out = .raised "CheckCondition" ∧
    (sgio 0x02 (some (x :: xs)) false).errSense = some (x :: xs) := by
  simp [sgio, raiseCheckCondition]

theorem sgio_other_status (status : Nat) (sense : Option Bytes) (raw : Bool) (h0 : status ≠ 0) (h2 : status ≠ 2) :
    (sgio status sense raw).out = .raised "UnspecifiedError" := by
  simp [sgio, h0, h2]

/-! ## at any position in any sequence of commands -/

/-- the outcome of the command at position `i` of any sequence over iSCSI is the outcome of that
command alone, whenever the target supplies sense with its CHECK CONDITIONs (earlier commands,
earlier executions of the same command object and their sense play no role) -/
theorem iscsi_sequence_independent (senses : List (Option Bytes)) (cmds : List (Nat × Nat × Option Bytes × Bool))
    (i : Nat) (k status : Nat) (ts : Option Bytes) (raw : Bool)
    (hi : cmds[i]? = some (k, status, ts, raw)) (hs : status = 0x02 → ts ≠ none) :
    ((iscsiSeq senses cmds)[i]?).map (·.out) = some (iscsi status ts none raw).out ∧
    ((iscsiSeq senses cmds)[i]?).map (·.errSense) = some (iscsi status ts none raw).errSense := by
  induction cmds generalizing senses i with
  | nil => simp at hi
  | cons c rest ih =>
    obtain ⟨k', s', t', r'⟩ := c
    cases i with
    | zero =>
      simp only [List.getElem?_cons_zero, Option.some.injEq, Prod.mk.injEq] at hi
      obtain ⟨rfl, rfl, rfl, rfl⟩ := hi
      simp only [iscsiSeq, List.getElem?_cons_zero, Option.map_some]
      obtain ⟨_, c, _⟩ := status_values
      unfold iscsi
      rw [c]
      by_cases h2 : s' = 2
      · have := hs h2
        cases t' with
        | none => exact absurd rfl this
        | some x => simp [h2]
      · simp [h2]
    | succ j =>
      simp only [List.getElem?_cons_succ] at hi
      simp only [iscsiSeq, List.getElem?_cons_succ]
      exact ih _ j hi

/-! ## the facade passes the error on, without decoding -/

theorem facade_passes_error_on (w : Bool) (u : Except PyErr Unit) (e : PyErr) :
    (Facade.run w (.ok ()) (.error e) u).outcome = .raised e ∧
    Facade.Ev.unmarshall ∉ (Facade.run w (.ok ()) (.error e) u).trace := by
  simp [Facade.run]

example : (iscsi 0x02 (some [0x72, 0x02, 0x04, 0x01]) (some [0x70, 0, 5]) false).errSense = some [0x72, 0x02, 0x04, 0x01] := by
  decide +kernel

end C07
