import ScsiVerif.Lemmas.Roundtrip
import ScsiVerif.Std.Cdb
import ScsiVerif.Gen.Commands
/-!
# C02 — CDB decoding is the exact inverse of CDB encoding

`marshall_cdb(d)`  = `encodeDict d layout (zeros L)`,  `unmarshall_cdb(b)` = `decodeBits b layout []`
(model of `scsi_command.py:220-242`; `layout`/`L` are the class's `_cdb_bits` and CDB length).
The three laws are proved for **every** well-formed layout; `all_cdb_layouts_wf` shows, by kernel
evaluation on the regenerated tables, that every command class's CDB layout is well formed for the
CDB length SAM prescribes for its operation code.
-/
namespace C02
open Conv

/-- `Class.unmarshall_cdb(Class.marshall_cdb(d))` returns exactly the values of `d`: for all
in-range assignments to any set of the command's fields **simultaneously** (keys of the layout
that are not supplied decode to 0). -/
theorem decode_encode (layout : Layout) (L : Nat) (hwf : layout.wf L = true) (d : Dict)
    (hr : InRange layout d) (hk : KeysDistinct d) :
    ∃ cdb out, encodeDict d layout (zeros L) = .ok cdb ∧ cdb.length = L ∧
      decodeBits cdb layout [] = .ok out ∧
      (∀ k m off n, layoutGet? layout k = some (.bits m off) → (k, Val.int n) ∈ d →
          dictGet? out k = some (.int n)) ∧
      (∀ k m off, layoutGet? layout k = some (.bits m off) → (∀ kv ∈ d, kv.1 ≠ k) →
          dictGet? out k = some (.int 0)) ∧
      out.map (·.1) = layout.map (·.1) := by
  obtain ⟨r, h1, _, h3, _⟩ := encodeDict_terms layout L hwf d hr (zeros L) (BytesOK_zeros L) (by simp [zeros])
  refine ⟨r, decodedOf r layout, h1, h3, decodeBits_wf r layout L hwf, ?_, ?_, ?_⟩
  · intro k m off n hg hin
    rw [dictGet?_decodedOf r layout L hwf k _ hg]
    simp only [decodeField]
    rw [decode_encodeDict layout L hwf d hr hk r h1 k m off n hg hin]
  · intro k m off hg hout
    rw [dictGet?_decodedOf r layout L hwf k _ hg]
    simp only [decodeField]
    rw [decode_encodeDict_absent layout L hwf d hr r h1 k m off hg hout]
  · simp [decodedOf, List.map_map]

/-- the bits of an `L`-byte string that no field of the layout covers are zero -/
def UndefinedBitsZero (layout : Layout) (L : Nat) (b : Bytes) : Prop :=
  ∀ i, (baToInt b).testBit i = true →
    ∃ k m off, (k, FieldSpec.bits m off) ∈ layout ∧ lsbPos L m off ≤ i ∧ i < lsbPos L m off + maskWidth m

/-- `Class.marshall_cdb(Class.unmarshall_cdb(b))` reproduces `b` byte for byte, for every CDB byte
string of the right length whose undefined bits are zero. -/
theorem encode_decode (layout : Layout) (L : Nat) (hwf : layout.wf L = true) (b : Bytes)
    (hb : BytesOK b) (hl : b.length = L) (hz : UndefinedBitsZero layout L b) :
    ∃ out, decodeBits b layout [] = .ok out ∧ encodeDict out layout (zeros L) = .ok b := by
  refine ⟨decodedOf b layout, decodeBits_wf b layout L hwf, ?_⟩
  obtain ⟨rs, hterms, hrs1, hrs2⟩ := termsOf_decodedOf b layout L hwf hb hl
  have hin : InRange layout (decodedOf b layout) := by
    intro kv hkv m off hg
    obtain ⟨x, hx, rfl⟩ := List.mem_map.mp hkv
    have hxm : (x.1, FieldSpec.bits m off) ∈ layout := layoutGet?_mem hg
    have : x.2 = .bits m off := by
      have := wf_get hwf hx
      rw [hg] at this
      exact (Option.some.inj this).symm
    obtain ⟨_, _, he, hbw⟩ := wf_entry hwf hxm
    cases he
    obtain ⟨hm, hw, hoff⟩ := bitsWF_spec hbw
    refine ⟨decodeMask b m off, by simp [this, decodeField], ?_⟩
    have := decodeMask_nat b (maskWidth m) (tz m) off hw hb (by rw [← hm, hl]; exact hoff)
    rw [← hm] at this
    rw [this]
    exact Nat.mod_lt _ (Nat.two_pow_pos _)
  obtain ⟨r, e1, ok1, len1, nat1⟩ := encodeDict_terms layout L hwf (decodedOf b layout) hin (zeros L)
    (BytesOK_zeros L) (by simp [zeros])
  rw [e1]
  congr 1
  apply baToInt_inj r b ok1 hb (by omega)
  rw [nat1, baToInt_zeros, Nat.zero_xor, hterms]
  apply xorAll_rebuild
  · -- the ranges of the layout are pairwise disjoint
    rw [← hterms]
    apply termsOf_disj layout L hwf
    unfold KeysDistinct decodedOf
    rw [List.pairwise_map]
    exact wf_keys hwf
  · intro i hi
    obtain ⟨k, m, off, hmem, h1, h2⟩ := hz i hi
    exact ⟨(lsbPos L m off, maskWidth m), hrs2 k m off hmem, h1, h2⟩

/-- **Changing one field's value changes only that field's decoded value.** -/
theorem locality (layout : Layout) (L : Nat) (hwf : layout.wf L = true) (d d' : Dict)
    (hr : InRange layout d) (hk : KeysDistinct d) (hr' : InRange layout d') (hk' : KeysDistinct d')
    (f : String) (hsame : ∀ k v, k ≠ f → ((k, v) ∈ d ↔ (k, v) ∈ d')) :
    ∃ cdb cdb' out out', encodeDict d layout (zeros L) = .ok cdb ∧ encodeDict d' layout (zeros L) = .ok cdb' ∧
      decodeBits cdb layout [] = .ok out ∧ decodeBits cdb' layout [] = .ok out' ∧
      ∀ g m off n, g ≠ f → layoutGet? layout g = some (.bits m off) → (g, Val.int n) ∈ d →
        dictGet? out g = some (.int n) ∧ dictGet? out' g = some (.int n) := by
  obtain ⟨cdb, out, h1, _, h3, h4, _, _⟩ := decode_encode layout L hwf d hr hk
  obtain ⟨cdb', out', h1', _, h3', h4', _, _⟩ := decode_encode layout L hwf d' hr' hk'
  refine ⟨cdb, cdb', out, out', h1, h1', h3, h3', ?_⟩
  intro g m off n hne hg hin
  exact ⟨h4 g m off n hg hin, h4' g m off n hg ((hsame g (.int n) hne).mp hin)⟩

/-! ## every command class's CDB layout is well formed (kernel-decided on the regenerated tables) -/

def stdLen (module cls : String) : Option Nat :=
  (Std.cdbs.find? (fun s => s.module == module && s.cls == cls)).bind (fun s => Std.samLen s.opcode)

/-- contiguous non-zero masks, inside the CDB, keys distinct, fields pairwise non-overlapping -/
def cdbLayoutOK (c : String × Cmd.CmdDesc × Bool × Bool) : Bool :=
  match stdLen c.1 c.2.1.cls with
  | some L => c.2.1.layout.wf L
  | none => false

theorem all_cdb_layouts_wf : Gen.commands.all cdbLayoutOK = true := by decide +kernel

/-! ## non-vacuity -/

example : (Gen.cmd_Read16.layout.wf 16 = true) ∧
    InRange Gen.cmd_Read16.layout [("lba", .int 0x1122334455667788), ("tl", .int 7), ("opcode", .int 0x88)] := by
  refine ⟨by decide +kernel, ?_⟩
  intro kv hkv m off hg
  simp only [List.mem_cons, List.mem_nil_iff, or_false] at hkv
  rcases hkv with rfl | rfl | rfl
  · have : (FieldSpec.bits m off) = .bits 0xFFFFFFFFFFFFFFFF 2 := by
      have h : layoutGet? Gen.cmd_Read16.layout "lba" = some (.bits 0xFFFFFFFFFFFFFFFF 2) := by decide +kernel
      rw [hg] at h; exact Option.some.inj h
    cases this
    exact ⟨_, rfl, by decide +kernel⟩
  · have : (FieldSpec.bits m off) = .bits 0xFFFFFFFF 10 := by
      have h : layoutGet? Gen.cmd_Read16.layout "tl" = some (.bits 0xFFFFFFFF 10) := by decide +kernel
      rw [hg] at h; exact Option.some.inj h
    cases this
    exact ⟨_, rfl, by decide +kernel⟩
  · have : (FieldSpec.bits m off) = .bits 0xFF 0 := by
      have h : layoutGet? Gen.cmd_Read16.layout "opcode" = some (.bits 0xFF 0) := by decide +kernel
      rw [hg] at h; exact Option.some.inj h
    cases this
    exact ⟨_, rfl, by decide +kernel⟩

end C02
