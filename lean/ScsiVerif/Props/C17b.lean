import ScsiVerif.Model.Formats.Encode
/-!
# C17 (continued) — EXTENDED COPY descriptors and TransportIDs: invalid requests are refused

Theorems about the builder models (`Enc.*`, mirrors of `marshall_transport_id`, `marshall_segment`,
`marshall_target/cscd`, `marshall_parameter_list`), for **all** dictionaries:

* an inconsistent iSCSI TransportID (TPID FORMAT 01b without a session id, or a session id with
  format 00b) is refused with ValueError, whatever else the dictionary holds;
* a segment descriptor with an unknown type code, or with a key its format does not define, is refused
  with ValueError; a CSCD / target descriptor with an unknown key or type code likewise;
* one refused descriptor anywhere in the list makes the whole parameter list a refusal — no partially
  built list comes back (the constructor then raises before `SCSICommand.__init__`, observed by the
  harness as "no command object, nothing sent").
-/
namespace C17
open Conv PVal Enc

/-! ## TransportIDs -/

/-- TPID FORMAT 01b announced but no ISID supplied -/
theorem iscsi_format_without_isid_refused (d : PDict) (hp : getInt d "protocol_id" = .ok 5)
    (hf : truthy? (d.get? "tpid_format") = true) (hi : truthy? (d.get? "iscsi_initiator_session_id") = false) :
    Enc.transportId d = .error .valueError := by
  unfold Enc.transportId
  rw [hp]
  simp [bind, Except.bind, hf, hi]

/-- an ISID supplied but TPID FORMAT 00b -/
theorem iscsi_isid_without_format_refused (d : PDict) (hp : getInt d "protocol_id" = .ok 5)
    (hf : truthy? (d.get? "tpid_format") = false) (hi : truthy? (d.get? "iscsi_initiator_session_id") = true) :
    Enc.transportId d = .error .valueError := by
  unfold Enc.transportId
  rw [hp]
  simp [bind, Except.bind, hf, hi]

/-- a TransportID without PROTOCOL IDENTIFIER is refused (KeyError) -/
theorem transport_id_without_protocol_refused (d : PDict) (h : d.get? "protocol_id" = none) :
    Enc.transportId d = .error .keyError := by
  unfold Enc.transportId getInt
  rw [h]
  rfl

/-! ## EXTENDED COPY segment descriptors -/

/-- unknown (or missing, or non-integer) descriptor type code -/
theorem segment_unknown_code_refused (t : XTables) (d : PDict)
    (h : ∀ n, d.get? "descriptor_type_code" = some (.int n) → t.segmentCodes.contains n = false) :
    Enc.xSegment t d = .error .valueError := by
  unfold Enc.xSegment Enc.codeInt
  cases hq : d.get? "descriptor_type_code" with
  | none => rfl
  | some v =>
    cases v with
    | int n =>
      have hc := h n hq
      simp only [hc, bind, Except.bind]
      rfl
    | none => rfl
    | bytes b => rfl
    | str s => rfl
    | list l => rfl
    | dict x => rfl

/-- a key the selected segment format does not define (for every format: the check is the same function) -/
theorem segment_unknown_key_refused (d : PDict) (lay : Layout) (n : Nat) (k : String) (x : PV)
    (hk : (k, x) ∈ d) (hne : k ≠ "descriptor_length") (hnot : (lay.map (·.1)).contains k = false) :
    Enc.xEncodeSegment d lay n = .error .valueError := by
  unfold Enc.xEncodeSegment
  have : ((d.set "descriptor_length" (.int (n - 4))).any (fun kv => !(lay.map (·.1)).contains kv.1)) = true := by
    rw [List.any_eq_true]
    unfold PDict.set
    have hp : (!(lay.map (·.1)).contains (k, x).1) = true := by
      show (!(lay.map (·.1)).contains k) = true
      rw [hnot]; rfl
    split
    · refine ⟨(k, x), ?_, hp⟩
      rw [List.mem_map]
      refine ⟨(k, x), hk, ?_⟩
      have : ((k, x).1 == "descriptor_length") = false := by simpa using hne
      simp [this]
    · exact ⟨(k, x), List.mem_append_left _ hk, hp⟩
  simp only [this, if_true]

/-! ## CSCD / target descriptors -/

theorem target_unknown_key_refused (t : XTables) (paramsKey : String) (d : PDict) (k : String) (x : PV)
    (hk : (k, x) ∈ d)
    (hnot : (t.target.map (·.1) ++ [paramsKey, "device_type_specific_parameters"]).contains k = false) :
    Enc.xTarget t paramsKey d = .error .valueError := by
  unfold Enc.xTarget
  have : d.any (fun kv => !(t.target.map (·.1) ++ [paramsKey, "device_type_specific_parameters"]).contains kv.1) = true := by
    rw [List.any_eq_true]
    refine ⟨(k, x), hk, ?_⟩
    show (!(t.target.map (·.1) ++ [paramsKey, "device_type_specific_parameters"]).contains k) = true
    rw [hnot]; rfl
  simp only [this, if_true, bind, Except.bind]

/-! ## one refused descriptor refuses the whole list -/

theorem mapM_error {α β : Type} (f : α → Except PyErr β) (pre : List α) (x : α) (post : List α) (e : PyErr)
    (hpre : ∀ y ∈ pre, ∃ b, f y = .ok b) (hx : f x = .error e) : (pre ++ x :: post).mapM f = .error e := by
  induction pre with
  | nil => rw [List.nil_append, List.mapM_cons, hx]; rfl
  | cons y ys ih =>
    obtain ⟨b, hb⟩ := hpre y (by simp)
    rw [List.cons_append, List.mapM_cons, hb, ih (fun z hz => hpre z (by simp [hz]))]
    rfl

/-- **no partially built parameter list**: if the first descriptor that is refused is a segment descriptor, the
    whole EXTENDED COPY parameter list is that refusal — for every header, every list of CSCD descriptors
    that are accepted, every position of the offending segment -/
theorem xcopy_refused_by_segment (t : XTables) (paramsKey : String) (hdr : PDict) (targets : List PV)
    (pre : List PV) (bad : PV) (post : List PV) (inline : Bytes) (tlKey : String) (e : PyErr) (ts : List Bytes)
    (htargets : targets.mapM (fun x => do xTarget t paramsKey (← asDict x)) = .ok ts)
    (hpre : ∀ y ∈ pre, ∃ b, (do let s ← xSegment t (← asDict y); if s.isEmpty then Except.error PyErr.valueError else pure s) = .ok b)
    (hbad : (do let s ← xSegment t (← asDict bad); if s.isEmpty then Except.error PyErr.valueError else pure s) = (.error e : Except PyErr Bytes)) :
    Enc.xParameterList t paramsKey hdr targets (pre ++ bad :: post) inline tlKey = .error e := by
  unfold Enc.xParameterList
  rw [htargets]
  simp only [bind, Except.bind]
  have := mapM_error (fun x => do
    let s ← xSegment t (← asDict x)
    if s.isEmpty then Except.error PyErr.valueError else pure s) pre bad post e hpre hbad
  simp only [bind, Except.bind] at this
  rw [this]

/-- the same for a refused CSCD / target descriptor -/
theorem xcopy_refused_by_target (t : XTables) (paramsKey : String) (hdr : PDict)
    (pre : List PV) (bad : PV) (post : List PV) (segments : List PV) (inline : Bytes) (tlKey : String) (e : PyErr)
    (hpre : ∀ y ∈ pre, ∃ b, (do xTarget t paramsKey (← asDict y)) = .ok b)
    (hbad : (do xTarget t paramsKey (← asDict bad)) = (.error e : Except PyErr Bytes)) :
    Enc.xParameterList t paramsKey hdr (pre ++ bad :: post) segments inline tlKey = .error e := by
  unfold Enc.xParameterList
  have := mapM_error (fun x => do xTarget t paramsKey (← asDict x)) pre bad post e hpre hbad
  simp only [bind, Except.bind] at this ⊢
  rw [this]

/-- PERSISTENT RESERVE OUT, REGISTER AND MOVE: a refused TransportID refuses the whole list -/
theorem prout_ram_refused (d tidDict : PDict) (e : PyErr) (hT : truthy? (d.get? "transport_id") = true)
    (hg : getDict d "transport_id" = .ok tidDict) (hbad : Enc.transportId tidDict = .error e) :
    Enc.prOut 2 d = .error e := by
  unfold Enc.prOut
  simp only [if_true, hT, hg, hbad, bind, Except.bind]

/-- non-vacuity: the refusals above apply to concrete requests -/
example : Enc.transportId [("protocol_id", .int 5), ("tpid_format", .int 1), ("iscsi_name", .str "iqn.x")] = .error .valueError :=
  iscsi_format_without_isid_refused _ rfl rfl rfl

example : Enc.xSegment Enc.x4 [("descriptor_type_code", .int 0x55)] = .error .valueError :=
  segment_unknown_code_refused _ _ (by
    intro n hn
    have : n = 0x55 := by
      simp [PDict.get?] at hn
      exact hn.symm
    subst this
    decide +kernel)

end C17
