import ScsiVerif.Lemmas.Build
import ScsiVerif.Model.Xfer
import ScsiVerif.Gen.Commands
/-!
# C03 — data buffers match the transfer the CDB announces

`Cmd.build` (interpreting the regenerated constructor descriptions) allocates
`dataout = bytearray(dataoutLen)` / `datain = bytearray(datainLen)` and optionally overrides
`dataout`.  `Xfer.xferOK` is decided per command on Gen; the theorems below turn it into the
buffer lengths the standard's transfer rule prescribes, for **all** argument values.  That the
length arguments are what the CDB's ALLOCATION LENGTH / TRANSFER LENGTH / PARAMETER LIST LENGTH
fields carry is C01 (`cdb_meets_standard`).
-/
namespace C03
open Conv Cmd Std Xfer

theorem asInt_allocLen {v : PVal} {n k : Nat} (h : asInt v = some n) (ha : allocLen v = .ok k) : k = n := by
  cases v with
  | none => simp [asInt] at h
  | bytes b => simp [asInt] at h
  | int m => simp [asInt] at h; simp [allocLen] at ha; omega
  | bool b => simp [asInt] at h; simp [allocLen] at ha; omega

@[simp] theorem truthy_bool (b : Bool) : (PVal.bool b).truthy = b := rfl

theorem eval_unless (op : OpCode) (env : Env) (flag data : String) (fv pv : PVal)
    (hf : env.get? flag = some fv) (hp : env.get? data = some pv) :
    eval op env (.ite (.not (.param flag)) (.param data)
      (.zeros (.ite (.param flag) (.lit 0) (.param "blocksize"))))
    = if fv.truthy then .ok (.bytes []) else .ok pv := by
  simp only [eval, hf, hp, bind, Except.bind, truthy_bool]
  cases h : fv.truthy <;> simp [zeros]

/-- **Buffers are what the transfer rule says**, for every rule except the parameter-list and ATA
rules (next theorems): if the constructor succeeds, `dataout` and `datain` are exactly the
prescribed buffers — in particular both empty for commands without a data phase. -/
theorem buffers_match (d : CmdDesc) (rule : Xfer) (hok : xferOK d rule = true)
    (op : OpCode) (args env : Env) (c : Command) (hb : build d op args = .ok c)
    (henv : bindArgs args d.params = .ok env) (o : PVal) (n : Nat) (hexp : expected env rule = some (o, n)) :
    c.dataout = o ∧ c.datain = zeros n := by
  obtain ⟨env', vo, no, vi, ni, L, dict, h1, _, h3, h4, h5, h6, _, hdn, hds, hdi, _, _⟩ := build_parts d op args c hb
  rw [henv] at h1; cases h1
  cases rule with
  | noData =>
    simp only [xferOK, Bool.and_eq_true, beq_iff_eq] at hok
    obtain ⟨⟨ho, hi⟩, hs⟩ := hok
    simp only [expected, Option.some.injEq, Prod.mk.injEq] at hexp
    rw [ho] at h3; rw [hi] at h5
    simp only [eval] at h3 h5
    cases h3; cases h5
    simp only [allocLen] at h4 h6
    cases h4; cases h6
    rw [hdn hs, hdi, ← hexp.1, ← hexp.2]
    simp [zeros]
  | allocIn p =>
    simp only [xferOK, Bool.and_eq_true, beq_iff_eq] at hok
    obtain ⟨⟨ho, hi⟩, hs⟩ := hok
    rw [ho] at h3; rw [hi] at h5
    simp only [eval] at h3
    cases h3
    simp only [allocLen] at h4
    cases h4
    simp only [expected] at hexp
    cases hp : env.get? p with
    | none => simp [hp] at hexp
    | some pv =>
      rw [eval_param' hp] at h5
      cases h5
      simp only [hp, Option.bind_some] at hexp
      cases ha : asInt vi with
      | none => simp [ha] at hexp
      | some k =>
        simp only [ha, Option.map_some, Option.some.injEq, Prod.mk.injEq] at hexp
        have := asInt_allocLen ha h6
        rw [hdn hs, hdi, ← hexp.1, ← hexp.2, this]
        simp [zeros]
  | blocksIn tl =>
    simp only [xferOK, Bool.and_eq_true, beq_iff_eq] at hok
    obtain ⟨⟨ho, hi⟩, hs⟩ := hok
    rw [ho] at h3; rw [hi] at h5
    simp only [eval] at h3
    cases h3
    simp only [allocLen] at h4
    cases h4
    simp only [expected, bind, Option.bind] at hexp
    cases hb1 : env.get? "blocksize" with
    | none => simp [hb1] at hexp
    | some bv =>
      cases hb2 : asInt bv with
      | none => simp [hb1, hb2] at hexp
      | some bs =>
        cases ht1 : env.get? tl with
        | none => simp [hb1, hb2, ht1] at hexp
        | some tv =>
          cases ht2 : asInt tv with
          | none => simp [hb1, hb2, ht1, ht2] at hexp
          | some t =>
            simp only [hb1, hb2, ht1, ht2, pure, Option.some.injEq, Prod.mk.injEq] at hexp
            simp only [eval, hb1, ht1, bind, Except.bind, arith, hb2, ht2] at h5
            cases h5
            simp only [allocLen] at h6
            cases h6
            rw [hdn hs, hdi, ← hexp.1, ← hexp.2]
            simp [zeros]
  | dataOut data =>
    simp only [xferOK, Bool.and_eq_true, beq_iff_eq] at hok
    obtain ⟨hi, hs⟩ := hok
    rw [hi] at h5
    simp only [eval] at h5
    cases h5
    simp only [allocLen] at h6
    cases h6
    simp only [expected] at hexp
    cases hp : env.get? data with
    | none => simp [hp] at hexp
    | some pv =>
      simp only [hp, Option.map_some, Option.some.injEq, Prod.mk.injEq] at hexp
      have := hds _ hs
      rw [eval_param' hp] at this
      cases this
      rw [hdi, ← hexp.1, ← hexp.2]
      simp [zeros]
  | dataOutUnless data flag =>
    simp only [xferOK, Bool.and_eq_true, beq_iff_eq] at hok
    obtain ⟨hi, hs⟩ := hok
    rw [hi] at h5
    simp only [eval] at h5
    cases h5
    simp only [allocLen] at h6
    cases h6
    simp only [expected, bind, Option.bind] at hexp
    cases hf : env.get? flag with
    | none => simp [hf] at hexp
    | some fv =>
      cases hp : env.get? data with
      | none => simp [hf, hp] at hexp
      | some pv =>
        simp only [hf, hp, pure, Option.some.injEq] at hexp
        have := hds _ hs
        rw [eval_unless op env flag data fv pv hf hp] at this
        cases hft : fv.truthy with
        | true =>
          simp only [hft, if_true, Prod.mk.injEq] at hexp
          simp only [hft, if_true] at this
          rw [hdi, ← hexp.2, ← hexp.1, ← Except.ok.inj this]
          simp [zeros]
        | false =>
          simp only [hft, Bool.false_eq_true, if_false, Prod.mk.injEq] at hexp
          simp only [hft, Bool.false_eq_true, if_false] at this
          rw [hdi, ← hexp.1, ← hexp.2, ← Except.ok.inj this]
          simp [zeros]
  | paramList => simp [expected] at hexp
  | readCd tl =>
    simp only [xferOK, Bool.and_eq_true, beq_iff_eq] at hok
    obtain ⟨⟨ho, hi⟩, hs⟩ := hok
    rw [ho] at h3; rw [hi] at h5
    simp only [eval] at h3
    cases h3
    simp only [allocLen] at h4
    cases h4
    simp only [expected] at hexp
    cases ht1 : env.get? tl with
    | none => simp [ht1] at hexp
    | some tv =>
      cases ht2 : asInt tv with
      | none => simp [ht1, ht2] at hexp
      | some t =>
        simp only [ht1, ht2, Option.bind_some, Option.map_some, Option.some.injEq, Prod.mk.injEq] at hexp
        simp only [eval, ht1, bind, Except.bind, arith, ht2, asInt_int] at h5
        cases h5
        simp only [allocLen] at h6
        cases h6
        rw [hdn hs, hdi, ← hexp.1, ← hexp.2]
        simp [zeros]
  | ata => simp [expected] at hexp

/-- **Parameter-list commands**: `dataout` is the marshalled list itself (the value the constructor
computed), `datain` is empty.  That PARAMETER LIST LENGTH in the CDB equals its length is C01
(source `.paramListLen`). -/
theorem param_list_buffers (d : CmdDesc) (hok : xferOK d .paramList = true)
    (op : OpCode) (args env : Env) (c : Command) (hb : build d op args = .ok c)
    (henv : bindArgs args d.params = .ok env) :
    c.datain = [] ∧ ∃ x, d.dataoutSet = some (.param x) ∧ env.get? x = some c.dataout := by
  obtain ⟨env', vo, no, vi, ni, L, dict, h1, _, h3, h4, h5, h6, _, hdn, hds, hdi, _, _⟩ := build_parts d op args c hb
  rw [henv] at h1; cases h1
  simp only [xferOK, Bool.and_eq_true, beq_iff_eq] at hok
  obtain ⟨hi, hs⟩ := hok
  rw [hi] at h5
  simp only [eval] at h5
  cases h5
  simp only [allocLen] at h6
  cases h6
  refine ⟨by rw [hdi]; simp [zeros], ?_⟩
  cases hset : d.dataoutSet with
  | none => simp [hset] at hs
  | some e =>
    cases e with
    | param x =>
      refine ⟨x, rfl, ?_⟩
      have := hds _ hset
      simp only [eval] at this
      cases hx : env.get? x with
      | none => simp [hx] at this
      | some v => simp [hx] at this; rw [this]
    | _ => simp [hset] at hs

/-! ## ATA PASS-THROUGH: the SAT transfer rules -/

/-- without caller-supplied data the buffer in the direction T_DIR selects has exactly the number
of bytes SAT derives from T_LENGTH / BYTE_BLOCK / T_TYPE (512-byte blocks, logical sectors, bytes),
the other buffer is empty; for all values of all arguments. -/
theorem ata_buffers (tLength byteBlock tDir tType fetures count blocksize : Nat) (extraTl : Option Nat)
    (dout din : Bytes)
    (h : ataBuffers tLength byteBlock tDir tType fetures count blocksize extraTl none = .ok (dout, din))
    (htl : tLength ≤ 3) :
    let n := ataBytes tLength byteBlock tType fetures count blocksize extraTl
    (tDir = 0 → dout = zeros n ∧ din = []) ∧ (tDir ≠ 0 → dout = [] ∧ din = zeros n) := by
  unfold ataBuffers at h
  unfold ataBytes
  have hcases : tLength = 0 ∨ tLength = 1 ∨ tLength = 2 ∨ tLength = 3 := by omega
  by_cases hbb : byteBlock = 0 <;> by_cases htt : tType = 0 <;> by_cases hbs : blocksize = 0 <;>
    by_cases hd : tDir = 0 <;> rcases hcases with rfl | rfl | rfl | rfl <;>
    simp [ataBlock, ataTl, hbb, htt, hbs, hd] at h ⊢ <;>
    (try (obtain ⟨h1, h2⟩ := h; subst h1; subst h2)) <;> simp [zeros, Nat.mul_comm]

/-- caller-supplied (non-empty) data replaces the buffer in the direction T_DIR selects -/
theorem ata_data (tLength byteBlock tDir tType fetures count blocksize : Nat) (extraTl : Option Nat)
    (x : Nat) (xs dout din : Bytes)
    (h : ataBuffers tLength byteBlock tDir tType fetures count blocksize extraTl (some (x :: xs)) = .ok (dout, din)) :
    (tDir = 0 → dout = x :: xs) ∧ (tDir ≠ 0 → din = x :: xs) := by
  unfold ataBuffers at h
  cases hb : ataBlock tLength byteBlock tType blocksize with
  | error e => simp [hb] at h
  | ok b =>
    simp only [hb] at h
    by_cases hd : tDir = 0
    · simp [hd] at h ⊢; exact h.1.symm
    · simp [hd] at h ⊢; exact h.2.symm

/-! ## iSCSI: direction and length handed to the binding -/

theorem iscsi_read (n : Nat) (hn : n ≠ 0) : iscsiXfer 0 n = (.read, n) := by simp [iscsiXfer, hn]
theorem iscsi_write (m n : Nat) (hm : m ≠ 0) : iscsiXfer m n = (.write, m) := by
  simp [iscsiXfer, hm]
theorem iscsi_none : iscsiXfer 0 0 = (.none, 0) := by simp [iscsiXfer]

/-! ## the finite obligations on the regenerated constructor descriptions -/

def ruleOf (module cls : String) : Option Xfer :=
  (Std.xfers.find? (fun r => r.1 == module && r.2.1 == cls)).map (·.2.2)

def cmdXferOK (c : String × CmdDesc × Bool × Bool) : Bool :=
  match ruleOf c.1 c.2.1.cls with
  | some r => xferOK c.2.1 r
  | none => false

theorem all_commands_allocate_by_rule : Gen.commands.all cmdXferOK = true := by decide +kernel

/-- the ALLOCATION LENGTH / TRANSFER LENGTH argument named by the rule is the one the CDB field
of that name carries (so "buffer length = field value" follows from C01) -/
def ruleFieldOK (r : String × String × Xfer) : Bool :=
  match Std.cdbs.find? (fun s => s.module == r.1 && s.cls == r.2.1) with
  | none => false
  | some s =>
    match r.2.2 with
    | .allocIn p => r.2.1 == "ReadCapacity10" ||
        s.fields.any (fun g => g.name == "ALLOCATION LENGTH" && g.src == .arg p)
    | .blocksIn tl => s.fields.any (fun g => g.name == "TRANSFER LENGTH" && g.src == .arg tl)
    | .readCd tl => s.fields.any (fun g => g.name == "TRANSFER LENGTH" && g.src == .arg tl)
    | .paramList => s.fields.any (fun g => g.name == "PARAMETER LIST LENGTH" && g.src == .paramListLen)
    | _ => true

theorem rules_name_cdb_fields : Std.xfers.all ruleFieldOK = true := by decide +kernel

/-! non-vacuity -/
example : xferOK Gen.cmd_Read16 (.blocksIn "tl") = true ∧
    expected [("blocksize", .int 512), ("tl", .int 5)] (.blocksIn "tl") = some (.bytes [], 2560) := by
  decide +kernel

end C03
