import ScsiVerif.Model.Formats.Decode
/-!
# C11 — decoding device data always terminates, whatever the bytes

Every decoder model in `Dec` is a total Lean function: each `while len(data): …; data = data[k:]`
loop is a recursion that Lean accepts only with a proof that the remaining buffer shrinks
(`decreasing_by … omega` next to each definition — the stride is `≥ 4`, `= 8`, `= 16`, `≥ 8`,
`≥ 24`, or the explicit guard `_edl ≠ 0`).  The theorems below bound the number of loop iterations
by the size of the buffer, **for every byte string of every length**.
-/
namespace C11
open Conv PVal Dec

/-- fixed-stride loops (`GET LBA STATUS`: 16, `REPORT LUNS` / `READ KEYS`: 8, port lists: 4):
at most one iteration per byte, exactly ⌈len/k⌉ -/
theorem pieces_iterations_le (k : Nat) (hk : 0 < k) (d : Bytes) : (pieces k d).length ≤ d.length := by
  induction hn : d.length using Nat.strongRecOn generalizing d with
  | _ n ih =>
    unfold pieces
    by_cases h0 : d.length = 0
    · simp [h0]
    · have hk0 : ¬ k = 0 := by omega
      simp only [h0, hk0, or_self, dite_false, List.length_cons]
      have := ih (d.drop k).length (by simp; omega) (d.drop k) rfl
      simp only [List.length_drop] at this
      omega

/-- Device Identification VPD page: at most one iteration per 4 bytes (+1 for a short tail) -/
theorem desChunks_iterations (d : Bytes) : (desChunks d).length * 4 ≤ d.length + 3 := by
  induction hn : d.length using Nat.strongRecOn generalizing d with
  | _ n ih =>
    unfold desChunks
    by_cases h0 : d.length = 0
    · simp [h0]
    · simp only [h0, dite_false]
      cases h3 : d[3]? with
      | none => simp; omega
      | some l =>
        simp only [List.length_cons]
        have hl : 3 < d.length := by
          rcases Nat.lt_or_ge 3 d.length with h | h
          · exact h
          · rw [List.getElem?_eq_none h] at h3; cases h3
        have := ih (d.drop (l + 4)).length (by simp; omega) (d.drop (l + 4)) rfl
        simp only [List.length_drop] at this
        omega

/-- REPORT TARGET PORT GROUPS: at most one descriptor iteration per 8 bytes (+1) -/
theorem tpgChunks_iterations (d : Bytes) : (tpgChunks d).length * 8 ≤ d.length + 7 := by
  induction hn : d.length using Nat.strongRecOn generalizing d with
  | _ n ih =>
    unfold tpgChunks
    by_cases h0 : d.length = 0
    · simp [h0]
    · simp only [h0, dite_false, List.length_cons]
      have := ih (d.drop (8 + 4 * ((pieces 4 (d.drop 8)).take (d[7]?.getD 0)).length)).length (by simp; omega) _ rfl
      simp only [List.length_drop] at this
      omega

/-- READ ELEMENT STATUS, inner loop: with the guard `_edl ≠ 0` at most one iteration per byte -/
theorem elementDescriptors_iterations (d : Bytes) (edl pvol avol ety : Nat) (r : List PV)
    (h : elementDescriptors d edl pvol avol ety = .ok r) : r.length ≤ d.length := by
  induction hn : d.length using Nat.strongRecOn generalizing d r with
  | _ n ih =>
    unfold elementDescriptors at h
    by_cases h0 : d.length = 0 ∨ edl = 0
    · simp only [h0, dite_true] at h; cases h; simp
    · simp only [h0, dite_false] at h
      cases h1 : elementDescriptor d pvol avol ety with
      | error e => simp [h1] at h
      | ok rr =>
        simp only [h1] at h
        cases h2 : elementDescriptors (d.drop edl) edl pvol avol ety with
        | error e => simp [h2] at h
        | ok rest =>
          simp only [h2] at h
          cases h
          have := ih (d.drop edl).length (by simp; omega) (d.drop edl) rest h2 rfl
          simp only [List.length_drop, List.length_cons] at this ⊢
          omega

/-- READ ELEMENT STATUS, outer loop: at most one page iteration per 8 bytes (+1) -/
theorem elementPages_iterations (d : Bytes) (r : List PV) (h : elementPages d = .ok r) : r.length * 8 ≤ d.length + 7 := by
  induction hn : d.length using Nat.strongRecOn generalizing d r with
  | _ n ih =>
    unfold elementPages at h
    by_cases h0 : d.length = 0
    · simp only [h0, dite_true] at h; cases h; simp
    · simp only [h0, dite_false] at h
      cases h1 : elementPage d (b2i (slice d 5 8)) (b2i (slice d 2 4)) with
      | error e => simp [h1] at h
      | ok rr =>
        simp only [h1] at h
        cases h2 : elementPages (d.drop (8 + b2i (slice d 5 8))) with
        | error e => simp [h2] at h
        | ok rest =>
          simp only [h2] at h
          cases h
          have := ih _ (by simp; omega) _ rest h2 rfl
          simp only [List.length_drop, List.length_cons] at this ⊢
          omega

/-- PERSISTENT RESERVE IN READ FULL STATUS: at most one descriptor per 24 bytes (+1) -/
theorem fullStatus_iterations (d : Bytes) (r : List PV) (h : fullStatusDescriptors d = .ok r) :
    r.length * 24 ≤ d.length + 23 := by
  induction hn : d.length using Nat.strongRecOn generalizing d r with
  | _ n ih =>
    unfold fullStatusDescriptors at h
    by_cases h0 : d.length = 0
    · simp only [h0, dite_true] at h; cases h; simp
    · simp only [h0, dite_false] at h
      cases h1 : fullStatusHeader d with
      | error e => simp [h1] at h
      | ok p =>
        obtain ⟨sd, adl⟩ := p
        simp only [h1] at h
        by_cases ha : adl > 0
        · simp only [ha, if_true] at h
          cases h2 : transportId (d.drop 24) with
          | error e => simp [h2] at h
          | ok tid =>
            simp only [h2, List.drop_drop] at h
            cases h3 : fullStatusDescriptors (d.drop (24 + adl)) with
            | error e => simp [h3] at h
            | ok more =>
              simp only [h3] at h
              cases h
              have := ih _ (by simp; omega) _ more h3 rfl
              simp only [List.length_drop, List.length_cons] at this ⊢
              omega
        · simp only [ha, if_false] at h
          have := ih _ (by simp; omega) _ r h rfl
          simp only [List.length_drop] at this
          omega

/-- REPORT PRIORITY: at most one descriptor per 8 bytes (+1) -/
theorem priority_iterations (d : Bytes) (r : List PV) (h : priorityDescriptors d = .ok r) :
    r.length * 8 ≤ d.length + 7 := by
  induction hn : d.length using Nat.strongRecOn generalizing d r with
  | _ n ih =>
    unfold priorityDescriptors at h
    by_cases h0 : d.length = 0
    · simp only [h0, dite_true] at h; cases h; simp
    · simp only [h0, dite_false] at h
      cases h1 : decodeInto d Gen.ReportPriority_data_bits [] with
      | error e => simp [h1] at h
      | ok rr =>
        simp only [h1] at h
        cases h2 : getInt rr "adlen" with
        | error e => simp [h2] at h
        | ok adlen =>
          simp only [h2] at h
          cases h3 : priorityDescriptors (d.drop (adlen + 8)) with
          | error e => simp [h3] at h
          | ok rest =>
            simp only [h3] at h
            cases h
            have := ih _ (by simp; omega) _ rest h3 rfl
            simp only [List.length_drop, List.length_cons] at this ⊢
            omega

/-- READ CD: exactly `tl` iterations, the caller's transfer length (the buffer has `3072·tl` bytes) -/
theorem readCd_iterations (d : Bytes) (m est c2ei scsb lba tl : Nat) (r : List (String × PV))
    (h : readCdLoop d m est c2ei scsb lba tl = .ok r) : r.length = tl := by
  induction tl generalizing d lba r with
  | zero => simp [readCdLoop] at h; cases h; rfl
  | succ n ih =>
    simp only [readCdLoop, bind, Except.bind] at h
    cases h1 : readCdSector d m est c2ei scsb with
    | error e => simp [h1] at h
    | ok p =>
      simp only [h1] at h
      cases h2 : readCdLoop p.2 m est c2ei scsb (lba + 1) n with
      | error e => simp [h2] at h
      | ok rest =>
        simp only [h2, pure, Except.pure] at h
        cases h
        simp [ih _ _ _ h2]

/-! ## the defect that was repaired: an element descriptor length of 0 -/

/-- the loop as it was before the repair, with fuel: `while len(_d): …; _d = _d[_edl:]` -/
def oldInnerLoop (d : Bytes) (edl : Nat) : Nat → Option Nat
  | 0 => none                                   -- out of fuel
  | f + 1 => if d.length = 0 then some 0 else (oldInnerLoop (d.drop edl) edl f).map (· + 1)

/-- with `_edl = 0` and a non-empty page no amount of fuel suffices: the original code never returned -/
theorem old_loop_diverges (d : Bytes) (hd : d ≠ []) (fuel : Nat) : oldInnerLoop d 0 fuel = none := by
  induction fuel with
  | zero => rfl
  | succ f ih =>
    have : d.length ≠ 0 := by simpa using hd
    simp [oldInnerLoop, this, ih]

/-- … whereas the repaired loop stops at once -/
theorem repaired_loop_stops (d : Bytes) (pvol avol ety : Nat) : elementDescriptors d 0 pvol avol ety = .ok [] := by
  unfold elementDescriptors
  simp

end C11
