import ScsiVerif.Props.C01
/-! C01: finite obligations decided by the kernel on the regenerated tables (part a; split only so that lake checks the parts in parallel). -/
namespace C01

theorem TestUnitReady_cdb : cmdOK "scsi_cdb_testunitready" "TestUnitReady" = true := by decide +kernel
theorem TestUnitReady_sets : setsOK "scsi_cdb_testunitready" "TestUnitReady" = true := by decide +kernel
theorem Inquiry_cdb : cmdOK "scsi_cdb_inquiry" "Inquiry" = true := by decide +kernel
theorem Inquiry_sets : setsOK "scsi_cdb_inquiry" "Inquiry" = true := by decide +kernel
theorem ModeSense6_cdb : cmdOK "scsi_cdb_modesense6" "ModeSense6" = true := by decide +kernel
theorem ModeSense6_sets : setsOK "scsi_cdb_modesense6" "ModeSense6" = true := by decide +kernel
theorem ModeSense10_cdb : cmdOK "scsi_cdb_modesense10" "ModeSense10" = true := by decide +kernel
theorem ModeSense10_sets : setsOK "scsi_cdb_modesense10" "ModeSense10" = true := by decide +kernel
theorem ModeSelect6_cdb : cmdOK "scsi_cdb_modesense6" "ModeSelect6" = true := by decide +kernel
theorem ModeSelect6_sets : setsOK "scsi_cdb_modesense6" "ModeSelect6" = true := by decide +kernel
theorem ModeSelect10_cdb : cmdOK "scsi_cdb_modesense10" "ModeSelect10" = true := by decide +kernel
theorem ModeSelect10_sets : setsOK "scsi_cdb_modesense10" "ModeSelect10" = true := by decide +kernel
theorem ReportLuns_cdb : cmdOK "scsi_cdb_report_luns" "ReportLuns" = true := by decide +kernel
theorem ReportLuns_sets : setsOK "scsi_cdb_report_luns" "ReportLuns" = true := by decide +kernel

end C01
