import ScsiVerif.Props.C04e
/-!
# C04 (continued) — iSCSI TransportID, format 00b (ISCSI NAME only)

For every name made of non-NUL ASCII bytes, every amount of NUL padding (at least the terminator) and whatever follows
the TransportID: `unmarshall_transport_id` reports exactly that name — the ADDITIONAL LENGTH field delimits it, the
terminator and the padding are dropped, nothing after the TransportID is looked at.
(The format 01b form, with the ",i,0x" separator and the session identifier, is covered by the correspondence only.)
-/
namespace C04
open Conv PVal Std DataCompat DecL Dec

theorem dropWhile_zeros (k : Nat) (l : List Nat) :
    (List.replicate k 0 ++ l).dropWhile (· == 0) = l.dropWhile (· == 0) := by
  induction k with
  | zero => rfl
  | succ n ih => simp [List.replicate_succ, List.dropWhile_cons, ih]

theorem dropWhile_head_ne (l : List Nat) (h : ∀ c ∈ l, 0 < c) : l.dropWhile (· == 0) = l := by
  cases l with
  | nil => rfl
  | cons a t =>
    have : 0 < a := h a (by simp)
    have hne : (a == 0) = false := by simp; omega
    simp [List.dropWhile_cons, hne]

/-- `bytes.decode().rstrip("\0")` on a NUL-padded ASCII name -/
theorem asciiRstrip0_padded (name : List Nat) (k : Nat) (h : ∀ c ∈ name, 0 < c ∧ c < 128) :
    Dec.asciiRstrip0 (name ++ List.replicate k 0) = .ok (String.ofList (name.map Char.ofNat)) := by
  unfold Dec.asciiRstrip0
  have hany : (name ++ List.replicate k 0).any (· ≥ 128) = false := by
    rw [List.any_eq_false]
    intro x hx
    rcases List.mem_append.mp hx with hx | hx
    · have := (h x hx).2; simp; omega
    · rw [List.eq_of_mem_replicate hx]; simp
  rw [hany]
  simp only [Bool.false_eq_true, if_false]
  rw [List.reverse_append, List.reverse_replicate, dropWhile_zeros,
      dropWhile_head_ne _ (fun c hc => (h c (List.mem_reverse.mp hc)).1), List.reverse_reverse]

theorem tidi_c : compatible Gen.PersistentReserveInReadFullStatus_transport_id_bits tidIscsiHeader.rel 4 = true := by decide +kernel

theorem al_mem : (⟨"additional_length", 2, 7, 16⟩ : DField) ∈ tidIscsiHeader.rel := by decide

def iscsiVals (name : List Nat) (pad : Nat) : Vals :=
  fun k => if k = "protocol_id" then 5 else if k = "additional_length" then name.length + pad else 0

/-- **iSCSI TransportID, format 00b** -/
theorem transportId_iscsi_name (name : List Nat) (pad : Nat) (hn : ∀ c ∈ name, 0 < c ∧ c < 128)
    (hfit : name.length + pad < 2 ^ 16) (rest : Bytes) :
    Dec.transportId (encTidIscsiName name pad ++ rest) =
      .ok (reported Gen.PersistentReserveInReadFullStatus_transport_id_bits (iscsiVals name pad)
            ++ [("iscsi_name", .str (String.ofList (name.map Char.ofNat)))]) := by
  have hr : InRangeD tidIscsiHeader.rel (iscsiVals name pad) := by
    intro g hg
    simp only [tidIscsiHeader, Block.rel, List.map_cons, List.map_nil, List.mem_cons, List.not_mem_nil, or_false] at hg
    rcases hg with rfl | rfl | rfl
    · simp [iscsiVals, rebase]
    · simp [iscsiVals, rebase]
    · simpa [iscsiVals, rebase] using hfit
  have e : encTidIscsiName name pad ++ rest
      = tidIscsiHeader.enc (iscsiVals name pad) ++ (name ++ List.replicate pad 0 ++ rest) := by
    unfold encTidIscsiName iscsiVals; simp
  have hal : b2i (slice (encTidIscsiName name pad ++ rest) 2 4) = name.length + pad := by
    rw [e]
    have := b2i_slice_field tidIscsiHeader (compatible_format tidi_c) (iscsiVals name pad) hr (name ++ List.replicate pad 0 ++ rest)
      ⟨"additional_length", 2, 7, 16⟩ al_mem 2 rfl rfl (by decide)
    simpa [iscsiVals] using this
  have hbody : slice (encTidIscsiName name pad ++ rest) 4 (name.length + pad + 4) = name ++ List.replicate pad 0 := by
    have e' : encTidIscsiName name pad ++ rest
        = tidIscsiHeader.enc (iscsiVals name pad) ++ (name ++ List.replicate pad 0) ++ rest := by
      rw [e]; simp
    rw [e']
    exact slice_mid _ _ _ 4 _ (enc_length _ _) (by simp; omega)
  have hset : ∀ x, (reported Gen.PersistentReserveInReadFullStatus_transport_id_bits (iscsiVals name pad)).set "iscsi_name" x =
      reported Gen.PersistentReserveInReadFullStatus_transport_id_bits (iscsiVals name pad) ++ [("iscsi_name", x)] := by
    intro x
    apply set_fresh
    intro kv hkv heq
    have hm : kv.1 ∈ (reported Gen.PersistentReserveInReadFullStatus_transport_id_bits (iscsiVals name pad)).map (·.1) :=
      List.mem_map.mpr ⟨kv, hkv, rfl⟩
    rw [reported_keys, heq] at hm
    revert hm
    decide
  have hpid : getInt (reported Gen.PersistentReserveInReadFullStatus_transport_id_bits (iscsiVals name pad)) "protocol_id" = .ok 5 :=
    tid_pid _
  have hfmt : getInt (reported Gen.PersistentReserveInReadFullStatus_transport_id_bits (iscsiVals name pad)) "tpid_format" = .ok 0 :=
    getInt_reported _ _ "tpid_format" 192 0 (by decide)
  unfold Dec.transportId
  rw [hal]
  dsimp only
  rw [hbody]
  rw [e, decodeInto_std_nil _ _ tidi_c (iscsiVals name pad) hr _]
  simp only [bind, Except.bind, pure, Except.pure]
  rw [hpid]
  simp only [Nat.reduceEqDiff, reduceIte]
  rw [hfmt]
  simp only [reduceIte]
  rw [asciiRstrip0_padded name pad hn]
  simp only [hset]

/-- the hypotheses are satisfiable: "iqn.x" with three NUL bytes -/
example : (∀ c ∈ [105, 113, 110, 46, 120], 0 < c ∧ c < 128) ∧ [105, 113, 110, 46, 120].length + 3 < 2 ^ 16 := by decide

end C04
