import ScsiVerif.Props.C01
/-! C01: finite obligations decided by the kernel on the regenerated tables (part c; split only so that lake checks the parts in parallel). -/
namespace C01

theorem PersistentReserveOut_cdb : cmdOK "scsi_cdb_persistentreserveout" "PersistentReserveOut" = true := by decide +kernel
theorem PersistentReserveOut_sets : setsOK "scsi_cdb_persistentreserveout" "PersistentReserveOut" = true := by decide +kernel
theorem ExtendedCopy_cdb : cmdOK "scsi_cdb_extended_copy_spc4" "ExtendedCopy" = true := by decide +kernel
theorem ExtendedCopy_sets : setsOK "scsi_cdb_extended_copy_spc4" "ExtendedCopy" = true := by decide +kernel
theorem ExtendedCopy_spc5_cdb : cmdOK "scsi_cdb_extended_copy_spc5" "ExtendedCopy" = true := by decide +kernel
theorem ExtendedCopy_spc5_sets : setsOK "scsi_cdb_extended_copy_spc5" "ExtendedCopy" = true := by decide +kernel
theorem PreventAllowMediumRemoval_cdb : cmdOK "scsi_cdb_preventallow_mediumremoval" "PreventAllowMediumRemoval" = true := by decide +kernel
theorem PreventAllowMediumRemoval_sets : setsOK "scsi_cdb_preventallow_mediumremoval" "PreventAllowMediumRemoval" = true := by decide +kernel
theorem Read10_cdb : cmdOK "scsi_cdb_read10" "Read10" = true := by decide +kernel
theorem Read10_sets : setsOK "scsi_cdb_read10" "Read10" = true := by decide +kernel
theorem Read12_cdb : cmdOK "scsi_cdb_read12" "Read12" = true := by decide +kernel
theorem Read12_sets : setsOK "scsi_cdb_read12" "Read12" = true := by decide +kernel
theorem Read16_cdb : cmdOK "scsi_cdb_read16" "Read16" = true := by decide +kernel
theorem Read16_sets : setsOK "scsi_cdb_read16" "Read16" = true := by decide +kernel

end C01
