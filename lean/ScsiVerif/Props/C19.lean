import ScsiVerif.Model.InitDevice
/-!
# C19 — the transport bindings are optional; a missing one is refused, not half-used
(the import half of the property — every module imports and works in all four presence
combinations — is decided by exhaustive execution in the harness; Python's import system is not
modelled)
-/
namespace C19
open InitDevice

/-- **refused exactly when** neither (`/dev/` path and SG_IO binding) nor (`iscsi://` URL and iSCSI
binding): for all device strings and all four presence combinations -/
theorem refused_iff (dev : List Char) (s i rw : Bool) (ini : List Char) :
    (initDevice dev s i rw ini).1 = .refused ↔
      ¬ (dev.take 5 = devPrefix ∧ s = true) ∧ ¬ (dev.take 8 = iscsiPrefix ∧ i = true) := by
  have hex : dev.take 5 = devPrefix → ¬ dev.take 8 = iscsiPrefix := by
    intro h5 h8
    have : (dev.take 8).take 5 = dev.take 5 := by simp [List.take_take]
    rw [h8, h5] at this
    revert this; decide
  unfold initDevice scsiCtor iscsiCtor
  by_cases h5 : dev.take 5 = devPrefix
  · have h8 := hex h5
    cases s <;> simp [h5, h8]
  · by_cases h8 : dev.take 8 = iscsiPrefix
    · cases i <;> simp [h5, h8]
    · simp [h5, h8]

/-- **a refusal opens no file and no connection** -/
theorem refusal_has_no_effect (dev : List Char) (s i rw : Bool) (ini : List Char)
    (h : (initDevice dev s i rw ini).1 = .refused) : (initDevice dev s i rw ini).2 = [] := by
  unfold initDevice scsiCtor iscsiCtor at *
  by_cases h5 : dev.take 5 = devPrefix
  · cases s <;> simp_all
  · by_cases h8 : dev.take 8 = iscsiPrefix
    · cases i <;> simp_all
    · simp_all

/-- with the SG_IO binding present a `/dev/` path yields the SG_IO device class, opened on
**exactly** the requested path, read-only or read-write as asked -/
theorem dev_path_opens_exactly (dev : List Char) (i rw : Bool) (ini : List Char) (h5 : dev.take 5 = devPrefix) :
    initDevice dev true i rw ini = (.scsiDevice dev, [.openFile dev (if rw then "w+b" else "rb")]) := by
  simp [initDevice, scsiCtor, h5]

/-- with the iSCSI binding present an `iscsi://` URL yields the iSCSI device class, connected to
exactly that URL with the given initiator name (the URL itself when the name is empty) -/
theorem iscsi_url_connects_exactly (dev : List Char) (s rw : Bool) (ini : List Char) (h8 : dev.take 8 = iscsiPrefix) :
    initDevice dev s true rw ini =
      (.iscsiDevice dev, [.connect dev (if ini.length ≠ 0 then ini else dev)]) := by
  have h5 : ¬ dev.take 5 = devPrefix := by
    intro h5
    have : (dev.take 8).take 5 = dev.take 5 := by simp [List.take_take]
    rw [h8, h5] at this
    revert this; decide
  simp [initDevice, iscsiCtor, h5, h8]

/-- the constructors' own guards: a path the transport does not handle, or a missing binding -/
theorem ctor_guards (dev : List Char) (rw : Bool) (ini : List Char) :
    (scsiCtor dev false rw = (.refused, [])) ∧ (iscsiCtor dev false ini = (.refused, [])) ∧
    (dev.take 5 ≠ devPrefix → ∀ s, scsiCtor dev s rw = (.refused, [])) ∧
    (dev.take 8 ≠ iscsiPrefix → ∀ i, iscsiCtor dev i ini = (.refused, [])) := by
  refine ⟨by simp [scsiCtor], by simp [iscsiCtor], ?_, ?_⟩
  · intro h s; simp [scsiCtor, h]
  · intro h i; simp [iscsiCtor, h]

example : (initDevice "/dev/sg1".toList true false true []).2 = [.openFile "/dev/sg1".toList "w+b"] := by decide

end C19
