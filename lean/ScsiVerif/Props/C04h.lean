import ScsiVerif.Props.C04g
/-!
# C04 (continued) — READ DISC INFORMATION, standard disc information (data type 000b)

The response is decoded field by field from the standard's positions, and NUMBER OF SESSIONS, FIRST / LAST TRACK
NUMBER IN LAST SESSION are reported as one number each: most significant byte × 256 + least significant byte of the
values the device sent, the two halves no longer being reported.  For all in-range values and any trailing bytes
(OPC table entries included: they are not decoded).
-/
namespace C04
open Conv PVal Std DataCompat DecL Dec

theorem get_set_other (d : PDict) (k k' : String) (x : PV) (hne : k ≠ k') : (d.set k' x).get? k = d.get? k := by
  unfold PDict.set
  split
  · rename_i hany
    clear hany
    unfold PDict.get?
    induction d with
    | nil => rfl
    | cons kv rest ih =>
      simp only [List.map_cons, List.find?_cons]
      by_cases h1 : kv.1 = k'
      · have e1 : (kv.1 == k') = true := by simpa using h1
        have e2 : (k' == k) = false := by simpa using fun e => hne e.symm
        have e3 : (kv.1 == k) = false := by rw [h1]; exact e2
        simp only [e1, if_true, e2, e3]
        exact ih
      · have e1 : (kv.1 == k') = false := by simpa using h1
        simp only [e1, Bool.false_eq_true, if_false]
        by_cases h2 : (kv.1 == k) = true
        · simp [h2]
        · have : (kv.1 == k) = false := by simpa using h2
          simp only [this]
          exact ih
  · unfold PDict.get?
    rw [List.find?_append]
    have e2 : (k' == k) = false := by simpa using fun e => hne e.symm
    cases h : List.find? (fun x => x.1 == k) d with
    | some y => simp
    | none => simp [List.find?_cons, e2]

theorem getInt_set_other (d : PDict) (k k' : String) (x : PV) (hne : k ≠ k') : getInt (d.set k' x) k = getInt d k := by
  unfold getInt
  rw [get_set_other d k k' x hne]

/-- the combined dictionary keeps every other integer entry -/
theorem getInt_comb_other (r : PDict) (name msb lsb k : String) (x : PV) (h1 : k ≠ name) (h2 : k ≠ msb) (h3 : k ≠ lsb) :
    getInt (((r.set name x).del msb).del lsb) k = getInt r k := by
  rw [getInt_del_other _ _ _ h3, getInt_del_other _ _ _ h2, getInt_set_other _ _ _ _ h1]

theorem comb_ok (r : PDict) (name msb lsb : String) (m l : Nat) (hm : getInt r msb = .ok m) (hl : getInt r lsb = .ok l) :
    Dec.combMsbLsb r name msb lsb = .ok (((r.set name (.int (m * 256 + l))).del msb).del lsb) := by
  unfold Dec.combMsbLsb
  rw [hm]
  simp only [bind, Except.bind]
  rw [hl]
  rfl

/-- what the library reports: the table's fields, the three two-byte numbers combined -/
def sdiComb (v : Vals) (r : PDict) (name msb lsb : String) : PDict :=
  ((r.set name (.int (v msb * 256 + v lsb))).del msb).del lsb

def sdiReported (v : Vals) : PDict :=
  sdiComb v (sdiComb v (sdiComb v (reported Gen.ReadDiscInformation_sdi_bits v)
    "number_of_sessions" "number_of_sessions_msb" "number_of_sessions_lsb")
    "first_track_number_in_last_session" "first_track_number_in_last_session_msb" "first_track_number_in_last_session_lsb")
    "last_track_number_in_last_session" "last_track_number_in_last_session_msb" "last_track_number_in_last_session_lsb"

theorem sdi_get (v : Vals) (k : String) (m off : Nat) (h : layoutGet? Gen.ReadDiscInformation_sdi_bits k = some (.bits m off)) :
    getInt (reported Gen.ReadDiscInformation_sdi_bits v) k = .ok (v k) :=
  getInt_reported _ v k m off h

/-- **standard disc information** -/
theorem discInfo_standard_decodes (v : Vals) (hr : InRangeD discInfoStandard.rel v)
    (ht : v "disc_information_data_type" = 0) (tr : Bytes) :
    Dec.readDiscInformation (discInfoStandard.enc v ++ tr) = .ok (.dict (sdiReported v)) := by
  obtain ⟨x, hx, hxv⟩ := idx_top_field discInfoStandard (compatible_format sdi_c) v hr tr
    ⟨"disc_information_data_type", 2, 7, 3⟩ (by decide) rfl (by decide)
  have e : x >>> 5 = 0 := by rw [← ht]; exact hxv
  unfold Dec.readDiscInformation
  rw [hx]
  simp only [bind, Except.bind]
  rw [e]
  unfold Dec.discInfoByType
  rw [if_pos rfl]
  unfold Dec.discInfoStandard
  rw [decodeInto_std_nil _ _ sdi_c v hr tr]
  have a1 := sdi_get v "number_of_sessions_msb" 255 9 (by decide)
  have a2 := sdi_get v "number_of_sessions_lsb" 255 4 (by decide)
  have b1 := sdi_get v "first_track_number_in_last_session_msb" 255 10 (by decide)
  have b2 := sdi_get v "first_track_number_in_last_session_lsb" 255 5 (by decide)
  have c1 := sdi_get v "last_track_number_in_last_session_msb" 255 11 (by decide)
  have c2 := sdi_get v "last_track_number_in_last_session_lsb" 255 6 (by decide)
  rw [bind_ok, comb_ok _ _ _ _ _ _ a1 a2]
  rw [bind_ok, comb_ok _ _ _ _ (v "first_track_number_in_last_session_msb") (v "first_track_number_in_last_session_lsb")
        (by rw [getInt_comb_other _ _ _ _ _ _ (by decide) (by decide) (by decide)]; exact b1)
        (by rw [getInt_comb_other _ _ _ _ _ _ (by decide) (by decide) (by decide)]; exact b2)]
  rw [bind_ok, comb_ok _ _ _ _ (v "last_track_number_in_last_session_msb") (v "last_track_number_in_last_session_lsb")
        (by rw [getInt_comb_other _ _ _ _ _ _ (by decide) (by decide) (by decide),
                getInt_comb_other _ _ _ _ _ _ (by decide) (by decide) (by decide)]; exact c1)
        (by rw [getInt_comb_other _ _ _ _ _ _ (by decide) (by decide) (by decide),
                getInt_comb_other _ _ _ _ _ _ (by decide) (by decide) (by decide)]; exact c2)]
  rfl

theorem get_set_same (d : PDict) (k : String) (x : PV) : (d.set k x).get? k = some x := by
  unfold PDict.set
  split
  · rename_i hany
    unfold PDict.get?
    induction d with
    | nil => simp at hany
    | cons kv rest ih =>
      simp only [List.map_cons, List.find?_cons]
      by_cases h1 : (kv.1 == k) = true
      · simp [h1]
      · have h1' : (kv.1 == k) = false := by simpa using h1
        simp only [h1', Bool.false_eq_true, if_false]
        apply ih
        simpa [List.any_cons, h1'] using hany
  · rename_i hany
    unfold PDict.get?
    rw [List.find?_append]
    have : List.find? (fun y => y.1 == k) d = none := by
      rw [List.find?_eq_none]
      intro y hy
      simp only [List.any_eq_true, not_exists, not_and] at hany
      exact hany y hy
    simp [this]

/-- the combined numbers are what the device sent: e.g. NUMBER OF SESSIONS -/
theorem sdi_number_of_sessions (v : Vals) :
    getInt (sdiReported v) "number_of_sessions" = .ok (v "number_of_sessions_msb" * 256 + v "number_of_sessions_lsb") := by
  unfold sdiReported
  rw [sdiComb, getInt_comb_other _ _ _ _ _ _ (by decide) (by decide) (by decide),
      sdiComb, getInt_comb_other _ _ _ _ _ _ (by decide) (by decide) (by decide), sdiComb,
      getInt_del_other _ _ _ (by decide), getInt_del_other _ _ _ (by decide)]
  unfold getInt
  rw [get_set_same]

end C04
