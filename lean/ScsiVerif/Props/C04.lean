import ScsiVerif.Lemmas.Decode
import ScsiVerif.Gen.Enums
/-!
# C04 — well-formed device responses are decoded to the values the device sent

`Std/DataIn.lean` states the response formats as the standards do (byte, msb, width; length fields
`n−3`, `n−7`).  `Dec.*` (Model/Formats/Decode.lean) mirrors the library's `unmarshall_datain`
routines line by line and reads the layout tables regenerated from the source (`Gen.*`).

* `all_response_tables_conform`: every layout table the parsers use sits exactly on the standard's
  fields (kernel-decided on the regenerated tables; `DataCompat.compatible_sound` turns that into
  "`decode_bits` returns the device's values, whatever follows the structure").
* one theorem per response format: for **all** in-range field values, **all** descriptor counts
  that fit the length field, with and without trailing buffer space, the decoder returns exactly
  the values the device encoded, every descriptor inside the reported length whole and in order,
  nothing beyond it.
-/
namespace C04
open Conv PVal Std DataCompat DecL Dec

def lookupT (c a : String) : Option Layout := (Gen.allTables.find? (fun t => t.1 == c && t.2.1 == a)).map (·.2.2)

/-- the library table named by a `Std.blocks` row is compatible with the standard's block -/
def blockOK (x : Block × String × String) : Bool :=
  match lookupT x.2.1 x.2.2 with
  | some lay => compatible lay x.1.rel x.1.len
  | none => false

/-- **every response layout table of the library conforms to the standard's format** -/
theorem all_response_tables_conform : Std.blocks.all blockOK = true := by decide +kernel

/-! ## the tables used by the theorems below, one kernel-decided fact each -/

theorem rc10_c : compatible Gen.ReadCapacity10_datain_bits readCapacity10.rel 8 = true := by decide +kernel
theorem rc16_c : compatible Gen.ReadCapacity16_datain_bits readCapacity16.rel 32 = true := by decide +kernel
theorem inqA_c : compatible Gen.Inquiry_datain_bits inquiryStandard.rel 58 = true := by decide +kernel
theorem inqB_c : compatible Gen.Inquiry_standard_bits inquiryStandard.rel 58 = true := by decide +kernel
theorem lbaDesc_c : compatible Gen.GetLBAStatus_datain_bits lbaStatusDescriptor.rel 16 = true := by decide +kernel
theorem lun_c : compatible Gen.ReportLuns_datain_bits lunEntry.rel 8 = true := by decide +kernel
theorem prres_c : compatible Gen.PersistentReserveInReadReservation_bits prReadReservation.rel 24 = true := by decide +kernel
theorem sdi_c : compatible Gen.ReadDiscInformation_sdi_bits discInfoStandard.rel 34 = true := by decide +kernel
theorem tri_c : compatible Gen.ReadDiscInformation_tri_bits discInfoTrack.rel 12 = true := by decide +kernel
theorem pow_c : compatible Gen.ReadDiscInformation_pow_bits discInfoPow.rel 16 = true := by decide +kernel

/-- keys of two tables applied to the same buffer do not collide -/
def keysDisjoint (a b : Layout) : Bool := a.all (fun x => b.all (fun y => x.1 != y.1))

theorem keysDisjoint_spec {a b : Layout} (h : keysDisjoint a b = true) (v : Vals) :
    ∀ kv ∈ reported a v, ∀ kf ∈ b, kv.1 ≠ kf.1 := by
  intro kv hkv kf hkf
  have : kv.1 ∈ (reported a v).map (·.1) := List.mem_map.mpr ⟨kv, hkv, rfl⟩
  rw [reported_keys] at this
  obtain ⟨x, hx, hx'⟩ := List.mem_map.mp this
  unfold keysDisjoint at h
  simp only [List.all_eq_true, bne_iff_ne, ne_eq] at h
  rw [← hx']
  exact h x hx kf hkf

/-! ## flat formats -/

/-- READ CAPACITY(10) -/
theorem readCapacity10_decodes (v : Vals) (hr : InRangeD readCapacity10.rel v) (tr : Bytes) :
    Dec.readCapacity10 (readCapacity10.enc v ++ tr) = .ok (.dict (reported Gen.ReadCapacity10_datain_bits v)) := by
  unfold Dec.readCapacity10
  rw [decodeInto_std_nil _ _ rc10_c v hr tr]
  rfl

/-- READ CAPACITY(16) -/
theorem readCapacity16_decodes (v : Vals) (hr : InRangeD readCapacity16.rel v) (tr : Bytes) :
    Dec.readCapacity16 (readCapacity16.enc v ++ tr) = .ok (.dict (reported Gen.ReadCapacity16_datain_bits v)) := by
  unfold Dec.readCapacity16
  rw [decodeInto_std_nil _ _ rc16_c v hr tr]
  rfl

/-- standard INQUIRY data: the qualifier/type byte and every field of the standard table -/
theorem inquiry_standard_decodes (v : Vals) (hr : InRangeD inquiryStandard.rel v) (tr : Bytes) :
    Dec.inquiry (inquiryStandard.enc v ++ tr) 0 =
      .ok (.dict (reported Gen.Inquiry_datain_bits v ++ reported Gen.Inquiry_standard_bits v)) := by
  unfold Dec.inquiry Dec.inquiryStd
  rw [if_pos rfl, decodeInto_std_nil _ _ inqA_c v hr tr]
  simp only [bind, Except.bind]
  rw [decodeInto_std _ _ inqB_c v hr tr _ (keysDisjoint_spec (by decide +kernel) v)]
  rfl

/-- READ DISC INFORMATION, track resources (data type 001b) -/
theorem discInfo_track_decodes (v : Vals) (hr : InRangeD discInfoTrack.rel v)
    (ht : v "disc_information_data_type" = 1) (tr : Bytes) :
    Dec.readDiscInformation (discInfoTrack.enc v ++ tr) = .ok (.dict (reported Gen.ReadDiscInformation_tri_bits v)) := by
  obtain ⟨x, hx, hxv⟩ := idx_top_field discInfoTrack (compatible_format tri_c) v hr tr
    ⟨"disc_information_data_type", 2, 7, 3⟩ (by decide) rfl (by decide)
  have e : x >>> 5 = 1 := by rw [← ht]; exact hxv
  unfold Dec.readDiscInformation
  rw [hx]
  simp only [bind, Except.bind]
  rw [e]
  unfold Dec.discInfoByType
  rw [if_neg (by decide), if_pos rfl]
  unfold Dec.discInfoTrack
  rw [decodeInto_std_nil _ _ tri_c v hr tr]
  rfl

/-- READ DISC INFORMATION, POW resources (data type 010b) -/
theorem discInfo_pow_decodes (v : Vals) (hr : InRangeD discInfoPow.rel v)
    (ht : v "disc_information_data_type" = 2) (tr : Bytes) :
    Dec.readDiscInformation (discInfoPow.enc v ++ tr) = .ok (.dict (reported Gen.ReadDiscInformation_pow_bits v)) := by
  obtain ⟨x, hx, hxv⟩ := idx_top_field discInfoPow (compatible_format pow_c) v hr tr
    ⟨"disc_information_data_type", 2, 7, 3⟩ (by decide) rfl (by decide)
  have e : x >>> 5 = 2 := by rw [← ht]; exact hxv
  unfold Dec.readDiscInformation
  rw [hx]
  simp only [bind, Except.bind]
  rw [e]
  unfold Dec.discInfoByType
  rw [if_neg (by decide), if_neg (by decide), if_pos rfl]
  unfold Dec.discInfoPow
  rw [decodeInto_std_nil _ _ pow_c v hr tr]
  rfl

/-- PERSISTENT RESERVE IN / READ RESERVATION with a reservation present (ADDITIONAL LENGTH = 16) -/
theorem prReadReservation_decodes (v : Vals) (hr : InRangeD prReadReservation.rel v)
    (hal : v "additional_length" = 16) (tr : Bytes) :
    Dec.prReadReservation (prReadReservation.enc v ++ tr) =
      .ok (.dict ([("pr_generation", .int (v "pr_generation"))] ++
                  reported Gen.PersistentReserveInReadReservation_bits v)) := by
  have hf := compatible_format prres_c
  have hgen := b2i_slice_field Std.prReadReservation hf v hr tr ⟨"pr_generation", 0, 7, 32⟩ (by decide) 4 rfl rfl (by decide)
  have hlen := b2i_slice_field Std.prReadReservation hf v hr tr ⟨"additional_length", 4, 7, 32⟩ (by decide) 4 rfl rfl (by decide)
  simp only [Nat.zero_add, Nat.reduceAdd] at hgen hlen
  unfold Dec.prReadReservation
  rw [hgen, hlen, hal]
  unfold Dec.prReadReservationBody
  rw [if_neg (by decide), if_neg (by decide)]
  rw [decodeInto_std _ _ prres_c v hr tr _ (by
    intro kv hkv kf hkf
    simp only [List.mem_singleton] at hkv
    subst hkv
    have : keysDisjoint [("pr_generation", FieldSpec.bits 1 0)] Gen.PersistentReserveInReadReservation_bits = true := by decide +kernel
    unfold keysDisjoint at this
    simp only [List.all_eq_true, bne_iff_ne, ne_eq] at this
    exact this ("pr_generation", FieldSpec.bits 1 0) (by simp) kf hkf)]
  rfl

/-- PERSISTENT RESERVE IN / READ RESERVATION without a reservation (ADDITIONAL LENGTH = 0) -/
theorem prReadReservation_none_decodes (v : Vals) (hr : InRangeD prHeader.rel v)
    (hal : v "additional_length" = 0) (tr : Bytes) :
    Dec.prReadReservation (prHeader.enc v ++ tr) = .ok (.dict [("pr_generation", .int (v "pr_generation"))]) := by
  have hf : formatOK prHeader.len prHeader.rel = true := by decide +kernel
  have hgen := b2i_slice_field prHeader hf v hr tr ⟨"pr_generation", 0, 7, 32⟩ (by decide) 4 rfl rfl (by decide)
  have hlen := b2i_slice_field prHeader hf v hr tr ⟨"additional_length", 4, 7, 32⟩ (by decide) 4 rfl rfl (by decide)
  simp only [Nat.zero_add, Nat.reduceAdd] at hgen hlen
  unfold Dec.prReadReservation
  rw [hgen, hlen, hal]
  unfold Dec.prReadReservationBody
  rw [if_pos rfl]

/-! ## the model's dispatch constants -/

def enumVal (m e k : String) : Option Nat :=
  (Gen.enums.find? (fun x => x.1 == m && x.2.1 == e)).bind (fun x => (x.2.2.find? (·.1 == k)).map (·.2))

/-- the constants the decoder / builder models dispatch on, with the library's names for them -/
def modelConstants : List (String × String × String × Nat) := [
  ("scsi_enum_inquiry", "VPD", "SUPPORTED_VPD_PAGES", 0x00), ("scsi_enum_inquiry", "VPD", "UNIT_SERIAL_NUMBER", 0x80),
  ("scsi_enum_inquiry", "VPD", "DEVICE_IDENTIFICATION", 0x83), ("scsi_enum_inquiry", "VPD", "EXTENDED_INQUIRY_DATA", 0x86),
  ("scsi_enum_inquiry", "VPD", "ATA_INFORMATION", 0x89), ("scsi_enum_inquiry", "VPD", "BLOCK_LIMITS", 0xB0),
  ("scsi_enum_inquiry", "VPD", "BLOCK_DEVICE_CHARACTERISTICS", 0xB1), ("scsi_enum_inquiry", "VPD", "LOGICAL_BLOCK_PROVISIONING", 0xB2),
  ("scsi_enum_inquiry", "VPD", "REFERRALS", 0xB3),
  ("scsi_enum_inquiry", "DESIGNATOR", "VENDOR_SPECIFIC", 0), ("scsi_enum_inquiry", "DESIGNATOR", "T10_VENDOR_ID", 1),
  ("scsi_enum_inquiry", "DESIGNATOR", "EUI_64", 2), ("scsi_enum_inquiry", "DESIGNATOR", "NAA", 3),
  ("scsi_enum_inquiry", "DESIGNATOR", "RELATIVE_TARGET_PORT_IDENTIFIER", 4), ("scsi_enum_inquiry", "DESIGNATOR", "TARGET_PORTAL_GROUP", 5),
  ("scsi_enum_inquiry", "DESIGNATOR", "LOGICAL_UNIT_GROUP", 6), ("scsi_enum_inquiry", "DESIGNATOR", "MD5_LOGICAL_IDENTIFIER", 7),
  ("scsi_enum_inquiry", "DESIGNATOR", "SCSI_NAME_STRING", 8), ("scsi_enum_inquiry", "DESIGNATOR", "PCI_EXPRESS_ROUTING_ID", 9),
  ("scsi_enum_inquiry", "NAA", "IEEE_EXTENDED", 2), ("scsi_enum_inquiry", "NAA", "LOCALLY_ASSIGNED", 3),
  ("scsi_enum_inquiry", "NAA", "IEEE_REGISTERED", 5), ("scsi_enum_inquiry", "NAA", "IEEE_REGISTERED_EXTENDED", 6),
  ("scsi_enum_modesense", "PAGE_CODE", "DISCONNECT_RECONNECT", 0x02), ("scsi_enum_modesense", "PAGE_CODE", "CONTROL", 0x0A),
  ("scsi_enum_modesense", "PAGE_CODE", "ELEMENT_ADDRESS_ASSIGNMENT", 0x1D),
  ("scsi_enum_persistentreserve", "PROTOCOL_ID", "FIBRE_CHANNEL", 0), ("scsi_enum_persistentreserve", "PROTOCOL_ID", "IEEE_1394", 3),
  ("scsi_enum_persistentreserve", "PROTOCOL_ID", "RDMA", 4), ("scsi_enum_persistentreserve", "PROTOCOL_ID", "ISCSI", 5),
  ("scsi_enum_persistentreserve", "PROTOCOL_ID", "SAS", 6), ("scsi_enum_persistentreserve", "PROTOCOL_ID", "SOP", 0xA),
  ("scsi_enum_readdiscinformation", "DISC_INFORMATION_DATA_TYPE", "STANDARD_DISC_INFORMATION", 0),
  ("scsi_enum_readdiscinformation", "DISC_INFORMATION_DATA_TYPE", "TRACK_RESOURCES_INFORMATION", 1),
  ("scsi_enum_readdiscinformation", "DISC_INFORMATION_DATA_TYPE", "POW_RESOURCES_DISC_INFORMATION", 2),
  ("scsi_enum_readelementstatus", "ELEMENT_TYPE", "STORAGE", 2), ("scsi_enum_readelementstatus", "ELEMENT_TYPE", "IMPORT_EXPORT", 3),
  ("scsi_enum_readelementstatus", "ELEMENT_TYPE", "DATA_TRANSFER", 4),
  ("scsi_cdb_report_target_port_groups", "DATA_FORMAT_TYPE", "EXTENDED_HEADER_PARAMETER_DATA_FORMAT", 1),
  ("scsi_cdb_readcd", "EXPECTED_SECTOR_TYPE", "CDDA", 1), ("scsi_cdb_readcd", "EXPECTED_SECTOR_TYPE", "MODE_1", 2),
  ("scsi_cdb_readcd", "EXPECTED_SECTOR_TYPE", "MODE_2_FORMLESS", 3), ("scsi_cdb_readcd", "EXPECTED_SECTOR_TYPE", "MODE_2_FORM_1", 4),
  ("scsi_cdb_readcd", "EXPECTED_SECTOR_TYPE", "MODE_2_FORM_2", 5)]

/-- **the literals in `Model/Formats/*` are the library's enum values** (regenerated every run) -/
theorem model_constants_match : modelConstants.all (fun x => enumVal x.1 x.2.1 x.2.2.1 == some x.2.2.2) = true := by
  decide +kernel


/-! ## header + fixed-size descriptors -/

/-- GET LBA STATUS: every descriptor inside PARAMETER DATA LENGTH, whole and in order, nothing
    beyond it — for every descriptor count and any trailing bytes -/
theorem getLbaStatus_decodes (ds : List Vals) (hr : ∀ v ∈ ds, InRangeD lbaStatusDescriptor.rel v)
    (hfit : 4 + 16 * ds.length < 2 ^ 32) (tr : Bytes) :
    Dec.getLbaStatus (encGetLbaStatus ds ++ tr) =
      .ok (.dict [("lbas", .list (ds.map (fun v => PV.dict (reported Gen.GetLBAStatus_datain_bits v))))]) := by
  have hitems : ∀ x ∈ ds.map lbaStatusDescriptor.enc, x.length = 16 := by
    intro x hx
    obtain ⟨v, _, rfl⟩ := List.mem_map.mp hx
    exact enc_length _ v
  have hbody : ((ds.map lbaStatusDescriptor.enc).flatten).length = 16 * ds.length := by
    rw [flatten_length_const 16 _ hitems]; simp
  have e : encGetLbaStatus ds ++ tr
      = (toBytes (4 + 16 * ds.length) 4 ++ [0, 0, 0, 0]) ++ (ds.map lbaStatusDescriptor.enc).flatten ++ tr := by
    unfold encGetLbaStatus; simp
  have e0 : encGetLbaStatus ds ++ tr
      = toBytes (4 + 16 * ds.length) 4 ++ ([0, 0, 0, 0] ++ (ds.map lbaStatusDescriptor.enc).flatten ++ tr) := by
    unfold encGetLbaStatus; simp
  have h1 : slice (encGetLbaStatus ds ++ tr) 0 4 = toBytes (4 + 16 * ds.length) 4 := by
    rw [e0]; exact slice_prefix _ _ 4 (toBytes_length _ _)
  unfold Dec.getLbaStatus
  simp only [h1, b2i_be _ 4 (by simpa using hfit)]
  rw [e, slice_mid _ _ _ 8 _ (by simp [toBytes_length]) (by rw [hbody]; omega)]
  rw [pieces_flatten 16 (by decide) _ hitems]
  rw [mapM_map_ok _ _ (fun v => PV.dict (reported Gen.GetLBAStatus_datain_bits v))]
  · rfl
  · intro v hv
    have := decodeInto_std_nil _ _ lbaDesc_c v (hr v hv) []
    rw [List.append_nil] at this
    rw [this]
    rfl


theorem lun_reported (v : Vals) : reported Gen.ReportLuns_datain_bits v = [("lun", .int (v "lun"))] := rfl

theorem lun_rename (v : Vals) (i : Nat) :
    ((PDict.del [("lun", PV.int (v "lun"))] "lun").set ("lun" ++ toString i) (((PDict.get? [("lun", PV.int (v "lun"))] "lun")).getD .none))
      = [("lun" ++ toString i, .int (v "lun"))] := by
  simp [PDict.del, PDict.set, PDict.get?]

/-- REPORT LUNS: every LUN inside LUN LIST LENGTH (n−7), in order, under the keys `lun0`, `lun1`, … -/
theorem reportLuns_decodes (luns : List Vals) (hr : ∀ v ∈ luns, InRangeD lunEntry.rel v)
    (hfit : 8 * luns.length < 2 ^ 32) (tr : Bytes) :
    Dec.reportLuns (encReportLuns luns ++ tr) =
      .ok (.dict [("luns", .list (luns.mapIdx (fun i v => PV.dict [("lun" ++ toString i, .int (v "lun"))])))]) := by
  have hitems : ∀ x ∈ luns.map lunEntry.enc, x.length = 8 := by
    intro x hx
    obtain ⟨v, _, rfl⟩ := List.mem_map.mp hx
    exact enc_length _ v
  have hbody : ((luns.map lunEntry.enc).flatten).length = 8 * luns.length := by
    rw [flatten_length_const 8 _ hitems]; simp
  have e : encReportLuns luns ++ tr
      = (toBytes (8 * luns.length) 4 ++ [0, 0, 0, 0]) ++ (luns.map lunEntry.enc).flatten ++ tr := by
    unfold encReportLuns; simp
  have e0 : encReportLuns luns ++ tr
      = toBytes (8 * luns.length) 4 ++ ([0, 0, 0, 0] ++ (luns.map lunEntry.enc).flatten ++ tr) := by
    unfold encReportLuns; simp
  have h1 : slice (encReportLuns luns ++ tr) 0 4 = toBytes (8 * luns.length) 4 := by
    rw [e0]; exact slice_prefix _ _ 4 (toBytes_length _ _)
  unfold Dec.reportLuns
  simp only [h1, b2i_be _ 4 (by simpa using hfit)]
  rw [e, slice_mid _ _ _ 8 _ (by simp [toBytes_length]) (by rw [hbody]; omega)]
  rw [pieces_flatten 8 (by decide) _ hitems]
  rw [mapM_map_ok _ _ (fun v => ([("lun", PV.int (v "lun"))] : PDict))]
  · simp only [bind, Except.bind, pure, Except.pure, mapIdx_map', lun_rename]
  · intro v hv
    have := decodeInto_std_nil _ _ lun_c v (hr v hv) []
    rw [List.append_nil, lun_reported] at this
    rw [this]

/-- PERSISTENT RESERVE IN / READ KEYS: PRGENERATION and every key inside ADDITIONAL LENGTH (n−7) -/
theorem prReadKeys_decodes (gen : Nat) (keys : List Nat) (hg : gen < 2 ^ 32) (hk : ∀ k ∈ keys, k < 2 ^ 64)
    (hfit : 8 * keys.length < 2 ^ 32) (tr : Bytes) :
    Dec.prReadKeys (encReadKeys gen keys ++ tr) =
      .ok (.dict [("pr_generation", .int gen), ("reservation_keys", .list (keys.map PV.int))]) := by
  have hitems : ∀ x ∈ keys.map (toBytes · 8), x.length = 8 := by
    intro x hx
    obtain ⟨v, _, rfl⟩ := List.mem_map.mp hx
    exact toBytes_length _ _
  have hbody : ((keys.map (toBytes · 8)).flatten).length = 8 * keys.length := by
    rw [flatten_length_const 8 _ hitems]; simp
  have e0 : encReadKeys gen keys ++ tr
      = toBytes gen 4 ++ (toBytes (8 * keys.length) 4 ++ (keys.map (toBytes · 8)).flatten ++ tr) := by
    unfold encReadKeys; simp
  have e1 : encReadKeys gen keys ++ tr
      = toBytes gen 4 ++ toBytes (8 * keys.length) 4 ++ ((keys.map (toBytes · 8)).flatten ++ tr) := by
    unfold encReadKeys; simp
  have e : encReadKeys gen keys ++ tr
      = (toBytes gen 4 ++ toBytes (8 * keys.length) 4) ++ (keys.map (toBytes · 8)).flatten ++ tr := by
    unfold encReadKeys; simp
  have h1 : slice (encReadKeys gen keys ++ tr) 0 4 = toBytes gen 4 := by
    rw [e0]; exact slice_prefix _ _ 4 (toBytes_length _ _)
  have h2 : slice (encReadKeys gen keys ++ tr) 4 8 = toBytes (8 * keys.length) 4 := by
    rw [e1]; exact slice_mid _ _ _ 4 8 (toBytes_length _ _) (by rw [toBytes_length])
  unfold Dec.prReadKeys
  simp only [h1, h2, b2i_be _ 4 (by simpa using hfit), b2i_be _ 4 (by simpa using hg)]
  rw [e, slice_mid _ _ _ 8 _ (by simp [toBytes_length]) (by rw [hbody]; omega)]
  rw [pieces_flatten 8 (by decide) _ hitems]
  rw [List.map_map]
  congr 6
  apply List.map_congr_left
  intro k hkm
  simp only [Function.comp]
  rw [b2i_be _ 8 (by simpa using hk k hkm)]


/-! ## VPD pages -/

theorem bind_ok {α β : Type} (a : α) (f : α → Except PyErr β) : (Except.ok a >>= f) = f a := rfl

theorem inq_hdr_reported (v : Vals) :
    reported Gen.Inquiry_datain_bits v ++ reported Gen.Inquiry_pagecode_bits v =
      [("peripheral_qualifier", .int (v "peripheral_qualifier")), ("peripheral_device_type", .int (v "peripheral_device_type")),
       ("page_code", .int (v "page_code"))] := rfl

/-- the VPD pages that are one flat table after the common header -/
theorem vpd_flat (b : Block) (lay : Layout) (pc : Nat)
    (hA : compatible Gen.Inquiry_datain_bits b.rel b.len = true)
    (hP : compatible Gen.Inquiry_pagecode_bits b.rel b.len = true)
    (hT : compatible lay b.rel b.len = true)
    (hd : keysDisjoint [("peripheral_qualifier", FieldSpec.bits 1 0), ("peripheral_device_type", .bits 1 0), ("page_code", .bits 1 0)] lay = true)
    (hpage : ∀ data result, Dec.inquiryVpdPage pc data result = (do pure (.dict (← decodeInto data lay result))))
    (hlenf : (⟨"page_length", 2, 7, 16⟩ : DField) ∈ b.rel) (h4 : 4 ≤ b.len)
    (v : Vals) (hr : InRangeD b.rel v) (hpc : v "page_code" = pc) (hlen : v "page_length" = b.len - 4) (tr : Bytes) :
    Dec.inquiryVpd (b.enc v ++ tr) =
      .ok (.dict (reported Gen.Inquiry_datain_bits v ++ reported Gen.Inquiry_pagecode_bits v ++ reported lay v)) := by
  have hf := compatible_format hT
  have hpl := b2i_slice_field b hf v hr tr ⟨"page_length", 2, 7, 16⟩ hlenf 2 rfl rfl (by simp only; omega)
  simp only [Nat.reduceAdd] at hpl
  unfold Dec.inquiryVpd
  rw [decodeInto_std_nil _ _ hA v hr tr]
  simp only [bind, Except.bind]
  rw [decodeInto_std _ _ hP v hr tr _ (keysDisjoint_spec (by decide +kernel) v)]
  dsimp only
  rw [inq_hdr_reported]
  have hg : getInt [("peripheral_qualifier", PV.int (v "peripheral_qualifier")),
      ("peripheral_device_type", PV.int (v "peripheral_device_type")), ("page_code", PV.int (v "page_code"))] "page_code"
      = .ok (v "page_code") := by simp [getInt, PDict.get?]
  rw [hg]
  dsimp only
  rw [hpl, hlen, hpc, hpage]
  have ht : (b.enc v ++ tr).take (4 + (b.len - 4)) = b.enc v := by
    rw [List.take_left' (by rw [enc_length]; omega)]
  rw [ht]
  have := decodeInto_std lay b hT v hr [] [("peripheral_qualifier", PV.int (v "peripheral_qualifier")),
      ("peripheral_device_type", PV.int (v "peripheral_device_type")), ("page_code", PV.int (v "page_code"))] (by
    intro kv hkv kf hkf
    unfold keysDisjoint at hd
    simp only [List.all_eq_true, bne_iff_ne, ne_eq] at hd
    rcases List.mem_cons.mp hkv with h | hkv
    · rw [h]; show "peripheral_qualifier" ≠ kf.1; exact hd ("peripheral_qualifier", FieldSpec.bits 1 0) (by simp) kf hkf
    rcases List.mem_cons.mp hkv with h | hkv
    · rw [h]; show "peripheral_device_type" ≠ kf.1; exact hd ("peripheral_device_type", FieldSpec.bits 1 0) (by simp) kf hkf
    rcases List.mem_cons.mp hkv with h | hkv
    · rw [h]; show "page_code" ≠ kf.1; exact hd ("page_code", FieldSpec.bits 1 0) (by simp) kf hkf
    · simp at hkv)
  rw [List.append_nil, hpc] at this
  simp only [bind, Except.bind]
  rw [this]
  rfl

theorem b0A_c : compatible Gen.Inquiry_datain_bits vpdBlockLimits.rel 64 = true := by decide +kernel
theorem b0P_c : compatible Gen.Inquiry_pagecode_bits vpdBlockLimits.rel 64 = true := by decide +kernel
theorem b0T_c : compatible Gen.Inquiry_block_limits_bits vpdBlockLimits.rel 64 = true := by decide +kernel

/-- Block Limits VPD page (B0h) -/
theorem vpd_block_limits_decodes (v : Vals) (hr : InRangeD vpdBlockLimits.rel v) (hpc : v "page_code" = 0xB0)
    (hlen : v "page_length" = 60) (tr : Bytes) :
    Dec.inquiry (vpdBlockLimits.enc v ++ tr) 1 =
      .ok (.dict (reported Gen.Inquiry_datain_bits v ++ reported Gen.Inquiry_pagecode_bits v ++
                  reported Gen.Inquiry_block_limits_bits v)) := by
  unfold Dec.inquiry
  rw [if_neg (by decide)]
  exact vpd_flat vpdBlockLimits _ 0xB0 b0A_c b0P_c b0T_c (by decide +kernel)
    (by intro d r; unfold Dec.inquiryVpdPage; rw [if_neg (by decide), if_pos rfl])
    (by decide) (by decide) v hr hpc hlen tr


theorem block_dev_charA_c : compatible Gen.Inquiry_datain_bits vpdBlockDevChar.rel 64 = true := by decide +kernel
theorem block_dev_charP_c : compatible Gen.Inquiry_pagecode_bits vpdBlockDevChar.rel 64 = true := by decide +kernel
theorem block_dev_charT_c : compatible Gen.Inquiry_block_dev_char_bits vpdBlockDevChar.rel 64 = true := by decide +kernel

/-- Block Device Characteristics VPD page (B1h) -/
theorem vpd_block_dev_char_decodes (v : Vals) (hr : InRangeD vpdBlockDevChar.rel v) (hpc : v "page_code" = 0xB1)
    (hlen : v "page_length" = 60) (tr : Bytes) :
    Dec.inquiry (vpdBlockDevChar.enc v ++ tr) 1 =
      .ok (.dict (reported Gen.Inquiry_datain_bits v ++ reported Gen.Inquiry_pagecode_bits v ++
                  reported Gen.Inquiry_block_dev_char_bits v)) := by
  unfold Dec.inquiry
  rw [if_neg (by decide)]
  exact vpd_flat vpdBlockDevChar _ 0xB1 block_dev_charA_c block_dev_charP_c block_dev_charT_c (by decide +kernel)
    (by intro d r; unfold Dec.inquiryVpdPage; rw [if_neg (by decide), if_neg (by decide), if_pos rfl])
    (by decide) (by decide) v hr hpc hlen tr

theorem lbpA_c : compatible Gen.Inquiry_datain_bits vpdLbp.rel 8 = true := by decide +kernel
theorem lbpP_c : compatible Gen.Inquiry_pagecode_bits vpdLbp.rel 8 = true := by decide +kernel
theorem lbpT_c : compatible Gen.Inquiry_logical_block_provisioning_bits vpdLbp.rel 8 = true := by decide +kernel

/-- Logical Block Provisioning VPD page (B2h) -/
theorem vpd_lbp_decodes (v : Vals) (hr : InRangeD vpdLbp.rel v) (hpc : v "page_code" = 0xB2)
    (hlen : v "page_length" = 4) (tr : Bytes) :
    Dec.inquiry (vpdLbp.enc v ++ tr) 1 =
      .ok (.dict (reported Gen.Inquiry_datain_bits v ++ reported Gen.Inquiry_pagecode_bits v ++
                  reported Gen.Inquiry_logical_block_provisioning_bits v)) := by
  unfold Dec.inquiry
  rw [if_neg (by decide)]
  exact vpd_flat vpdLbp _ 0xB2 lbpA_c lbpP_c lbpT_c (by decide +kernel)
    (by intro d r; unfold Dec.inquiryVpdPage; rw [if_neg (by decide), if_neg (by decide), if_neg (by decide), if_pos rfl])
    (by decide) (by decide) v hr hpc hlen tr

theorem referralsA_c : compatible Gen.Inquiry_datain_bits vpdReferrals.rel 16 = true := by decide +kernel
theorem referralsP_c : compatible Gen.Inquiry_pagecode_bits vpdReferrals.rel 16 = true := by decide +kernel
theorem referralsT_c : compatible Gen.Inquiry_referrals_bits vpdReferrals.rel 16 = true := by decide +kernel

/-- Referrals VPD page (B3h) -/
theorem vpd_referrals_decodes (v : Vals) (hr : InRangeD vpdReferrals.rel v) (hpc : v "page_code" = 0xB3)
    (hlen : v "page_length" = 12) (tr : Bytes) :
    Dec.inquiry (vpdReferrals.enc v ++ tr) 1 =
      .ok (.dict (reported Gen.Inquiry_datain_bits v ++ reported Gen.Inquiry_pagecode_bits v ++
                  reported Gen.Inquiry_referrals_bits v)) := by
  unfold Dec.inquiry
  rw [if_neg (by decide)]
  exact vpd_flat vpdReferrals _ 0xB3 referralsA_c referralsP_c referralsT_c (by decide +kernel)
    (by intro d r; unfold Dec.inquiryVpdPage; rw [if_neg (by decide), if_neg (by decide), if_neg (by decide), if_neg (by decide), if_pos rfl])
    (by decide) (by decide) v hr hpc hlen tr

theorem extendedA_c : compatible Gen.Inquiry_datain_bits vpdExtended.rel 64 = true := by decide +kernel
theorem extendedP_c : compatible Gen.Inquiry_pagecode_bits vpdExtended.rel 64 = true := by decide +kernel
theorem extendedT_c : compatible Gen.Inquiry_extended_bits vpdExtended.rel 64 = true := by decide +kernel

/-- Extended INQUIRY Data VPD page (86h) -/
theorem vpd_extended_decodes (v : Vals) (hr : InRangeD vpdExtended.rel v) (hpc : v "page_code" = 0x86)
    (hlen : v "page_length" = 60) (tr : Bytes) :
    Dec.inquiry (vpdExtended.enc v ++ tr) 1 =
      .ok (.dict (reported Gen.Inquiry_datain_bits v ++ reported Gen.Inquiry_pagecode_bits v ++
                  reported Gen.Inquiry_extended_bits v)) := by
  unfold Dec.inquiry
  rw [if_neg (by decide)]
  exact vpd_flat vpdExtended _ 0x86 extendedA_c extendedP_c extendedT_c (by decide +kernel)
    (by intro d r; unfold Dec.inquiryVpdPage; rw [if_neg (by decide), if_neg (by decide), if_neg (by decide), if_neg (by decide), if_neg (by decide), if_neg (by decide), if_pos rfl])
    (by decide) (by decide) v hr hpc hlen tr


theorem hdrA_c : compatible Gen.Inquiry_datain_bits vpdHeader.rel 4 = true := by decide +kernel
theorem hdrP_c : compatible Gen.Inquiry_pagecode_bits vpdHeader.rel 4 = true := by decide +kernel

/-- the common part of the VPD pages whose body is a byte string: header decoded, buffer cut at PAGE LENGTH -/
theorem vpd_bytes (pc : Nat) (body : Bytes) (v : Vals) (hr : InRangeD vpdHeader.rel v) (hpc : v "page_code" = pc)
    (hlen : v "page_length" = body.length) (tr : Bytes) :
    Dec.inquiryVpd (vpdHeader.enc v ++ body ++ tr) =
      Dec.inquiryVpdPage pc (vpdHeader.enc v ++ body)
        [("peripheral_qualifier", .int (v "peripheral_qualifier")), ("peripheral_device_type", .int (v "peripheral_device_type")),
         ("page_code", .int pc)] := by
  have hf := compatible_format hdrP_c
  have e : vpdHeader.enc v ++ body ++ tr = vpdHeader.enc v ++ (body ++ tr) := by simp
  have hpl := b2i_slice_field vpdHeader hf v hr (body ++ tr) ⟨"page_length", 2, 7, 16⟩ (by decide) 2 rfl rfl (by decide)
  simp only [Nat.reduceAdd] at hpl
  unfold Dec.inquiryVpd
  rw [e, decodeInto_std_nil _ _ hdrA_c v hr (body ++ tr)]
  rw [bind_ok]
  rw [decodeInto_std _ _ hdrP_c v hr (body ++ tr) _ (keysDisjoint_spec (by decide +kernel) v)]
  rw [bind_ok, inq_hdr_reported]
  have hg : getInt [("peripheral_qualifier", PV.int (v "peripheral_qualifier")),
      ("peripheral_device_type", PV.int (v "peripheral_device_type")), ("page_code", PV.int (v "page_code"))] "page_code"
      = .ok (v "page_code") := by simp [getInt, PDict.get?]
  rw [hg, bind_ok]
  rw [hpl, hlen, hpc, ← e]
  have ht : (vpdHeader.enc v ++ body ++ tr).take (4 + body.length) = vpdHeader.enc v ++ body := by
    rw [List.take_left' (by rw [List.length_append, enc_length]; rfl)]
  rw [ht]

/-- Unit Serial Number VPD page (80h): exactly the PAGE LENGTH bytes of the serial number -/
theorem vpd_serial_decodes (sn : Bytes) (v : Vals) (hr : InRangeD vpdHeader.rel v) (hpc : v "page_code" = 0x80)
    (hlen : v "page_length" = sn.length) (tr : Bytes) :
    Dec.inquiry (vpdHeader.enc v ++ sn ++ tr) 1 =
      .ok (.dict [("peripheral_qualifier", .int (v "peripheral_qualifier")),
                  ("peripheral_device_type", .int (v "peripheral_device_type")),
                  ("page_code", .int 0x80), ("unit_serial_number", .bytes sn)]) := by
  unfold Dec.inquiry
  rw [if_neg (by decide), vpd_bytes 0x80 sn v hr hpc hlen tr]
  unfold Dec.inquiryVpdPage
  rw [if_neg (by decide), if_neg (by decide), if_neg (by decide), if_neg (by decide), if_neg (by decide), if_pos rfl]
  rw [List.drop_left' (show (vpdHeader.enc v).length = 4 from enc_length _ _)]
  simp [PDict.set, pure, Except.pure]

/-- Supported VPD Pages VPD page (00h): exactly the PAGE LENGTH page codes, in order -/
theorem vpd_supported_decodes (pages : Bytes) (v : Vals) (hr : InRangeD vpdHeader.rel v) (hpc : v "page_code" = 0)
    (hlen : v "page_length" = pages.length) (tr : Bytes) :
    Dec.inquiry (vpdHeader.enc v ++ pages ++ tr) 1 =
      .ok (.dict [("peripheral_qualifier", .int (v "peripheral_qualifier")),
                  ("peripheral_device_type", .int (v "peripheral_device_type")),
                  ("page_code", .int 0), ("vpd_pages", .list (pages.map PV.int))]) := by
  unfold Dec.inquiry
  rw [if_neg (by decide), vpd_bytes 0 pages v hr hpc hlen tr]
  unfold Dec.inquiryVpdPage
  rw [if_pos rfl]
  rw [List.drop_left' (show (vpdHeader.enc v).length = 4 from enc_length _ _)]
  simp [PDict.set, pure, Except.pure]


end C04
