import ScsiVerif.Lemmas.Decode
/-!
# C04 — well-formed device responses are decoded to the values the device sent

`Std/DataIn.lean` states the response formats as the standards do (byte, msb, width; length fields
`n−3`, `n−7`).  `Dec.*` (Model/Formats/Decode.lean) mirrors the library's `unmarshall_datain`
routines line by line and reads the layout tables regenerated from the source (`Gen.*`).

* `all_response_tables_conform`: every layout table the parsers use sits exactly on the standard's
  fields (kernel-decided on the regenerated tables; `DataCompat.compatible_sound` turns that into
  "`decode_bits` returns the device's values, whatever follows the structure").
* one theorem per response format: for **all** in-range field values, **all** descriptor counts
  that fit the length field, with and without trailing buffer space, the decoder returns exactly
  the values the device encoded, every descriptor inside the reported length whole and in order,
  nothing beyond it.
-/
namespace C04
open Conv PVal Std DataCompat DecL Dec

def lookupT (c a : String) : Option Layout := (Gen.allTables.find? (fun t => t.1 == c && t.2.1 == a)).map (·.2.2)

/-- the library table named by a `Std.blocks` row is compatible with the standard's block -/
def blockOK (x : Block × String × String) : Bool :=
  match lookupT x.2.1 x.2.2 with
  | some lay => compatible lay x.1.rel x.1.len
  | none => false

/-- **every response layout table of the library conforms to the standard's format** -/
theorem all_response_tables_conform : Std.blocks.all blockOK = true := by decide +kernel

/-! ## the tables used by the theorems below, one kernel-decided fact each -/

theorem rc10_c : compatible Gen.ReadCapacity10_datain_bits readCapacity10.rel 8 = true := by decide +kernel
theorem rc16_c : compatible Gen.ReadCapacity16_datain_bits readCapacity16.rel 32 = true := by decide +kernel
theorem inqA_c : compatible Gen.Inquiry_datain_bits inquiryStandard.rel 58 = true := by decide +kernel
theorem inqB_c : compatible Gen.Inquiry_standard_bits inquiryStandard.rel 58 = true := by decide +kernel
theorem lbaDesc_c : compatible Gen.GetLBAStatus_datain_bits lbaStatusDescriptor.rel 16 = true := by decide +kernel
theorem lun_c : compatible Gen.ReportLuns_datain_bits lunEntry.rel 8 = true := by decide +kernel
theorem prres_c : compatible Gen.PersistentReserveInReadReservation_bits prReadReservation.rel 24 = true := by decide +kernel
theorem sdi_c : compatible Gen.ReadDiscInformation_sdi_bits discInfoStandard.rel 34 = true := by decide +kernel
theorem tri_c : compatible Gen.ReadDiscInformation_tri_bits discInfoTrack.rel 12 = true := by decide +kernel
theorem pow_c : compatible Gen.ReadDiscInformation_pow_bits discInfoPow.rel 16 = true := by decide +kernel

/-- keys of two tables applied to the same buffer do not collide -/
def keysDisjoint (a b : Layout) : Bool := a.all (fun x => b.all (fun y => x.1 != y.1))

theorem keysDisjoint_spec {a b : Layout} (h : keysDisjoint a b = true) (v : Vals) :
    ∀ kv ∈ reported a v, ∀ kf ∈ b, kv.1 ≠ kf.1 := by
  intro kv hkv kf hkf
  have : kv.1 ∈ (reported a v).map (·.1) := List.mem_map.mpr ⟨kv, hkv, rfl⟩
  rw [reported_keys] at this
  obtain ⟨x, hx, hx'⟩ := List.mem_map.mp this
  unfold keysDisjoint at h
  simp only [List.all_eq_true, bne_iff_ne, ne_eq] at h
  rw [← hx']
  exact h x hx kf hkf

/-! ## flat formats -/

/-- READ CAPACITY(10) -/
theorem readCapacity10_decodes (v : Vals) (hr : InRangeD readCapacity10.rel v) (tr : Bytes) :
    Dec.readCapacity10 (readCapacity10.enc v ++ tr) = .ok (.dict (reported Gen.ReadCapacity10_datain_bits v)) := by
  unfold Dec.readCapacity10
  rw [decodeInto_std_nil _ _ rc10_c v hr tr]
  rfl

/-- READ CAPACITY(16) -/
theorem readCapacity16_decodes (v : Vals) (hr : InRangeD readCapacity16.rel v) (tr : Bytes) :
    Dec.readCapacity16 (readCapacity16.enc v ++ tr) = .ok (.dict (reported Gen.ReadCapacity16_datain_bits v)) := by
  unfold Dec.readCapacity16
  rw [decodeInto_std_nil _ _ rc16_c v hr tr]
  rfl

/-- standard INQUIRY data: the qualifier/type byte and every field of the standard table -/
theorem inquiry_standard_decodes (v : Vals) (hr : InRangeD inquiryStandard.rel v) (tr : Bytes) :
    Dec.inquiry (inquiryStandard.enc v ++ tr) 0 =
      .ok (.dict (reported Gen.Inquiry_datain_bits v ++ reported Gen.Inquiry_standard_bits v)) := by
  unfold Dec.inquiry Dec.inquiryStd
  rw [if_pos rfl, decodeInto_std_nil _ _ inqA_c v hr tr]
  simp only [bind, Except.bind]
  rw [decodeInto_std _ _ inqB_c v hr tr _ (keysDisjoint_spec (by decide +kernel) v)]
  rfl

/-- READ DISC INFORMATION, track resources (data type 001b) -/
theorem discInfo_track_decodes (v : Vals) (hr : InRangeD discInfoTrack.rel v)
    (ht : v "disc_information_data_type" = 1) (tr : Bytes) :
    Dec.readDiscInformation (discInfoTrack.enc v ++ tr) = .ok (.dict (reported Gen.ReadDiscInformation_tri_bits v)) := by
  obtain ⟨x, hx, hxv⟩ := idx_top_field discInfoTrack (compatible_format tri_c) v hr tr
    ⟨"disc_information_data_type", 2, 7, 3⟩ (by decide) rfl (by decide)
  have e : x >>> 5 = 1 := by rw [← ht]; exact hxv
  unfold Dec.readDiscInformation
  rw [hx]
  simp only [bind, Except.bind]
  rw [e]
  unfold Dec.discInfoByType
  rw [if_neg (by decide), if_pos rfl]
  unfold Dec.discInfoTrack
  rw [decodeInto_std_nil _ _ tri_c v hr tr]
  rfl

/-- READ DISC INFORMATION, POW resources (data type 010b) -/
theorem discInfo_pow_decodes (v : Vals) (hr : InRangeD discInfoPow.rel v)
    (ht : v "disc_information_data_type" = 2) (tr : Bytes) :
    Dec.readDiscInformation (discInfoPow.enc v ++ tr) = .ok (.dict (reported Gen.ReadDiscInformation_pow_bits v)) := by
  obtain ⟨x, hx, hxv⟩ := idx_top_field discInfoPow (compatible_format pow_c) v hr tr
    ⟨"disc_information_data_type", 2, 7, 3⟩ (by decide) rfl (by decide)
  have e : x >>> 5 = 2 := by rw [← ht]; exact hxv
  unfold Dec.readDiscInformation
  rw [hx]
  simp only [bind, Except.bind]
  rw [e]
  unfold Dec.discInfoByType
  rw [if_neg (by decide), if_neg (by decide), if_pos rfl]
  unfold Dec.discInfoPow
  rw [decodeInto_std_nil _ _ pow_c v hr tr]
  rfl

/-- PERSISTENT RESERVE IN / READ RESERVATION with a reservation present (ADDITIONAL LENGTH = 16) -/
theorem prReadReservation_decodes (v : Vals) (hr : InRangeD prReadReservation.rel v)
    (hal : v "additional_length" = 16) (tr : Bytes) :
    Dec.prReadReservation (prReadReservation.enc v ++ tr) =
      .ok (.dict ([("pr_generation", .int (v "pr_generation"))] ++
                  reported Gen.PersistentReserveInReadReservation_bits v)) := by
  have hf := compatible_format prres_c
  have hgen := b2i_slice_field Std.prReadReservation hf v hr tr ⟨"pr_generation", 0, 7, 32⟩ (by decide) 4 rfl rfl (by decide)
  have hlen := b2i_slice_field Std.prReadReservation hf v hr tr ⟨"additional_length", 4, 7, 32⟩ (by decide) 4 rfl rfl (by decide)
  simp only [Nat.zero_add, Nat.reduceAdd] at hgen hlen
  unfold Dec.prReadReservation
  rw [hgen, hlen, hal]
  unfold Dec.prReadReservationBody
  rw [if_neg (by decide), if_neg (by decide)]
  rw [decodeInto_std _ _ prres_c v hr tr _ (by
    intro kv hkv kf hkf
    simp only [List.mem_singleton] at hkv
    subst hkv
    have : keysDisjoint [("pr_generation", FieldSpec.bits 1 0)] Gen.PersistentReserveInReadReservation_bits = true := by decide +kernel
    unfold keysDisjoint at this
    simp only [List.all_eq_true, bne_iff_ne, ne_eq] at this
    exact this ("pr_generation", FieldSpec.bits 1 0) (by simp) kf hkf)]
  rfl

/-- the 8-byte READ RESERVATION / READ KEYS header when nothing follows -/
def prHeader : Block := ⟨"pr_header", 0, 8, [⟨"pr_generation", 0, 7, 32⟩, ⟨"additional_length", 4, 7, 32⟩]⟩

/-- PERSISTENT RESERVE IN / READ RESERVATION without a reservation (ADDITIONAL LENGTH = 0) -/
theorem prReadReservation_none_decodes (v : Vals) (hr : InRangeD prHeader.rel v)
    (hal : v "additional_length" = 0) (tr : Bytes) :
    Dec.prReadReservation (prHeader.enc v ++ tr) = .ok (.dict [("pr_generation", .int (v "pr_generation"))]) := by
  have hf : formatOK prHeader.len prHeader.rel = true := by decide +kernel
  have hgen := b2i_slice_field prHeader hf v hr tr ⟨"pr_generation", 0, 7, 32⟩ (by decide) 4 rfl rfl (by decide)
  have hlen := b2i_slice_field prHeader hf v hr tr ⟨"additional_length", 4, 7, 32⟩ (by decide) 4 rfl rfl (by decide)
  simp only [Nat.zero_add, Nat.reduceAdd] at hgen hlen
  unfold Dec.prReadReservation
  rw [hgen, hlen, hal]
  unfold Dec.prReadReservationBody
  rw [if_pos rfl]

/-! ## header + fixed-size descriptors -/

/-- GET LBA STATUS: every descriptor inside PARAMETER DATA LENGTH, whole and in order, nothing
    beyond it — for every descriptor count and any trailing bytes -/
theorem getLbaStatus_decodes (ds : List Vals) (hr : ∀ v ∈ ds, InRangeD lbaStatusDescriptor.rel v)
    (hfit : 4 + 16 * ds.length < 2 ^ 32) (tr : Bytes) :
    Dec.getLbaStatus (encGetLbaStatus ds ++ tr) =
      .ok (.dict [("lbas", .list (ds.map (fun v => PV.dict (reported Gen.GetLBAStatus_datain_bits v))))]) := by
  have hitems : ∀ x ∈ ds.map lbaStatusDescriptor.enc, x.length = 16 := by
    intro x hx
    obtain ⟨v, _, rfl⟩ := List.mem_map.mp hx
    exact enc_length _ v
  have hbody : ((ds.map lbaStatusDescriptor.enc).flatten).length = 16 * ds.length := by
    rw [flatten_length_const 16 _ hitems]; simp
  have e : encGetLbaStatus ds ++ tr
      = (toBytes (4 + 16 * ds.length) 4 ++ [0, 0, 0, 0]) ++ (ds.map lbaStatusDescriptor.enc).flatten ++ tr := by
    unfold encGetLbaStatus; simp
  have e0 : encGetLbaStatus ds ++ tr
      = toBytes (4 + 16 * ds.length) 4 ++ ([0, 0, 0, 0] ++ (ds.map lbaStatusDescriptor.enc).flatten ++ tr) := by
    unfold encGetLbaStatus; simp
  have h1 : slice (encGetLbaStatus ds ++ tr) 0 4 = toBytes (4 + 16 * ds.length) 4 := by
    rw [e0]; exact slice_prefix _ _ 4 (toBytes_length _ _)
  unfold Dec.getLbaStatus
  simp only [h1, b2i_be _ 4 (by simpa using hfit)]
  rw [e, slice_mid _ _ _ 8 _ (by simp [toBytes_length]) (by rw [hbody]; omega)]
  rw [pieces_flatten 16 (by decide) _ hitems]
  rw [mapM_map_ok _ _ (fun v => PV.dict (reported Gen.GetLBAStatus_datain_bits v))]
  · rfl
  · intro v hv
    have := decodeInto_std_nil _ _ lbaDesc_c v (hr v hv) []
    rw [List.append_nil] at this
    rw [this]
    rfl


theorem lun_reported (v : Vals) : reported Gen.ReportLuns_datain_bits v = [("lun", .int (v "lun"))] := rfl

theorem lun_rename (v : Vals) (i : Nat) :
    ((PDict.del [("lun", PV.int (v "lun"))] "lun").set ("lun" ++ toString i) (((PDict.get? [("lun", PV.int (v "lun"))] "lun")).getD .none))
      = [("lun" ++ toString i, .int (v "lun"))] := by
  simp [PDict.del, PDict.set, PDict.get?]

/-- REPORT LUNS: every LUN inside LUN LIST LENGTH (n−7), in order, under the keys `lun0`, `lun1`, … -/
theorem reportLuns_decodes (luns : List Vals) (hr : ∀ v ∈ luns, InRangeD lunEntry.rel v)
    (hfit : 8 * luns.length < 2 ^ 32) (tr : Bytes) :
    Dec.reportLuns (encReportLuns luns ++ tr) =
      .ok (.dict [("luns", .list (luns.mapIdx (fun i v => PV.dict [("lun" ++ toString i, .int (v "lun"))])))]) := by
  have hitems : ∀ x ∈ luns.map lunEntry.enc, x.length = 8 := by
    intro x hx
    obtain ⟨v, _, rfl⟩ := List.mem_map.mp hx
    exact enc_length _ v
  have hbody : ((luns.map lunEntry.enc).flatten).length = 8 * luns.length := by
    rw [flatten_length_const 8 _ hitems]; simp
  have e : encReportLuns luns ++ tr
      = (toBytes (8 * luns.length) 4 ++ [0, 0, 0, 0]) ++ (luns.map lunEntry.enc).flatten ++ tr := by
    unfold encReportLuns; simp
  have e0 : encReportLuns luns ++ tr
      = toBytes (8 * luns.length) 4 ++ ([0, 0, 0, 0] ++ (luns.map lunEntry.enc).flatten ++ tr) := by
    unfold encReportLuns; simp
  have h1 : slice (encReportLuns luns ++ tr) 0 4 = toBytes (8 * luns.length) 4 := by
    rw [e0]; exact slice_prefix _ _ 4 (toBytes_length _ _)
  unfold Dec.reportLuns
  simp only [h1, b2i_be _ 4 (by simpa using hfit)]
  rw [e, slice_mid _ _ _ 8 _ (by simp [toBytes_length]) (by rw [hbody]; omega)]
  rw [pieces_flatten 8 (by decide) _ hitems]
  rw [mapM_map_ok _ _ (fun v => ([("lun", PV.int (v "lun"))] : PDict))]
  · simp only [bind, Except.bind, pure, Except.pure, mapIdx_map', lun_rename]
  · intro v hv
    have := decodeInto_std_nil _ _ lun_c v (hr v hv) []
    rw [List.append_nil, lun_reported] at this
    rw [this]

/-- PERSISTENT RESERVE IN / READ KEYS: PRGENERATION and every key inside ADDITIONAL LENGTH (n−7) -/
theorem prReadKeys_decodes (gen : Nat) (keys : List Nat) (hg : gen < 2 ^ 32) (hk : ∀ k ∈ keys, k < 2 ^ 64)
    (hfit : 8 * keys.length < 2 ^ 32) (tr : Bytes) :
    Dec.prReadKeys (encReadKeys gen keys ++ tr) =
      .ok (.dict [("pr_generation", .int gen), ("reservation_keys", .list (keys.map PV.int))]) := by
  have hitems : ∀ x ∈ keys.map (toBytes · 8), x.length = 8 := by
    intro x hx
    obtain ⟨v, _, rfl⟩ := List.mem_map.mp hx
    exact toBytes_length _ _
  have hbody : ((keys.map (toBytes · 8)).flatten).length = 8 * keys.length := by
    rw [flatten_length_const 8 _ hitems]; simp
  have e0 : encReadKeys gen keys ++ tr
      = toBytes gen 4 ++ (toBytes (8 * keys.length) 4 ++ (keys.map (toBytes · 8)).flatten ++ tr) := by
    unfold encReadKeys; simp
  have e1 : encReadKeys gen keys ++ tr
      = toBytes gen 4 ++ toBytes (8 * keys.length) 4 ++ ((keys.map (toBytes · 8)).flatten ++ tr) := by
    unfold encReadKeys; simp
  have e : encReadKeys gen keys ++ tr
      = (toBytes gen 4 ++ toBytes (8 * keys.length) 4) ++ (keys.map (toBytes · 8)).flatten ++ tr := by
    unfold encReadKeys; simp
  have h1 : slice (encReadKeys gen keys ++ tr) 0 4 = toBytes gen 4 := by
    rw [e0]; exact slice_prefix _ _ 4 (toBytes_length _ _)
  have h2 : slice (encReadKeys gen keys ++ tr) 4 8 = toBytes (8 * keys.length) 4 := by
    rw [e1]; exact slice_mid _ _ _ 4 8 (toBytes_length _ _) (by rw [toBytes_length])
  unfold Dec.prReadKeys
  simp only [h1, h2, b2i_be _ 4 (by simpa using hfit), b2i_be _ 4 (by simpa using hg)]
  rw [e, slice_mid _ _ _ 8 _ (by simp [toBytes_length]) (by rw [hbody]; omega)]
  rw [pieces_flatten 8 (by decide) _ hitems]
  rw [List.map_map]
  congr 6
  apply List.map_congr_left
  intro k hkm
  simp only [Function.comp]
  rw [b2i_be _ 8 (by simpa using hk k hkm)]


end C04
