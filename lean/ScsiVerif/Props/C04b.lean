import ScsiVerif.Props.C04
import ScsiVerif.Std.DataIn2
import ScsiVerif.Lemmas.Reserved
/-!
# C04 (continued) — whole-response theorems for the formats with variable-length descriptors

`Std.DataIn2` states REPORT PRIORITY, REPORT TARGET PORT GROUPS, MODE SENSE(6/10), READ ELEMENT
STATUS, READ FULL STATUS and the Device Identification VPD page as whole responses (headers with
the standards' length fields, descriptors of variable length).  Each theorem below says: for **all**
in-range values, **all** descriptor counts and descriptor lengths that fit the length fields, and
any trailing buffer space, the library's decoder (model `Dec.*`) returns exactly what the device
encoded — every descriptor inside the reported length whole and in order, nothing beyond it.
-/
namespace C04
open Conv PVal Std DataCompat DecL Dec

/-! ## REPORT PRIORITY -/

theorem prio_c : compatible Gen.ReportPriority_data_bits priorityDescriptor.rel 8 = true := by decide +kernel

/-- what the library reports for one priority descriptor -/
def prioReported (d : Vals × Bytes) : PV :=
  .dict (reported Gen.ReportPriority_data_bits d.1 ++ [("transport_id", .bytes d.2)])

/-- a priority descriptor is well formed: values fit their fields and ADDITIONAL DESCRIPTOR LENGTH
    is the length of the TransportID that follows -/
def PrioOK (d : Vals × Bytes) : Prop := InRangeD priorityDescriptor.rel d.1 ∧ d.1 "adlen" = d.2.length

theorem prio_one (d : Vals × Bytes) (h : PrioOK d) (rest : Bytes) :
    decodeInto (encPriorityDescriptor d ++ rest) Gen.ReportPriority_data_bits [] =
      .ok (reported Gen.ReportPriority_data_bits d.1) := by
  unfold encPriorityDescriptor
  rw [List.append_assoc]
  exact decodeInto_std_nil _ _ prio_c d.1 h.1 _

theorem prio_adlen (v : Vals) : getInt (reported Gen.ReportPriority_data_bits v) "adlen" = .ok (v "adlen") :=
  getInt_reported _ v "adlen" 65535 6 (by decide)

theorem prio_set (v : Vals) (x : PV) :
    (reported Gen.ReportPriority_data_bits v).set "transport_id" x =
      reported Gen.ReportPriority_data_bits v ++ [("transport_id", x)] := by
  apply set_fresh
  intro kv hkv
  have : kv.1 ∈ (reported Gen.ReportPriority_data_bits v).map (·.1) := List.mem_map.mpr ⟨kv, hkv, rfl⟩
  rw [reported_keys] at this
  intro heq
  rw [heq] at this
  revert this
  decide

/-- the descriptor loop on the standard's encoding of any descriptor list -/
theorem priorityDescriptors_std (ds : List (Vals × Bytes)) (h : ∀ d ∈ ds, PrioOK d) :
    Dec.priorityDescriptors (ds.map encPriorityDescriptor).flatten = .ok (ds.map prioReported) := by
  induction ds with
  | nil => unfold Dec.priorityDescriptors; simp
  | cons d ds ih =>
    have hd := h d (by simp)
    have hlen : (encPriorityDescriptor d).length = 8 + d.2.length := by
      unfold encPriorityDescriptor; rw [List.length_append, enc_length]; rfl
    have hne : ¬ ((List.map encPriorityDescriptor (d :: ds)).flatten.length = 0) := by
      simp only [List.map_cons, List.flatten_cons, List.length_append, hlen]; omega
    rw [Dec.priorityDescriptors, dif_neg hne]
    simp only [List.map_cons, List.flatten_cons]
    rw [prio_one d hd]
    dsimp only
    rw [prio_adlen]
    dsimp only
    have hdrop : (encPriorityDescriptor d ++ (ds.map encPriorityDescriptor).flatten).drop (d.1 "adlen" + 8)
        = (ds.map encPriorityDescriptor).flatten := by
      rw [List.drop_left' (by rw [hlen, hd.2]; omega)]
    rw [hdrop, ih (fun x hx => h x (by simp [hx]))]
    dsimp only
    have hsl : slice (encPriorityDescriptor d ++ (ds.map encPriorityDescriptor).flatten) 8 (8 + d.1 "adlen") = d.2 := by
      unfold encPriorityDescriptor
      exact slice_mid _ _ _ 8 _ (enc_length _ _) (by rw [hd.2])
    rw [hsl, prio_set]
    rfl

theorem encPriorityDescriptors_length (ds : List (Vals × Bytes)) :
    (ds.map encPriorityDescriptor).flatten.length = prioBodyLen ds := by
  induction ds with
  | nil => rfl
  | cons d ds ih =>
    simp only [List.map_cons, List.flatten_cons, List.length_append, ih, prioBodyLen, List.foldr_cons]
    unfold encPriorityDescriptor; rw [List.length_append, enc_length]; rfl

/-- REPORT PRIORITY: every priority descriptor inside PRIORITY PARAMETER DATA LENGTH (n−3), whole
    (header and its TransportID of ADDITIONAL DESCRIPTOR LENGTH bytes) and in order; nothing beyond -/
theorem reportPriority_decodes (ds : List (Vals × Bytes)) (h : ∀ d ∈ ds, PrioOK d)
    (hfit : prioBodyLen ds < 2 ^ 32) (tr : Bytes) :
    Dec.reportPriority (encReportPriority ds ++ tr) =
      .ok (.dict [("priority_descriptors", .list (ds.map prioReported))]) := by
  have e0 : encReportPriority ds ++ tr
      = toBytes (prioBodyLen ds) 4 ++ ((ds.map encPriorityDescriptor).flatten ++ tr) := by
    unfold encReportPriority; simp
  have e : encReportPriority ds ++ tr
      = toBytes (prioBodyLen ds) 4 ++ (ds.map encPriorityDescriptor).flatten ++ tr := by
    unfold encReportPriority; simp
  have h1 : slice (encReportPriority ds ++ tr) 0 4 = toBytes (prioBodyLen ds) 4 := by
    rw [e0]; exact slice_prefix _ _ 4 (toBytes_length _ _)
  unfold Dec.reportPriority
  rw [h1, b2i_be _ 4 (by simpa using hfit)]
  rw [e, slice_mid _ _ _ 4 _ (toBytes_length _ _) (by rw [encPriorityDescriptors_length]; omega)]
  rw [priorityDescriptors_std ds h]
  rfl

/-- the hypotheses are satisfiable by a non-trivial response (two descriptors, one with a 24-byte
    TransportID, one without) -/
example : ∃ ds : List (Vals × Bytes), ds.length = 2 ∧ (∀ d ∈ ds, PrioOK d) ∧ prioBodyLen ds < 2 ^ 32 := by
  refine ⟨[(fun k => if k = "adlen" then 24 else if k = "rtpi" then 7 else 3, List.replicate 24 0xAB),
           (fun k => if k = "adlen" then 0 else 1, [])], rfl, ?_, by decide⟩
  intro d hd
  simp only [List.mem_cons, List.not_mem_nil, or_false] at hd
  rcases hd with rfl | rfl
  · exact ⟨by intro g hg; revert g; decide, rfl⟩
  · exact ⟨by intro g hg; revert g; decide, rfl⟩

/-! ## REPORT TARGET PORT GROUPS -/

theorem tpgd_c : compatible Gen.ReportTargetPortGroups_tpgd_bits tpgDescriptor.rel 8 = true := by decide +kernel
theorem tport_f : formatOK targetPortDescriptor.len targetPortDescriptor.rel = true := by decide +kernel
theorem exth_c : compatible Gen.ReportTargetPortGroups_ext_hdr_bits rtpgExtHeader.rel 4 = true := by decide +kernel

/-- a target port group descriptor is well formed: values fit, TARGET PORT COUNT is the number of
    target port descriptors that follow -/
def TpgOK (g : Vals × List Vals) : Prop :=
  InRangeD tpgDescriptor.rel g.1 ∧ g.1 "target_port_count" = g.2.length ∧
  ∀ p ∈ g.2, InRangeD targetPortDescriptor.rel p

def portReported (p : Vals) : PV := .dict [("relative_target_port_id", .int (p "relative_target_port_id"))]

/-- what the library reports for one target port group descriptor -/
def tpgReported (g : Vals × List Vals) : PV :=
  .dict (reported Gen.ReportTargetPortGroups_tpgd_bits g.1 ++ [("target_ports", .list (g.2.map portReported))])

theorem pieces_flatten_append (k : Nat) (hk : 0 < k) (items : List Bytes) (h : ∀ x ∈ items, x.length = k) (rest : Bytes) :
    pieces k (items.flatten ++ rest) = items ++ pieces k rest := by
  induction items with
  | nil => simp
  | cons x xs ih =>
    have hx : x.length = k := h x (by simp)
    have hne : ¬ (((x :: xs).flatten ++ rest).length = 0 ∨ k = 0) := by
      simp only [List.flatten_cons, List.length_append]; omega
    rw [pieces, dif_neg hne]
    simp only [List.flatten_cons, List.append_assoc, List.cons_append]
    rw [List.take_left' hx, List.drop_left' hx, ih (fun y hy => h y (by simp [hy]))]

theorem ports_len (ps : List Vals) : ∀ x ∈ ps.map targetPortDescriptor.enc, x.length = 4 := by
  intro x hx
  obtain ⟨v, _, rfl⟩ := List.mem_map.mp hx
  exact enc_length _ v

theorem ports_flat_len (ps : List Vals) : (ps.map targetPortDescriptor.enc).flatten.length = 4 * ps.length := by
  rw [flatten_length_const 4 _ (ports_len ps)]; simp

theorem encTpg_length (g : Vals × List Vals) : (encTpg g).length = 8 + 4 * g.2.length := by
  unfold encTpg
  rw [List.length_append, enc_length, ports_flat_len]; rfl

/-- byte 7 of a target port group descriptor is TARGET PORT COUNT -/
theorem tpg_byte7 (g : Vals × List Vals) (h : TpgOK g) (rest : Bytes) :
    (encTpg g ++ rest)[7]? = some g.2.length := by
  obtain ⟨x, hx, hxv⟩ := idx_top_field tpgDescriptor (compatible_format tpgd_c) g.1 h.1
    ((g.2.map targetPortDescriptor.enc).flatten ++ rest) ⟨"target_port_count", 7, 7, 8⟩ (by decide) rfl (by decide)
  simp only [Nat.sub_self, Nat.shiftRight_zero] at hxv
  unfold idx at hx
  unfold encTpg
  rw [List.append_assoc]
  cases hq : (tpgDescriptor.enc g.1 ++ ((g.2.map targetPortDescriptor.enc).flatten ++ rest))[7]? with
  | none => rw [hq] at hx; cases hx
  | some y =>
    rw [hq] at hx
    injection hx with hx
    rw [hx, hxv, h.2.1]

/-- the descriptor loop visits exactly the descriptors -/
theorem tpgChunks_std (gs : List (Vals × List Vals)) (h : ∀ g ∈ gs, TpgOK g) :
    Dec.tpgChunks (gs.map encTpg).flatten = gs.map encTpg := by
  induction gs with
  | nil => unfold Dec.tpgChunks; simp
  | cons g gs ih =>
    have hg := h g (by simp)
    have hne : ¬ ((List.map encTpg (g :: gs)).flatten.length = 0) := by
      simp only [List.map_cons, List.flatten_cons, List.length_append, encTpg_length]; omega
    rw [Dec.tpgChunks, dif_neg hne]
    simp only [List.map_cons, List.flatten_cons]
    rw [tpg_byte7 g hg]
    have hdrop8 : (encTpg g ++ (gs.map encTpg).flatten).drop 8
        = (g.2.map targetPortDescriptor.enc).flatten ++ (gs.map encTpg).flatten := by
      unfold encTpg
      rw [List.append_assoc, List.drop_left' (show (tpgDescriptor.enc g.1).length = 8 from enc_length _ _)]
    have hn : 8 + 4 * ((pieces 4 ((encTpg g ++ (gs.map encTpg).flatten).drop 8)).take ((some g.2.length).getD 0)).length
        = 8 + 4 * g.2.length := by
      rw [hdrop8, pieces_flatten_append 4 (by decide) _ (ports_len g.2)]
      simp
    simp only [hn]
    rw [List.take_left' (encTpg_length g), List.drop_left' (encTpg_length g), ih (fun x hx => h x (by simp [hx]))]

theorem tpg_set (v : Vals) (x : PV) :
    (reported Gen.ReportTargetPortGroups_tpgd_bits v).set "target_ports" x =
      reported Gen.ReportTargetPortGroups_tpgd_bits v ++ [("target_ports", x)] := by
  apply set_fresh
  intro kv hkv
  have : kv.1 ∈ (reported Gen.ReportTargetPortGroups_tpgd_bits v).map (·.1) := List.mem_map.mpr ⟨kv, hkv, rfl⟩
  rw [reported_keys] at this
  intro heq
  rw [heq] at this
  revert this
  decide

theorem tpg_count (v : Vals) :
    getInt (reported Gen.ReportTargetPortGroups_tpgd_bits v) "target_port_count" = .ok (v "target_port_count") :=
  getInt_reported _ v "target_port_count" 255 7 (by decide)

/-- the inner loop over target port descriptors -/
theorem targetPorts_std (ps : List Vals) (h : ∀ p ∈ ps, InRangeD targetPortDescriptor.rel p) :
    (Dec.targetPorts (ps.map targetPortDescriptor.enc).flatten ps.length).1 = ps.map portReported := by
  unfold Dec.targetPorts
  simp only
  rw [pieces_flatten 4 (by decide) _ (ports_len ps)]
  rw [List.take_of_length_le (by simp), List.map_map]
  apply List.map_congr_left
  intro p hp
  simp only [Function.comp, portReported]
  have := b2i_slice_field targetPortDescriptor tport_f p (h p hp) [] ⟨"relative_target_port_id", 2, 7, 16⟩ (by decide) 2 rfl rfl (by decide)
  simp only [Nat.reduceAdd, List.append_nil] at this
  rw [this]

/-- one descriptor, as the loop body decodes it -/
theorem tpg_one (g : Vals × List Vals) (h : TpgOK g) :
    (do let (t, cnt) ← Dec.tpgHeader (encTpg g)
        pure (PV.dict (t.set "target_ports" (.list (Dec.targetPorts ((encTpg g).drop 8) cnt).1)))) = .ok (tpgReported g) := by
  unfold Dec.tpgHeader
  have hd : decodeInto (encTpg g) Gen.ReportTargetPortGroups_tpgd_bits [] = .ok (reported Gen.ReportTargetPortGroups_tpgd_bits g.1) := by
    unfold encTpg
    exact decodeInto_std_nil _ _ tpgd_c g.1 h.1 _
  rw [hd]
  simp only [bind, Except.bind, pure, Except.pure]
  rw [tpg_count]
  dsimp only
  have hdrop : (encTpg g).drop 8 = (g.2.map targetPortDescriptor.enc).flatten := by
    unfold encTpg; rw [List.drop_left' (show (tpgDescriptor.enc g.1).length = 8 from enc_length _ _)]
  rw [hdrop, h.2.1, targetPorts_std g.2 h.2.2, tpg_set]
  rfl

theorem tpgDescriptors_std (gs : List (Vals × List Vals)) (h : ∀ g ∈ gs, TpgOK g) :
    Dec.tpgDescriptors (gs.map encTpg).flatten = .ok (gs.map tpgReported) := by
  unfold Dec.tpgDescriptors
  rw [tpgChunks_std gs h]
  apply mapM_map_ok
  intro g hg
  exact tpg_one g (h g hg)

theorem encTpgs_length (gs : List (Vals × List Vals)) : (gs.map encTpg).flatten.length = tpgBodyLen gs := by
  induction gs with
  | nil => rfl
  | cons g gs ih =>
    simp only [List.map_cons, List.flatten_cons, List.length_append, ih, tpgBodyLen, List.foldr_cons, encTpg_length]

/-- REPORT TARGET PORT GROUPS, extended header format: FORMAT TYPE and IMPLICIT TRANSITION TIME, then
    every target port group descriptor inside RETURN DATA LENGTH (n−3) with all its target ports -/
theorem rtpg_ext_decodes (hv : Vals) (gs : List (Vals × List Vals)) (hh : InRangeD rtpgExtHeader.rel hv)
    (hft : hv "format_type" = 1) (h : ∀ g ∈ gs, TpgOK g) (hfit : 4 + tpgBodyLen gs < 2 ^ 32) (tr : Bytes) :
    Dec.reportTargetPortGroups (encRtpgExt hv gs ++ tr) =
      .ok (.dict [("format_type", .int 1), ("implicit_transition_time", .int (hv "implicit_transition_time")),
                  ("target_port_group_descriptors", .list (gs.map tpgReported))]) := by
  have e0 : encRtpgExt hv gs ++ tr
      = toBytes (4 + tpgBodyLen gs) 4 ++ (rtpgExtHeader.enc hv ++ (gs.map encTpg).flatten ++ tr) := by
    unfold encRtpgExt; simp
  have e : encRtpgExt hv gs ++ tr
      = toBytes (4 + tpgBodyLen gs) 4 ++ (rtpgExtHeader.enc hv ++ (gs.map encTpg).flatten) ++ tr := by
    unfold encRtpgExt; simp
  have h1 : slice (encRtpgExt hv gs ++ tr) 0 4 = toBytes (4 + tpgBodyLen gs) 4 := by
    rw [e0]; exact slice_prefix _ _ 4 (toBytes_length _ _)
  unfold Dec.reportTargetPortGroups
  rw [h1, b2i_be _ 4 (by simpa using hfit)]
  rw [e, slice_mid _ _ _ 4 _ (toBytes_length _ _) (by rw [List.length_append, enc_length, encTpgs_length]; show 4 + (4 + tpgBodyLen gs) = _; omega)]
  have hlen : (rtpgExtHeader.enc hv ++ (gs.map encTpg).flatten).length ≥ 4 := by
    rw [List.length_append, enc_length]; show 4 + _ ≥ 4; omega
  dsimp only
  rw [if_pos hlen, decodeInto_std_nil _ _ exth_c hv hh _]
  simp only [bind, Except.bind, pure, Except.pure]
  rw [getInt_reported _ hv "format_type" 112 0 (by decide), hft]
  dsimp only
  rw [if_pos rfl, getInt_reported _ hv "implicit_transition_time" 255 1 (by decide)]
  dsimp only
  rw [List.drop_left' (show (rtpgExtHeader.enc hv).length = 4 from enc_length _ _), tpgDescriptors_std gs h]
  rfl

/-- in a target port group descriptor the bits the extended header's table calls FORMAT TYPE
    (byte 0, bits 6–4) are reserved -/
theorem exth_on_tpg : tableOK Gen.ReportTargetPortGroups_ext_hdr_bits = true ∧
    reservedKey tpgDescriptor.len tpgDescriptor.rel Gen.ReportTargetPortGroups_ext_hdr_bits "format_type" = true := by
  decide +kernel

/-- REPORT TARGET PORT GROUPS, length only header format: every target port group descriptor inside
    RETURN DATA LENGTH (n−3) with all its target ports, in order; FORMAT TYPE reported as 0 -/
theorem rtpg_decodes (gs : List (Vals × List Vals)) (h : ∀ g ∈ gs, TpgOK g) (hfit : tpgBodyLen gs < 2 ^ 32) (tr : Bytes) :
    Dec.reportTargetPortGroups (encRtpg gs ++ tr) =
      .ok (.dict [("format_type", .int 0), ("target_port_group_descriptors", .list (gs.map tpgReported))]) := by
  have e0 : encRtpg gs ++ tr = toBytes (tpgBodyLen gs) 4 ++ ((gs.map encTpg).flatten ++ tr) := by
    unfold encRtpg; simp
  have e : encRtpg gs ++ tr = toBytes (tpgBodyLen gs) 4 ++ (gs.map encTpg).flatten ++ tr := by
    unfold encRtpg; simp
  have h1 : slice (encRtpg gs ++ tr) 0 4 = toBytes (tpgBodyLen gs) 4 := by
    rw [e0]; exact slice_prefix _ _ 4 (toBytes_length _ _)
  unfold Dec.reportTargetPortGroups
  rw [h1, b2i_be _ 4 (by simpa using hfit)]
  rw [e, slice_mid _ _ _ 4 _ (toBytes_length _ _) (by rw [encTpgs_length]; omega)]
  dsimp only
  cases gs with
  | nil =>
    simp only [List.map_nil, List.flatten_nil, List.length_nil]
    rw [if_neg (by decide)]
    simp only [bind, Except.bind, pure, Except.pure]
    unfold Dec.tpgDescriptors Dec.tpgChunks
    simp [PDict.set]
    rfl
  | cons g gs =>
    have hlen : ((List.map encTpg (g :: gs)).flatten).length ≥ 4 := by
      simp only [List.map_cons, List.flatten_cons, List.length_append, encTpg_length]; omega
    rw [if_pos hlen]
    have hg := h g (by simp)
    obtain ⟨r, hr1, hr2⟩ := decodeInto_reserved tpgDescriptor (compatible_format tpgd_c) g.1 hg.1
      ((g.2.map targetPortDescriptor.enc).flatten ++ (gs.map encTpg).flatten)
      Gen.ReportTargetPortGroups_ext_hdr_bits exth_on_tpg.1 "format_type" exth_on_tpg.2
    have hshape : (List.map encTpg (g :: gs)).flatten
        = tpgDescriptor.enc g.1 ++ ((g.2.map targetPortDescriptor.enc).flatten ++ (gs.map encTpg).flatten) := by
      simp only [List.map_cons, List.flatten_cons]
      unfold encTpg
      simp
    rw [show decodeInto (List.map encTpg (g :: gs)).flatten Gen.ReportTargetPortGroups_ext_hdr_bits [] = .ok r from by
      rw [hshape]; exact hr1]
    simp only [bind, Except.bind, pure, Except.pure]
    rw [hr2]
    dsimp only
    rw [if_neg (by decide), tpgDescriptors_std (g :: gs) h]
    rfl

/-- the hypotheses are satisfiable by a non-trivial response (two groups with 2 and 0 ports) -/
example : ∃ gs : List (Vals × List Vals), gs.length = 2 ∧ (∀ g ∈ gs, TpgOK g) ∧ tpgBodyLen gs < 2 ^ 32 := by
  refine ⟨[(fun k => if k = "target_port_count" then 2 else if k = "target_port_group" then 513 else 1, [fun _ => 7, fun _ => 65535]),
           (fun k => if k = "target_port_count" then 0 else 0, [])], rfl, ?_, by decide⟩
  intro g hg
  simp only [List.mem_cons, List.not_mem_nil, or_false] at hg
  rcases hg with rfl | rfl
  · refine ⟨by intro g hg; revert g; decide, rfl, ?_⟩
    intro p hp
    simp only [List.mem_cons, List.not_mem_nil, or_false] at hp
    rcases hp with rfl | rfl <;> (intro g hg; revert g; decide)
  · exact ⟨by intro g hg; revert g; decide, rfl, by intro p hp; cases hp⟩

end C04
