import ScsiVerif.Props.C04
import ScsiVerif.Std.DataIn2
/-!
# C04 (continued) — whole-response theorems for the formats with variable-length descriptors

`Std.DataIn2` states REPORT PRIORITY, REPORT TARGET PORT GROUPS, MODE SENSE(6/10), READ ELEMENT
STATUS, READ FULL STATUS and the Device Identification VPD page as whole responses (headers with
the standards' length fields, descriptors of variable length).  Each theorem below says: for **all**
in-range values, **all** descriptor counts and descriptor lengths that fit the length fields, and
any trailing buffer space, the library's decoder (model `Dec.*`) returns exactly what the device
encoded — every descriptor inside the reported length whole and in order, nothing beyond it.
-/
namespace C04
open Conv PVal Std DataCompat DecL Dec

/-! ## REPORT PRIORITY -/

theorem prio_c : compatible Gen.ReportPriority_data_bits priorityDescriptor.rel 8 = true := by decide +kernel

/-- what the library reports for one priority descriptor -/
def prioReported (d : Vals × Bytes) : PV :=
  .dict (reported Gen.ReportPriority_data_bits d.1 ++ [("transport_id", .bytes d.2)])

/-- a priority descriptor is well formed: values fit their fields and ADDITIONAL DESCRIPTOR LENGTH
    is the length of the TransportID that follows -/
def PrioOK (d : Vals × Bytes) : Prop := InRangeD priorityDescriptor.rel d.1 ∧ d.1 "adlen" = d.2.length

theorem prio_one (d : Vals × Bytes) (h : PrioOK d) (rest : Bytes) :
    decodeInto (encPriorityDescriptor d ++ rest) Gen.ReportPriority_data_bits [] =
      .ok (reported Gen.ReportPriority_data_bits d.1) := by
  unfold encPriorityDescriptor
  rw [List.append_assoc]
  exact decodeInto_std_nil _ _ prio_c d.1 h.1 _

theorem prio_adlen (v : Vals) : getInt (reported Gen.ReportPriority_data_bits v) "adlen" = .ok (v "adlen") :=
  getInt_reported _ v "adlen" 65535 6 (by decide)

theorem prio_set (v : Vals) (x : PV) :
    (reported Gen.ReportPriority_data_bits v).set "transport_id" x =
      reported Gen.ReportPriority_data_bits v ++ [("transport_id", x)] := by
  apply set_fresh
  intro kv hkv
  have : kv.1 ∈ (reported Gen.ReportPriority_data_bits v).map (·.1) := List.mem_map.mpr ⟨kv, hkv, rfl⟩
  rw [reported_keys] at this
  intro heq
  rw [heq] at this
  revert this
  decide

/-- the descriptor loop on the standard's encoding of any descriptor list -/
theorem priorityDescriptors_std (ds : List (Vals × Bytes)) (h : ∀ d ∈ ds, PrioOK d) :
    Dec.priorityDescriptors (ds.map encPriorityDescriptor).flatten = .ok (ds.map prioReported) := by
  induction ds with
  | nil => unfold Dec.priorityDescriptors; simp
  | cons d ds ih =>
    have hd := h d (by simp)
    have hlen : (encPriorityDescriptor d).length = 8 + d.2.length := by
      unfold encPriorityDescriptor; rw [List.length_append, enc_length]; rfl
    have hne : ¬ ((List.map encPriorityDescriptor (d :: ds)).flatten.length = 0) := by
      simp only [List.map_cons, List.flatten_cons, List.length_append, hlen]; omega
    rw [Dec.priorityDescriptors, dif_neg hne]
    simp only [List.map_cons, List.flatten_cons]
    rw [prio_one d hd]
    dsimp only
    rw [prio_adlen]
    dsimp only
    have hdrop : (encPriorityDescriptor d ++ (ds.map encPriorityDescriptor).flatten).drop (d.1 "adlen" + 8)
        = (ds.map encPriorityDescriptor).flatten := by
      rw [List.drop_left' (by rw [hlen, hd.2]; omega)]
    rw [hdrop, ih (fun x hx => h x (by simp [hx]))]
    dsimp only
    have hsl : slice (encPriorityDescriptor d ++ (ds.map encPriorityDescriptor).flatten) 8 (8 + d.1 "adlen") = d.2 := by
      unfold encPriorityDescriptor
      exact slice_mid _ _ _ 8 _ (enc_length _ _) (by rw [hd.2])
    rw [hsl, prio_set]
    rfl

theorem encPriorityDescriptors_length (ds : List (Vals × Bytes)) :
    (ds.map encPriorityDescriptor).flatten.length = prioBodyLen ds := by
  induction ds with
  | nil => rfl
  | cons d ds ih =>
    simp only [List.map_cons, List.flatten_cons, List.length_append, ih, prioBodyLen, List.foldr_cons]
    unfold encPriorityDescriptor; rw [List.length_append, enc_length]; rfl

/-- REPORT PRIORITY: every priority descriptor inside PRIORITY PARAMETER DATA LENGTH (n−3), whole
    (header and its TransportID of ADDITIONAL DESCRIPTOR LENGTH bytes) and in order; nothing beyond -/
theorem reportPriority_decodes (ds : List (Vals × Bytes)) (h : ∀ d ∈ ds, PrioOK d)
    (hfit : prioBodyLen ds < 2 ^ 32) (tr : Bytes) :
    Dec.reportPriority (encReportPriority ds ++ tr) =
      .ok (.dict [("priority_descriptors", .list (ds.map prioReported))]) := by
  have e0 : encReportPriority ds ++ tr
      = toBytes (prioBodyLen ds) 4 ++ ((ds.map encPriorityDescriptor).flatten ++ tr) := by
    unfold encReportPriority; simp
  have e : encReportPriority ds ++ tr
      = toBytes (prioBodyLen ds) 4 ++ (ds.map encPriorityDescriptor).flatten ++ tr := by
    unfold encReportPriority; simp
  have h1 : slice (encReportPriority ds ++ tr) 0 4 = toBytes (prioBodyLen ds) 4 := by
    rw [e0]; exact slice_prefix _ _ 4 (toBytes_length _ _)
  unfold Dec.reportPriority
  rw [h1, b2i_be _ 4 (by simpa using hfit)]
  rw [e, slice_mid _ _ _ 4 _ (toBytes_length _ _) (by rw [encPriorityDescriptors_length]; omega)]
  rw [priorityDescriptors_std ds h]
  rfl

/-- the hypotheses are satisfiable by a non-trivial response (two descriptors, one with a 24-byte
    TransportID, one without) -/
example : ∃ ds : List (Vals × Bytes), ds.length = 2 ∧ (∀ d ∈ ds, PrioOK d) ∧ prioBodyLen ds < 2 ^ 32 := by
  refine ⟨[(fun k => if k = "adlen" then 24 else if k = "rtpi" then 7 else 3, List.replicate 24 0xAB),
           (fun k => if k = "adlen" then 0 else 1, [])], rfl, ?_, by decide⟩
  intro d hd
  simp only [List.mem_cons, List.not_mem_nil, or_false] at hd
  rcases hd with rfl | rfl
  · exact ⟨by intro g hg; revert g; decide, rfl⟩
  · exact ⟨by intro g hg; revert g; decide, rfl⟩

end C04
