import ScsiVerif.Props.C04
import ScsiVerif.Std.DataIn2
import ScsiVerif.Lemmas.Reserved
import ScsiVerif.Lemmas.Bits
/-!
# C04 (continued) — whole-response theorems for the formats with variable-length descriptors

`Std.DataIn2` states REPORT PRIORITY, REPORT TARGET PORT GROUPS, MODE SENSE(6/10), READ ELEMENT
STATUS, READ FULL STATUS and the Device Identification VPD page as whole responses (headers with
the standards' length fields, descriptors of variable length).  Each theorem below says: for **all**
in-range values, **all** descriptor counts and descriptor lengths that fit the length fields, and
any trailing buffer space, the library's decoder (model `Dec.*`) returns exactly what the device
encoded — every descriptor inside the reported length whole and in order, nothing beyond it.
-/
namespace C04
open Conv PVal Std DataCompat DecL Dec

/-! ## REPORT PRIORITY -/

theorem prio_c : compatible Gen.ReportPriority_data_bits priorityDescriptor.rel 8 = true := by decide +kernel

/-- what the library reports for one priority descriptor -/
def prioReported (d : Vals × Bytes) : PV :=
  .dict (reported Gen.ReportPriority_data_bits d.1 ++ [("transport_id", .bytes d.2)])

/-- a priority descriptor is well formed: values fit their fields and ADDITIONAL DESCRIPTOR LENGTH
    is the length of the TransportID that follows -/
def PrioOK (d : Vals × Bytes) : Prop := InRangeD priorityDescriptor.rel d.1 ∧ d.1 "adlen" = d.2.length

theorem prio_one (d : Vals × Bytes) (h : PrioOK d) (rest : Bytes) :
    decodeInto (encPriorityDescriptor d ++ rest) Gen.ReportPriority_data_bits [] =
      .ok (reported Gen.ReportPriority_data_bits d.1) := by
  unfold encPriorityDescriptor
  rw [List.append_assoc]
  exact decodeInto_std_nil _ _ prio_c d.1 h.1 _

theorem prio_adlen (v : Vals) : getInt (reported Gen.ReportPriority_data_bits v) "adlen" = .ok (v "adlen") :=
  getInt_reported _ v "adlen" 65535 6 (by decide)

theorem prio_set (v : Vals) (x : PV) :
    (reported Gen.ReportPriority_data_bits v).set "transport_id" x =
      reported Gen.ReportPriority_data_bits v ++ [("transport_id", x)] := by
  apply set_fresh
  intro kv hkv
  have : kv.1 ∈ (reported Gen.ReportPriority_data_bits v).map (·.1) := List.mem_map.mpr ⟨kv, hkv, rfl⟩
  rw [reported_keys] at this
  intro heq
  rw [heq] at this
  revert this
  decide

/-- the descriptor loop on the standard's encoding of any descriptor list -/
theorem priorityDescriptors_std (ds : List (Vals × Bytes)) (h : ∀ d ∈ ds, PrioOK d) :
    Dec.priorityDescriptors (ds.map encPriorityDescriptor).flatten = .ok (ds.map prioReported) := by
  induction ds with
  | nil => unfold Dec.priorityDescriptors; simp
  | cons d ds ih =>
    have hd := h d (by simp)
    have hlen : (encPriorityDescriptor d).length = 8 + d.2.length := by
      unfold encPriorityDescriptor; rw [List.length_append, enc_length]; rfl
    have hne : ¬ ((List.map encPriorityDescriptor (d :: ds)).flatten.length = 0) := by
      simp only [List.map_cons, List.flatten_cons, List.length_append, hlen]; omega
    rw [Dec.priorityDescriptors, dif_neg hne]
    simp only [List.map_cons, List.flatten_cons]
    rw [prio_one d hd]
    dsimp only
    rw [prio_adlen]
    dsimp only
    have hdrop : (encPriorityDescriptor d ++ (ds.map encPriorityDescriptor).flatten).drop (d.1 "adlen" + 8)
        = (ds.map encPriorityDescriptor).flatten := by
      rw [List.drop_left' (by rw [hlen, hd.2]; omega)]
    rw [hdrop, ih (fun x hx => h x (by simp [hx]))]
    dsimp only
    have hsl : slice (encPriorityDescriptor d ++ (ds.map encPriorityDescriptor).flatten) 8 (8 + d.1 "adlen") = d.2 := by
      unfold encPriorityDescriptor
      exact slice_mid _ _ _ 8 _ (enc_length _ _) (by rw [hd.2])
    rw [hsl, prio_set]
    rfl

theorem encPriorityDescriptors_length (ds : List (Vals × Bytes)) :
    (ds.map encPriorityDescriptor).flatten.length = prioBodyLen ds := by
  induction ds with
  | nil => rfl
  | cons d ds ih =>
    simp only [List.map_cons, List.flatten_cons, List.length_append, ih, prioBodyLen, List.foldr_cons]
    unfold encPriorityDescriptor; rw [List.length_append, enc_length]; rfl

/-- REPORT PRIORITY: every priority descriptor inside PRIORITY PARAMETER DATA LENGTH (n−3), whole
    (header and its TransportID of ADDITIONAL DESCRIPTOR LENGTH bytes) and in order; nothing beyond -/
theorem reportPriority_decodes (ds : List (Vals × Bytes)) (h : ∀ d ∈ ds, PrioOK d)
    (hfit : prioBodyLen ds < 2 ^ 32) (tr : Bytes) :
    Dec.reportPriority (encReportPriority ds ++ tr) =
      .ok (.dict [("priority_descriptors", .list (ds.map prioReported))]) := by
  have e0 : encReportPriority ds ++ tr
      = toBytes (prioBodyLen ds) 4 ++ ((ds.map encPriorityDescriptor).flatten ++ tr) := by
    unfold encReportPriority; simp
  have e : encReportPriority ds ++ tr
      = toBytes (prioBodyLen ds) 4 ++ (ds.map encPriorityDescriptor).flatten ++ tr := by
    unfold encReportPriority; simp
  have h1 : slice (encReportPriority ds ++ tr) 0 4 = toBytes (prioBodyLen ds) 4 := by
    rw [e0]; exact slice_prefix _ _ 4 (toBytes_length _ _)
  unfold Dec.reportPriority
  rw [h1, b2i_be _ 4 (by simpa using hfit)]
  rw [e, slice_mid _ _ _ 4 _ (toBytes_length _ _) (by rw [encPriorityDescriptors_length]; omega)]
  rw [priorityDescriptors_std ds h]
  rfl

/-- the hypotheses are satisfiable by a non-trivial response (two descriptors, one with a 24-byte
    TransportID, one without) -/
example : ∃ ds : List (Vals × Bytes), ds.length = 2 ∧ (∀ d ∈ ds, PrioOK d) ∧ prioBodyLen ds < 2 ^ 32 := by
  refine ⟨[(fun k => if k = "adlen" then 24 else if k = "rtpi" then 7 else 3, List.replicate 24 0xAB),
           (fun k => if k = "adlen" then 0 else 1, [])], rfl, ?_, by decide⟩
  intro d hd
  simp only [List.mem_cons, List.not_mem_nil, or_false] at hd
  rcases hd with rfl | rfl
  · exact ⟨by intro g hg; revert g; decide, rfl⟩
  · exact ⟨by intro g hg; revert g; decide, rfl⟩

/-! ## REPORT TARGET PORT GROUPS -/

theorem tpgd_c : compatible Gen.ReportTargetPortGroups_tpgd_bits tpgDescriptor.rel 8 = true := by decide +kernel
theorem tport_f : formatOK targetPortDescriptor.len targetPortDescriptor.rel = true := by decide +kernel
theorem exth_c : compatible Gen.ReportTargetPortGroups_ext_hdr_bits rtpgExtHeader.rel 4 = true := by decide +kernel

/-- a target port group descriptor is well formed: values fit, TARGET PORT COUNT is the number of
    target port descriptors that follow -/
def TpgOK (g : Vals × List Vals) : Prop :=
  InRangeD tpgDescriptor.rel g.1 ∧ g.1 "target_port_count" = g.2.length ∧
  ∀ p ∈ g.2, InRangeD targetPortDescriptor.rel p

def portReported (p : Vals) : PV := .dict [("relative_target_port_id", .int (p "relative_target_port_id"))]

/-- what the library reports for one target port group descriptor -/
def tpgReported (g : Vals × List Vals) : PV :=
  .dict (reported Gen.ReportTargetPortGroups_tpgd_bits g.1 ++ [("target_ports", .list (g.2.map portReported))])

theorem pieces_flatten_append (k : Nat) (hk : 0 < k) (items : List Bytes) (h : ∀ x ∈ items, x.length = k) (rest : Bytes) :
    pieces k (items.flatten ++ rest) = items ++ pieces k rest := by
  induction items with
  | nil => simp
  | cons x xs ih =>
    have hx : x.length = k := h x (by simp)
    have hne : ¬ (((x :: xs).flatten ++ rest).length = 0 ∨ k = 0) := by
      simp only [List.flatten_cons, List.length_append]; omega
    rw [pieces, dif_neg hne]
    simp only [List.flatten_cons, List.append_assoc, List.cons_append]
    rw [List.take_left' hx, List.drop_left' hx, ih (fun y hy => h y (by simp [hy]))]

theorem ports_len (ps : List Vals) : ∀ x ∈ ps.map targetPortDescriptor.enc, x.length = 4 := by
  intro x hx
  obtain ⟨v, _, rfl⟩ := List.mem_map.mp hx
  exact enc_length _ v

theorem ports_flat_len (ps : List Vals) : (ps.map targetPortDescriptor.enc).flatten.length = 4 * ps.length := by
  rw [flatten_length_const 4 _ (ports_len ps)]; simp

theorem encTpg_length (g : Vals × List Vals) : (encTpg g).length = 8 + 4 * g.2.length := by
  unfold encTpg
  rw [List.length_append, enc_length, ports_flat_len]; rfl

/-- byte 7 of a target port group descriptor is TARGET PORT COUNT -/
theorem tpg_byte7 (g : Vals × List Vals) (h : TpgOK g) (rest : Bytes) :
    (encTpg g ++ rest)[7]? = some g.2.length := by
  obtain ⟨x, hx, hxv⟩ := idx_top_field tpgDescriptor (compatible_format tpgd_c) g.1 h.1
    ((g.2.map targetPortDescriptor.enc).flatten ++ rest) ⟨"target_port_count", 7, 7, 8⟩ (by decide) rfl (by decide)
  simp only [Nat.sub_self, Nat.shiftRight_zero] at hxv
  unfold idx at hx
  unfold encTpg
  rw [List.append_assoc]
  cases hq : (tpgDescriptor.enc g.1 ++ ((g.2.map targetPortDescriptor.enc).flatten ++ rest))[7]? with
  | none => rw [hq] at hx; cases hx
  | some y =>
    rw [hq] at hx
    injection hx with hx
    rw [hx, hxv, h.2.1]

/-- the descriptor loop visits exactly the descriptors -/
theorem tpgChunks_std (gs : List (Vals × List Vals)) (h : ∀ g ∈ gs, TpgOK g) :
    Dec.tpgChunks (gs.map encTpg).flatten = gs.map encTpg := by
  induction gs with
  | nil => unfold Dec.tpgChunks; simp
  | cons g gs ih =>
    have hg := h g (by simp)
    have hne : ¬ ((List.map encTpg (g :: gs)).flatten.length = 0) := by
      simp only [List.map_cons, List.flatten_cons, List.length_append, encTpg_length]; omega
    rw [Dec.tpgChunks, dif_neg hne]
    simp only [List.map_cons, List.flatten_cons]
    rw [tpg_byte7 g hg]
    have hdrop8 : (encTpg g ++ (gs.map encTpg).flatten).drop 8
        = (g.2.map targetPortDescriptor.enc).flatten ++ (gs.map encTpg).flatten := by
      unfold encTpg
      rw [List.append_assoc, List.drop_left' (show (tpgDescriptor.enc g.1).length = 8 from enc_length _ _)]
    have hn : 8 + 4 * ((pieces 4 ((encTpg g ++ (gs.map encTpg).flatten).drop 8)).take ((some g.2.length).getD 0)).length
        = 8 + 4 * g.2.length := by
      rw [hdrop8, pieces_flatten_append 4 (by decide) _ (ports_len g.2)]
      simp
    simp only [hn]
    rw [List.take_left' (encTpg_length g), List.drop_left' (encTpg_length g), ih (fun x hx => h x (by simp [hx]))]

theorem tpg_set (v : Vals) (x : PV) :
    (reported Gen.ReportTargetPortGroups_tpgd_bits v).set "target_ports" x =
      reported Gen.ReportTargetPortGroups_tpgd_bits v ++ [("target_ports", x)] := by
  apply set_fresh
  intro kv hkv
  have : kv.1 ∈ (reported Gen.ReportTargetPortGroups_tpgd_bits v).map (·.1) := List.mem_map.mpr ⟨kv, hkv, rfl⟩
  rw [reported_keys] at this
  intro heq
  rw [heq] at this
  revert this
  decide

theorem tpg_count (v : Vals) :
    getInt (reported Gen.ReportTargetPortGroups_tpgd_bits v) "target_port_count" = .ok (v "target_port_count") :=
  getInt_reported _ v "target_port_count" 255 7 (by decide)

/-- the inner loop over target port descriptors -/
theorem targetPorts_std (ps : List Vals) (h : ∀ p ∈ ps, InRangeD targetPortDescriptor.rel p) :
    (Dec.targetPorts (ps.map targetPortDescriptor.enc).flatten ps.length).1 = ps.map portReported := by
  unfold Dec.targetPorts
  simp only
  rw [pieces_flatten 4 (by decide) _ (ports_len ps)]
  rw [List.take_of_length_le (by simp), List.map_map]
  apply List.map_congr_left
  intro p hp
  simp only [Function.comp, portReported]
  have := b2i_slice_field targetPortDescriptor tport_f p (h p hp) [] ⟨"relative_target_port_id", 2, 7, 16⟩ (by decide) 2 rfl rfl (by decide)
  simp only [Nat.reduceAdd, List.append_nil] at this
  rw [this]

/-- one descriptor, as the loop body decodes it -/
theorem tpg_one (g : Vals × List Vals) (h : TpgOK g) :
    (do let (t, cnt) ← Dec.tpgHeader (encTpg g)
        pure (PV.dict (t.set "target_ports" (.list (Dec.targetPorts ((encTpg g).drop 8) cnt).1)))) = .ok (tpgReported g) := by
  unfold Dec.tpgHeader
  have hd : decodeInto (encTpg g) Gen.ReportTargetPortGroups_tpgd_bits [] = .ok (reported Gen.ReportTargetPortGroups_tpgd_bits g.1) := by
    unfold encTpg
    exact decodeInto_std_nil _ _ tpgd_c g.1 h.1 _
  rw [hd]
  simp only [bind, Except.bind, pure, Except.pure]
  rw [tpg_count]
  dsimp only
  have hdrop : (encTpg g).drop 8 = (g.2.map targetPortDescriptor.enc).flatten := by
    unfold encTpg; rw [List.drop_left' (show (tpgDescriptor.enc g.1).length = 8 from enc_length _ _)]
  rw [hdrop, h.2.1, targetPorts_std g.2 h.2.2, tpg_set]
  rfl

theorem tpgDescriptors_std (gs : List (Vals × List Vals)) (h : ∀ g ∈ gs, TpgOK g) :
    Dec.tpgDescriptors (gs.map encTpg).flatten = .ok (gs.map tpgReported) := by
  unfold Dec.tpgDescriptors
  rw [tpgChunks_std gs h]
  apply mapM_map_ok
  intro g hg
  exact tpg_one g (h g hg)

theorem encTpgs_length (gs : List (Vals × List Vals)) : (gs.map encTpg).flatten.length = tpgBodyLen gs := by
  induction gs with
  | nil => rfl
  | cons g gs ih =>
    simp only [List.map_cons, List.flatten_cons, List.length_append, ih, tpgBodyLen, List.foldr_cons, encTpg_length]

/-- REPORT TARGET PORT GROUPS, extended header format: FORMAT TYPE and IMPLICIT TRANSITION TIME, then
    every target port group descriptor inside RETURN DATA LENGTH (n−3) with all its target ports -/
theorem rtpg_ext_decodes (hv : Vals) (gs : List (Vals × List Vals)) (hh : InRangeD rtpgExtHeader.rel hv)
    (hft : hv "format_type" = 1) (h : ∀ g ∈ gs, TpgOK g) (hfit : 4 + tpgBodyLen gs < 2 ^ 32) (tr : Bytes) :
    Dec.reportTargetPortGroups (encRtpgExt hv gs ++ tr) =
      .ok (.dict [("format_type", .int 1), ("implicit_transition_time", .int (hv "implicit_transition_time")),
                  ("target_port_group_descriptors", .list (gs.map tpgReported))]) := by
  have e0 : encRtpgExt hv gs ++ tr
      = toBytes (4 + tpgBodyLen gs) 4 ++ (rtpgExtHeader.enc hv ++ (gs.map encTpg).flatten ++ tr) := by
    unfold encRtpgExt; simp
  have e : encRtpgExt hv gs ++ tr
      = toBytes (4 + tpgBodyLen gs) 4 ++ (rtpgExtHeader.enc hv ++ (gs.map encTpg).flatten) ++ tr := by
    unfold encRtpgExt; simp
  have h1 : slice (encRtpgExt hv gs ++ tr) 0 4 = toBytes (4 + tpgBodyLen gs) 4 := by
    rw [e0]; exact slice_prefix _ _ 4 (toBytes_length _ _)
  unfold Dec.reportTargetPortGroups
  rw [h1, b2i_be _ 4 (by simpa using hfit)]
  rw [e, slice_mid _ _ _ 4 _ (toBytes_length _ _) (by rw [List.length_append, enc_length, encTpgs_length]; show 4 + (4 + tpgBodyLen gs) = _; omega)]
  have hlen : (rtpgExtHeader.enc hv ++ (gs.map encTpg).flatten).length ≥ 4 := by
    rw [List.length_append, enc_length]; show 4 + _ ≥ 4; omega
  dsimp only
  rw [if_pos hlen, decodeInto_std_nil _ _ exth_c hv hh _]
  simp only [bind, Except.bind, pure, Except.pure]
  rw [getInt_reported _ hv "format_type" 112 0 (by decide), hft]
  dsimp only
  rw [if_pos rfl, getInt_reported _ hv "implicit_transition_time" 255 1 (by decide)]
  dsimp only
  rw [List.drop_left' (show (rtpgExtHeader.enc hv).length = 4 from enc_length _ _), tpgDescriptors_std gs h]
  rfl

/-- in a target port group descriptor the bits the extended header's table calls FORMAT TYPE
    (byte 0, bits 6–4) are reserved -/
theorem exth_on_tpg : tableOK Gen.ReportTargetPortGroups_ext_hdr_bits = true ∧
    reservedKey tpgDescriptor.len tpgDescriptor.rel Gen.ReportTargetPortGroups_ext_hdr_bits "format_type" = true := by
  decide +kernel

/-- REPORT TARGET PORT GROUPS, length only header format: every target port group descriptor inside
    RETURN DATA LENGTH (n−3) with all its target ports, in order; FORMAT TYPE reported as 0 -/
theorem rtpg_decodes (gs : List (Vals × List Vals)) (h : ∀ g ∈ gs, TpgOK g) (hfit : tpgBodyLen gs < 2 ^ 32) (tr : Bytes) :
    Dec.reportTargetPortGroups (encRtpg gs ++ tr) =
      .ok (.dict [("format_type", .int 0), ("target_port_group_descriptors", .list (gs.map tpgReported))]) := by
  have e0 : encRtpg gs ++ tr = toBytes (tpgBodyLen gs) 4 ++ ((gs.map encTpg).flatten ++ tr) := by
    unfold encRtpg; simp
  have e : encRtpg gs ++ tr = toBytes (tpgBodyLen gs) 4 ++ (gs.map encTpg).flatten ++ tr := by
    unfold encRtpg; simp
  have h1 : slice (encRtpg gs ++ tr) 0 4 = toBytes (tpgBodyLen gs) 4 := by
    rw [e0]; exact slice_prefix _ _ 4 (toBytes_length _ _)
  unfold Dec.reportTargetPortGroups
  rw [h1, b2i_be _ 4 (by simpa using hfit)]
  rw [e, slice_mid _ _ _ 4 _ (toBytes_length _ _) (by rw [encTpgs_length]; omega)]
  dsimp only
  cases gs with
  | nil =>
    simp only [List.map_nil, List.flatten_nil, List.length_nil]
    rw [if_neg (by decide)]
    simp only [bind, Except.bind, pure, Except.pure]
    unfold Dec.tpgDescriptors Dec.tpgChunks
    simp [PDict.set]
    rfl
  | cons g gs =>
    have hlen : ((List.map encTpg (g :: gs)).flatten).length ≥ 4 := by
      simp only [List.map_cons, List.flatten_cons, List.length_append, encTpg_length]; omega
    rw [if_pos hlen]
    have hg := h g (by simp)
    obtain ⟨r, hr1, hr2⟩ := decodeInto_reserved tpgDescriptor (compatible_format tpgd_c) g.1 hg.1
      ((g.2.map targetPortDescriptor.enc).flatten ++ (gs.map encTpg).flatten)
      Gen.ReportTargetPortGroups_ext_hdr_bits exth_on_tpg.1 "format_type" exth_on_tpg.2
    have hshape : (List.map encTpg (g :: gs)).flatten
        = tpgDescriptor.enc g.1 ++ ((g.2.map targetPortDescriptor.enc).flatten ++ (gs.map encTpg).flatten) := by
      simp only [List.map_cons, List.flatten_cons]
      unfold encTpg
      simp
    rw [show decodeInto (List.map encTpg (g :: gs)).flatten Gen.ReportTargetPortGroups_ext_hdr_bits [] = .ok r from by
      rw [hshape]; exact hr1]
    simp only [bind, Except.bind, pure, Except.pure]
    rw [hr2]
    dsimp only
    rw [if_neg (by decide), tpgDescriptors_std (g :: gs) h]
    rfl

/-- the hypotheses are satisfiable by a non-trivial response (two groups with 2 and 0 ports) -/
example : ∃ gs : List (Vals × List Vals), gs.length = 2 ∧ (∀ g ∈ gs, TpgOK g) ∧ tpgBodyLen gs < 2 ^ 32 := by
  refine ⟨[(fun k => if k = "target_port_count" then 2 else if k = "target_port_group" then 513 else 1, [fun _ => 7, fun _ => 65535]),
           (fun k => if k = "target_port_count" then 0 else 0, [])], rfl, ?_, by decide⟩
  intro g hg
  simp only [List.mem_cons, List.not_mem_nil, or_false] at hg
  rcases hg with rfl | rfl
  · refine ⟨by intro g hg; revert g; decide, rfl, ?_⟩
    intro p hp
    simp only [List.mem_cons, List.not_mem_nil, or_false] at hp
    rcases hp with rfl | rfl <;> (intro g hg; revert g; decide)
  · exact ⟨by intro g hg; revert g; decide, rfl, by intro p hp; cases hp⟩

/-! ## MODE SENSE(6) / MODE SENSE(10): one mode page, any block descriptors in front of it -/

theorem get?_none_of_not_key (lay : Layout) (v : Vals) (k : String) (h : lay.all (fun kf => kf.1 != k) = true) :
    (reported lay v).get? k = none := by
  unfold PDict.get?
  have : (reported lay v).find? (fun x => x.1 == k) = none := by
    rw [List.find?_eq_none]
    intro x hx
    have hk : x.1 ∈ (reported lay v).map (·.1) := List.mem_map.mpr ⟨x, hx, rfl⟩
    rw [reported_keys] at hk
    obtain ⟨kf, hkf, hkf'⟩ := List.mem_map.mp hk
    simp only [List.all_eq_true, bne_iff_ne, ne_eq] at h
    have := h kf hkf
    rw [hkf'] at this
    simpa using this
  rw [this]; rfl

/-- the tables of one MODE SENSE class, with the facts the theorems need (all decided by the kernel on
    the regenerated tables) -/
structure ModeTables where
  zero : Layout
  sub : Layout
  ea : Layout
  ctl : Layout
  ctl1 : Layout
  dr : Layout
  zero_c : compatible zero modePage0Header.rel 2 = true
  sub_c : compatible sub modeSubPageHeader.rel 4 = true
  ea_c : compatible ea modeElementAddress.rel 18 = true
  ctl_c : compatible ctl modeControl.rel 10 = true
  ctl1_c : compatible ctl1 modeControlExt.rel 28 = true
  dr_c : compatible dr modeDisconnect.rel 14 = true
  zero_pc : (match layoutGet? zero "page_code" with | some (.bits _ _) => true | _ => false) = true
  sub_pc : (match layoutGet? sub "page_code" with | some (.bits _ _) => true | _ => false) = true
  sub_sp : (match layoutGet? sub "sub_page_code" with | some (.bits _ _) => true | _ => false) = true
  zero_nosub : zero.all (fun kf => kf.1 != "sub_page_code") = true
  d_ea : keysDisjoint zero ea = true
  d_ctl : keysDisjoint zero ctl = true
  d_dr : keysDisjoint zero dr = true
  d_ctl1 : keysDisjoint sub ctl1 = true

theorem getInt_of_bitsKey (lay : Layout) (v : Vals) (k : String)
    (h : (match layoutGet? lay k with | some (.bits _ _) => true | _ => false) = true) :
    getInt (reported lay v) k = .ok (v k) := by
  cases hq : layoutGet? lay k with
  | none => rw [hq] at h; cases h
  | some f =>
    cases f with
    | blob u o l => rw [hq] at h; cases h
    | bits m off => exact getInt_reported lay v k m off hq

/-- which body table the page_0 branch of the decoder applies for a page code -/
def page0Body (T : ModeTables) (pc : Nat) : Option (Block × Layout) :=
  if pc = 0x1D then some (modeElementAddress, T.ea)
  else if pc = 0x0A then some (modeControl, T.ctl)
  else if pc = 0x02 then some (modeDisconnect, T.dr)
  else none

theorem page0Body_c (T : ModeTables) (pc : Nat) (B : Block) (lay : Layout) (h : page0Body T pc = some (B, lay)) :
    compatible lay B.rel B.len = true ∧ keysDisjoint T.zero lay = true := by
  unfold page0Body at h
  split at h
  · injection h with h; injection h with h1 h2; subst h1; subst h2; exact ⟨T.ea_c, T.d_ea⟩
  split at h
  · injection h with h; injection h with h1 h2; subst h1; subst h2; exact ⟨T.ctl_c, T.d_ctl⟩
  split at h
  · injection h with h; injection h with h1 h2; subst h1; subst h2; exact ⟨T.dr_c, T.d_dr⟩
  · cases h

/-- page_0 format page whose parameters the library knows (Control 0Ah, Disconnect-Reconnect 02h,
    Element Address Assignment 1Dh): header fields and every parameter of the page -/
theorem modePage_page0_known (T : ModeTables) (pv bv : Vals) (B : Block) (lay : Layout)
    (hp : InRangeD modePage0Header.rel pv) (hspf : pv "spf" = 0) (hB : page0Body T (pv "page_code") = some (B, lay))
    (hb : InRangeD B.rel bv) (tr : Bytes) :
    Dec.modePage (encModePage0 pv (B.enc bv) ++ tr) T.zero T.sub T.ea T.ctl T.ctl1 T.dr =
      .ok (reported T.zero pv ++ reported lay bv) := by
  obtain ⟨hc, hd⟩ := page0Body_c T _ B lay hB
  have hf := compatible_format T.zero_c
  obtain ⟨x, hx, hxv⟩ := idx_bit modePage0Header hf pv hp (B.enc bv ++ tr) ⟨"spf", 0, 6, 1⟩ (by decide) rfl
  have e : encModePage0 pv (B.enc bv) ++ tr = modePage0Header.enc pv ++ (B.enc bv ++ tr) := by
    unfold encModePage0; simp
  unfold Dec.modePage
  rw [e, hx]
  simp only [bind, Except.bind, pure, Except.pure]
  have hx0 : x &&& 0x40 = 0 := by
    have : x &&& 2 ^ 6 = 0 := by rw [hxv, hspf]; rfl
    simpa using this
  rw [if_pos hx0, decodeInto_std_nil _ _ T.zero_c pv hp _]
  dsimp only
  rw [getInt_of_bitsKey _ pv "page_code" T.zero_pc, get?_none_of_not_key _ pv _ T.zero_nosub]
  dsimp only
  rw [List.drop_left' (show (modePage0Header.enc pv).length = 2 from enc_length _ _)]
  have hdec := decodeInto_std lay B hc bv hb tr (reported T.zero pv) (keysDisjoint_spec hd pv)
  unfold page0Body at hB
  by_cases h1 : pv "page_code" = 0x1D
  · rw [if_pos h1] at hB
    injection hB with hB; injection hB with hB1 hB2; subst hB1; subst hB2
    rw [if_pos h1, hdec]
    have h2 : ¬ pv "page_code" = 0x0A := by omega
    have h3 : ¬ pv "page_code" = 0x02 := by omega
    simp [h2, h3]
  · rw [if_neg h1] at hB
    rw [if_neg h1]
    by_cases h2 : pv "page_code" = 0x0A
    · rw [if_pos h2] at hB
      injection hB with hB; injection hB with hB1 hB2; subst hB1; subst hB2
      have h3 : ¬ pv "page_code" = 0x02 := by omega
      simp [h2, h3, hdec]
    · rw [if_neg h2] at hB
      by_cases h3 : pv "page_code" = 0x02
      · rw [if_pos h3] at hB
        injection hB with hB; injection hB with hB1 hB2; subst hB1; subst hB2
        simp [h2, h3, hdec]
      · rw [if_neg h3] at hB; cases hB

/-- page_0 format page with any other page code: the header fields, nothing invented from the body -/
theorem modePage_page0_other (T : ModeTables) (pv : Vals) (body : Bytes)
    (hp : InRangeD modePage0Header.rel pv) (hspf : pv "spf" = 0) (hB : page0Body T (pv "page_code") = none) (tr : Bytes) :
    Dec.modePage (encModePage0 pv body ++ tr) T.zero T.sub T.ea T.ctl T.ctl1 T.dr = .ok (reported T.zero pv) := by
  have hf := compatible_format T.zero_c
  obtain ⟨x, hx, hxv⟩ := idx_bit modePage0Header hf pv hp (body ++ tr) ⟨"spf", 0, 6, 1⟩ (by decide) rfl
  have e : encModePage0 pv body ++ tr = modePage0Header.enc pv ++ (body ++ tr) := by
    unfold encModePage0; simp
  unfold Dec.modePage
  rw [e, hx]
  simp only [bind, Except.bind, pure, Except.pure]
  have hx0 : x &&& 0x40 = 0 := by
    have : x &&& 2 ^ 6 = 0 := by rw [hxv, hspf]; rfl
    simpa using this
  rw [if_pos hx0, decodeInto_std_nil _ _ T.zero_c pv hp _]
  dsimp only
  rw [getInt_of_bitsKey _ pv "page_code" T.zero_pc]
  dsimp only
  unfold page0Body at hB
  by_cases h1 : pv "page_code" = 0x1D
  · rw [if_pos h1] at hB; cases hB
  · rw [if_neg h1] at hB
    by_cases h2 : pv "page_code" = 0x0A
    · rw [if_pos h2] at hB; cases hB
    · rw [if_neg h2] at hB
      by_cases h3 : pv "page_code" = 0x02
      · rw [if_pos h3] at hB; cases hB
      · simp [h1, h2, h3]

theorem get?_some_of_bitsKey (lay : Layout) (v : Vals) (k : String)
    (h : (match layoutGet? lay k with | some (.bits _ _) => true | _ => false) = true) :
    ((reported lay v).get? k).isSome = true := by
  cases hq : layoutGet? lay k with
  | none => rw [hq] at h; cases h
  | some f => rw [get?_reported lay v k f hq]; rfl

/-- sub_page format, Control Extension page (0Ah / 01h): header fields and every parameter -/
theorem modePage_control_ext (T : ModeTables) (pv bv : Vals)
    (hp : InRangeD modeSubPageHeader.rel pv) (hspf : pv "spf" = 1) (hpc : pv "page_code" = 0x0A)
    (hsp : pv "sub_page_code" = 1) (hb : InRangeD modeControlExt.rel bv) (tr : Bytes) :
    Dec.modePage (encModeSubPage pv (modeControlExt.enc bv) ++ tr) T.zero T.sub T.ea T.ctl T.ctl1 T.dr =
      .ok (reported T.sub pv ++ reported T.ctl1 bv) := by
  have hf := compatible_format T.sub_c
  obtain ⟨x, hx, hxv⟩ := idx_bit modeSubPageHeader hf pv hp (modeControlExt.enc bv ++ tr) ⟨"spf", 0, 6, 1⟩ (by decide) rfl
  have e : encModeSubPage pv (modeControlExt.enc bv) ++ tr = modeSubPageHeader.enc pv ++ (modeControlExt.enc bv ++ tr) := by
    unfold encModeSubPage; simp
  unfold Dec.modePage
  rw [e, hx]
  simp only [bind, Except.bind, pure, Except.pure]
  have hx0 : ¬ x &&& 0x40 = 0 := by
    have : x &&& 2 ^ 6 = 64 := by rw [hxv, hspf]; rfl
    have : x &&& 0x40 = 64 := by simpa using this
    omega
  rw [if_neg hx0, decodeInto_std_nil _ _ T.sub_c pv hp _]
  dsimp only
  rw [getInt_of_bitsKey _ pv "page_code" T.sub_pc, hpc]
  dsimp only
  rw [List.drop_left' (show (modeSubPageHeader.enc pv).length = 4 from enc_length _ _)]
  have hs := get?_some_of_bitsKey T.sub pv "sub_page_code" T.sub_sp
  have hdec := decodeInto_std T.ctl1 modeControlExt T.ctl1_c bv hb tr (reported T.sub pv) (keysDisjoint_spec T.d_ctl1 pv)
  simp [hs, getInt_of_bitsKey _ pv "sub_page_code" T.sub_sp, hsp, hdec]

/-- MODE SENSE(6): header fields, BLOCK DESCRIPTOR LENGTH bytes of block descriptors skipped, then the page -/
theorem modeSense6_frame (hdr : Layout) (hc : compatible hdr modeHeader6.rel 4 = true) (T : ModeTables)
    (hv : Vals) (bd page tr : Bytes) (hh : InRangeD modeHeader6.rel hv) (hbd : hv "block_descriptor_length" = bd.length) :
    (do let result ← decodeInto (slice (encModeSense6 hv bd page ++ tr) 0 4) hdr []
        let bdl ← idx (encModeSense6 hv bd page ++ tr) 3
        let r ← Dec.modePage ((encModeSense6 hv bd page ++ tr).drop (4 + bdl)) T.zero T.sub T.ea T.ctl T.ctl1 T.dr
        pure (PV.dict (result.set "mode_pages" (.list [.dict r])))) =
    (do let r ← Dec.modePage (page ++ tr) T.zero T.sub T.ea T.ctl T.ctl1 T.dr
        pure (PV.dict ((reported hdr hv).set "mode_pages" (.list [.dict r])))) := by
  have e : encModeSense6 hv bd page ++ tr = modeHeader6.enc hv ++ (bd ++ (page ++ tr)) := by
    unfold encModeSense6; simp
  obtain ⟨x, hx, hxv⟩ := idx_top_field modeHeader6 (compatible_format hc) hv hh (bd ++ (page ++ tr))
    ⟨"block_descriptor_length", 3, 7, 8⟩ (by decide) rfl (by decide)
  simp only [Nat.sub_self, Nat.shiftRight_zero] at hxv
  rw [e, slice_prefix _ _ 4 (enc_length _ _)]
  have := decodeInto_std_nil hdr modeHeader6 hc hv hh []
  rw [List.append_nil] at this
  rw [this, hx]
  simp only [bind, Except.bind, pure, Except.pure]
  rw [hxv, hbd, ← List.drop_drop, List.drop_left' (show (modeHeader6.enc hv).length = 4 from enc_length _ _), List.drop_left' rfl]


theorem bdl10 (hdr : Layout) (hc : compatible hdr modeHeader10.rel 8 = true)
    (hv : Vals) (t : Bytes) (hh : InRangeD modeHeader10.rel hv) :
    b2i (slice (modeHeader10.enc hv ++ t) 6 8) = hv "block_descriptor_length" := by
  have hmem : (⟨"block_descriptor_length", 6, 7, 16⟩ : DField) ∈ modeHeader10.rel := by decide
  exact b2i_slice_field modeHeader10 (compatible_format hc) hv hh t
    ⟨"block_descriptor_length", 6, 7, 16⟩ hmem 2 rfl rfl (by decide)

/-- MODE SENSE(10): same with the 8-byte header and the 2-byte BLOCK DESCRIPTOR LENGTH -/
theorem modeSense10_frame (hdr : Layout) (hc : compatible hdr modeHeader10.rel 8 = true) (T : ModeTables)
    (hv : Vals) (bd page tr : Bytes) (hh : InRangeD modeHeader10.rel hv) (hbd : hv "block_descriptor_length" = bd.length) :
    (do let result ← decodeInto (slice (encModeSense10 hv bd page ++ tr) 0 8) hdr []
        let r ← Dec.modePage ((encModeSense10 hv bd page ++ tr).drop (8 + b2i (slice (encModeSense10 hv bd page ++ tr) 6 8)))
          T.zero T.sub T.ea T.ctl T.ctl1 T.dr
        pure (PV.dict (result.set "mode_pages" (.list [.dict r])))) =
    (do let r ← Dec.modePage (page ++ tr) T.zero T.sub T.ea T.ctl T.ctl1 T.dr
        pure (PV.dict ((reported hdr hv).set "mode_pages" (.list [.dict r])))) := by
  have e : encModeSense10 hv bd page ++ tr = modeHeader10.enc hv ++ (bd ++ (page ++ tr)) := by
    unfold encModeSense10; simp
  rw [e, slice_prefix _ _ 8 (enc_length _ _), bdl10 hdr hc hv _ hh]
  have := decodeInto_std_nil hdr modeHeader10 hc hv hh []
  rw [List.append_nil] at this
  rw [this]
  simp only [bind, Except.bind, pure, Except.pure]
  rw [hbd, ← List.drop_drop, List.drop_left' (show (modeHeader10.enc hv).length = 8 from enc_length _ _), List.drop_left' rfl]

def T6 : ModeTables where
  zero := Gen.MODESENSE6_page_zero_bits
  sub := Gen.MODESENSE6_sub_page_bits
  ea := Gen.MODESENSE6_element_address_bits
  ctl := Gen.MODESENSE6_control_bits
  ctl1 := Gen.MODESENSE6_control_extension_1_bits
  dr := Gen.MODESENSE6_disconnect_reconnect_bits
  zero_c := by decide +kernel
  sub_c := by decide +kernel
  ea_c := by decide +kernel
  ctl_c := by decide +kernel
  ctl1_c := by decide +kernel
  dr_c := by decide +kernel
  zero_pc := by decide +kernel
  sub_pc := by decide +kernel
  sub_sp := by decide +kernel
  zero_nosub := by decide +kernel
  d_ea := by decide +kernel
  d_ctl := by decide +kernel
  d_dr := by decide +kernel
  d_ctl1 := by decide +kernel

def T10 : ModeTables where
  zero := Gen.MODESENSE10_page_zero_bits
  sub := Gen.MODESENSE10_sub_page_bits
  ea := Gen.MODESENSE10_element_address_bits
  ctl := Gen.MODESENSE10_control_bits
  ctl1 := Gen.MODESENSE10_control_extension_1_bits
  dr := Gen.MODESENSE10_disconnect_reconnect_bits
  zero_c := by decide +kernel
  sub_c := by decide +kernel
  ea_c := by decide +kernel
  ctl_c := by decide +kernel
  ctl1_c := by decide +kernel
  dr_c := by decide +kernel
  zero_pc := by decide +kernel
  sub_pc := by decide +kernel
  sub_sp := by decide +kernel
  zero_nosub := by decide +kernel
  d_ea := by decide +kernel
  d_ctl := by decide +kernel
  d_dr := by decide +kernel
  d_ctl1 := by decide +kernel

theorem hdr6_c : compatible Gen.MODESENSE6_mode_parameter_header_bits modeHeader6.rel 4 = true := by decide +kernel
theorem hdr10_c : compatible Gen.MODESENSE10_mode_parameter_header_bits modeHeader10.rel 8 = true := by decide +kernel

theorem hdr_set (lay : Layout) (v : Vals) (x : PV) (h : lay.all (fun kf => kf.1 != "mode_pages") = true) :
    (reported lay v).set "mode_pages" x = reported lay v ++ [("mode_pages", x)] := by
  apply set_fresh
  intro kv hkv
  have : kv.1 ∈ (reported lay v).map (·.1) := List.mem_map.mpr ⟨kv, hkv, rfl⟩
  rw [reported_keys] at this
  obtain ⟨kf, hkf, hkf'⟩ := List.mem_map.mp this
  simp only [List.all_eq_true, bne_iff_ne, ne_eq] at h
  rw [← hkf']
  exact h kf hkf

/-- a well-formed MODE SENSE header: values fit, BLOCK DESCRIPTOR LENGTH is the length of the block descriptors -/
def ModeHdrOK (b : Block) (hv : Vals) (bd : Bytes) : Prop := InRangeD b.rel hv ∧ hv "block_descriptor_length" = bd.length

/-- **MODE SENSE(6)**, page_0 format page the library knows (02h, 0Ah, 1Dh): header, the block
    descriptors skipped whatever their length, every field of the page -/
theorem modeSense6_known_page (hv pv bv : Vals) (bd tr : Bytes) (B : Block) (lay : Layout) (hh : ModeHdrOK modeHeader6 hv bd)
    (hp : InRangeD modePage0Header.rel pv) (hspf : pv "spf" = 0) (hB : page0Body T6 (pv "page_code") = some (B, lay))
    (hb : InRangeD B.rel bv) :
    Dec.modeSense6 (encModeSense6 hv bd (encModePage0 pv (B.enc bv)) ++ tr) =
      .ok (.dict (reported Gen.MODESENSE6_mode_parameter_header_bits hv ++
        [("mode_pages", .list [.dict (reported T6.zero pv ++ reported lay bv)])])) := by
  unfold Dec.modeSense6
  refine (modeSense6_frame _ hdr6_c T6 hv bd _ tr hh.1 hh.2).trans ?_
  rw [modePage_page0_known T6 pv bv B lay hp hspf hB hb tr]
  simp only [bind, Except.bind, pure, Except.pure]
  rw [hdr_set _ _ _ (by decide +kernel)]

/-- MODE SENSE(6), page_0 format page with any other page code: header and the page's own header fields -/
theorem modeSense6_other_page (hv pv : Vals) (bd body tr : Bytes) (hh : ModeHdrOK modeHeader6 hv bd)
    (hp : InRangeD modePage0Header.rel pv) (hspf : pv "spf" = 0) (hB : page0Body T6 (pv "page_code") = none) :
    Dec.modeSense6 (encModeSense6 hv bd (encModePage0 pv body) ++ tr) =
      .ok (.dict (reported Gen.MODESENSE6_mode_parameter_header_bits hv ++
        [("mode_pages", .list [.dict (reported T6.zero pv)])])) := by
  unfold Dec.modeSense6
  refine (modeSense6_frame _ hdr6_c T6 hv bd _ tr hh.1 hh.2).trans ?_
  rw [modePage_page0_other T6 pv body hp hspf hB tr]
  simp only [bind, Except.bind, pure, Except.pure]
  rw [hdr_set _ _ _ (by decide +kernel)]

/-- MODE SENSE(6), Control Extension page (0Ah/01h, sub_page format) -/
theorem modeSense6_control_ext (hv pv bv : Vals) (bd tr : Bytes) (hh : ModeHdrOK modeHeader6 hv bd)
    (hp : InRangeD modeSubPageHeader.rel pv) (hspf : pv "spf" = 1) (hpc : pv "page_code" = 0x0A)
    (hsp : pv "sub_page_code" = 1) (hb : InRangeD modeControlExt.rel bv) :
    Dec.modeSense6 (encModeSense6 hv bd (encModeSubPage pv (modeControlExt.enc bv)) ++ tr) =
      .ok (.dict (reported Gen.MODESENSE6_mode_parameter_header_bits hv ++
        [("mode_pages", .list [.dict (reported T6.sub pv ++ reported T6.ctl1 bv)])])) := by
  unfold Dec.modeSense6
  refine (modeSense6_frame _ hdr6_c T6 hv bd _ tr hh.1 hh.2).trans ?_
  rw [modePage_control_ext T6 pv bv hp hspf hpc hsp hb tr]
  simp only [bind, Except.bind, pure, Except.pure]
  rw [hdr_set _ _ _ (by decide +kernel)]

/-- **MODE SENSE(10)**, page_0 format page the library knows (02h, 0Ah, 1Dh) -/
theorem modeSense10_known_page (hv pv bv : Vals) (bd tr : Bytes) (B : Block) (lay : Layout) (hh : ModeHdrOK modeHeader10 hv bd)
    (hp : InRangeD modePage0Header.rel pv) (hspf : pv "spf" = 0) (hB : page0Body T10 (pv "page_code") = some (B, lay))
    (hb : InRangeD B.rel bv) :
    Dec.modeSense10 (encModeSense10 hv bd (encModePage0 pv (B.enc bv)) ++ tr) =
      .ok (.dict (reported Gen.MODESENSE10_mode_parameter_header_bits hv ++
        [("mode_pages", .list [.dict (reported T10.zero pv ++ reported lay bv)])])) := by
  unfold Dec.modeSense10
  refine (modeSense10_frame _ hdr10_c T10 hv bd _ tr hh.1 hh.2).trans ?_
  rw [modePage_page0_known T10 pv bv B lay hp hspf hB hb tr]
  simp only [bind, Except.bind, pure, Except.pure]
  rw [hdr_set _ _ _ (by decide +kernel)]

/-- MODE SENSE(10), page_0 format page with any other page code -/
theorem modeSense10_other_page (hv pv : Vals) (bd body tr : Bytes) (hh : ModeHdrOK modeHeader10 hv bd)
    (hp : InRangeD modePage0Header.rel pv) (hspf : pv "spf" = 0) (hB : page0Body T10 (pv "page_code") = none) :
    Dec.modeSense10 (encModeSense10 hv bd (encModePage0 pv body) ++ tr) =
      .ok (.dict (reported Gen.MODESENSE10_mode_parameter_header_bits hv ++
        [("mode_pages", .list [.dict (reported T10.zero pv)])])) := by
  unfold Dec.modeSense10
  refine (modeSense10_frame _ hdr10_c T10 hv bd _ tr hh.1 hh.2).trans ?_
  rw [modePage_page0_other T10 pv body hp hspf hB tr]
  simp only [bind, Except.bind, pure, Except.pure]
  rw [hdr_set _ _ _ (by decide +kernel)]

/-- MODE SENSE(10), Control Extension page (0Ah/01h, sub_page format) -/
theorem modeSense10_control_ext (hv pv bv : Vals) (bd tr : Bytes) (hh : ModeHdrOK modeHeader10 hv bd)
    (hp : InRangeD modeSubPageHeader.rel pv) (hspf : pv "spf" = 1) (hpc : pv "page_code" = 0x0A)
    (hsp : pv "sub_page_code" = 1) (hb : InRangeD modeControlExt.rel bv) :
    Dec.modeSense10 (encModeSense10 hv bd (encModeSubPage pv (modeControlExt.enc bv)) ++ tr) =
      .ok (.dict (reported Gen.MODESENSE10_mode_parameter_header_bits hv ++
        [("mode_pages", .list [.dict (reported T10.sub pv ++ reported T10.ctl1 bv)])])) := by
  unfold Dec.modeSense10
  refine (modeSense10_frame _ hdr10_c T10 hv bd _ tr hh.1 hh.2).trans ?_
  rw [modePage_control_ext T10 pv bv hp hspf hpc hsp hb tr]
  simp only [bind, Except.bind, pure, Except.pure]
  rw [hdr_set _ _ _ (by decide +kernel)]

/-- the hypotheses are satisfiable: a Control page behind one 8-byte block descriptor -/
example : ∃ (hv pv bv : Vals) (bd : Bytes), ModeHdrOK modeHeader10 hv bd ∧ bd.length = 8 ∧ InRangeD modePage0Header.rel pv ∧
    pv "spf" = 0 ∧ page0Body T10 (pv "page_code") = some (modeControl, T10.ctl) ∧ InRangeD modeControl.rel bv ∧ bv "swp" = 1 := by
  refine ⟨fun k => if k = "block_descriptor_length" then 8 else if k = "mode_data_length" then 26 else 0,
          fun k => if k = "page_code" then 0x0A else if k = "page_length" then 10 else 0,
          fun k => if k = "swp" then 1 else 0, List.replicate 8 0x55, ⟨?_, rfl⟩, rfl, ?_, rfl, rfl, ?_, rfl⟩
  all_goals (intro g hg; revert g; decide)

end C04
