import ScsiVerif.Model.Handle
/-!
# C15 — commands never go through a stale device handle; handles are released
Induction over event histories of any length.
-/
namespace C15
open Handle

/-- the device object is usable: its current handle is open on the inode it recorded; every
superseded handle has been closed exactly once and the current one never -/
structure Inv (w : World) : Prop where
  cur : ∃ h : H, w.handles[w.cur]? = some h ∧ h.isOpen = true ∧ h.ino = w.recorded ∧ h.closeCalls = 0
  others : ∀ (i : Nat) (h : H), w.handles[i]? = some h → i ≠ w.cur → h.isOpen = false ∧ h.closeCalls = 1
  fresh : ∀ (i : Nat) (h : H), w.handles[i]? = some h → h.ino < w.nextIno
  recorded_lt : w.recorded < w.nextIno
  fs_lt : ∀ ino : Nat, w.fs = some ino → ino < w.nextIno

def notClose : Ev → Prop
  | .close => False
  | _ => True

theorem inv_init (d : Bool) : Inv (init d) := by
  refine ⟨⟨⟨1, true, 0⟩, by simp [init], rfl, rfl, rfl⟩, ?_, ?_, by simp [init], ?_⟩
  · intro i h hi hne
    simp only [init] at hi hne
    cases i with
    | zero => exact absurd rfl hne
    | succ j => simp at hi
  · intro i h hi
    simp only [init] at hi ⊢
    cases i with
    | zero => simp at hi; subst hi; decide
    | succ j => simp at hi
  · intro ino h; simp [init] at h ⊢; omega

theorem closeCur_spec (w : World) (hinv : Inv w) :
    (closeCur w).1.handles.length = w.handles.length ∧
    (∀ (i : Nat) (h : H), (closeCur w).1.handles[i]? = some h → h.isOpen = false ∧ h.closeCalls = 1 ∧ h.ino < w.nextIno) ∧
    (closeCur w).1.fs = w.fs ∧ (closeCur w).1.nextIno = w.nextIno := by
  obtain ⟨hc, hcur1, hcur2, hcur3, hcur4⟩ := hinv.cur
  refine ⟨by simp [closeCur], ?_, rfl, rfl⟩
  intro i h hi
  simp only [closeCur, List.getElem?_mapIdx] at hi
  cases hw : w.handles[i]? with
  | none => simp [hw] at hi
  | some h0 =>
    simp only [hw, Option.map_some, Option.some.injEq] at hi
    by_cases hic : i = w.cur
    · subst hic
      rw [hcur1] at hw
      cases hw
      simp only [if_true] at hi
      subst hi
      exact ⟨rfl, by simp [hcur4], hinv.fresh w.cur hc hcur1⟩
    · simp only [hic, if_false] at hi
      subst hi
      exact ⟨(hinv.others i h0 hw hic).1, (hinv.others i h0 hw hic).2, hinv.fresh _ _ hw⟩

theorem inv_reopen (w : World) (ino : Nat) (hinv : Inv w) (hfs : w.fs = some ino) : Inv (reopen w ino) := by
  obtain ⟨hlen, hall, hfs', hnx⟩ := closeCur_spec w hinv
  unfold reopen
  refine ⟨⟨⟨ino, true, 0⟩, by simp, rfl, rfl, rfl⟩, ?_, ?_, ?_, ?_⟩
  · intro i h hi hne
    simp only at hi hne
    rw [List.getElem?_append] at hi
    split at hi
    · exact ⟨(hall i h hi).1, (hall i h hi).2.1⟩
    · rename_i hge
      have hpos : 0 < i - (closeCur w).1.handles.length := by omega
      have : ([({ ino := ino, isOpen := true, closeCalls := 0 } : H)] : List H)[i - (closeCur w).1.handles.length]? = none := by
        apply List.getElem?_eq_none; simp; omega
      rw [this] at hi; cases hi
  · intro i h hi
    simp only at hi ⊢
    rw [List.getElem?_append] at hi
    split at hi
    · rw [hnx]; exact (hall i h hi).2.2
    · cases hx : ([({ ino := ino, isOpen := true, closeCalls := 0 } : H)] : List H)[i - (closeCur w).1.handles.length]? with
      | none => rw [hx] at hi; cases hi
      | some x =>
        rw [hx] at hi; cases hi
        have := List.mem_of_getElem? hx
        simp at this; subst this
        rw [hnx]; exact hinv.fs_lt ino hfs
  · simp only; rw [hnx]; exact hinv.fs_lt ino hfs
  · intro i h; simp only at h ⊢; rw [hfs', hfs] at h; cases h; rw [hnx]; exact hinv.fs_lt _ hfs

/-- one step (other than an explicit close) keeps the device usable -/
theorem inv_step (w : World) (e : Ev) (hinv : Inv w) (he : notClose e) : Inv (step w e).1 := by
  cases e with
  | close => exact absurd he id
  | replug =>
    simp only [step]
    exact ⟨hinv.cur, hinv.others, fun i h hi => Nat.lt_succ_of_lt (hinv.fresh i h hi),
      Nat.lt_succ_of_lt hinv.recorded_lt, by intro ino h; simp at h ⊢; omega⟩
  | unplug =>
    simp only [step]
    exact ⟨hinv.cur, hinv.others, hinv.fresh, hinv.recorded_lt, by intro ino h; simp at h⟩
  | setCloseFail b =>
    simp only [step]
    exact ⟨hinv.cur, hinv.others, hinv.fresh, hinv.recorded_lt, hinv.fs_lt⟩
  | execute =>
    by_cases hd : w.detect = true
    · cases hfs : w.fs with
      | none =>
        have : (step w .execute).1 = w := by simp [step, hd, hfs]
        rw [this]; exact hinv
      | some ino =>
        by_cases hre : ino ≠ w.recorded
        · have : (step w .execute).1 = reopen w ino := by simp [step, hd, hfs, hre]
          rw [this]
          exact inv_reopen w ino hinv hfs
        · have : (step w .execute).1 = w := by simp [step, hd, hfs, hre]
          rw [this]; exact hinv
    · have : (step w .execute).1 = w := by simp [step, hd]
      rw [this]; exact hinv

/-- the invariant holds after every history without an explicit close -/
theorem inv_run (w : World) (es : List Ev) (hinv : Inv w) (hes : ∀ e ∈ es, notClose e) : Inv (run w es).1 := by
  induction es generalizing w with
  | nil => simpa [run] using hinv
  | cons e rest ih =>
    simp only [run]
    exact ih (step w e).1 (inv_step w e hinv (hes e (by simp))) (fun x hx => hes x (by simp [hx]))

/-- **With detection on, a command is only ever sent through an open handle to the node that
currently exists at the device path** — after a replug that is a fresh handle, the superseded one
having been closed; when closing the stale handle fails the fresh handle is still opened and the
error is raised *instead of* sending; a vanished node is an error, nothing is sent. -/
theorem sent_through_current_node (w : World) (hinv : Inv w) (hd : w.detect = true) (h : Nat)
    (hs : (step w .execute).2 = .sent h) :
    let w' := (step w .execute).1
    h = w'.cur ∧ ∃ (hh : H) (ino : Nat), w'.handles[h]? = some hh ∧ hh.isOpen = true ∧ w'.fs = some ino ∧ hh.ino = ino := by
  obtain ⟨hc, hcur1, hcur2, hcur3, _⟩ := hinv.cur
  cases hfs : w.fs with
  | none => simp [step, hd, hfs] at hs
  | some ino =>
    by_cases hre : ino ≠ w.recorded
    · cases hcf : w.closeFails with
      | true => simp [step, hd, hfs, hre, hcf] at hs
      | false =>
        have h1 : (step w .execute).1 = reopen w ino := by simp [step, hd, hfs, hre]
        have h2 : h = w.handles.length := by
          simp [step, hd, hfs, hre, hcf] at hs; exact hs.symm
        simp only [h1]
        subst h2
        refine ⟨by simp [reopen, closeCur], ⟨ino, true, 0⟩, ino, by simp [reopen, closeCur], rfl, by simp [reopen, closeCur, hfs], rfl⟩
    · have hre' : ino = w.recorded := Decidable.of_not_not hre
      have h1 : (step w .execute).1 = w := by simp [step, hd, hfs, hre]
      have h2 : h = w.cur := by
        simp [step, hd, hfs, hre'] at hs; exact hs.symm
      simp only [h1]
      subst h2
      exact ⟨rfl, hc, ino, hcur1, hcur2, hfs, by rw [hcur3, hre']⟩

/-- a vanished node is reported, nothing is sent and the old handle is not used -/
theorem vanished_node_is_error (w : World) (hd : w.detect = true) (hfs : w.fs = none) :
    (step w .execute).2 = .error "FileNotFoundError" := by
  simp [step, hd, hfs]

/-- a failing close of the stale handle: the fresh handle is opened all the same, the error is
raised instead of sending -/
theorem close_failure_still_reopens (w : World) (hinv : Inv w) (hd : w.detect = true) (ino : Nat)
    (hfs : w.fs = some ino) (hre : ino ≠ w.recorded) (hcf : w.closeFails = true) :
    (step w .execute).2 = .error "OSError" ∧
    (step w .execute).1.recorded = ino ∧ (step w .execute).1.cur = w.handles.length := by
  simp [step, hd, hfs, hre, hcf, reopen, closeCur]

/-- with detection disabled the original handle is kept, whatever happens to the node -/
theorem detection_off_keeps_handle (w : World) (es : List Ev) (hd : w.detect = false)
    (hes : ∀ e ∈ es, notClose e) : (run w es).1.cur = w.cur ∧ (run w es).1.handles.length = w.handles.length := by
  induction es generalizing w with
  | nil => simp [run]
  | cons e rest ih =>
    simp only [run]
    have hstep : (step w e).1.cur = w.cur ∧ (step w e).1.handles.length = w.handles.length ∧ (step w e).1.detect = false := by
      cases e with
      | close => exact absurd (hes Ev.close (by simp)) id
      | replug => simp [step, hd]
      | unplug => simp [step, hd]
      | setCloseFail b => simp [step, hd]
      | execute => simp [step, hd]
    have := ih (step w e).1 hstep.2.2 (fun x hx => hes x (by simp [hx]))
    rw [this.1, this.2, hstep.1, hstep.2.1]
    exact ⟨rfl, rfl⟩

/-- **every handle is released exactly once**: after any history followed by `close()` (or leaving
a `with` block, normally or by exception) every handle the device ever opened — the superseded
ones and the current one — is closed and its `close` was called exactly once. -/
theorem released_exactly_once (d : Bool) (es : List Ev) (hes : ∀ e ∈ es, notClose e) :
    ∀ (i : Nat) (h : H), (step (run (init d) es).1 .close).1.handles[i]? = some h → h.isOpen = false ∧ h.closeCalls = 1 := by
  intro i h hi
  have hinv := inv_run (init d) es (inv_init d) hes
  have := (closeCur_spec _ hinv).2.1 i h (by simpa [step] using hi)
  exact ⟨this.1, this.2.1⟩

example : (run (init true) [.execute, .replug, .execute, .unplug, .execute]).2
    = [.sent 0, .ok, .sent 1, .ok, .error "FileNotFoundError"] := by decide

end C15
