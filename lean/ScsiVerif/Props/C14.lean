import ScsiVerif.Std.T10
import ScsiVerif.Model.Command
import ScsiVerif.Gen.Opcodes
/-!
# C14 — operation codes, service actions and status codes are the T10 assignments

All statements are over `Gen.*` (regenerated from `scsi_enum_command.py` on every run) and are decided
by the kernel for **every** entry; `cdb_length_is_sam` covers all 256 operation-code values.
-/
namespace C14
open Std Cmd

/-- every named entry of a command set that T10 names has T10's value (`none` = no oracle) -/
def setOpcodesOK (set : List (String × OpCode)) : Bool :=
  set.all (fun e => match lookup t10Opcodes e.1 with
    | some v => e.2.value == v
    | none => true)

/-- the same for every service-action table hanging off the set's opcode objects -/
def setServiceActionsOK (set : List (String × OpCode)) : Bool :=
  set.all (fun e => e.2.sas.all (fun sa => match lookup t10ServiceActions sa.1 with
    | some v => sa.2 == v
    | none => true))

/-- the name an `OpCode` object displays, when it is a T10 command name, also has T10's value
    (the attribute key `VOLUME_SET_OUT` must not present itself as `VOLUME_SET_IN`) -/
def setNamesOK (set : List (String × OpCode)) : Bool :=
  set.all (fun e => match lookup t10Opcodes e.2.name with
    | some v => e.2.value == v
    | none => true)

theorem spc_opcodes : setOpcodesOK Gen.spc = true := by decide +kernel
theorem sbc_opcodes : setOpcodesOK Gen.sbc = true := by decide +kernel
theorem ssc_opcodes : setOpcodesOK Gen.ssc = true := by decide +kernel
theorem smc_opcodes : setOpcodesOK Gen.smc = true := by decide +kernel
theorem mmc_opcodes : setOpcodesOK Gen.mmc = true := by decide +kernel

theorem spc_service_actions : setServiceActionsOK Gen.spc = true := by decide +kernel
theorem sbc_service_actions : setServiceActionsOK Gen.sbc = true := by decide +kernel
theorem ssc_service_actions : setServiceActionsOK Gen.ssc = true := by decide +kernel
theorem smc_service_actions : setServiceActionsOK Gen.smc = true := by decide +kernel
theorem mmc_service_actions : setServiceActionsOK Gen.mmc = true := by decide +kernel

/-- **service actions hang off the operation code they belong to**: on every entry that names one command (not the
    generic `*_OPCODE_xx` entries, which carry the whole shared table) each listed service action is a service action
    of that entry's operation code -/
def isGeneric (k : String) : Bool :=
  ["SPC_OPCODE_A3", "SPC_OPCODE_A4", "SBC_OPCODE_7F", "SBC_OPCODE_9E", "SBC_OPCODE_A3", "SBC_OPCODE_A4", "SSC_OPCODE_A3",
   "SSC_OPCODE_A4", "SMC_OPCODE_A3", "SMC_OPCODE_A4",
   "OPEN_CLOSE_IMPORT_EXPORT_ELEMENT"   -- (smc, 1Bh) is given the whole shared table as well
  ].contains k

def setServiceActionHomesOK (set : List (String × OpCode)) : Bool :=
  set.all (fun e => isGeneric e.1 || e.2.sas.all (fun sa => match lookup t10ServiceActionHome sa.1 with
    | some op => op == e.2.value
    | none => true))

theorem spc_service_action_homes : setServiceActionHomesOK Gen.spc = true := by decide +kernel
theorem sbc_service_action_homes : setServiceActionHomesOK Gen.sbc = true := by decide +kernel
theorem ssc_service_action_homes : setServiceActionHomesOK Gen.ssc = true := by decide +kernel
theorem smc_service_action_homes : setServiceActionHomesOK Gen.smc = true := by decide +kernel
theorem mmc_service_action_homes : setServiceActionHomesOK Gen.mmc = true := by decide +kernel

theorem names_agree : Gen.sets.all (fun s => setNamesOK s.2) = true := by decide +kernel

/-- **the same name has the same value in every command set that lists it** (no oracle needed) -/
def crossConsistent (a b : List (String × OpCode)) : Bool :=
  a.all (fun e => match (b.find? (·.1 == e.1)).map (·.2) with
    | some o => o.value == e.2.value && o.sas == e.2.sas
    | none => true)

theorem cross_spc_sbc : crossConsistent Gen.spc Gen.sbc = true := by decide +kernel
theorem cross_spc_ssc : crossConsistent Gen.spc Gen.ssc = true := by decide +kernel
theorem cross_spc_smc : crossConsistent Gen.spc Gen.smc = true := by decide +kernel
theorem cross_spc_mmc : crossConsistent Gen.spc Gen.mmc = true := by decide +kernel
theorem cross_sbc_ssc : crossConsistent Gen.sbc Gen.ssc = true := by decide +kernel
theorem cross_sbc_smc : crossConsistent Gen.sbc Gen.smc = true := by decide +kernel
theorem cross_sbc_mmc : crossConsistent Gen.sbc Gen.mmc = true := by decide +kernel
theorem cross_ssc_smc : crossConsistent Gen.ssc Gen.smc = true := by decide +kernel
theorem cross_ssc_mmc : crossConsistent Gen.ssc Gen.mmc = true := by decide +kernel
theorem cross_smc_mmc : crossConsistent Gen.smc Gen.mmc = true := by decide +kernel

/-- the status codes the library names are SAM's -/
theorem status_codes :
    Gen.scsiStatus.all (fun e => match lookup samStatus e.1 with
      | some v => e.2 == v
      | none => true) = true ∧
    samStatus.all (fun e => (Gen.scsiStatus.find? (·.1 == e.1)).map (·.2) == some e.2) = true := by
  decide +kernel

/-! ## CDB length from the operation code -/

def lenAgrees (v : Nat) : Bool :=
  match initCdbLen v, samLen v with
  | .ok L, some L' => L == L'
  | .error .opcodeException, none => true
  | _, _ => false

theorem lenAgrees_all_bytes : (List.range 256).all lenAgrees = true := by decide +kernel

/-- **for all 256 operation-code values** the CDB length the library derives is the one SAM prescribes
for the group (6, 10, 16, 12), and codes in the variable-length, reserved and vendor-specific groups
are refused with `OpcodeException`. -/
theorem cdb_length_is_sam (v : Nat) (hv : v < 256) :
    (∀ L, samLen v = some L → initCdbLen v = .ok L) ∧
    (samLen v = none → initCdbLen v = .error .opcodeException) := by
  have h := List.all_eq_true.mp lenAgrees_all_bytes v (List.mem_range.mpr hv)
  unfold lenAgrees at h
  constructor
  · intro L hL
    rw [hL] at h
    cases hi : initCdbLen v with
    | ok L' => simp [hi] at h; rw [h]
    | error e => simp [hi] at h
  · intro hn
    rw [hn] at h
    cases hi : initCdbLen v with
    | ok L' => simp [hi] at h
    | error e => cases e <;> simp [hi] at h <;> rfl

/-- a byte-sized operation code is all there is: larger values are refused too -/
theorem large_opcode_refused (v : Nat) (hv : 256 ≤ v) : initCdbLen v = .error .opcodeException := by
  unfold initCdbLen
  have h1 : ¬ v ≤ 0x1F := by omega
  have h2 : ¬ (0x20 ≤ v ∧ v ≤ 0x5F) := by omega
  have h3 : ¬ (0x80 ≤ v ∧ v ≤ 0x9F) := by omega
  have h4 : ¬ (0xA0 ≤ v ∧ v ≤ 0xBF) := by omega
  simp [h1, h2, h3, h4]

/-! non-vacuity / coverage of the oracle: how many library names have a T10 value in `Std` -/
example : (Gen.sbc.filter (fun e => (lookup t10Opcodes e.1).isSome)).length = Gen.sbc.length := by decide +kernel

end C14
