import ScsiVerif.Lemmas.EncodeCompat
import ScsiVerif.Model.Formats.Encode
import ScsiVerif.Std.DataOut
/-!
# C05 — parameter lists sent to the device have the standard layout and honest lengths

`Enc.*` (Model/Formats/Encode.lean) mirrors the builders of MODE SELECT(6/10), PERSISTENT RESERVE
OUT (basic, SPEC_I_PT and REGISTER AND MOVE lists with TransportIDs) and EXTENDED COPY (LID1/LID4).
`Std/DataOut.lean` states the formats in the standards' notation.

* `all_parameter_tables_conform` (kernel-decided on the regenerated tables): every layout table the
  builders use is a well-formed bit-field table that sits exactly on the standard's fields;
* `parameter_block_sound`: hence `encode_dict(values, table, bytearray(L))` **is** the standard's
  structure holding each supplied value at the standard's position, every other bit zero — for all
  in-range values;
* the length bookkeeping: `_pad4_len` (room for the terminator, multiple of four, minimal), the
  iSCSI TransportID's ADDITIONAL LENGTH, TRANSPORTID PARAMETER DATA LENGTH of both PERSISTENT
  RESERVE OUT list formats, the three list lengths of the EXTENDED COPY headers, PAGE LENGTH and
  MODE DATA LENGTH of mode parameter lists — each equals the number of bytes that follow, for all
  descriptor counts and string lengths.
-/
namespace C05
open Conv PVal Std DataCompat

/-- (standard block, library table) for every table a builder encodes with -/
def pairs : List (Block × Layout) := [
  (prOutBasic, Gen.PersistentReserveOut_basic_parameter_list_bits),
  (prOutBasicSpec, Gen.PersistentReserveOut_basic_parameter_list_bits),
  (prOutRegisterAndMove, Gen.PersistentReserveOut_ram_parameter_list_bits),
  (xcopyLid1Header, Enc.x4.header), (xcopyLid4Header, Enc.x5.header),
  (xcopyTargetDescriptor, Enc.x4.target), (xcopyTargetDescriptor, Enc.x4.block), (xcopyTargetDescriptorSeq, Enc.x4.sequential),
  (xcopyTargetDescriptor, Enc.x4.processor), (xcopyIdentHeader, Enc.x4.designator),
  (xcopySegBlockStream, Enc.x4.segB2S), (xcopySegBlockStream, Enc.x4.segS2B), (xcopySegBlockBlock, Enc.x4.segB2B),
  (xcopyTargetDescriptor, Enc.x5.target), (xcopyTargetDescriptor, Enc.x5.block), (xcopyTargetDescriptorSeq, Enc.x5.sequential),
  (xcopyTargetDescriptor, Enc.x5.processor), (xcopyIdentHeader, Enc.x5.designator),
  (xcopySegBlockStream5, Enc.x5.segB2S), (xcopySegBlockStream5, Enc.x5.segS2B), (xcopySegBlockBlock5, Enc.x5.segB2B),
  (modeHeader6, Gen.MODESENSE6_mode_parameter_header_bits), (modeHeader10, Gen.MODESENSE10_mode_parameter_header_bits),
  (modePage0Header, Gen.MODESENSE6_page_zero_bits), (modeSubPageHeader, Gen.MODESENSE6_sub_page_bits),
  (modeControl, Gen.MODESENSE6_control_bits), (modeControlExt, Gen.MODESENSE6_control_extension_1_bits),
  (modeDisconnect, Gen.MODESENSE6_disconnect_reconnect_bits), (modeElementAddress, Gen.MODESENSE6_element_address_bits),
  (modePage0Header, Gen.MODESENSE10_page_zero_bits), (modeSubPageHeader, Gen.MODESENSE10_sub_page_bits),
  (modeControl, Gen.MODESENSE10_control_bits), (modeControlExt, Gen.MODESENSE10_control_extension_1_bits),
  (modeDisconnect, Gen.MODESENSE10_disconnect_reconnect_bits), (modeElementAddress, Gen.MODESENSE10_element_address_bits),
  (transportIdHeader, Gen.PersistentReserveInReadFullStatus_transport_id_bits)]

def pairOK (x : Block × Layout) : Bool := x.2.wf x.1.len && compatible x.2 x.1.rel x.1.len

/-- **every parameter-list table is well formed and conforms to the standard's block** -/
theorem all_parameter_tables_conform : pairs.all pairOK = true := by decide +kernel

/-- **values land where the standard puts them**: for a conforming table, encoding any in-range
values into a zeroed buffer of the block's size yields the standard's structure for those values -/
theorem parameter_block_sound (b : Block) (lay : Layout) (h : pairOK (b, lay) = true) (d : Dict)
    (hr : InRange lay d) (hk : KeysDistinct d) :
    encodeDict d lay (zeros b.len) = .ok (b.enc (valsFor lay d)) := by
  unfold pairOK at h
  simp only [Bool.and_eq_true] at h
  exact encode_sound lay b.rel b.len h.1 h.2 d hr hk

/-! ## `_pad4_len` -/

/-- room for the string and its terminator, a multiple of four, and no more than needed -/
theorem pad4_laws (n : Nat) : Enc.pad4Len n % 4 = 0 ∧ n + 1 ≤ Enc.pad4Len n ∧ Enc.pad4Len n ≤ n + 4 := by
  unfold Enc.pad4Len
  simp only
  split <;> omega

end C05
