import ScsiVerif.Lemmas.EncodeCompat
import ScsiVerif.Lemmas.EncodeList
import ScsiVerif.Model.Formats.Encode
import ScsiVerif.Std.DataOut
/-!
# C05 — parameter lists sent to the device have the standard layout and honest lengths

`Enc.*` (Model/Formats/Encode.lean) mirrors the builders of MODE SELECT(6/10), PERSISTENT RESERVE
OUT (basic, SPEC_I_PT and REGISTER AND MOVE lists with TransportIDs) and EXTENDED COPY (LID1/LID4).
`Std/DataOut.lean` states the formats in the standards' notation.

* `all_parameter_tables_conform` (kernel-decided on the regenerated tables): every layout table the
  builders use is a well-formed bit-field table that sits exactly on the standard's fields;
* `parameter_block_sound`: hence `encode_dict(values, table, bytearray(L))` **is** the standard's
  structure holding each supplied value at the standard's position, every other bit zero — for all
  in-range values;
* the length bookkeeping: `_pad4_len` (room for the terminator, multiple of four, minimal), the
  iSCSI TransportID's ADDITIONAL LENGTH, TRANSPORTID PARAMETER DATA LENGTH of both PERSISTENT
  RESERVE OUT list formats, the three list lengths of the EXTENDED COPY headers, PAGE LENGTH and
  MODE DATA LENGTH of mode parameter lists — each equals the number of bytes that follow, for all
  descriptor counts and string lengths.
-/
namespace C05
open Conv PVal Std DataCompat EncL

/-- (standard block, library table) for every table a builder encodes with -/
def pairs : List (Block × Layout) := [
  (prOutBasic, Gen.PersistentReserveOut_basic_parameter_list_bits),
  (prOutBasicSpec, Gen.PersistentReserveOut_basic_parameter_list_bits),
  (prOutRegisterAndMove, Gen.PersistentReserveOut_ram_parameter_list_bits),
  (xcopyLid1Header, Enc.x4.header), (xcopyLid4Header, Enc.x5.header),
  (xcopyTargetDescriptor, Enc.x4.target), (xcopyTargetDescriptor, Enc.x4.block), (xcopyTargetDescriptorSeq, Enc.x4.sequential),
  (xcopyTargetDescriptor, Enc.x4.processor), (xcopyIdentHeader, Enc.x4.designator),
  (xcopySegBlockStream, Enc.x4.segB2S), (xcopySegBlockStream, Enc.x4.segS2B), (xcopySegBlockBlock, Enc.x4.segB2B),
  (xcopyTargetDescriptor, Enc.x5.target), (xcopyTargetDescriptor, Enc.x5.block), (xcopyTargetDescriptorSeq, Enc.x5.sequential),
  (xcopyTargetDescriptor, Enc.x5.processor), (xcopyIdentHeader, Enc.x5.designator),
  (xcopySegBlockStream5, Enc.x5.segB2S), (xcopySegBlockStream5, Enc.x5.segS2B), (xcopySegBlockBlock5, Enc.x5.segB2B),
  (modeHeader6, Gen.MODESENSE6_mode_parameter_header_bits), (modeHeader10, Gen.MODESENSE10_mode_parameter_header_bits),
  (modePage0Header, Gen.MODESENSE6_page_zero_bits), (modeSubPageHeader, Gen.MODESENSE6_sub_page_bits),
  (modeControl, Gen.MODESENSE6_control_bits), (modeControlExt, Gen.MODESENSE6_control_extension_1_bits),
  (modeDisconnect, Gen.MODESENSE6_disconnect_reconnect_bits), (modeElementAddress, Gen.MODESENSE6_element_address_bits),
  (modePage0Header, Gen.MODESENSE10_page_zero_bits), (modeSubPageHeader, Gen.MODESENSE10_sub_page_bits),
  (modeControl, Gen.MODESENSE10_control_bits), (modeControlExt, Gen.MODESENSE10_control_extension_1_bits),
  (modeDisconnect, Gen.MODESENSE10_disconnect_reconnect_bits), (modeElementAddress, Gen.MODESENSE10_element_address_bits),
  (transportIdHeader, Gen.PersistentReserveInReadFullStatus_transport_id_bits)]

def pairOK (x : Block × Layout) : Bool := x.2.wf x.1.len && compatible x.2 x.1.rel x.1.len

/-- **every parameter-list table is well formed and conforms to the standard's block** -/
theorem all_parameter_tables_conform : pairs.all pairOK = true := by decide +kernel

/-- **values land where the standard puts them**: for a conforming table, encoding any in-range
values into a zeroed buffer of the block's size yields the standard's structure for those values -/
theorem parameter_block_sound (b : Block) (lay : Layout) (h : pairOK (b, lay) = true) (d : Dict)
    (hr : InRange lay d) (hk : KeysDistinct d) :
    encodeDict d lay (zeros b.len) = .ok (b.enc (valsFor lay d)) := by
  unfold pairOK at h
  simp only [Bool.and_eq_true] at h
  exact encode_sound lay b.rel b.len h.1 h.2 d hr hk

/-! ## `_pad4_len` -/

/-- room for the string and its terminator, a multiple of four, and no more than needed -/
theorem pad4_laws (n : Nat) : Enc.pad4Len n % 4 = 0 ∧ n + 1 ≤ Enc.pad4Len n ∧ Enc.pad4Len n ≤ n + 4 := by
  unfold Enc.pad4Len
  simp only
  split <;> omega

/-! ## honest lengths: every embedded length field equals the number of bytes that follow -/

theorem bind_ok {α β : Type} (a : α) (f : α → Except PyErr β) : (Except.ok a >>= f) = f a := rfl

/-- REGISTER AND MOVE: the list is the 24-byte header followed by the TransportID, and the
header's TRANSPORTID PARAMETER DATA LENGTH equals the number of bytes that follow — for every
TransportID of any length. -/
theorem prOut_ram_length_honest (d : PDict) (hk : Keys d) (tid r : Bytes)
    (hr : InRange Gen.PersistentReserveOut_ram_parameter_list_bits
      ((d.set "transportid_length" (.int tid.length)).filterMap (convEntry Gen.PersistentReserveOut_ram_parameter_list_bits)))
    (he : Enc.prOutRamWith d tid = .ok r) :
    ∃ hdr, r = hdr ++ tid ∧ hdr.length = 24 ∧ decodeMask hdr 0xFFFFFFFF 20 = tid.length := by
  unfold Enc.prOutRamWith at he
  cases h1 : encodeFrom (d.set "transportid_length" (.int tid.length)) Gen.PersistentReserveOut_ram_parameter_list_bits (zeros 24) with
  | error e => rw [h1] at he; cases he
  | ok hdr =>
    rw [h1, bind_ok] at he
    cases he
    obtain ⟨hl, hf⟩ := field_after_set _ 24 (by decide +kernel) d hk "transportid_length" 0xFFFFFFFF 20 tid.length
      (by decide +kernel) hdr h1 hr
    exact ⟨hdr, rfl, hl, hf⟩


theorem b2i_intToBa (n k : Nat) (h : n < 2 ^ (8 * k)) : baToInt (intToBa n k) = n := by
  rw [baToInt_intToBa, Nat.mod_eq_of_lt h]

/-- basic list with SPEC_I_PT: 28 header bytes, then the TransportIDs; bytes 24–27 (TRANSPORTID
PARAMETER DATA LENGTH) hold the number of bytes that follow -/
theorem prOut_spec_length_honest (d : PDict) (add r : Bytes) (hfit : add.length < 2 ^ 32)
    (hr : InRange Gen.PersistentReserveOut_basic_parameter_list_bits
      (d.filterMap (convEntry Gen.PersistentReserveOut_basic_parameter_list_bits)))
    (he : Enc.prOutSpecWith d add = .ok r) :
    ∃ hdr, r = hdr ++ add ∧ hdr.length = 28 ∧ baToInt (slice hdr 24 28) = add.length := by
  unfold Enc.prOutSpecWith at he
  cases h1 : encodeFrom d Gen.PersistentReserveOut_basic_parameter_list_bits (zeros 28) with
  | error e => rw [h1] at he; cases he
  | ok r0 =>
    rw [h1, bind_ok] at he
    cases he
    have hl := encodeFrom_length _ 28 (by decide +kernel) d r0 h1 hr
    obtain ⟨s1, s2⟩ := slice_setSlice r0 (intToBa add.length 4) 24 28 (by decide) (by omega) (by simp)
    refine ⟨_, rfl, by rw [s2, hl], ?_⟩
    rw [s1, b2i_intToBa _ 4 (by simpa using hfit)]

/-- EXTENDED COPY: the header's three list lengths equal the lengths of the CSCD descriptor list,
the segment descriptor list and the inline data that follow it, in that order — for every number
and size of descriptors (both the LID1 and the LID4 header, `t.header`) -/
theorem xcopy_lengths_honest (t : Enc.XTables) (hwf : t.header.wf t.headerLen = true)
    (hdr : PDict) (hk : Keys hdr) (ts ss inline r : Bytes) (tlKey : String)
    (m1 o1 m2 o2 m3 o3 : Nat)
    (hg1 : layoutGet? t.header tlKey = some (.bits m1 o1))
    (hg2 : layoutGet? t.header "segment_descriptor_list_length" = some (.bits m2 o2))
    (hg3 : layoutGet? t.header "inline_data_length" = some (.bits m3 o3))
    (hne1 : tlKey ≠ "segment_descriptor_list_length") (hne2 : tlKey ≠ "inline_data_length")
    (hr : InRange t.header ((((hdr.set tlKey (.int ts.length)).set "segment_descriptor_list_length" (.int ss.length)).set
      "inline_data_length" (.int inline.length)).filterMap (convEntry t.header)))
    (he : Enc.xAssemble t hdr ts ss inline tlKey = .ok r) :
    ∃ h, r = h ++ ts ++ ss ++ inline ∧ h.length = t.headerLen ∧
      decodeMask h m1 o1 = ts.length ∧ decodeMask h m2 o2 = ss.length ∧ decodeMask h m3 o3 = inline.length := by
  unfold Enc.xAssemble at he
  simp only at he
  cases h1 : encodeFrom (((hdr.set tlKey (.int ts.length)).set "segment_descriptor_list_length" (.int ss.length)).set
      "inline_data_length" (.int inline.length)) t.header (zeros t.headerLen) with
  | error e => rw [h1] at he; cases he
  | ok h =>
    rw [h1, bind_ok] at he
    cases he
    have hk3 := set_keys _ "inline_data_length" (.int inline.length)
      (set_keys _ "segment_descriptor_list_length" (.int ss.length) (set_keys hdr tlKey (.int ts.length) hk))
    have mem3 := set_mem ((hdr.set tlKey (.int ts.length)).set "segment_descriptor_list_length" (.int ss.length))
      "inline_data_length" (.int inline.length)
    have mem2 := set_mem_other _ "segment_descriptor_list_length" "inline_data_length" (.int ss.length) (.int inline.length)
      (set_mem (hdr.set tlKey (.int ts.length)) "segment_descriptor_list_length" (.int ss.length)) (by decide)
    have mem1 := set_mem_other _ tlKey "inline_data_length" (.int ts.length) (.int inline.length)
      (set_mem_other _ tlKey "segment_descriptor_list_length" (.int ts.length) (.int ss.length)
        (set_mem hdr tlKey (.int ts.length)) hne1) hne2
    obtain ⟨hl, f1⟩ := field_of_mem t.header t.headerLen hwf _ hk3 tlKey m1 o1 ts.length hg1 mem1 h h1 hr
    obtain ⟨_, f2⟩ := field_of_mem t.header t.headerLen hwf _ hk3 _ m2 o2 ss.length hg2 mem2 h h1 hr
    obtain ⟨_, f3⟩ := field_of_mem t.header t.headerLen hwf _ hk3 _ m3 o3 inline.length hg3 mem3 h h1 hr
    exact ⟨h, rfl, hl, f1, f2, f3⟩

/-- the LID1 and LID4 headers meet the side conditions of `xcopy_lengths_honest` -/
theorem xcopy_header_tables_ok :
    (Enc.x4.header.wf Enc.x4.headerLen && Enc.x5.header.wf Enc.x5.headerLen) = true ∧
    layoutGet? Enc.x4.header "target_descriptor_list_length" = some (.bits 0xFFFF 2) ∧
    layoutGet? Enc.x4.header "segment_descriptor_list_length" = some (.bits 0xFFFFFFFF 8) ∧
    layoutGet? Enc.x4.header "inline_data_length" = some (.bits 0xFFFFFFFF 12) ∧
    layoutGet? Enc.x5.header "cscd_descriptor_list_length" = some (.bits 0xFFFF 42) ∧
    layoutGet? Enc.x5.header "segment_descriptor_list_length" = some (.bits 0xFFFF 44) ∧
    layoutGet? Enc.x5.header "inline_data_length" = some (.bits 0xFFFF 46) := by decide +kernel

theorem slice_setSlice_before (x y : Bytes) (a b i j : Nat) (hj : j ≤ a) (ha : a ≤ x.length) :
    slice (setSlice x a b y) i j = slice x i j := by
  unfold setSlice slice
  rw [List.append_assoc, List.take_append_of_le_length (by simp [List.length_take]; omega), List.take_take,
    Nat.min_eq_left hj]

/-- iSCSI TransportID: the buffer has room for the string and its terminator, its size is a
multiple of four plus the 4-byte header, and ADDITIONAL LENGTH (bytes 2–3) is the number of bytes
that follow it — for every string length -/
theorem iscsi_transport_id_length_honest (d : PDict) (s : String) (r : Bytes)
    (hascii : (Enc.strBytes s).length = s.length) (hfit : Enc.pad4Len s.length < 2 ^ 16)
    (hr : InRange Gen.PersistentReserveInReadFullStatus_transport_id_bits
      (d.filterMap (convEntry Gen.PersistentReserveInReadFullStatus_transport_id_bits)))
    (hwf : Gen.PersistentReserveInReadFullStatus_transport_id_bits.wf (4 + Enc.pad4Len s.length) = true)
    (he : Enc.transportIdIscsi d s = .ok r) :
    r.length = 4 + Enc.pad4Len s.length ∧ (r.length - 4) % 4 = 0 ∧ s.length + 1 ≤ r.length - 4 ∧
    baToInt (slice r 2 4) = r.length - 4 ∧ slice r 4 (s.length + 4) = Enc.strBytes s := by
  unfold Enc.transportIdIscsi at he
  cases h1 : encodeFrom d Gen.PersistentReserveInReadFullStatus_transport_id_bits (zeros (4 + Enc.pad4Len s.length)) with
  | error e => rw [h1] at he; cases he
  | ok r0 =>
    rw [h1, bind_ok] at he
    simp only [pure, Except.pure] at he
    cases he
    have hl := encodeFrom_length _ _ hwf d r0 h1 hr
    obtain ⟨p1, p2, p3⟩ := pad4_laws s.length
    obtain ⟨a1, a2⟩ := slice_setSlice r0 (intToBa (r0.length - 4) 2) 2 4 (by decide) (by omega) (by simp)
    obtain ⟨b1, b2⟩ := slice_setSlice (setSlice r0 2 4 (intToBa (r0.length - 4) 2)) (Enc.strBytes s) 4 (s.length + 4)
      (by omega) (by rw [a2, hl]; omega) (by rw [hascii]; omega)
    have hlen : (setSlice (setSlice r0 2 4 (intToBa (r0.length - 4) 2)) 4 (s.length + 4) (Enc.strBytes s)).length
        = 4 + Enc.pad4Len s.length := by rw [b2, a2, hl]
    refine ⟨hlen, by rw [hlen]; omega, by rw [hlen]; omega, ?_, b1⟩
    -- bytes 2–3 are untouched by the write of the name at 4…
    have keep := slice_setSlice_before (setSlice r0 2 4 (intToBa (r0.length - 4) 2)) (Enc.strBytes s) 4 (s.length + 4) 2 4
      (by decide) (by rw [a2, hl]; omega)
    rw [keep, a1, hlen, hl, b2i_intToBa _ 2 (by simpa using (by omega : 4 + Enc.pad4Len s.length - 4 < 2 ^ 16))]


end C05
