import ScsiVerif.Props.C01
/-! C01: finite obligations decided by the kernel on the regenerated tables (part d; split only so that lake checks the parts in parallel). -/
namespace C01

theorem Write10_cdb : cmdOK "scsi_cdb_write10" "Write10" = true := by decide +kernel
theorem Write10_sets : setsOK "scsi_cdb_write10" "Write10" = true := by decide +kernel
theorem Write12_cdb : cmdOK "scsi_cdb_write12" "Write12" = true := by decide +kernel
theorem Write12_sets : setsOK "scsi_cdb_write12" "Write12" = true := by decide +kernel
theorem Write16_cdb : cmdOK "scsi_cdb_write16" "Write16" = true := by decide +kernel
theorem Write16_sets : setsOK "scsi_cdb_write16" "Write16" = true := by decide +kernel
theorem WriteSame10_cdb : cmdOK "scsi_cdb_writesame10" "WriteSame10" = true := by decide +kernel
theorem WriteSame10_sets : setsOK "scsi_cdb_writesame10" "WriteSame10" = true := by decide +kernel
theorem WriteSame16_cdb : cmdOK "scsi_cdb_writesame16" "WriteSame16" = true := by decide +kernel
theorem WriteSame16_sets : setsOK "scsi_cdb_writesame16" "WriteSame16" = true := by decide +kernel
theorem SynchronizeCache10_cdb : cmdOK "scsi_cdb_synchronize_cache10" "SynchronizeCache10" = true := by decide +kernel
theorem SynchronizeCache10_sets : setsOK "scsi_cdb_synchronize_cache10" "SynchronizeCache10" = true := by decide +kernel
theorem SynchronizeCache16_cdb : cmdOK "scsi_cdb_synchronize_cache16" "SynchronizeCache16" = true := by decide +kernel
theorem SynchronizeCache16_sets : setsOK "scsi_cdb_synchronize_cache16" "SynchronizeCache16" = true := by decide +kernel

end C01
