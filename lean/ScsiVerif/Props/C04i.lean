import ScsiVerif.Props.C04h
/-!
# C04 (continued) — PERSISTENT RESERVE IN / REPORT CAPABILITIES

The library reads the eight bytes twice: once with the table that has the PERSISTENT RESERVATION TYPE MASK as one 16-bit
field, once with the table of the mask's individual bits, and reports the latter under `pr_type_mask`.  The response is
described in the standard's notation both ways (`Std.prReportCapabilities`, `Std.prReportCapabilitiesBits`); for every
pair of value assignments that describe the same eight bytes, the decoder reports the header values of the first and the
type bits of the second, LENGTH itself not being reported.
-/
namespace C04
open Conv PVal Std DataCompat DecL Dec

theorem prcap_c : compatible Gen.PersistentReserveInReportCapabilities_bits prReportCapabilities.rel 8 = true := by decide +kernel
theorem prcapbits_c : compatible Gen.PersistentReserveInReportCapabilities_pr_type_mask_bits prReportCapabilitiesBits.rel 8 = true := by
  decide +kernel

/-- **REPORT CAPABILITIES** (LENGTH = 8) -/
theorem prReportCapabilities_decodes (v w : Vals) (hv : InRangeD prReportCapabilities.rel v) (hw : InRangeD prReportCapabilitiesBits.rel w)
    (hsame : prReportCapabilities.enc v = prReportCapabilitiesBits.enc w) (hlen : v "length" = 8) (tr : Bytes) :
    Dec.prReportCapabilities (prReportCapabilities.enc v ++ tr) =
      .ok (.dict (((reported Gen.PersistentReserveInReportCapabilities_bits v).del "length").set "pr_type_mask"
        (.dict (reported Gen.PersistentReserveInReportCapabilities_pr_type_mask_bits w)))) := by
  unfold Dec.prReportCapabilities
  rw [decodeInto_std_nil _ _ prcap_c v hv tr]
  rw [bind_ok, getInt_reported _ v "length" 65535 0 (by decide), hlen, bind_ok]
  unfold Dec.prReportCapabilitiesBody
  rw [if_neg (by decide), if_neg (by decide), hsame, decodeInto_std_nil _ _ prcapbits_c w hw tr]
  rfl

/-- LENGTH = 0: nothing is reported -/
theorem prReportCapabilities_empty (v : Vals) (hv : InRangeD prReportCapabilities.rel v) (hlen : v "length" = 0) (tr : Bytes) :
    Dec.prReportCapabilities (prReportCapabilities.enc v ++ tr) = .ok (.dict []) := by
  unfold Dec.prReportCapabilities
  rw [decodeInto_std_nil _ _ prcap_c v hv tr]
  rw [bind_ok, getInt_reported _ v "length" 65535 0 (by decide), hlen, bind_ok]
  unfold Dec.prReportCapabilitiesBody
  rw [if_pos rfl]

/-- the two descriptions meet: CRH and TMV set, every reservation type supported (mask EA01h) -/
example : ∃ v w : Vals, prReportCapabilities.enc v = prReportCapabilitiesBits.enc w ∧ v "length" = 8 ∧ v "pr_type_mask" = 0xEA01 ∧ w "ex_ac_ar" = 1 :=
  ⟨fun k => if k = "length" then 8 else if k = "crh" then 1 else if k = "tmv" then 1 else if k = "pr_type_mask" then 0xEA01 else 0,
   fun k => if k = "length" then 8 else if k = "crh" then 1 else if k = "tmv" then 1
            else if k = "wr_ex_ar" ∨ k = "ex_ac_ro" ∨ k = "wr_ex_ro" ∨ k = "ex_ac" ∨ k = "wr_ex" ∨ k = "ex_ac_ar" then 1 else 0,
   by decide +kernel, rfl, rfl, rfl⟩

end C04
