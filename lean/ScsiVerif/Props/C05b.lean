import ScsiVerif.Props.C05
/-!
# C05 (continued) — MODE SELECT(6/10) parameter lists: every embedded length equals what follows

* a mode page is its header followed by its body, and PAGE LENGTH (byte 1 of a page_0 header, bytes 2–3 of a sub_page
  header) is the length of the body — for every body the library builds;
* the list is the mode parameter header (4 / 8 bytes) followed by the mode pages, nothing else, and MODE DATA LENGTH
  counts the bytes that follow it.
-/
namespace C05
open Conv PVal Std DataCompat EncL Enc

/-- page_0 format: `_d[1] = len(_mpd)` -/
theorem modePage_assemble_page0 (hdr b r : Bytes) (hl : hdr.length = 2) (he : Enc.modePageAssemble false hdr b = .ok r) :
    ∃ h, r = h ++ b ∧ h.length = 2 ∧ h[1]? = some b.length ∧ h[0]? = hdr[0]? := by
  unfold Enc.modePageAssemble Enc.setByte at he
  simp only [Bool.not_false, if_true] at he
  by_cases hb : b.length ≥ 256
  · simp [hb, bind, Except.bind] at he
  · have h1 : 1 < hdr.length := by omega
    simp only [hb, if_false, h1, if_true, bind, Except.bind, pure, Except.pure] at he
    injection he with he
    refine ⟨hdr.set 1 b.length, he.symm, by simp [hl], by simp [h1], by simp⟩

/-- sub_page format: `_d[2:4] = scsi_int_to_ba(len(_mpd), 2)` -/
theorem modePage_assemble_subpage (hdr b r : Bytes) (hl : hdr.length = 4) (hfit : b.length < 2 ^ 16)
    (he : Enc.modePageAssemble true hdr b = .ok r) :
    ∃ h, r = h ++ b ∧ h.length = 4 ∧ baToInt (slice h 2 4) = b.length := by
  unfold Enc.modePageAssemble at he
  simp only [Bool.not_true, Bool.false_eq_true, if_false, bind, Except.bind, pure, Except.pure] at he
  injection he with he
  obtain ⟨s1, s2⟩ := slice_setSlice hdr (intToBa b.length 2) 2 4 (by decide) (by omega) (by simp)
  exact ⟨_, he.symm, by rw [s2, hl], by rw [s1, b2i_intToBa _ 2 (by simpa using hfit)]⟩

/-- **a mode page as the library builds it**: header, then body, PAGE LENGTH = length of the body.
    (`zero` / `sub` are the page_0 / sub_page header tables of MODE SENSE(6) or (10).) -/
theorem modePage_length_honest (mp : PDict) (zero sub ea ctl ctl1 dr : Layout) (r : Bytes)
    (hwf0 : zero.wf 2 = true) (hwfs : sub.wf 4 = true)
    (hr0 : InRange zero (mp.filterMap (convEntry zero))) (hrs : InRange sub (mp.filterMap (convEntry sub)))
    (he : Enc.modePage mp zero sub ea ctl ctl1 dr = .ok r) :
    ∃ h b, r = h ++ b ∧ (b.length < 2 ^ 16 →
      ((h.length = 2 ∧ h[1]? = some b.length) ∨ (h.length = 4 ∧ baToInt (slice h 2 4) = b.length))) := by
  unfold Enc.modePage at he
  cases hs : Enc.modePageSpf mp with
  | error e => rw [hs] at he; cases he
  | ok sv =>
    rw [hs, bind_ok] at he
    cases hh : Enc.modePageHeader mp (truthy? (some sv)) zero sub with
    | error e => rw [hh] at he; cases he
    | ok hdr =>
      rw [hh, bind_ok] at he
      cases hp : getInt mp "page_code" with
      | error e => rw [hp] at he; cases he
      | ok pc =>
        rw [hp, bind_ok] at he
        cases hb : Enc.modePageBody mp (truthy? (some sv)) pc ea ctl ctl1 dr with
        | error e => rw [hb] at he; cases he
        | ok body =>
          rw [hb, bind_ok] at he
          cases body with
          | none => cases he
          | some b =>
            unfold Enc.modePageFinish at he
            unfold Enc.modePageHeader at hh
            cases hspf : truthy? (some sv) with
            | false =>
              rw [hspf] at he hh
              simp only [Bool.not_false, if_true] at hh
              have hl := encodeFrom_length zero 2 hwf0 mp hdr hh hr0
              obtain ⟨h, e1, e2, e3, _⟩ := modePage_assemble_page0 hdr b r hl he
              exact ⟨h, b, e1, fun _ => Or.inl ⟨e2, e3⟩⟩
            | true =>
              rw [hspf] at he hh
              simp only [Bool.not_true, Bool.false_eq_true, if_false] at hh
              have hl := encodeFrom_length sub 4 hwfs mp hdr hh hrs
              have hr' : r = setSlice hdr 2 4 (intToBa b.length 2) ++ b := by
                unfold Enc.modePageAssemble at he
                simp only [Bool.not_true, Bool.false_eq_true, if_false, bind, Except.bind, pure, Except.pure] at he
                injection he with he
                exact he.symm
              refine ⟨setSlice hdr 2 4 (intToBa b.length 2), b, hr', fun hfit => ?_⟩
              obtain ⟨s1, s2⟩ := slice_setSlice hdr (intToBa b.length 2) 2 4 (by decide) (by omega) (by simp)
              exact Or.inr ⟨by rw [s2, hl], by rw [s1, b2i_intToBa _ 2 (by simpa using hfit)]⟩

/-- **MODE SELECT(6) list**: 4-byte mode parameter header, then exactly the mode pages; byte 0 (MODE DATA LENGTH) is the
    number of bytes that follow it -/
theorem modeSelect6_list_honest (d : PDict) (pages r : Bytes)
    (hr : InRange Gen.MODESENSE6_mode_parameter_header_bits (d.filterMap (convEntry Gen.MODESENSE6_mode_parameter_header_bits)))
    (hp : Enc.modePages6 d = .ok pages) (he : Enc.modeSense6 d = .ok r) :
    r.length = 4 + pages.length ∧ r.drop 4 = pages ∧ r[0]? = some (r.length - 1) := by
  unfold Enc.modeSense6 at he
  cases h1 : encodeFrom d Gen.MODESENSE6_mode_parameter_header_bits (zeros 4) with
  | error e => rw [h1] at he; cases he
  | ok hdr =>
    rw [h1, bind_ok, hp, bind_ok] at he
    have hl := encodeFrom_length _ 4 (by decide +kernel) d hdr h1 hr
    unfold Enc.setByte at he
    have h0 : 0 < (hdr ++ pages).length := by rw [List.length_append, hl]; omega
    dsimp only at he
    split at he
    · cases he
    · injection he with he
      subst he
      refine ⟨by simp [hl], ?_, ?_⟩
      · rw [List.drop_set_of_lt (by omega), List.drop_left' hl]
      · rw [List.length_set]
        exact List.getElem?_set_self h0

/-- **MODE SELECT(10) list**: 8-byte header, the pages; bytes 0–1 (MODE DATA LENGTH) count the bytes that follow them -/
theorem modeSelect10_list_honest (d : PDict) (pages r : Bytes) (hfit : 6 + pages.length < 2 ^ 16)
    (hr : InRange Gen.MODESENSE10_mode_parameter_header_bits (d.filterMap (convEntry Gen.MODESENSE10_mode_parameter_header_bits)))
    (hp : Enc.modePages10 d = .ok pages) (he : Enc.modeSense10 d = .ok r) :
    r.length = 8 + pages.length ∧ r.drop 8 = pages ∧ baToInt (slice r 0 2) = r.length - 2 := by
  unfold Enc.modeSense10 at he
  cases h1 : encodeFrom d Gen.MODESENSE10_mode_parameter_header_bits (zeros 8) with
  | error e => rw [h1] at he; cases he
  | ok hdr =>
    rw [h1, bind_ok, hp, bind_ok] at he
    have hl := encodeFrom_length _ 8 (by decide +kernel) d hdr h1 hr
    simp only [pure, Except.pure] at he
    injection he with he
    have hlen : (hdr ++ pages).length = 8 + pages.length := by rw [List.length_append, hl]
    obtain ⟨s1, s2⟩ := slice_setSlice (hdr ++ pages) (intToBa ((hdr ++ pages).length - 2) 2) 0 2 (by decide) (by rw [hlen]; omega) (by simp)
    subst he
    refine ⟨by rw [s2, hlen], ?_, ?_⟩
    · unfold setSlice
      simp only [List.take_zero, List.nil_append]
      have hx : (intToBa ((hdr ++ pages).length - 2) 2).length = 2 := by simp
      have e8 : (8 : Nat) = (intToBa ((hdr ++ pages).length - 2) 2).length + 6 := by rw [hx]
      rw [e8, List.drop_append, List.drop_drop]
      exact List.drop_left' hl
    · rw [s1, s2, b2i_intToBa _ 2 (by rw [hlen]; simpa using (by omega : 8 + pages.length - 2 < 2 ^ 16))]

end C05
