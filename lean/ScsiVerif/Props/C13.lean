import ScsiVerif.Model.Facade
import ScsiVerif.Model.Compat
import ScsiVerif.Std.Facade
import ScsiVerif.Gen.Facade
import ScsiVerif.Gen.Opcodes
import ScsiVerif.Gen.Commands
/-!
# C13 — each facade call sends exactly one command and decodes what the device returned

* `Facade.run` is the model of a facade method; the theorems about it hold for every way the
  constructor, the device and the decoder can behave.
* The facts about the 38 real methods (their shape, the class they construct, where they take the
  operation code from, that they forward every argument under its own name) are read from
  `pyscsi/pyscsi/scsi.py` by the translator on every run (`Gen.facade`) and decided by the kernel.
* "every documented argument reaches the CDB" = `forwarding_is_by_name` + C01 (`cdb_meets_standard`).
-/
namespace C13
open Facade Conv Std

/-! ## the method model, for all behaviours of constructor / device / decoder -/

/-- a call that returns has sent exactly one command, and decoded (if it decodes) after sending -/
theorem returned_sends_once (w : Bool) (c d u : Except PyErr Unit) (h : (run w c d u).outcome = .returned) :
    executes (run w c d u) = 1 ∧
    (run w c d u).trace = (if w then [.construct, .execute, .unmarshall, .ret] else [.construct, .execute, .ret]) := by
  unfold run at *
  cases c <;> cases d <;> cases u <;> cases w <;> simp_all [executes]

/-- never more than one command per call, whatever happens -/
theorem at_most_one_execute (w : Bool) (c d u : Except PyErr Unit) : executes (run w c d u) ≤ 1 := by
  unfold run
  cases c <;> cases d <;> cases u <;> cases w <;> simp [executes]

/-- the decoder never runs before the command was sent -/
theorem unmarshall_only_after_execute (w : Bool) (c d u : Except PyErr Unit) :
    ∀ pre post, (run w c d u).trace = pre ++ [.unmarshall] ++ post → Ev.execute ∈ pre := by
  intro pre post h
  unfold run at h
  cases c <;> cases d <;> cases u <;> cases w <;> simp at h <;>
    (first
      | (rcases pre with _ | ⟨a, _ | ⟨b, _ | ⟨c', pre⟩⟩⟩ <;> simp_all)
      | skip)

/-- a device error is passed on unchanged, after exactly one send, and nothing is decoded -/
theorem device_error_passed_on (w : Bool) (u : Except PyErr Unit) (e : PyErr) :
    run w (.ok ()) (.error e) u = ⟨[.construct, .execute], .raised e⟩ := by
  simp [run]

/-- a refused construction sends nothing -/
theorem construct_error_sends_nothing (w : Bool) (d u : Except PyErr Unit) (e : PyErr) :
    run w (.error e) d u = ⟨[], .raised e⟩ := by
  simp [run]

/-- with a working constructor, device and decoder the call returns -/
theorem all_good_returns (w : Bool) : (run w (.ok ()) (.ok ()) (.ok ())).outcome = .returned := by
  cases w <;> simp [run]

/-! ## the 38 real methods (kernel-decided on the regenerated description of scsi.py) -/

/-- every method has one of the two legal shapes, and decodes iff the oracle says its command has
    a response format -/
def shapeOK (m : Gen.FacadeMethod) : Bool :=
  match shape m.events with
  | some w => w == Std.decodes.contains m.name
  | none => false

theorem every_method_has_the_shape : Gen.facade.all shapeOK = true := by decide +kernel

/-- the facade offers exactly the documented methods, each constructing the documented class(es) -/
def classesOK (m : Gen.FacadeMethod) : Bool :=
  match (Std.facadeMap.find? (·.1 == m.name)).map (·.2) with
  | some cs => m.calls.map (·.cls) == cs.map (fun c =>
      if c.1 == "scsi_cdb_extended_copy_spc4" then "ExtendedCopy4"
      else if c.1 == "scsi_cdb_extended_copy_spc5" then "ExtendedCopy5" else c.2)
  | none => false

theorem documented_methods_and_classes :
    Gen.facade.all classesOK = true ∧ Gen.facade.map (·.name) = Std.facadeMap.map (·.1) := by decide +kernel

/-- **arguments are forwarded under their own names**: every constructor parameter bound at the
call site receives the facade parameter of the same name (`opcode` the looked-up opcode,
`blocksize` the facade's block size, `**kwargs` the caller's keyword arguments), every positional
facade parameter is forwarded, and keyword arguments are accepted only if the constructor takes them -/
def forwardOK (m : Gen.FacadeMethod) : Bool :=
  m.calls.all (fun c =>
    c.bound.all (fun b =>
      (b.1 == b.2) || (b.1 == "blocksize" && b.2 == "self.blocksize") || (b.1 == "**" && b.2 == "kwargs") ||
      (b.1 == "*" && false)) &&
    m.params.all (fun p => p == "service_action" && m.name == "persistentreservein" ||
      c.bound.any (fun b => b.2 == p)) &&
    (!m.kwargs || c.bound.any (fun b => b.1 == "**")))

theorem forwarding_is_by_name : Gen.facade.all forwardOK = true := by decide +kernel

/-- **the operation code comes from the attached device's command set under the command's own
name** (or the `9E`/`A3` suffix rule for the service-action carriers), and in every command set
that offers it that object carries the T10 operation code of the class constructed -/
def opcodeOK (m : Gen.FacadeMethod) : Bool :=
  match (Std.facadeMap.find? (·.1 == m.name)).map (·.2) with
  | none => false
  | some cs => cs.all (fun mc =>
      match Std.cdbs.find? (fun s => s.module == mc.1 && s.cls == mc.2) with
      | none => false
      | some s =>
        (m.opcode == (if s.opName.length == 2 then .suffix s.opName else .name s.opName)) &&
        Gen.sets.all (fun st => match Compat.findOp st.2 s.opName with
          | none => true
          | some op => op.value == s.opcode))

theorem opcode_from_device_set : Gen.facade.all opcodeOK = true := by decide +kernel

/-- only the two ATA PASS-THROUGH methods ask for raw sense -/
theorem raw_sense_only_for_ata :
    Gen.facade.all (fun m => m.enRawSense == (m.name == "atapassthrough12" || m.name == "atapassthrough16")) = true := by
  decide +kernel

example : shape ["construct", "construct", "execute", "unmarshall", "return"] = some true := by decide

end C13
