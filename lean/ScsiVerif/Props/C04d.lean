import ScsiVerif.Props.C04c
/-!
# C04 (continued) — PERSISTENT RESERVE IN / READ FULL STATUS, whole response

Every full status descriptor inside ADDITIONAL LENGTH (n−7) with its TransportID (the four fixed-size
formats: FCP, SBP, SRP, SAS), in order, for every descriptor count and all values.
-/
namespace C04
open Conv PVal Std DataCompat DecL Dec

/-- a byte-aligned field of a block read as a byte string (`data[a:b]`) -/
theorem slice_field_bytes (b : Block) (hf : formatOK b.len b.rel = true) (v : Vals) (hr : InRangeD b.rel v)
    (tr : Bytes) (g : DField) (hg : g ∈ b.rel) (n : Nat) (hmsb : g.msb = 7) (hw : g.width = 8 * n) (hin : g.byte + n ≤ b.len) :
    slice (b.enc v ++ tr) g.byte (g.byte + n) = intToBa (v g.key) n := by
  have hv := b2i_slice_field b hf v hr tr g hg n hmsb hw hin
  unfold Dec.b2i at hv
  have hs : BytesOK (slice (b.enc v ++ tr) g.byte (g.byte + n)) := by
    rw [slice_append_left _ _ _ _ (by rw [enc_length]; exact hin)]
    exact (enc_ok b v).slice _ _
  have hl : (slice (b.enc v ++ tr) g.byte (g.byte + n)).length = n := by
    simp [slice, enc_length]; omega
  have := intToBa_baToInt _ hs
  rw [hl, hv] at this
  exact this.symm

theorem fsd_c : compatible Gen.PersistentReserveInReadFullStatus_full_status_desc_bits fullStatusDescriptor.rel 24 = true := by decide +kernel

def tidKindOK (K : TidKind) : Bool :=
  compatible Gen.PersistentReserveInReadFullStatus_transport_id_bits K.blk.rel K.blk.len &&
  decide (K.blk.len = 24) && decide ((⟨K.key, K.a, 7, 8 * (K.b - K.a)⟩ : DField) ∈ K.blk.rel) && decide (K.a ≤ K.b) && decide (K.b ≤ 24) &&
  Gen.PersistentReserveInReadFullStatus_transport_id_bits.all (fun kf => kf.1 != K.key)

theorem tidKinds_ok : tidKinds.all tidKindOK = true := by decide +kernel

/-- what the library reports for a fixed-size TransportID -/
def tidReported (K : TidKind) (tv : Vals) : PDict :=
  reported Gen.PersistentReserveInReadFullStatus_transport_id_bits tv ++ [(K.key, .bytes (intToBa (tv K.key) (K.b - K.a)))]

theorem tid_pid (tv : Vals) :
    getInt (reported Gen.PersistentReserveInReadFullStatus_transport_id_bits tv) "protocol_id" = .ok (tv "protocol_id") :=
  getInt_reported _ tv "protocol_id" 15 0 (by decide)

/-- `unmarshall_transport_id` on the four fixed-size formats -/
theorem transportId_fixed (K : TidKind) (hK : K ∈ tidKinds) (tv : Vals) (hr : InRangeD K.blk.rel tv)
    (hp : tv "protocol_id" = K.pid) (rest : Bytes) :
    Dec.transportId (K.blk.enc tv ++ rest) = .ok (tidReported K tv) := by
  have hok : tidKindOK K = true := by
    have := tidKinds_ok
    simp only [List.all_eq_true] at this
    exact this K hK
  unfold tidKindOK at hok
  simp only [Bool.and_eq_true, decide_eq_true_eq] at hok
  obtain ⟨⟨⟨⟨⟨hc, hlen⟩, hmem⟩, hab⟩, hb24⟩, hfresh⟩ := hok
  have hsl := slice_field_bytes K.blk (compatible_format hc) tv hr rest ⟨K.key, K.a, 7, 8 * (K.b - K.a)⟩ hmem (K.b - K.a) rfl rfl
    (by simp only; omega)
  have hsl' : slice (K.blk.enc tv ++ rest) K.a K.b = intToBa (tv K.key) (K.b - K.a) := by
    have : K.a + (K.b - K.a) = K.b := by omega
    simpa [this] using hsl
  have hset : ∀ x, (reported Gen.PersistentReserveInReadFullStatus_transport_id_bits tv).set K.key x =
      reported Gen.PersistentReserveInReadFullStatus_transport_id_bits tv ++ [(K.key, x)] := by
    intro x
    apply set_fresh
    intro kv hkv
    have hm : kv.1 ∈ (reported Gen.PersistentReserveInReadFullStatus_transport_id_bits tv).map (·.1) := List.mem_map.mpr ⟨kv, hkv, rfl⟩
    rw [reported_keys] at hm
    obtain ⟨kf, hkf, hkf'⟩ := List.mem_map.mp hm
    simp only [List.all_eq_true, bne_iff_ne, ne_eq] at hfresh
    rw [← hkf']; exact hfresh kf hkf
  unfold Dec.transportId
  rw [decodeInto_std_nil _ _ hc tv hr rest]
  simp only [bind, Except.bind, pure, Except.pure]
  rw [tid_pid, hp]
  dsimp only
  unfold tidReported
  simp only [tidKinds, List.mem_cons, List.not_mem_nil, or_false] at hK
  rcases hK with rfl | rfl | rfl | rfl
  · simp only [reduceIte] at hsl' ⊢; rw [hsl', hset]
  · simp only [Nat.reduceEqDiff, reduceIte] at hsl' ⊢; rw [hsl', hset]
  · simp only [Nat.reduceEqDiff, reduceIte] at hsl' ⊢; rw [hsl', hset]
  · simp only [Nat.reduceEqDiff, reduceIte] at hsl' ⊢; rw [hsl', hset]

/-- a full status descriptor is well formed: values fit, ADDITIONAL DESCRIPTOR LENGTH is the TransportID's
    length (24), the TransportID is one of the fixed-size formats with the matching PROTOCOL IDENTIFIER -/
def FsdOK (d : Vals × TidKind × Vals) : Prop :=
  InRangeD fullStatusDescriptor.rel d.1 ∧ d.1 "additional_desc_length" = 24 ∧ d.2.1 ∈ tidKinds ∧
  InRangeD d.2.1.blk.rel d.2.2 ∧ d.2.2 "protocol_id" = d.2.1.pid

def fsdFields (hv : Vals) : PDict :=
  (reported Gen.PersistentReserveInReadFullStatus_full_status_desc_bits hv).del "additional_desc_length"

/-- what the library reports for one full status descriptor -/
def fsdReported (d : Vals × TidKind × Vals) : PV :=
  .dict (fsdFields d.1 ++ [("transport_id", .dict (tidReported d.2.1 d.2.2))])

theorem fsd_set (hv : Vals) (x : PV) : (fsdFields hv).set "transport_id" x = fsdFields hv ++ [("transport_id", x)] := by
  apply set_fresh
  intro kv hkv
  unfold fsdFields PDict.del at hkv
  have hkv' := (List.mem_filter.mp hkv).1
  have hm : kv.1 ∈ (reported Gen.PersistentReserveInReadFullStatus_full_status_desc_bits hv).map (·.1) := List.mem_map.mpr ⟨kv, hkv', rfl⟩
  rw [reported_keys] at hm
  intro heq
  rw [heq] at hm
  revert hm
  decide

theorem tid_len (K : TidKind) (hK : K ∈ tidKinds) (tv : Vals) : (K.blk.enc tv).length = 24 := by
  rw [enc_length]
  simp only [tidKinds, List.mem_cons, List.not_mem_nil, or_false] at hK
  rcases hK with rfl | rfl | rfl | rfl <;> rfl

theorem encFsd_length (d : Vals × TidKind × Vals) (h : FsdOK d) : (encFullStatusDescriptor d).length = 48 := by
  unfold encFullStatusDescriptor
  rw [List.length_append, enc_length, tid_len _ h.2.2.1]
  rfl

/-- the descriptor loop: stride 24 + ADDITIONAL DESCRIPTOR LENGTH -/
theorem fullStatusDescriptors_std (ds : List (Vals × TidKind × Vals)) (h : ∀ d ∈ ds, FsdOK d) :
    Dec.fullStatusDescriptors (ds.map encFullStatusDescriptor).flatten = .ok (ds.map fsdReported) := by
  induction ds with
  | nil => unfold Dec.fullStatusDescriptors; simp
  | cons d ds ih =>
    have hd := h d (by simp)
    have hne : ¬ ((List.map encFullStatusDescriptor (d :: ds)).flatten.length = 0) := by
      simp only [List.map_cons, List.flatten_cons, List.length_append, encFsd_length d hd]; omega
    rw [Dec.fullStatusDescriptors, dif_neg hne]
    simp only [List.map_cons, List.flatten_cons]
    have e1 : encFullStatusDescriptor d ++ (ds.map encFullStatusDescriptor).flatten
        = fullStatusDescriptor.enc d.1 ++ (d.2.1.blk.enc d.2.2 ++ (ds.map encFullStatusDescriptor).flatten) := by
      unfold encFullStatusDescriptor; simp
    have hhdr : Dec.fullStatusHeader (encFullStatusDescriptor d ++ (ds.map encFullStatusDescriptor).flatten) = .ok (fsdFields d.1, 24) := by
      unfold Dec.fullStatusHeader
      rw [e1, decodeInto_std_nil _ _ fsd_c d.1 hd.1 _]
      simp only [bind, Except.bind, pure, Except.pure]
      rw [getInt_reported _ d.1 "additional_desc_length" 4294967295 20 (by decide), hd.2.1]
      rfl
    rw [hhdr]
    dsimp only
    rw [if_pos (by decide)]
    have hdrop : (encFullStatusDescriptor d ++ (ds.map encFullStatusDescriptor).flatten).drop 24
        = d.2.1.blk.enc d.2.2 ++ (ds.map encFullStatusDescriptor).flatten := by
      rw [e1, List.drop_left' (show (fullStatusDescriptor.enc d.1).length = 24 from enc_length _ _)]
    rw [hdrop, transportId_fixed d.2.1 hd.2.2.1 d.2.2 hd.2.2.2.1 hd.2.2.2.2 _]
    dsimp only
    rw [List.drop_left' (tid_len _ hd.2.2.1 _), ih (fun x hx => h x (by simp [hx]))]
    dsimp only
    rw [fsd_set]
    rfl

/-- **READ FULL STATUS**: PRGENERATION and every full status descriptor inside ADDITIONAL LENGTH (n−7), each with
    its TransportID, in order; nothing beyond -/
theorem prReadFullStatus_decodes (gen : Nat) (ds : List (Vals × TidKind × Vals)) (hg : gen < 2 ^ 32)
    (h : ∀ d ∈ ds, FsdOK d) (hfit : 48 * ds.length < 2 ^ 32) (tr : Bytes) :
    Dec.prReadFullStatus (encReadFullStatus gen ds ++ tr) =
      .ok (.dict [("pr_generation", .int gen), ("full_status", .list (ds.map fsdReported))]) := by
  have hbody : ((ds.map encFullStatusDescriptor).flatten).length = 48 * ds.length := by
    rw [flatten_length_const 48 _ (by
      intro x hx
      obtain ⟨d, hd, rfl⟩ := List.mem_map.mp hx
      exact encFsd_length d (h d hd))]
    simp
  have e0 : encReadFullStatus gen ds ++ tr
      = toBytes gen 4 ++ (toBytes (48 * ds.length) 4 ++ (ds.map encFullStatusDescriptor).flatten ++ tr) := by
    unfold encReadFullStatus; simp
  have e1 : encReadFullStatus gen ds ++ tr
      = toBytes gen 4 ++ toBytes (48 * ds.length) 4 ++ ((ds.map encFullStatusDescriptor).flatten ++ tr) := by
    unfold encReadFullStatus; simp
  have e : encReadFullStatus gen ds ++ tr
      = (toBytes gen 4 ++ toBytes (48 * ds.length) 4) ++ (ds.map encFullStatusDescriptor).flatten ++ tr := by
    unfold encReadFullStatus; simp
  have h1 : slice (encReadFullStatus gen ds ++ tr) 0 4 = toBytes gen 4 := by
    rw [e0]; exact slice_prefix _ _ 4 (toBytes_length _ _)
  have h2 : slice (encReadFullStatus gen ds ++ tr) 4 8 = toBytes (48 * ds.length) 4 := by
    rw [e1]; exact slice_mid _ _ _ 4 8 (toBytes_length _ _) (by rw [toBytes_length])
  unfold Dec.prReadFullStatus
  simp only [h1, h2, b2i_be _ 4 (by simpa using hfit), b2i_be _ 4 (by simpa using hg)]
  by_cases hz : 48 * ds.length = 0
  · have : ds = [] := by
      cases ds with
      | nil => rfl
      | cons _ _ => simp at hz
    subst this
    simp [pure, Except.pure]
  · rw [if_neg hz]
    rw [e, slice_mid _ _ _ 8 _ (by simp [toBytes_length]) (by rw [hbody]; omega)]
    rw [fullStatusDescriptors_std ds h]
    rfl

/-- the hypotheses are satisfiable: an FCP and a SAS registrant -/
example : ∃ ds : List (Vals × TidKind × Vals), ds.length = 2 ∧ (∀ d ∈ ds, FsdOK d) := by
  refine ⟨[(fun k => if k = "additional_desc_length" then 24 else if k = "reservation_key" then 0xABCDEF else 1,
            ⟨tidFcp, 0, "n_port_name", 8, 16⟩, fun k => if k = "n_port_name" then 0x2100001122334455 else 0),
           (fun k => if k = "additional_desc_length" then 24 else 0,
            ⟨tidSas, 6, "sas_address", 4, 12⟩, fun k => if k = "protocol_id" then 6 else if k = "sas_address" then 0x5000C50012345678 else 0)],
          rfl, ?_⟩
  intro d hd
  simp only [List.mem_cons, List.not_mem_nil, or_false] at hd
  rcases hd with rfl | rfl
  · exact ⟨by intro g hg; revert g; decide, rfl, by simp [tidKinds], by intro g hg; revert g; decide, rfl⟩
  · exact ⟨by intro g hg; revert g; decide, rfl, by simp [tidKinds], by intro g hg; revert g; decide, rfl⟩

end C04
