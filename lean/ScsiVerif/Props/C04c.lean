import ScsiVerif.Props.C04b
/-!
# C04 (continued) — READ ELEMENT STATUS, whole response

Two nested loops with three length fields (BYTE COUNT OF REPORT AVAILABLE, BYTE COUNT OF DESCRIPTOR DATA
AVAILABLE, ELEMENT DESCRIPTOR LENGTH), optional volume tags announced by the page header and
type-dependent bits: for **all** page counts, descriptor counts, descriptor lengths, tag combinations
and values, with any trailing buffer space, the decoder model returns exactly what the device encoded.
-/
namespace C04
open Conv PVal Std DataCompat DecL Dec

theorem edesc_c : compatible Gen.ReadElementStatus_element_status_descriptor_bits elementDescriptor.rel 12 = true := by decide +kernel
theorem epage_c : compatible Gen.ReadElementStatus_element_status_page_bits elementStatusPage.rel 8 = true := by decide +kernel
theorem ehdr_c : compatible Gen.ReadElementStatus_datain_bits elementStatusHeader.rel 8 = true := by decide +kernel

/-- the type-specific table the decoder applies on top of the common descriptor table -/
def typeTable (ety : Nat) : Layout :=
  if ety = 4 then Gen.ReadElementStatus_data_transfer_descriptor_bits
  else if ety = 2 then Gen.ReadElementStatus_storage_descriptor_bits
  else if ety = 3 then Gen.ReadElementStatus_import_export_descriptor_bits
  else []

theorem typeTable_c (ety : Nat) : compatible (typeTable ety) elementDescriptor.rel 12 = true := by
  unfold typeTable
  split
  · decide +kernel
  split
  · decide +kernel
  split
  · decide +kernel
  · decide +kernel

def tagsOf (pvol avol : Nat) (e : EDesc) : PDict :=
  (if pvol ≠ 0 then [("primary_volume_tag", PV.bytes e.2.1)] else []) ++
  (if avol ≠ 0 then [("alternate_volume_tag", PV.bytes e.2.2.1)] else [])

/-- what the library reports for one element descriptor of a page with these PVOLTAG / AVOLTAG / type -/
def edescReported (pvol avol ety : Nat) (e : EDesc) : PV :=
  .dict (reported Gen.ReadElementStatus_element_status_descriptor_bits e.1 ++ tagsOf pvol avol e ++ reported (typeTable ety) e.1)

/-- descriptor well-formedness: values fit, tags present exactly when the page says so (36 bytes each),
    total length is ELEMENT DESCRIPTOR LENGTH -/
def EDescOK (pvol avol edl : Nat) (e : EDesc) : Prop :=
  InRangeD elementDescriptor.rel e.1 ∧ e.2.1.length = 36 * pvol ∧ e.2.2.1.length = 36 * avol ∧
  12 + 36 * pvol + 36 * avol + e.2.2.2.length = edl

theorem encEDesc_length (pvol avol edl : Nat) (e : EDesc) (h : EDescOK pvol avol edl e) :
    (encElementDescriptor e).length = edl := by
  unfold encElementDescriptor
  simp only [List.length_append, enc_length]
  have := h.2.1; have := h.2.2.1; have := h.2.2.2
  show 12 + _ = _
  omega

/-- keys the tags and type-specific tables add are new -/
theorem edesc_keys_fresh (ety : Nat) :
    ((Gen.ReadElementStatus_element_status_descriptor_bits.map (·.1)) ++ ["primary_volume_tag", "alternate_volume_tag"]).all
      (fun k => (typeTable ety).all (fun kf => k != kf.1)) = true := by
  unfold typeTable
  split
  · decide +kernel
  split
  · decide +kernel
  split
  · decide +kernel
  · decide +kernel

theorem keys_append_tags (pvol avol : Nat) (e : EDesc) (kv : String × PV)
    (h : kv ∈ reported Gen.ReadElementStatus_element_status_descriptor_bits e.1 ++ tagsOf pvol avol e) :
    kv.1 ∈ (Gen.ReadElementStatus_element_status_descriptor_bits.map (·.1)) ++ ["primary_volume_tag", "alternate_volume_tag"] := by
  rcases List.mem_append.mp h with h | h
  · have : kv.1 ∈ (reported Gen.ReadElementStatus_element_status_descriptor_bits e.1).map (·.1) := List.mem_map.mpr ⟨kv, h, rfl⟩
    rw [reported_keys] at this
    exact List.mem_append_left _ this
  · apply List.mem_append_right
    unfold tagsOf at h
    rcases List.mem_append.mp h with h | h
    · split at h
      · simp at h; simp [h]
      · cases h
    · split at h
      · simp at h; simp [h]
      · cases h

theorem decodeInto_nil_layout (d : Bytes) (rr : PDict) : decodeInto d [] rr = .ok rr := by
  simp [decodeInto, decodeBits, bind, Except.bind, pure, Except.pure, ofDict, PDict.update]

/-- the three `if element_type == …` updates are one update with the table of that type -/
theorem elementTypeFields_eq (d : Bytes) (ety : Nat) (rr : PDict) :
    Dec.elementTypeFields d ety rr = decodeInto d (typeTable ety) rr := by
  unfold Dec.elementTypeFields typeTable
  by_cases h4 : ety = 4
  · subst h4
    simp only [Nat.reduceEqDiff, reduceIte, bind, Except.bind, pure, Except.pure]
    cases decodeInto d Gen.ReadElementStatus_data_transfer_descriptor_bits rr <;> rfl
  · by_cases h2 : ety = 2
    · subst h2
      simp only [Nat.reduceEqDiff, reduceIte, bind, Except.bind, pure, Except.pure]
      cases decodeInto d Gen.ReadElementStatus_storage_descriptor_bits rr <;> rfl
    · by_cases h3 : ety = 3
      · subst h3
        simp only [Nat.reduceEqDiff, reduceIte, bind, Except.bind, pure, Except.pure]
        cases decodeInto d Gen.ReadElementStatus_import_export_descriptor_bits rr <;> rfl
      · simp only [h4, h2, h3, if_false, bind, Except.bind, pure, Except.pure, decodeInto_nil_layout]

/-- the type-specific fields are added to what was decoded so far -/
theorem elementTypeFields_std (ety : Nat) (pvol avol : Nat) (e : EDesc) (hr : InRangeD elementDescriptor.rel e.1) (tail : Bytes) :
    Dec.elementTypeFields (elementDescriptor.enc e.1 ++ tail) ety
        (reported Gen.ReadElementStatus_element_status_descriptor_bits e.1 ++ tagsOf pvol avol e) =
      .ok (reported Gen.ReadElementStatus_element_status_descriptor_bits e.1 ++ tagsOf pvol avol e ++ reported (typeTable ety) e.1) := by
  have hfresh : ∀ kv ∈ reported Gen.ReadElementStatus_element_status_descriptor_bits e.1 ++ tagsOf pvol avol e,
      ∀ kf ∈ typeTable ety, kv.1 ≠ kf.1 := by
    intro kv hkv kf hkf
    have hk := keys_append_tags pvol avol e kv hkv
    have := edesc_keys_fresh ety
    simp only [List.all_eq_true, bne_iff_ne, ne_eq] at this
    exact this kv.1 hk kf hkf
  rw [elementTypeFields_eq]
  exact decodeInto_std (typeTable ety) elementDescriptor (typeTable_c ety) e.1 hr tail _ hfresh

theorem desc_set_fresh (v : Vals) (k : String) (x : PV)
    (hk : Gen.ReadElementStatus_element_status_descriptor_bits.all (fun kf => kf.1 != k) = true) (extra : PDict)
    (he : ∀ kv ∈ extra, kv.1 ≠ k) :
    (reported Gen.ReadElementStatus_element_status_descriptor_bits v ++ extra).set k x =
      reported Gen.ReadElementStatus_element_status_descriptor_bits v ++ extra ++ [(k, x)] := by
  apply set_fresh
  intro kv hkv
  rcases List.mem_append.mp hkv with h | h
  · have : kv.1 ∈ (reported Gen.ReadElementStatus_element_status_descriptor_bits v).map (·.1) := List.mem_map.mpr ⟨kv, h, rfl⟩
    rw [reported_keys] at this
    obtain ⟨kf, hkf, hkf'⟩ := List.mem_map.mp this
    simp only [List.all_eq_true, bne_iff_ne, ne_eq] at hk
    rw [← hkf']; exact hk kf hkf
  · exact he kv h

/-- the optional volume tags: present exactly when the page header says so -/
theorem elementTags_std (pvol avol edl : Nat) (hpv : pvol ≤ 1) (hav : avol ≤ 1) (e : EDesc) (h : EDescOK pvol avol edl e) (rest : Bytes) :
    Dec.elementTags (reported Gen.ReadElementStatus_element_status_descriptor_bits e.1) (e.2.1 ++ (e.2.2.1 ++ (e.2.2.2 ++ rest))) pvol avol =
      reported Gen.ReadElementStatus_element_status_descriptor_bits e.1 ++ tagsOf pvol avol e := by
  obtain ⟨_, hp, ha, _⟩ := h
  have s1 := desc_set_fresh e.1 "primary_volume_tag" (.bytes e.2.1) (by decide +kernel) [] (by intro kv hkv; cases hkv)
  have s2 := desc_set_fresh e.1 "alternate_volume_tag" (.bytes e.2.2.1) (by decide +kernel) [] (by intro kv hkv; cases hkv)
  have s3 := desc_set_fresh e.1 "alternate_volume_tag" (.bytes e.2.2.1) (by decide +kernel) [("primary_volume_tag", .bytes e.2.1)]
    (by intro kv hkv; simp at hkv; rw [hkv]; simp)
  simp only [List.append_nil] at s1 s2
  unfold Dec.elementTags tagsOf
  rcases Nat.le_one_iff_eq_zero_or_eq_one.mp hpv with rfl | rfl <;>
  rcases Nat.le_one_iff_eq_zero_or_eq_one.mp hav with rfl | rfl
  · simp
  · have ha' : e.2.2.1.length = 36 := by omega
    have hp' : e.2.1 = [] := List.eq_nil_of_length_eq_zero (by omega)
    simp [hp', List.take_left' ha', s2]
  · have hp' : e.2.1.length = 36 := by omega
    simp [List.take_left' hp', s1]
  · have hp' : e.2.1.length = 36 := by omega
    have ha' : e.2.2.1.length = 36 := by omega
    simp [List.take_left' hp', List.drop_left' hp', List.take_left' ha', s1, s3]

/-- **one element descriptor** -/
theorem elementDescriptor_std (pvol avol ety edl : Nat) (hpv : pvol ≤ 1) (hav : avol ≤ 1) (e : EDesc)
    (h : EDescOK pvol avol edl e) (rest : Bytes) :
    Dec.elementDescriptor (encElementDescriptor e ++ rest) pvol avol ety =
      .ok (reported Gen.ReadElementStatus_element_status_descriptor_bits e.1 ++ tagsOf pvol avol e ++ reported (typeTable ety) e.1) := by
  have e1 : encElementDescriptor e ++ rest = elementDescriptor.enc e.1 ++ (e.2.1 ++ (e.2.2.1 ++ (e.2.2.2 ++ rest))) := by
    unfold encElementDescriptor; simp
  unfold Dec.elementDescriptor
  rw [e1, decodeInto_std_nil _ _ edesc_c e.1 h.1 _]
  simp only [bind, Except.bind]
  rw [List.drop_left' (show (elementDescriptor.enc e.1).length = 12 from enc_length _ _)]
  rw [elementTags_std pvol avol edl hpv hav e h rest]
  exact elementTypeFields_std ety pvol avol e h.1 _

/-- the descriptor loop of one page: stride ELEMENT DESCRIPTOR LENGTH -/
theorem elementDescriptors_std (pvol avol ety edl : Nat) (hpv : pvol ≤ 1) (hav : avol ≤ 1) (es : List EDesc)
    (h : ∀ e ∈ es, EDescOK pvol avol edl e) :
    Dec.elementDescriptors (es.map encElementDescriptor).flatten edl pvol avol ety =
      .ok (es.map (edescReported pvol avol ety)) := by
  induction es with
  | nil => unfold Dec.elementDescriptors; simp
  | cons e es ih =>
    have he := h e (by simp)
    have hlen := encEDesc_length pvol avol edl e he
    have hedl : edl ≠ 0 := by have := he.2.2.2; omega
    have hne : ¬ ((List.map encElementDescriptor (e :: es)).flatten.length = 0 ∨ edl = 0) := by
      simp only [List.map_cons, List.flatten_cons, List.length_append, hlen]; omega
    rw [Dec.elementDescriptors, dif_neg hne]
    simp only [List.map_cons, List.flatten_cons]
    rw [elementDescriptor_std pvol avol ety edl hpv hav e he _]
    dsimp only
    rw [List.drop_left' hlen, ih (fun x hx => h x (by simp [hx]))]
    rfl

/-- an element status page is well formed: header values fit, BYTE COUNT OF DESCRIPTOR DATA AVAILABLE is the
    length of the descriptors, every descriptor has the page's ELEMENT DESCRIPTOR LENGTH and tags -/
def EPageOK (p : EPage) : Prop :=
  InRangeD elementStatusPage.rel p.1 ∧
  p.1 "byte_count" = p.1 "element_descriptor_length" * p.2.length ∧
  ∀ e ∈ p.2, EDescOK (p.1 "pvoltag") (p.1 "avoltag") (p.1 "element_descriptor_length") e

def epageReported (p : EPage) : PV :=
  .dict (reported Gen.ReadElementStatus_element_status_page_bits p.1 ++
    [("element_descriptors", .list (p.2.map (edescReported (p.1 "pvoltag") (p.1 "avoltag") (p.1 "element_type"))))])

theorem edescs_flat_length (pvol avol edl : Nat) (es : List EDesc) (h : ∀ e ∈ es, EDescOK pvol avol edl e) :
    (es.map encElementDescriptor).flatten.length = edl * es.length := by
  induction es with
  | nil => simp
  | cons e es ih =>
    simp only [List.map_cons, List.flatten_cons, List.length_append, List.length_cons,
      encEDesc_length pvol avol edl e (h e (by simp)), ih (fun x hx => h x (by simp [hx])), Nat.mul_succ]
    omega

theorem encEPage_length (p : EPage) (h : EPageOK p) : (encElementPage p).length = 8 + p.1 "byte_count" := by
  unfold encElementPage
  rw [List.length_append, enc_length, edescs_flat_length _ _ _ p.2 h.2.2, h.2.1]
  rfl

theorem epage_set (v : Vals) (x : PV) :
    (reported Gen.ReadElementStatus_element_status_page_bits v).set "element_descriptors" x =
      reported Gen.ReadElementStatus_element_status_page_bits v ++ [("element_descriptors", x)] := by
  apply set_fresh
  intro kv hkv
  have : kv.1 ∈ (reported Gen.ReadElementStatus_element_status_page_bits v).map (·.1) := List.mem_map.mpr ⟨kv, hkv, rfl⟩
  rw [reported_keys] at this
  intro heq
  rw [heq] at this
  revert this
  decide

theorem bit_le_one (b : Block) (v : Vals) (hr : InRangeD b.rel v) (g : DField) (hg : g ∈ b.rel) (hw : g.width = 1) : v g.key ≤ 1 := by
  have := hr g hg
  rw [hw] at this
  omega

theorem pvol_mem : (⟨"pvoltag", 1, 7, 1⟩ : DField) ∈ elementStatusPage.rel := by decide
theorem avol_mem : (⟨"avoltag", 1, 6, 1⟩ : DField) ∈ elementStatusPage.rel := by decide
theorem pbc_mem : (⟨"byte_count", 5, 7, 24⟩ : DField) ∈ elementStatusPage.rel := by decide
theorem pedl_mem : (⟨"element_descriptor_length", 2, 7, 16⟩ : DField) ∈ elementStatusPage.rel := by decide
theorem hbc_mem : (⟨"byte_count", 5, 7, 24⟩ : DField) ∈ elementStatusHeader.rel := by decide
theorem epage_f : formatOK elementStatusPage.len elementStatusPage.rel = true := by decide +kernel
theorem ehdr_f : formatOK elementStatusHeader.len elementStatusHeader.rel = true := by decide +kernel

/-- one element status page, followed by anything -/
theorem elementPage_std (p : EPage) (h : EPageOK p) (rest : Bytes) :
    Dec.elementPage (encElementPage p ++ rest) (p.1 "byte_count") (p.1 "element_descriptor_length") =
      .ok (reported Gen.ReadElementStatus_element_status_page_bits p.1 ++
        [("element_descriptors", .list (p.2.map (edescReported (p.1 "pvoltag") (p.1 "avoltag") (p.1 "element_type"))))]) := by
  have e1 : encElementPage p ++ rest = elementStatusPage.enc p.1 ++ ((p.2.map encElementDescriptor).flatten ++ rest) := by
    unfold encElementPage; simp
  have e2 : encElementPage p ++ rest = elementStatusPage.enc p.1 ++ (p.2.map encElementDescriptor).flatten ++ rest := by
    unfold encElementPage; simp
  unfold Dec.elementPage
  rw [e1, decodeInto_std_nil _ _ epage_c p.1 h.1 _]
  simp only [bind, Except.bind, pure, Except.pure]
  rw [getInt_reported _ p.1 "pvoltag" 128 1 (by decide), getInt_reported _ p.1 "avoltag" 64 1 (by decide),
    getInt_reported _ p.1 "element_type" 15 0 (by decide)]
  dsimp only
  rw [← e1, e2, slice_mid _ _ _ 8 _ (enc_length _ _) (by rw [edescs_flat_length _ _ _ p.2 h.2.2, h.2.1])]
  rw [elementDescriptors_std _ _ _ _ (bit_le_one _ _ h.1 _ pvol_mem rfl) (bit_le_one _ _ h.1 _ avol_mem rfl) p.2 h.2.2]
  dsimp only
  rw [epage_set]

/-- the page loop: stride 8 + BYTE COUNT OF DESCRIPTOR DATA AVAILABLE -/
theorem elementPages_std (ps : List EPage) (h : ∀ p ∈ ps, EPageOK p) :
    Dec.elementPages (ps.map encElementPage).flatten = .ok (ps.map epageReported) := by
  induction ps with
  | nil => unfold Dec.elementPages; simp
  | cons p ps ih =>
    have hp := h p (by simp)
    have hlen := encEPage_length p hp
    have hne : ¬ ((List.map encElementPage (p :: ps)).flatten.length = 0) := by
      simp only [List.map_cons, List.flatten_cons, List.length_append, hlen]; omega
    rw [Dec.elementPages, dif_neg hne]
    simp only [List.map_cons, List.flatten_cons]
    have e1 : encElementPage p ++ (ps.map encElementPage).flatten
        = elementStatusPage.enc p.1 ++ ((p.2.map encElementDescriptor).flatten ++ (ps.map encElementPage).flatten) := by
      unfold encElementPage; simp
    have hbc : b2i (slice (encElementPage p ++ (ps.map encElementPage).flatten) 5 8) = p.1 "byte_count" := by
      rw [e1]
      exact b2i_slice_field elementStatusPage epage_f p.1 hp.1 _ ⟨"byte_count", 5, 7, 24⟩ pbc_mem 3 rfl rfl (by decide)
    have hedl : b2i (slice (encElementPage p ++ (ps.map encElementPage).flatten) 2 4) = p.1 "element_descriptor_length" := by
      rw [e1]
      exact b2i_slice_field elementStatusPage epage_f p.1 hp.1 _ ⟨"element_descriptor_length", 2, 7, 16⟩ pedl_mem 2 rfl rfl (by decide)
    rw [hbc, hedl, elementPage_std p hp _]
    dsimp only
    rw [List.drop_left' hlen, ih (fun x hx => h x (by simp [hx]))]
    rfl

def epagesLen (ps : List EPage) : Nat := ps.foldr (fun p acc => 8 + p.1 "byte_count" + acc) 0

theorem epages_flat_length (ps : List EPage) (h : ∀ p ∈ ps, EPageOK p) :
    (ps.map encElementPage).flatten.length = epagesLen ps := by
  induction ps with
  | nil => rfl
  | cons p ps ih =>
    simp only [List.map_cons, List.flatten_cons, List.length_append, encEPage_length p (h p (by simp)),
      ih (fun x hx => h x (by simp [hx])), epagesLen, List.foldr_cons]

theorem ehdr_set (v : Vals) (x : PV) :
    (reported Gen.ReadElementStatus_datain_bits v).set "element_status_pages" x =
      reported Gen.ReadElementStatus_datain_bits v ++ [("element_status_pages", x)] := by
  apply set_fresh
  intro kv hkv
  have : kv.1 ∈ (reported Gen.ReadElementStatus_datain_bits v).map (·.1) := List.mem_map.mpr ⟨kv, hkv, rfl⟩
  rw [reported_keys] at this
  intro heq
  rw [heq] at this
  revert this
  decide

/-- **READ ELEMENT STATUS**: header, every element status page inside BYTE COUNT OF REPORT AVAILABLE, every
    element descriptor inside each page's byte count — whole (fixed fields, the volume tags the page
    header announces, the type-specific bits), in order; nothing beyond the reported lengths -/
theorem readElementStatus_decodes (hv : Vals) (ps : List EPage) (hh : InRangeD elementStatusHeader.rel hv)
    (hbc : hv "byte_count" = epagesLen ps) (h : ∀ p ∈ ps, EPageOK p) (tr : Bytes) :
    Dec.readElementStatus (encReadElementStatus hv ps ++ tr) =
      .ok (.dict (reported Gen.ReadElementStatus_datain_bits hv ++ [("element_status_pages", .list (ps.map epageReported))])) := by
  have e1 : encReadElementStatus hv ps ++ tr = elementStatusHeader.enc hv ++ ((ps.map encElementPage).flatten ++ tr) := by
    unfold encReadElementStatus; simp
  have e2 : encReadElementStatus hv ps ++ tr = elementStatusHeader.enc hv ++ (ps.map encElementPage).flatten ++ tr := by
    unfold encReadElementStatus; simp
  have hb : b2i (slice (encReadElementStatus hv ps ++ tr) 5 8) = hv "byte_count" := by
    rw [e1]
    exact b2i_slice_field elementStatusHeader ehdr_f hv hh _ ⟨"byte_count", 5, 7, 24⟩ hbc_mem 3 rfl rfl (by decide)
  unfold Dec.readElementStatus
  rw [hb, e1, decodeInto_std_nil _ _ ehdr_c hv hh _]
  simp only [bind, Except.bind, pure, Except.pure]
  rw [← e1, e2, slice_mid _ _ _ 8 _ (enc_length _ _) (by rw [epages_flat_length ps h, hbc])]
  rw [elementPages_std ps h]
  dsimp only
  rw [ehdr_set]

/-- the hypotheses are satisfiable: one storage page (AVOLTAG only, 52-byte descriptors, two of them) -/
example : ∃ (hv : Vals) (ps : List EPage), ps.length = 1 ∧ InRangeD elementStatusHeader.rel hv ∧
    hv "byte_count" = epagesLen ps ∧ ∀ p ∈ ps, EPageOK p := by
  let pv : Vals := fun k => if k = "element_type" then 2 else if k = "avoltag" then 1 else
    if k = "element_descriptor_length" then 52 else if k = "byte_count" then 104 else 0
  let e1 : EDesc := (fun k => if k = "element_address" then 1000 else if k = "full" then 1 else 0, [], List.replicate 36 0x41, [0, 0, 0, 0])
  let e2 : EDesc := (fun k => if k = "element_address" then 1001 else 0, [], List.replicate 36 0x42, [0, 0, 0, 0])
  refine ⟨fun k => if k = "byte_count" then 112 else if k = "num_elements" then 2 else 1000, [(pv, [e1, e2])], rfl, ?_, rfl, ?_⟩
  · intro g hg; revert g; decide
  · intro p hp
    simp only [List.mem_cons, List.not_mem_nil, or_false] at hp
    subst hp
    refine ⟨by intro g hg; revert g; decide, rfl, ?_⟩
    intro e he
    simp only [List.mem_cons, List.not_mem_nil, or_false] at he
    rcases he with rfl | rfl
    · exact ⟨by intro g hg; revert g; decide, rfl, rfl, rfl⟩
    · exact ⟨by intro g hg; revert g; decide, rfl, rfl, rfl⟩

end C04
