import ScsiVerif.Lemmas.Compat
import ScsiVerif.Gen.Commands
import ScsiVerif.Gen.Opcodes
/-!
# C01 — every CDB the library builds has the standard's wire format

* `Cmd.build` (model of `SCSICommand.__init__` + `build_cdb`) interprets the constructor descriptions
  `Gen.commands`, which are **regenerated from the Python source on every run**.
* `Std.cdbs` is the oracle: the 42 CDB formats in the standards' notation.
* `Compat.compatible` / `Compat.setOK` are decidable; the per-command theorems below are decided by
  the kernel on the regenerated data.  `cdb_meets_standard` lifts them to **all** argument values.
-/
namespace C01
open Conv Cmd Std Compat

def stdOf (module cls : String) : Option Cdb := Std.cdbs.find? (fun s => s.module == module && s.cls == cls)

def genOf (module cls : String) : Option CmdDesc :=
  (Gen.commands.find? (fun c => c.1 == module && c.2.1.cls == cls)).map (·.2.1)

/-- the constructor of `module.cls`, as it is in the source now, is compatible with the standard's
    format for the CDB length SAM prescribes for the T10 operation code -/
def cmdOK (module cls : String) : Bool :=
  match stdOf module cls, genOf module cls with
  | some s, some d =>
    (match samLen s.opcode with
     | some L => compatible d s L
     | none => false)
  | _, _ => false

/-- in every command set that offers the command: T10 opcode, SAM length, T10 service actions -/
def setsOK (module cls : String) : Bool :=
  match stdOf module cls with
  | some s => Gen.sets.all (fun ns => setOK s ns.2)
  | none => false

/-- **C01, unbounded in the argument values.**  For a command whose two finite obligations hold,
on every command set that offers it and for *all* argument tuples in range: the constructor's CDB
has the SAM length of its operation code, the operation code is the T10 one, a conformant target
reads every field of the standard's format as exactly the value the caller supplied (service
actions: the T10 value), and every bit outside those fields is zero. -/
theorem cdb_meets_standard (module cls : String) (s : Cdb) (d : CmdDesc)
    (hs : stdOf module cls = some s) (hd : genOf module cls = some d)
    (hcmd : cmdOK module cls = true) (hsets : setsOK module cls = true)
    (setName : String) (set : List (String × OpCode)) (hset : (setName, set) ∈ Gen.sets)
    (op : OpCode) (hop : findOp set s.opName = some op)
    (args env : Env) (c : Command) (hb : build d op args = .ok c)
    (henv : bindArgs args d.params = .ok env) (hr : ArgsInRange s op env c.dataout) :
    ∃ L, samLen op.value = some L ∧ op.value = s.opcode ∧ c.cdb.length = L ∧
      (∀ g ∈ s.fields, ∀ v, srcVal op env c.dataout g.src = some v → fieldOf L g c.cdb = v) ∧
      (∀ g ∈ s.fields, ∀ n v, g.src = .sa n v → fieldOf L g c.cdb = v) ∧
      (∀ i, (baToInt c.cdb).testBit i = true → ∃ g ∈ s.fields, g.lsb L ≤ i ∧ i < g.lsb L + g.width) := by
  unfold cmdOK at hcmd
  rw [hs, hd] at hcmd
  simp only at hcmd
  unfold setsOK at hsets
  rw [hs] at hsets
  simp only [List.all_eq_true] at hsets
  have hso := hsets (setName, set) hset
  unfold setOK at hso
  simp only [hop, Bool.and_eq_true, beq_iff_eq] at hso
  obtain ⟨⟨hval, hsa⟩, hlen⟩ := hso
  cases hL : samLen s.opcode with
  | none => simp [hL] at hcmd
  | some L =>
    simp only [hL] at hcmd hlen
    cases hi : initCdbLen op.value with
    | error e => simp [hi] at hlen
    | ok L' =>
      simp only [hi, beq_iff_eq] at hlen
      subst hlen
      obtain ⟨h1, h2, h3⟩ := compatible_sound d s L' hcmd op hi args c hb env henv hr
      refine ⟨L', by rw [hval]; exact hL, hval, h1, h2, ?_, h3⟩
      intro g hg n v hsrc
      apply h2 g hg v
      unfold saOK at hsa
      simp only [List.all_eq_true] at hsa
      have := hsa g hg
      rw [hsrc] at this
      simp only [beq_iff_eq] at this
      rw [hsrc]
      exact this

/-- every command class found in the source has an entry in the oracle (nothing is silently skipped) -/
theorem every_command_has_a_standard :
    Gen.commands.all (fun c => (stdOf c.1 c.2.1.cls).isSome) = true := by decide +kernel

/-! ## non-vacuity: a concrete READ(16) meets every hypothesis of `cdb_meets_standard` -/

example :
    (match genOf "scsi_cdb_read16" "Read16", findOp Gen.sbc "READ_16" with
     | some d, some op =>
       ((build d op [("blocksize", .int 512), ("lba", .int 0x1122334455667788), ("tl", .int 5), ("fua", .int 1)]).toOption.map
          (fun c => (c.cdb, c.datain.length))) ==
         some ([0x88, 0x08, 0x11, 0x22, 0x33, 0x44, 0x55, 0x66, 0x77, 0x88, 0, 0, 0, 5, 0, 0], 2560)
     | _, _ => false) = true := by decide +kernel

end C01
