import ScsiVerif.Props.C01
/-! C01: finite obligations decided by the kernel on the regenerated tables (part f; split only so that lake checks the parts in parallel). -/
namespace C01

theorem InitializeElementStatusWithRange_cdb : cmdOK "scsi_cdb_initelementstatuswithrange" "InitializeElementStatusWithRange" = true := by decide +kernel
theorem InitializeElementStatusWithRange_sets : setsOK "scsi_cdb_initelementstatuswithrange" "InitializeElementStatusWithRange" = true := by decide +kernel
theorem MoveMedium_cdb : cmdOK "scsi_cdb_movemedium" "MoveMedium" = true := by decide +kernel
theorem MoveMedium_sets : setsOK "scsi_cdb_movemedium" "MoveMedium" = true := by decide +kernel
theorem OpenCloseImportExportElement_cdb : cmdOK "scsi_cdb_openclose_exportimport_element" "OpenCloseImportExportElement" = true := by decide +kernel
theorem OpenCloseImportExportElement_sets : setsOK "scsi_cdb_openclose_exportimport_element" "OpenCloseImportExportElement" = true := by decide +kernel
theorem PositionToElement_cdb : cmdOK "scsi_cdb_positiontoelement" "PositionToElement" = true := by decide +kernel
theorem PositionToElement_sets : setsOK "scsi_cdb_positiontoelement" "PositionToElement" = true := by decide +kernel
theorem ReadElementStatus_cdb : cmdOK "scsi_cdb_readelementstatus" "ReadElementStatus" = true := by decide +kernel
theorem ReadElementStatus_sets : setsOK "scsi_cdb_readelementstatus" "ReadElementStatus" = true := by decide +kernel
theorem ReadCd_cdb : cmdOK "scsi_cdb_readcd" "ReadCd" = true := by decide +kernel
theorem ReadCd_sets : setsOK "scsi_cdb_readcd" "ReadCd" = true := by decide +kernel
theorem ReadDiscInformation_cdb : cmdOK "scsi_cdb_readdiscinformation" "ReadDiscInformation" = true := by decide +kernel
theorem ReadDiscInformation_sets : setsOK "scsi_cdb_readdiscinformation" "ReadDiscInformation" = true := by decide +kernel

end C01
