import ScsiVerif.Model.Enum
/-!
# C18 — enumerations map names to values and back consistently under add/remove
-/
namespace C18
open EnumM Conv

variable {V : Type}

def Distinct (e : E V) : Prop := (keys e).Nodup

theorem lookup_none_iff (e : E V) (k : String) : lookup e k = none ↔ k ∉ keys e := by
  unfold lookup keys
  induction e with
  | nil => simp
  | cons x xs ih =>
    simp only [List.find?_cons, List.map_cons, List.mem_cons, not_or]
    by_cases h : x.1 = k
    · simp [h]
    · have : (x.1 == k) = false := by simpa using h
      simp only [this]
      rw [ih]
      constructor
      · intro hk; exact ⟨fun e => h e.symm, hk⟩
      · intro hk; exact hk.2

theorem has_iff (e : E V) (k : String) : has e k = true ↔ k ∈ keys e := by
  unfold has
  cases hg : lookup e k with
  | none => simp [(lookup_none_iff e k).mp hg]
  | some v =>
    simp only [Option.isSome_some, true_iff]
    apply Decidable.byContradiction
    intro hk
    rw [(lookup_none_iff e k).mpr hk] at hg
    cases hg

/-- **an enumeration built from a mapping exposes exactly the supplied names with their values** -/
theorem exposes_supplied (items : E V) (hd : Distinct items) (k : String) (v : V) (h : (k, v) ∈ items) :
    lookup items k = some v ∧ keys items = items.map (·.1) := by
  refine ⟨?_, rfl⟩
  unfold lookup
  unfold Distinct keys at hd
  induction items with
  | nil => simp at h
  | cons x xs ih =>
    simp only [List.map_cons, List.nodup_cons] at hd
    rcases List.mem_cons.mp h with rfl | h'
    · simp
    · have : x.1 ≠ k := by
        intro e
        apply hd.1
        rw [e]
        exact List.mem_map.mpr ⟨(k, v), h', rfl⟩
      have hb : (x.1 == k) = false := by simpa using this
      simp only [List.find?_cons, hb]
      exact ih hd.2 h'

/-- a name that was not supplied is not exposed -/
theorem exposes_only_supplied (items : E V) (k : String) (hk : ∀ kv ∈ items, kv.1 ≠ k) : lookup items k = none := by
  rw [lookup_none_iff]
  intro h
  obtain ⟨kv, hkv, rfl⟩ := List.mem_map.mp h
  exact hk kv hkv rfl

/-! ## add / remove against the ordinary dictionary -/

theorem lookup_append_absent (e : E V) (k x : String) (v : V) (hk : k ∉ keys e) :
    lookup (e ++ [(k, v)]) x = if x = k then some v else lookup e x := by
  unfold lookup
  rw [List.find?_append]
  by_cases hx : x = k
  · subst hx
    have : e.find? (·.1 == x) = none := by
      have := (lookup_none_iff e x).mpr hk
      unfold lookup at this
      simpa using this
    simp [this]
  · cases hf : e.find? (·.1 == x) with
    | some y => simp [hx]
    | none =>
      have : ((k, v).1 == x) = false := by simpa using fun e => hx e.symm
      simp [hx, List.find?_cons, this]

theorem lookup_filter (e : E V) (k x : String) :
    lookup (e.filter (·.1 != k)) x = if x = k then none else lookup e x := by
  unfold lookup
  induction e with
  | nil => simp
  | cons y ys ih =>
    simp only [List.filter_cons]
    by_cases hy : y.1 = k
    · have h1 : (y.1 != k) = false := by simpa using hy
      simp only [h1, Bool.false_eq_true, if_false]
      rw [ih]
      by_cases hx : x = k
      · simp [hx]
      · have : (y.1 == x) = false := by simpa [hy] using fun e => hx e.symm
        simp [hx, List.find?_cons, this]
    · have h1 : (y.1 != k) = true := by simpa using hy
      simp only [h1, if_true, List.find?_cons]
      by_cases hyx : y.1 = x
      · have : (y.1 == x) = true := by simpa using hyx
        have hxk : x ≠ k := by rw [← hyx]; exact hy
        simp [this, hxk]
      · have : (y.1 == x) = false := by simpa using hyx
        simp only [this]
        exact ih

theorem keys_filter (e : E V) (k : String) : keys (e.filter (·.1 != k)) = (keys e).filter (· != k) := by
  unfold keys
  induction e with
  | nil => rfl
  | cons y ys ih =>
    simp only [List.filter_cons, List.map_cons]
    by_cases hy : (y.1 != k) = true
    · simp [hy, ih]
    · simp [hy, ih]

/-- **one step commutes with the abstraction to an ordinary dictionary**: the same names, values
and order as a dict that underwent the same operation, refused exactly when the dict would refuse
(adding an existing name, removing a missing one), and a refused operation changes nothing -/
theorem step_refines (e : E V) (op : Op V) :
    (abs (step e op).1).val = ((abs e).step op).val ∧ (abs (step e op).1).order = ((abs e).step op).order := by
  cases op with
  | add k v =>
    simp only [step, add, abs, Spec.step]
    cases hh : has e k with
    | true =>
      have : (lookup e k).isSome = true := hh
      simp [this]
    | false =>
      have hs : (lookup e k).isSome = false := hh
      have hk : k ∉ keys e := by
        intro h; rw [← has_iff] at h; rw [h] at hh; cases hh
      simp only [hs, Bool.false_eq_true, if_false]
      refine ⟨?_, by simp [keys]⟩
      funext x
      exact lookup_append_absent e k x v hk
  | remove k =>
    simp only [step, remove, abs, Spec.step]
    cases hh : has e k with
    | true =>
      have : (lookup e k).isSome = true := hh
      simp only [this, if_true]
      exact ⟨by funext x; exact lookup_filter e k x, keys_filter e k⟩
    | false =>
      have hs : (lookup e k).isSome = false := hh
      simp [hs]

/-- refusals: adding an existing name or removing a missing one is a `KeyError` -/
theorem add_existing_refused (e : E V) (k : String) (v : V) (h : k ∈ keys e) : add e k v = .error .keyError := by
  simp [add, (has_iff e k).mpr h]

theorem remove_missing_refused (e : E V) (k : String) (h : k ∉ keys e) : remove e k = .error .keyError := by
  have : has e k = false := by
    cases hh : has e k with
    | false => rfl
    | true => exact absurd ((has_iff e k).mp hh) h
  simp [remove, this]

theorem add_new_accepted (e : E V) (k : String) (v : V) (h : k ∉ keys e) : add e k v = .ok (e ++ [(k, v)]) := by
  have : has e k = false := by
    cases hh : has e k with
    | false => rfl
    | true => exact absurd ((has_iff e k).mp hh) h
  simp [add, this]

/-- **after any sequence of additions and removals** the enumeration agrees with an ordinary
dictionary that underwent the same operations: names, values and order -/
theorem run_refines (e : E V) (ops : List (Op V)) :
    (abs (run e ops)).val = (ops.foldl Spec.step (abs e)).val ∧
    (abs (run e ops)).order = (ops.foldl Spec.step (abs e)).order := by
  induction ops generalizing e with
  | nil => exact ⟨rfl, rfl⟩
  | cons op rest ih =>
    simp only [run, List.foldl_cons]
    obtain ⟨h1, h2⟩ := step_refines e op
    obtain ⟨i1, i2⟩ := ih (step e op).1
    have : abs (step e op).1 = (abs e).step op := by
      cases ha : abs (step e op).1
      cases hb : (abs e).step op
      rw [ha] at h1 h2; rw [hb] at h1 h2
      simp at h1 h2
      rw [h1, h2]
    rw [this] at i1 i2
    exact ⟨i1, i2⟩

/-- names stay unique -/
theorem step_distinct (e : E V) (op : Op V) (hd : Distinct e) : Distinct (step e op).1 := by
  unfold Distinct at *
  cases op with
  | add k v =>
    simp only [step, add]
    cases hh : has e k with
    | true => simpa using hd
    | false =>
      have hk : k ∉ keys e := by
        intro h; rw [← has_iff] at h; rw [h] at hh; cases hh
      simp only [Bool.false_eq_true, if_false, keys, List.map_append, List.map_cons, List.map_nil]
      rw [List.nodup_append]
      exact ⟨hd, by simp, by intro a ha b hb; simp at hb; subst hb; intro e; subst e; exact hk ha⟩
  | remove k =>
    simp only [step, remove]
    cases hh : has e k with
    | true =>
      simp only [if_true]
      rw [keys_filter]
      exact hd.filter _
    | false => simpa using hd

/-! ## reverse lookup -/

/-- `enum[value]` returns a name that carries the value … -/
theorem rev_carries [BEq V] (e : E V) (v : V) (k : String) (hd : Distinct e) (h : rev e v = k) (hk : k ≠ "") :
    ∃ v', lookup e k = some v' ∧ (v' == v) = true := by
  unfold rev at h
  cases hf : e.find? (·.2 == v) with
  | none => simp [hf] at h; exact absurd h hk
  | some kv =>
    simp only [hf, Option.map_some, Option.getD_some] at h
    subst h
    have h1 := List.find?_some hf
    have h2 := List.mem_of_find?_eq_some hf
    exact ⟨kv.2, (exposes_supplied e hd kv.1 kv.2 h2).1, h1⟩

/-- … the **first** supplied one … -/
theorem rev_first [BEq V] (e : E V) (v : V) (pre post : E V) (k : String) (x : V) (he : e = pre ++ (k, x) :: post)
    (hx : (x == v) = true) (hpre : ∀ kv ∈ pre, (kv.2 == v) = false) : rev e v = k := by
  unfold rev
  rw [he, List.find?_append]
  have : pre.find? (·.2 == v) = none := by
    rw [List.find?_eq_none]
    intro kv hkv
    simp [hpre kv hkv]
  simp [this, List.find?_cons, hx]

/-- … and the empty string when no name carries it -/
theorem rev_none [BEq V] (e : E V) (v : V) (h : ∀ kv ∈ e, (kv.2 == v) = false) : rev e v = "" := by
  unfold rev
  have : e.find? (·.2 == v) = none := by
    rw [List.find?_eq_none]
    intro kv hkv
    simp [h kv hkv]
  simp [this]

/-- when values are unique, reverse lookup of a name's value returns that very name -/
theorem rev_of_lookup [BEq V] [LawfulBEq V] (e : E V) (k : String) (v : V) (h : (k, v) ∈ e)
    (huniq : ∀ kv ∈ e, kv.2 = v → kv.1 = k) : rev e v = k := by
  unfold rev
  cases hf : e.find? (·.2 == v) with
  | none =>
    rw [List.find?_eq_none] at hf
    have := hf (k, v) h
    simp at this
  | some kv =>
    have h1 := List.find?_some hf
    have h2 := List.mem_of_find?_eq_some hf
    simp only [Option.map_some, Option.getD_some]
    exact huniq kv h2 (by simpa using h1)

/-! ## several enumerations: one never affects another -/

theorem stepAt_other (w : List (E V)) (i j : Nat) (op : Op V) (h : j ≠ i) : (stepAt w i op)[j]? = w[j]? := by
  unfold stepAt
  simp only [List.getElem?_mapIdx]
  cases w[j]? with
  | none => rfl
  | some e => simp [h]

theorem stepAt_same (w : List (E V)) (i : Nat) (op : Op V) (e : E V) (h : w[i]? = some e) :
    (stepAt w i op)[i]? = some (step e op).1 := by
  unfold stepAt
  simp [List.getElem?_mapIdx, h]

/-- for any interleaved history of operations on several enumerations, enumeration `j` ends up as
if only its own operations had happened -/
theorem isolation (w : List (E V)) (hist : List (Nat × Op V)) (j : Nat) (e : E V) (h : w[j]? = some e) :
    (hist.foldl (fun w io => stepAt w io.1 io.2) w)[j]? =
      some (run e ((hist.filter (·.1 = j)).map (·.2))) := by
  induction hist generalizing w e with
  | nil => simpa [run] using h
  | cons io rest ih =>
    obtain ⟨i, op⟩ := io
    simp only [List.foldl_cons]
    by_cases hi : i = j
    · subst hi
      have := ih (stepAt w i op) (step e op).1 (stepAt_same w i op e h)
      simpa [List.filter_cons, run] using this
    · have hne : j ≠ i := fun x => hi x.symm
      have := ih (stepAt w i op) e (by rw [stepAt_other w i j op hne]; exact h)
      simpa [List.filter_cons, hi] using this

example : run ([("a", 1), ("b", 2)] : E Nat) [.add "c" 3, .remove "a", .add "a" 9, .add "b" 7]
    = [("b", 2), ("c", 3), ("a", 9)] := by decide

end C18
