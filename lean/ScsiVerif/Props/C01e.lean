import ScsiVerif.Props.C01
/-! C01: finite obligations decided by the kernel on the regenerated tables (part e; split only so that lake checks the parts in parallel). -/
namespace C01

theorem ReadCapacity10_cdb : cmdOK "scsi_cdb_readcapacity10" "ReadCapacity10" = true := by decide +kernel
theorem ReadCapacity10_sets : setsOK "scsi_cdb_readcapacity10" "ReadCapacity10" = true := by decide +kernel
theorem ReadCapacity16_cdb : cmdOK "scsi_cdb_readcapacity16" "ReadCapacity16" = true := by decide +kernel
theorem ReadCapacity16_sets : setsOK "scsi_cdb_readcapacity16" "ReadCapacity16" = true := by decide +kernel
theorem GetLBAStatus_cdb : cmdOK "scsi_cdb_getlbastatus" "GetLBAStatus" = true := by decide +kernel
theorem GetLBAStatus_sets : setsOK "scsi_cdb_getlbastatus" "GetLBAStatus" = true := by decide +kernel
theorem ATAPassThrough12_cdb : cmdOK "scsi_cdb_atapassthrough12" "ATAPassThrough12" = true := by decide +kernel
theorem ATAPassThrough12_sets : setsOK "scsi_cdb_atapassthrough12" "ATAPassThrough12" = true := by decide +kernel
theorem ATAPassThrough16_cdb : cmdOK "scsi_cdb_atapassthrough16" "ATAPassThrough16" = true := by decide +kernel
theorem ATAPassThrough16_sets : setsOK "scsi_cdb_atapassthrough16" "ATAPassThrough16" = true := by decide +kernel
theorem ExchangeMedium_cdb : cmdOK "scsi_cdb_exchangemedium" "ExchangeMedium" = true := by decide +kernel
theorem ExchangeMedium_sets : setsOK "scsi_cdb_exchangemedium" "ExchangeMedium" = true := by decide +kernel
theorem InitializeElementStatus_cdb : cmdOK "scsi_cdb_initelementstatus" "InitializeElementStatus" = true := by decide +kernel
theorem InitializeElementStatus_sets : setsOK "scsi_cdb_initelementstatus" "InitializeElementStatus" = true := by decide +kernel

end C01
