import ScsiVerif.Props.C12
import ScsiVerif.Props.C01c
import ScsiVerif.Props.C01d
/-!
# C12 (continued) — the link to the library is a theorem, not a citation

`C12.Conformant cdb op lba tl` is what the conformant target needs of a READ/WRITE CDB.  Here it is
*proved* of every CDB the constructor model (`Cmd.build` on the constructor descriptions regenerated
from the source) builds for READ(10/12/16) and WRITE(10/12/16), on every command set, for all in-range
arguments — by composing `C01.cdb_meets_standard` with the target's reading of the bytes.  Together
with `read_returns_disk` / `disk_after_write` this closes the chain
caller's (lba, tl, data) → library CDB → target's decode → abstract disk.
-/
namespace C12
open Conv Cmd Std Compat Std.Target C01

/-- where SBC puts LBA and TRANSFER LENGTH for each CDB size: (LBA bytes, TL offset, TL bytes) -/
def rwShape (L : Nat) : Option (Nat × Nat × Nat) :=
  if L = 10 then some (4, 7, 2) else if L = 12 then some (4, 6, 4) else if L = 16 then some (8, 10, 4) else none

theorem head_eq_be (cdb : Conv.Bytes) (h : 0 < cdb.length) : cdb.head? = some (be cdb 0 1) := by
  cases cdb with
  | nil => simp at h
  | cons x xs => simp [be, beValue]

/-- a CDB whose standard fields OPERATION CODE, LOGICAL BLOCK ADDRESS and TRANSFER LENGTH hold `op`, `lba`, `tl`
    is what the conformant target decodes as (`op`, `lba`, `tl`) -/
theorem conformant_of_fields (cdb : Conv.Bytes) (hb : BytesOK cdb) (L kl ot kt : Nat) (hL : cdb.length = L)
    (hs : rwShape L = some (kl, ot, kt)) (op lba tl : Nat) (n0 n1 n2 : String) (s0 s1 s2 : Src)
    (h0 : fieldOf L ⟨n0, 0, 7, 8 * 1, s0⟩ cdb = op) (h1 : fieldOf L ⟨n1, 2, 7, 8 * kl, s1⟩ cdb = lba)
    (h2 : fieldOf L ⟨n2, ot, 7, 8 * kt, s2⟩ cdb = tl) : Conformant cdb op lba tl := by
  unfold rwShape at hs
  have hop : cdb.head? = some op := by
    rw [head_eq_be cdb (by
      rw [hL]
      split at hs
      · omega
      split at hs
      · omega
      split at hs
      · omega
      · cases hs)]
    rw [be_eq_fieldOf cdb hb 0 1 n0 s0 (by
      rw [hL]
      split at hs
      · omega
      split at hs
      · omega
      split at hs
      · omega
      · cases hs) (by decide), hL, h0]
  by_cases c10 : L = 10
  · rw [if_pos c10] at hs
    injection hs with hs; injection hs with a hs; injection hs with b c
    subst a; subst b; subst c; subst c10
    refine ⟨hop, Or.inl hL, ?_⟩
    unfold addr
    rw [hL]
    simp only
    rw [be_eq_fieldOf cdb hb 2 4 n1 s1 (by omega) (by decide), be_eq_fieldOf cdb hb 7 2 n2 s2 (by omega) (by decide), hL, h1, h2]
  · rw [if_neg c10] at hs
    by_cases c12 : L = 12
    · rw [if_pos c12] at hs
      injection hs with hs; injection hs with a hs; injection hs with b c
      subst a; subst b; subst c; subst c12
      refine ⟨hop, Or.inr (Or.inl hL), ?_⟩
      unfold addr
      rw [hL]
      simp only
      rw [be_eq_fieldOf cdb hb 2 4 n1 s1 (by omega) (by decide), be_eq_fieldOf cdb hb 6 4 n2 s2 (by omega) (by decide), hL, h1, h2]
    · rw [if_neg c12] at hs
      by_cases c16 : L = 16
      · rw [if_pos c16] at hs
        injection hs with hs; injection hs with a hs; injection hs with b c
        subst a; subst b; subst c; subst c16
        refine ⟨hop, Or.inr (Or.inr hL), ?_⟩
        unfold addr
        rw [hL]
        simp only
        rw [be_eq_fieldOf cdb hb 2 8 n1 s1 (by omega) (by decide), be_eq_fieldOf cdb hb 10 4 n2 s2 (by omega) (by decide), hL, h1, h2]
      · rw [if_neg c16] at hs; cases hs

/-- **a library-built READ/WRITE CDB is conformant** — for every command whose standard format carries OPERATION CODE,
    LOGICAL BLOCK ADDRESS and TRANSFER LENGTH at the SBC positions of its CDB size, on every command set, for all in-range
    arguments (the same hypotheses as `C01.cdb_meets_standard`) -/
theorem library_cdb_conformant (module cls : String) (s : Cdb) (d : CmdDesc)
    (hs : stdOf module cls = some s) (hd : genOf module cls = some d)
    (hcmd : cmdOK module cls = true) (hsets : setsOK module cls = true)
    (setName : String) (set : List (String × OpCode)) (hset : (setName, set) ∈ Gen.sets)
    (op : OpCode) (hop : findOp set s.opName = some op)
    (args env : Env) (c : Command) (hb : build d op args = .ok c)
    (henv : bindArgs args d.params = .ok env) (hr : ArgsInRange s op env c.dataout)
    (L kl ot kt : Nat) (hLs : samLen s.opcode = some L) (hshape : rwShape L = some (kl, ot, kt))
    (n1 n2 a2 : String)
    (hopF : (⟨"OPERATION CODE", 0, 7, 8 * 1, .opcode⟩ : Field) ∈ s.fields)
    (hlbaF : (⟨n1, 2, 7, 8 * kl, .arg "lba"⟩ : Field) ∈ s.fields)
    (htlF : (⟨n2, ot, 7, 8 * kt, .arg a2⟩ : Field) ∈ s.fields)
    (lba tl : Nat) (hlba : srcVal op env c.dataout (.arg "lba") = some lba) (htl : srcVal op env c.dataout (.arg a2) = some tl) :
    Conformant c.cdb s.opcode lba tl := by
  obtain ⟨L', hL', hval, hlen, hf, _, _⟩ :=
    cdb_meets_standard module cls s d hs hd hcmd hsets setName set hset op hop args env c hb henv hr
  have hLL : L' = L := by
    rw [hval, hLs] at hL'
    exact (Option.some.inj hL').symm
  subst hLL
  -- BytesOK: the same unpacking of the finite obligations as in C01
  have hbytes : BytesOK c.cdb := by
    have hcmd' := hcmd
    unfold cmdOK at hcmd'
    rw [hs, hd] at hcmd'
    simp only [hLs] at hcmd'
    have hsets' := hsets
    unfold setsOK at hsets'
    rw [hs] at hsets'
    simp only [List.all_eq_true] at hsets'
    have hso := hsets' (setName, set) hset
    unfold setOK at hso
    simp only [hop, Bool.and_eq_true, beq_iff_eq] at hso
    obtain ⟨⟨_, _⟩, hlen'⟩ := hso
    simp only [hLs] at hlen'
    cases hi : initCdbLen op.value with
    | error e => simp [hi] at hlen'
    | ok L2 =>
      simp only [hi, beq_iff_eq] at hlen'
      subst hlen'
      exact compatible_bytesOK d s L2 hcmd' op hi args c hb env henv hr
  exact conformant_of_fields c.cdb hbytes L' kl ot kt hlen hshape s.opcode lba tl "OPERATION CODE" n1 n2 .opcode (.arg "lba") (.arg a2)
    (by rw [hf _ hopF op.value rfl, hval]) (hf _ hlbaF lba hlba) (hf _ htlF tl htl)

/-! ## the six commands -/

/-- READ(10/12/16) and WRITE(10/12/16): the standard's formats have the three fields where `rwShape` says -/
def rwCommands : List (String × String) :=
  [("scsi_cdb_read10", "Read10"), ("scsi_cdb_read12", "Read12"), ("scsi_cdb_read16", "Read16"),
   ("scsi_cdb_write10", "Write10"), ("scsi_cdb_write12", "Write12"), ("scsi_cdb_write16", "Write16")]

def rwFieldsOK (mc : String × String) : Bool :=
  match stdOf mc.1 mc.2 with
  | none => false
  | some s =>
    match samLen s.opcode with
    | none => false
    | some L =>
      match rwShape L with
      | none => false
      | some (kl, ot, kt) =>
        s.fields.any (fun g => g == ⟨"OPERATION CODE", 0, 7, 8 * 1, .opcode⟩) &&
        s.fields.any (fun g => g == ⟨"LOGICAL BLOCK ADDRESS", 2, 7, 8 * kl, .arg "lba"⟩) &&
        s.fields.any (fun g => g == ⟨"TRANSFER LENGTH", ot, 7, 8 * kt, .arg "tl"⟩)

theorem rw_fields_ok : rwCommands.all rwFieldsOK = true := by decide +kernel

theorem rw_obligations : rwCommands.all (fun mc => cmdOK mc.1 mc.2 && setsOK mc.1 mc.2) = true := by
  decide +kernel

/-- **READ(10/12/16), WRITE(10/12/16) built by the library are decoded by the conformant target as the operation, the
    LBA and the transfer length the caller supplied** — every command set, all in-range arguments -/
theorem rw_cdb_conformant (mc : String × String) (hmc : mc ∈ rwCommands) (s : Cdb) (d : CmdDesc)
    (hs : stdOf mc.1 mc.2 = some s) (hd : genOf mc.1 mc.2 = some d)
    (setName : String) (set : List (String × OpCode)) (hset : (setName, set) ∈ Gen.sets)
    (op : OpCode) (hop : findOp set s.opName = some op)
    (args env : Env) (c : Command) (hb : build d op args = .ok c)
    (henv : bindArgs args d.params = .ok env) (hr : ArgsInRange s op env c.dataout)
    (lba tl : Nat) (hlba : srcVal op env c.dataout (.arg "lba") = some lba) (htl : srcVal op env c.dataout (.arg "tl") = some tl) :
    Conformant c.cdb s.opcode lba tl := by
  have hob := rw_obligations
  simp only [List.all_eq_true, Bool.and_eq_true] at hob
  obtain ⟨hcmd, hsets⟩ := hob mc hmc
  have hfo := rw_fields_ok
  simp only [List.all_eq_true] at hfo
  have hf := hfo mc hmc
  unfold rwFieldsOK at hf
  rw [hs] at hf
  simp only at hf
  cases hL : samLen s.opcode with
  | none => simp [hL] at hf
  | some L =>
    simp only [hL] at hf
    cases hsh : rwShape L with
    | none => simp [hsh] at hf
    | some sh =>
      obtain ⟨kl, ot, kt⟩ := sh
      simp only [hsh, Bool.and_eq_true, List.any_eq_true, beq_iff_eq] at hf
      obtain ⟨⟨⟨g0, hg0, e0⟩, ⟨g1, hg1, e1⟩⟩, ⟨g2, hg2, e2⟩⟩ := hf
      subst e0; subst e1; subst e2
      exact library_cdb_conformant mc.1 mc.2 s d hs hd hcmd hsets setName set hset op hop args env c hb henv hr
        L kl ot kt hL hsh "LOGICAL BLOCK ADDRESS" "TRANSFER LENGTH" "tl" hg0 hg1 hg2 lba tl hlba htl

/-- **end to end, write**: a WRITE the library builds for (lba, tl) with `tl × block size` bytes of data, executed by
    the conformant target, leaves exactly that data on the abstract disk at blocks lba … lba+tl−1 -/
theorem library_write_reaches_disk (mc : String × String) (hmc : mc ∈ rwCommands) (s : Cdb) (d : CmdDesc)
    (hs : stdOf mc.1 mc.2 = some s) (hd : genOf mc.1 mc.2 = some d) (hw : isWrite s.opcode)
    (setName : String) (set : List (String × OpCode)) (hset : (setName, set) ∈ Gen.sets)
    (op : OpCode) (hop : findOp set s.opName = some op)
    (args env : Env) (c : Command) (hb : build d op args = .ok c)
    (henv : bindArgs args d.params = .ok env) (hr : ArgsInRange s op env c.dataout)
    (lba tl : Nat) (hlba : srcVal op env c.dataout (.arg "lba") = some lba) (htl : srcVal op env c.dataout (.arg "tl") = some tl)
    (t : T) (hcap : lba + tl ≤ t.capacity) (data : Conv.Bytes) (hdl : data.length = tl * t.blockSize) :
    (step t c.cdb data 0).2.status = .good ∧
    (step t c.cdb data 0).1 = writeBlocks t lba (chunks t.blockSize tl data) :=
  write_updates_disk t c.cdb s.opcode lba tl
    (rw_cdb_conformant mc hmc s d hs hd setName set hset op hop args env c hb henv hr lba tl hlba htl) hw hcap data hdl

/-- **end to end, read**: a READ the library builds for (lba, tl) returns exactly blocks lba … lba+tl−1 of the abstract disk -/
theorem library_read_returns_disk (mc : String × String) (hmc : mc ∈ rwCommands) (s : Cdb) (d : CmdDesc)
    (hs : stdOf mc.1 mc.2 = some s) (hd : genOf mc.1 mc.2 = some d) (hrd : isRead s.opcode)
    (setName : String) (set : List (String × OpCode)) (hset : (setName, set) ∈ Gen.sets)
    (op : OpCode) (hop : findOp set s.opName = some op)
    (args env : Env) (c : Command) (hb : build d op args = .ok c)
    (henv : bindArgs args d.params = .ok env) (hr : ArgsInRange s op env c.dataout)
    (lba tl : Nat) (hlba : srcVal op env c.dataout (.arg "lba") = some lba) (htl : srcVal op env c.dataout (.arg "tl") = some tl)
    (t : T) (hcap : lba + tl ≤ t.capacity) (dout : Conv.Bytes) :
    step t c.cdb dout (tl * t.blockSize + 0) =
      (t, ⟨.good, ((List.range tl).flatMap (fun i => disk t (lba + i))).take (tl * t.blockSize)⟩) :=
  read_returns_disk t c.cdb s.opcode lba tl
    (rw_cdb_conformant mc hmc s d hs hd setName set hset op hop args env c hb henv hr lba tl hlba htl) hrd hcap dout

/-- non-vacuity: a concrete WRITE(16) built by the constructor model reaches the target's disk at the caller's LBA,
    and a READ(10) built by the constructor model returns it -/
example :
    (match genOf "scsi_cdb_write16" "Write16", genOf "scsi_cdb_read10" "Read10", findOp Gen.sbc "WRITE_16", findOp Gen.sbc "READ_10" with
     | some dw, some dr, some ow, some or_ =>
       (match build dw ow [("blocksize", .int 2), ("lba", .int 7), ("tl", .int 2), ("data", .bytes [1, 2, 3, 4])],
              build dr or_ [("blocksize", .int 2), ("lba", .int 7), ("tl", .int 2)] with
        | .ok cw, .ok cr =>
          let t0 : T := ⟨2, 100, [], 0, [], []⟩
          let t1 := (step t0 cw.cdb [1, 2, 3, 4] 0).1
          (step t1 cr.cdb [] 4).2.datain == [1, 2, 3, 4]
        | _, _ => false)
     | _, _, _, _ => false) = true := by decide +kernel

/-! ## WRITE SAME(10/16) -/

def wsCommands : List (String × String) := [("scsi_cdb_writesame10", "WriteSame10"), ("scsi_cdb_writesame16", "WriteSame16")]

def wsFieldsOK (mc : String × String) : Bool :=
  match stdOf mc.1 mc.2 with
  | none => false
  | some s =>
    (s.opcode == 0x41 || s.opcode == 0x93) &&
    match samLen s.opcode with
    | none => false
    | some L =>
      match rwShape L with
      | none => false
      | some (kl, ot, kt) =>
        s.fields.any (fun g => g == ⟨"OPERATION CODE", 0, 7, 8 * 1, .opcode⟩) &&
        s.fields.any (fun g => g == ⟨"LOGICAL BLOCK ADDRESS", 2, 7, 8 * kl, .arg "lba"⟩) &&
        s.fields.any (fun g => g == ⟨"NUMBER OF LOGICAL BLOCKS", ot, 7, 8 * kt, .arg "nb"⟩)

theorem ws_fields_ok : wsCommands.all wsFieldsOK = true := by decide +kernel

theorem ws_obligations : wsCommands.all (fun mc => cmdOK mc.1 mc.2 && setsOK mc.1 mc.2) = true := by
  decide +kernel

/-- **WRITE SAME(10/16) built by the library are decoded by the conformant target as the operation, the LBA and the
    NUMBER OF LOGICAL BLOCKS the caller supplied** — every command set that offers them, all in-range arguments -/
theorem ws_cdb_conformant (mc : String × String) (hmc : mc ∈ wsCommands) (s : Cdb) (d : CmdDesc)
    (hs : stdOf mc.1 mc.2 = some s) (hd : genOf mc.1 mc.2 = some d)
    (setName : String) (set : List (String × OpCode)) (hset : (setName, set) ∈ Gen.sets)
    (op : OpCode) (hop : findOp set s.opName = some op)
    (args env : Env) (c : Command) (hb : build d op args = .ok c)
    (henv : bindArgs args d.params = .ok env) (hr : ArgsInRange s op env c.dataout)
    (lba nb : Nat) (hlba : srcVal op env c.dataout (.arg "lba") = some lba) (hnb : srcVal op env c.dataout (.arg "nb") = some nb) :
    Conformant c.cdb s.opcode lba nb ∧ (s.opcode = 0x41 ∨ s.opcode = 0x93) := by
  have hob := ws_obligations
  simp only [List.all_eq_true, Bool.and_eq_true] at hob
  obtain ⟨hcmd, hsets⟩ := hob mc hmc
  have hfo := ws_fields_ok
  simp only [List.all_eq_true] at hfo
  have hf := hfo mc hmc
  unfold wsFieldsOK at hf
  rw [hs] at hf
  simp only [Bool.and_eq_true, Bool.or_eq_true, beq_iff_eq] at hf
  obtain ⟨hopc, hf⟩ := hf
  refine ⟨?_, hopc⟩
  cases hL : samLen s.opcode with
  | none => simp [hL] at hf
  | some L =>
    simp only [hL] at hf
    cases hsh : rwShape L with
    | none => simp [hsh] at hf
    | some sh =>
      obtain ⟨kl, ot, kt⟩ := sh
      simp only [hsh, Bool.and_eq_true, List.any_eq_true, beq_iff_eq] at hf
      obtain ⟨⟨⟨g0, hg0, e0⟩, ⟨g1, hg1, e1⟩⟩, ⟨g2, hg2, e2⟩⟩ := hf
      subst e0; subst e1; subst e2
      exact library_cdb_conformant mc.1 mc.2 s d hs hd hcmd hsets setName set hset op hop args env c hb henv hr
        L kl ot kt hL hsh "LOGICAL BLOCK ADDRESS" "NUMBER OF LOGICAL BLOCKS" "nb" hg0 hg1 hg2 lba nb hlba hnb

/-- **end to end, WRITE SAME**: a WRITE SAME the library builds for (lba, nb) with one block of data (NDOB clear), executed
    by the conformant target, is the abstract `writeSame` operation — `nb` blocks from `lba`, or, for `nb = 0`, every
    block from `lba` to the end of the medium -/
theorem library_write_same_reaches_disk (mc : String × String) (hmc : mc ∈ wsCommands) (s : Cdb) (d : CmdDesc)
    (hs : stdOf mc.1 mc.2 = some s) (hd : genOf mc.1 mc.2 = some d)
    (setName : String) (set : List (String × OpCode)) (hset : (setName, set) ∈ Gen.sets)
    (op : OpCode) (hop : findOp set s.opName = some op)
    (args env : Env) (c : Command) (hb : build d op args = .ok c)
    (henv : bindArgs args d.params = .ok env) (hr : ArgsInRange s op env c.dataout)
    (lba nb : Nat) (hlba : srcVal op env c.dataout (.arg "lba") = some lba) (hnb : srcVal op env c.dataout (.arg "nb") = some nb)
    (hndob : ¬ (s.opcode = 0x93 ∧ (be c.cdb 1 1) % 2 = 1))
    (t : T) (hcap : lba + nb ≤ t.capacity) (blk : Conv.Bytes) (hbl : blk.length = t.blockSize) :
    (step t c.cdb blk 0).2.status = .good ∧ (step t c.cdb blk 0).1 = targetStep t (.writeSame lba nb blk) := by
  obtain ⟨hc, hopc⟩ := ws_cdb_conformant mc hmc s d hs hd setName set hset op hop args env c hb henv hr lba nb hlba hnb
  exact write_same_updates_disk t c.cdb s.opcode lba nb hc hopc hndob hcap blk hbl

end C12
