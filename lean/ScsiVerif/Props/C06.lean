import ScsiVerif.Lemmas.EncodeCompat
import ScsiVerif.Model.Formats.Encode
import ScsiVerif.Model.Formats.Decode
namespace C06
theorem placeholder : True := trivial
end C06
