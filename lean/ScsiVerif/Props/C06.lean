import ScsiVerif.Lemmas.EncodeCompat
import ScsiVerif.Props.C02
import ScsiVerif.Props.C05
import ScsiVerif.Std.DataIn
import ScsiVerif.Model.Formats.Encode
import ScsiVerif.Model.Formats.Decode
/-!
# C06 — parameter data survives a build/parse round trip and read-modify-write

The builders (`Enc.*`) and parsers (`Dec.*`) apply the same regenerated layout tables through
`encode_dict` / `decode_bits`.  For every table that is well formed and conforms to the standard's
block (`C05.all_parameter_tables_conform`, `all_two_way_tables_conform` below):

* `reparse_built`      — dict → bytes → dict returns the values supplied;
* `rebuild_canonical`  — bytes → dict → bytes reproduces a canonical structure byte for byte;
* `rmw_only_field_bits`— two structures whose values differ in one field agree in every bit outside
                          that field: reading, changing one field and writing back changes only
                          that field's bits (`swp_*` is the `tools/swp.py` instance).
-/
namespace C06
open Conv PVal Std DataCompat

theorem valueD_congr (L : Nat) (fs : List DField) (v v' : Vals) (h : ∀ g ∈ fs, v g.key = v' g.key) :
    valueD L fs v = valueD L fs v' := by
  unfold valueD
  induction fs with
  | nil => rfl
  | cons g fs ih =>
    simp only [List.foldr_cons]
    rw [h g (by simp), ih (fun x hx => h x (by simp [hx]))]

theorem encodeD_congr (L : Nat) (fs : List DField) (v v' : Vals) (h : ∀ g ∈ fs, v g.key = v' g.key) :
    encodeD L fs v = encodeD L fs v' := by
  unfold encodeD; rw [valueD_congr L fs v v' h]

theorem dictGet?_expected (lay : Layout) (hk : lay.Pairwise (fun a b => a.1 ≠ b.1)) (v : Vals) (k : String) (f : FieldSpec)
    (hg : layoutGet? lay k = some f) : dictGet? (expected lay v) k = some (expVal f (v k)) := by
  induction lay with
  | nil => simp [layoutGet?] at hg
  | cons x xs ih =>
    unfold layoutGet? at hg
    unfold dictGet? expected
    simp only [List.map_cons, List.find?_cons] at hg ⊢
    by_cases hx : x.1 = k
    · have : (x.1 == k) = true := by simpa using hx
      simp only [this] at hg ⊢
      simp at hg
      simp [hg, hx]
    · have : (x.1 == k) = false := by simpa using hx
      simp only [this] at hg ⊢
      rw [List.pairwise_cons] at hk
      have := ih hk.2 (by unfold layoutGet?; exact hg)
      unfold dictGet? expected at this
      exact this

/-- every field of the standard's block has an entry in the library table (then nothing is lost
    when a response is parsed and rebuilt) -/
def covers (lay : Layout) (b : Block) : Bool := b.rel.all (fun g => (layoutGet? lay g.key).isSome)

theorem expected_inRange (b : Block) (lay : Layout) (hOK : C05.pairOK (b, lay) = true) (v : Vals)
    (hr : InRangeD b.rel v) : InRange lay (expected lay v) := by
  unfold C05.pairOK at hOK
  simp only [Bool.and_eq_true] at hOK
  intro kv hkv m off hg
  obtain ⟨x, hx, rfl⟩ := List.mem_map.mp hkv
  have hget := wf_get hOK.1 hx
  simp only at hg
  rw [hget] at hg
  cases hg' : x.2 with
  | blob u o l => rw [hg'] at hg; cases hg
  | bits m' off' =>
    rw [hg'] at hg
    cases hg
    obtain ⟨g, hgm, hgk, _, hw⟩ := compat_entry hOK.2 (show (x.1, FieldSpec.bits m off) ∈ lay by rw [← hg']; exact hx)
    refine ⟨v x.1, by simp [expVal], ?_⟩
    rw [hw, ← hgk]
    exact hr g hgm

theorem expected_keysDistinct (lay : Layout) (hk : lay.Pairwise (fun a b => a.1 ≠ b.1)) (v : Vals) :
    KeysDistinct (expected lay v) := by
  unfold KeysDistinct expected
  rw [List.pairwise_map]
  exact hk

/-- **bytes → dict → bytes**: parsing the standard's structure and rebuilding what was parsed
reproduces it byte for byte (for every block all of whose fields the library's table knows). -/
theorem rebuild_canonical (b : Block) (lay : Layout) (hOK : C05.pairOK (b, lay) = true) (hcov : covers lay b = true)
    (v : Vals) (hr : InRangeD b.rel v) :
    ∃ d, decodeBits (b.enc v) lay [] = .ok d ∧ encodeDict d lay (zeros b.len) = .ok (b.enc v) := by
  have hOK' := hOK
  unfold C05.pairOK at hOK
  simp only [Bool.and_eq_true] at hOK
  have hk := wf_keys hOK.1
  refine ⟨expected lay v, ?_, ?_⟩
  · have := compatible_sound lay b.rel b.len hOK.2 v hr []
    rw [List.append_nil] at this
    exact this
  · rw [encode_sound lay b.rel b.len hOK.1 hOK.2 _ (expected_inRange b lay hOK' v hr) (expected_keysDistinct lay hk v)]
    congr 1
    unfold Block.enc
    apply encodeD_congr
    intro g hg
    unfold covers at hcov
    simp only [List.all_eq_true] at hcov
    have := hcov g hg
    cases hl : layoutGet? lay g.key with
    | none => simp [hl] at this
    | some f =>
      obtain ⟨m, off, rfl, _⟩ := wf_entry hOK.1 (layoutGet?_mem hl)
      unfold valsFor
      rw [hl, dictGet?_expected lay hk v g.key _ hl]
      rfl

/-- **dict → bytes → dict**: building from the values `d` supplies and parsing the result returns,
for every key of the table, the value supplied (0 for keys not supplied). -/
theorem reparse_built (b : Block) (lay : Layout) (hOK : C05.pairOK (b, lay) = true) (d : Dict)
    (hr : InRange lay d) (hk : KeysDistinct d) :
    ∃ r out, encodeDict d lay (zeros b.len) = .ok r ∧ decodeBits r lay [] = .ok out ∧
      (∀ k m off n, layoutGet? lay k = some (.bits m off) → (k, Val.int n) ∈ d → dictGet? out k = some (.int n)) ∧
      (∀ k m off, layoutGet? lay k = some (.bits m off) → (∀ kv ∈ d, kv.1 ≠ k) → dictGet? out k = some (.int 0)) := by
  unfold C05.pairOK at hOK
  simp only [Bool.and_eq_true] at hOK
  obtain ⟨cdb, out, h1, _, h3, h4, h5, _⟩ := C02.decode_encode lay b.len hOK.1 d hr hk
  exact ⟨cdb, out, h1, h3, h4, h5⟩

/-- **read-modify-write changes only that field's bits**: two structures of the same block whose
values differ only in field `g` agree in every bit outside `g`. -/
theorem rmw_only_field_bits (b : Block) (hf : formatOK b.len b.rel = true) (v v' : Vals)
    (hr : InRangeD b.rel v) (hr' : InRangeD b.rel v') (g : DField) (hg : g ∈ b.rel)
    (hsame : ∀ g' ∈ b.rel, g' ≠ g → v g'.key = v' g'.key) (i : Nat)
    (hi : ¬ (g.lsb b.len ≤ i ∧ i < g.lsb b.len + g.width)) :
    (baToInt (b.enc v)).testBit i = (baToInt (b.enc v')).testBit i := by
  unfold Block.enc
  rw [(encodeD_facts b.len b.rel hf v hr).2.2, (encodeD_facts b.len b.rel hf v' hr').2.2]
  have hok : ∀ (w : Vals), InRangeD b.rel w → ∀ t ∈ termsD b.len b.rel w, t.ok := by
    intro w hw t ht
    obtain ⟨x, hx, rfl⟩ := List.mem_map.mp ht
    exact hw x hx
  by_cases hB : ∃ g' ∈ b.rel, g'.lsb b.len ≤ i ∧ i < g'.lsb b.len + g'.width
  · obtain ⟨g', hg', hin⟩ := hB
    have hne : g' ≠ g := by
      intro e; subst e; exact hi hin
    rw [xorAll_inside _ (hok v hr) (termsD_disj hf v) ⟨g'.lsb b.len, g'.width, v g'.key⟩ (List.mem_map.mpr ⟨g', hg', rfl⟩) i hin]
    rw [xorAll_inside _ (hok v' hr') (termsD_disj hf v') ⟨g'.lsb b.len, g'.width, v' g'.key⟩ (List.mem_map.mpr ⟨g', hg', rfl⟩) i hin]
    simp only [hsame g' hg' hne]
  · have hout : ∀ (w : Vals), ∀ t ∈ termsD b.len b.rel w, ¬ t.inRange i := by
      intro w t ht hti
      obtain ⟨x, hx, rfl⟩ := List.mem_map.mp ht
      exact hB ⟨x, hx, hti⟩
    rw [xorAll_outside _ (hok v hr) i (hout v), xorAll_outside _ (hok v' hr') i (hout v')]


/-! ## the two-way structures of the library (kernel-decided on the regenerated tables) -/

/-- (standard block, library table) of every structure the library both builds and parses -/
def twoWay : List (Block × Layout) := [
  (readCapacity10, Gen.ReadCapacity10_datain_bits), (readCapacity16, Gen.ReadCapacity16_datain_bits),
  (lbaStatusDescriptor, Gen.GetLBAStatus_datain_bits), (lunEntry, Gen.ReportLuns_datain_bits),
  (tpgDescriptor, Gen.ReportTargetPortGroups_tpgd_bits), (rtpgExtHeader, Gen.ReportTargetPortGroups_ext_hdr_bits),
  (priorityDescriptor, Gen.ReportPriority_data_bits),
  (elementStatusHeader, Gen.ReadElementStatus_datain_bits), (elementStatusPage, Gen.ReadElementStatus_element_status_page_bits),
  (elementDescriptor, Gen.ReadElementStatus_element_status_descriptor_bits),
  (elementDescriptor, Gen.ReadElementStatus_import_export_descriptor_bits),
  (vpdLbp, Gen.Inquiry_logical_block_provisioning_bits), (vpdReferrals, Gen.Inquiry_referrals_bits),
  (vpdExtended, Gen.Inquiry_extended_bits), (designationDescriptor, Gen.Inquiry_designator_bits),
  (naaIeeeExtended, Gen.Inquiry_naa_ieee_extended_bits), (naaLocallyAssigned, Gen.Inquiry_naa_locally_assigned_bits),
  (naaIeeeRegistered, Gen.Inquiry_naa_ieee_registered_bits),
  (naaIeeeRegisteredExtended, Gen.Inquiry_naa_ieee_registered_extended_bits),
  (relativePortDesignator, Gen.Inquiry_relative_port_bits), (targetPortGroupDesignator, Gen.Inquiry_target_portal_group_bits),
  (logicalUnitGroupDesignator, Gen.Inquiry_logical_unit_group_bits),
  (modeHeader6, Gen.MODESENSE6_mode_parameter_header_bits), (modeHeader10, Gen.MODESENSE10_mode_parameter_header_bits),
  (modePage0Header, Gen.MODESENSE6_page_zero_bits), (modeSubPageHeader, Gen.MODESENSE6_sub_page_bits),
  (modeControl, Gen.MODESENSE6_control_bits), (modeControlExt, Gen.MODESENSE6_control_extension_1_bits),
  (modeDisconnect, Gen.MODESENSE6_disconnect_reconnect_bits), (modeElementAddress, Gen.MODESENSE6_element_address_bits),
  (modeControl, Gen.MODESENSE10_control_bits), (modeControlExt, Gen.MODESENSE10_control_extension_1_bits),
  (modeDisconnect, Gen.MODESENSE10_disconnect_reconnect_bits), (modeElementAddress, Gen.MODESENSE10_element_address_bits),
  (transportIdHeader, Gen.PersistentReserveInReadFullStatus_transport_id_bits)]

/-- every two-way table is a well-formed bit-field table sitting on the standard's block -/
theorem all_two_way_tables_conform : twoWay.all C05.pairOK = true := by decide +kernel

/-- the blocks whose every field the library reports (nothing is lost by parse → rebuild) -/
def fullyCovered : List (Block × Layout) := [
  (readCapacity10, Gen.ReadCapacity10_datain_bits), (readCapacity16, Gen.ReadCapacity16_datain_bits),
  (lbaStatusDescriptor, Gen.GetLBAStatus_datain_bits), (lunEntry, Gen.ReportLuns_datain_bits),
  (tpgDescriptor, Gen.ReportTargetPortGroups_tpgd_bits), (priorityDescriptor, Gen.ReportPriority_data_bits),
  (relativePortDesignator, Gen.Inquiry_relative_port_bits), (targetPortGroupDesignator, Gen.Inquiry_target_portal_group_bits),
  (logicalUnitGroupDesignator, Gen.Inquiry_logical_unit_group_bits),
  (modeControl, Gen.MODESENSE6_control_bits), (modeControlExt, Gen.MODESENSE6_control_extension_1_bits),
  (modeDisconnect, Gen.MODESENSE6_disconnect_reconnect_bits), (modeElementAddress, Gen.MODESENSE6_element_address_bits),
  (modeControl, Gen.MODESENSE10_control_bits), (modeControlExt, Gen.MODESENSE10_control_extension_1_bits),
  (modeDisconnect, Gen.MODESENSE10_disconnect_reconnect_bits), (modeElementAddress, Gen.MODESENSE10_element_address_bits),
  (transportIdHeader, Gen.PersistentReserveInReadFullStatus_transport_id_bits)]

theorem fully_covered_ok : fullyCovered.all (fun x => C05.pairOK x && covers x.2 x.1) = true := by decide +kernel

/-! ## the `tools/swp.py` instance: the Control mode page -/

/-- READ CAPACITY(16), as an instance: rebuilding the parsed response reproduces it -/
theorem readCapacity16_rebuild (v : Vals) (hr : InRangeD readCapacity16.rel v) :
    ∃ d, decodeBits (readCapacity16.enc v) Gen.ReadCapacity16_datain_bits [] = .ok d ∧
      encodeDict d Gen.ReadCapacity16_datain_bits (zeros 32) = .ok (readCapacity16.enc v) :=
  rebuild_canonical readCapacity16 _ (by decide +kernel) (by decide +kernel) v hr

/-- the Control mode page body: parse → rebuild is the identity on canonical pages -/
theorem control_page_rebuild (v : Vals) (hr : InRangeD modeControl.rel v) :
    ∃ d, decodeBits (modeControl.enc v) Gen.MODESENSE6_control_bits [] = .ok d ∧
      encodeDict d Gen.MODESENSE6_control_bits (zeros 10) = .ok (modeControl.enc v) :=
  rebuild_canonical modeControl _ (by decide +kernel) (by decide +kernel) v hr

/-- flipping SWP (Control mode page byte 4, bit 3) and writing the page back leaves every other bit
of the page body as the device reported it -/
theorem swp_changes_only_swp (v v' : Vals) (hr : InRangeD modeControl.rel v) (hr' : InRangeD modeControl.rel v')
    (hsame : ∀ g' ∈ modeControl.rel, g' ≠ (⟨"swp", 2, 3, 1⟩ : DField) → v g'.key = v' g'.key) (i : Nat) (hi : i ≠ 59) :
    (baToInt (modeControl.enc v)).testBit i = (baToInt (modeControl.enc v')).testBit i :=
  rmw_only_field_bits modeControl (by decide +kernel) v v' hr hr' ⟨"swp", 2, 3, 1⟩ (by decide) hsame i
    (by simp [DField.lsb, modeControl]; omega)

end C06
