import ScsiVerif.Lemmas.Build
import ScsiVerif.Model.Xfer
import ScsiVerif.Model.Guards
import ScsiVerif.Std.Cdb
import ScsiVerif.Gen.Commands
import ScsiVerif.Gen.Opcodes
/-!
# C17 — invalid requests are refused before anything is sent

A constructor is `Cmd.build : … → Except PyErr Command`: when it is refused there is *no* command
value (nothing partially initialised can be returned), and the facade model (C13) executes only
commands it obtained from a successful construction.
-/
namespace C17
open Conv Cmd Std Xfer Guards

/-! ## block transfer without a block size -/

/-- the guard `if blocksize == 0: raise MissingBlocksizeException` -/
def bsGuard : Expr × PyErr := (.eq (.param "blocksize") (.lit 0), .missingBlocksize)
/-- the guard `if not ndob and blocksize == 0: raise …` of WRITE SAME(16) -/
def bsGuardUnless (flag : String) : Expr × PyErr :=
  (.and (.not (.param flag)) (.eq (.param "blocksize") (.lit 0)), .missingBlocksize)

@[simp] theorem truthy_bool (b : Bool) : (PVal.bool b).truthy = b := rfl

/-- **for all other arguments**: a constructor whose first statement is the block-size guard
refuses a zero block size with `MissingBlocksizeException`. -/
theorem zero_blocksize_refused (d : CmdDesc) (rest : List (Expr × PyErr)) (hg : d.guards = bsGuard :: rest)
    (op : OpCode) (args env : Env) (henv : bindArgs args d.params = .ok env)
    (hbs : env.get? "blocksize" = some (.int 0)) :
    build d op args = .error .missingBlocksize := by
  apply build_guard_fires d op args env _ _ rest hg henv (.bool true)
  · simp [eval, hbs, bind, Except.bind, pyEq]
  · rfl

/-- WRITE SAME(16): refused exactly when NDOB is not set -/
theorem zero_blocksize_refused_unless (d : CmdDesc) (flag : String) (rest : List (Expr × PyErr))
    (hg : d.guards = bsGuardUnless flag :: rest)
    (op : OpCode) (args env : Env) (henv : bindArgs args d.params = .ok env)
    (hbs : env.get? "blocksize" = some (.int 0)) (fv : PVal) (hf : env.get? flag = some fv)
    (hft : fv.truthy = false) :
    build d op args = .error .missingBlocksize := by
  apply build_guard_fires d op args env _ _ rest hg henv (.bool true)
  · simp [bsGuardUnless, eval, hbs, hf, bind, Except.bind, pyEq, hft]
  · rfl

/-- … and a non-zero block size never trips the guard (no spurious refusal) -/
theorem nonzero_blocksize_passes (op : OpCode) (env : Env) (n : Nat) (hn : n ≠ 0)
    (hbs : env.get? "blocksize" = some (.int n)) :
    evalGuards op env [bsGuard] = .ok () := by
  simp [evalGuards, bsGuard, eval, hbs, bind, Except.bind, pyEq, PVal.truthy, hn]

def firstGuardIs (module cls : String) (g : Expr × PyErr) : Bool :=
  match (Gen.commands.find? (fun c => c.1 == module && c.2.1.cls == cls)).map (·.2.1) with
  | some d => d.guards.head? == some g
  | none => false

theorem read10_guard : firstGuardIs "scsi_cdb_read10" "Read10" bsGuard = true := by decide +kernel
theorem read12_guard : firstGuardIs "scsi_cdb_read12" "Read12" bsGuard = true := by decide +kernel
theorem read16_guard : firstGuardIs "scsi_cdb_read16" "Read16" bsGuard = true := by decide +kernel
theorem write10_guard : firstGuardIs "scsi_cdb_write10" "Write10" bsGuard = true := by decide +kernel
theorem write12_guard : firstGuardIs "scsi_cdb_write12" "Write12" bsGuard = true := by decide +kernel
theorem write16_guard : firstGuardIs "scsi_cdb_write16" "Write16" bsGuard = true := by decide +kernel
theorem writesame10_guard : firstGuardIs "scsi_cdb_writesame10" "WriteSame10" bsGuard = true := by decide +kernel
theorem writesame16_guard :
    firstGuardIs "scsi_cdb_writesame16" "WriteSame16" (bsGuardUnless "ndob") = true := by decide +kernel

/-- ATA PASS-THROUGH: refused **exactly** when the transfer is counted in logical sectors
(BYTE_BLOCK and T_TYPE set, T_LENGTH non-zero) and no block size is given; for all other arguments. -/
theorem ata_refused_iff (tLength byteBlock tDir tType fetures count blocksize : Nat) (extraTl : Option Nat)
    (data : Option Bytes) :
    ataBuffers tLength byteBlock tDir tType fetures count blocksize extraTl data = .error .missingBlocksize
      ↔ (byteBlock ≠ 0 ∧ tType ≠ 0 ∧ tLength ≠ 0 ∧ blocksize = 0) := by
  unfold ataBuffers ataBlock
  by_cases h1 : byteBlock = 0 <;> by_cases h2 : tType = 0 <;> by_cases h3 : tLength = 0 <;>
    by_cases h4 : blocksize = 0 <;> simp [h1, h2, h3, h4] <;>
    (split <;> (try split) <;> simp)

/-- … and it is never refused with anything else -/
theorem ata_only_error (tLength byteBlock tDir tType fetures count blocksize : Nat) (extraTl : Option Nat)
    (data : Option Bytes) (e : PyErr)
    (h : ataBuffers tLength byteBlock tDir tType fetures count blocksize extraTl data = .error e) :
    e = .missingBlocksize := by
  unfold ataBuffers ataBlock at h
  by_cases h1 : byteBlock = 0 <;> by_cases h2 : tType = 0 <;> by_cases h3 : tLength = 0 <;>
    by_cases h4 : blocksize = 0 <;> simp [h1, h2, h3, h4] at h <;>
    first
    | exact h.symm
    | (split at h <;> (try split at h) <;> simp at h)

/-! ## operation codes without a fixed CDB length -/

/-- no constructor ever yields a command for an operation code whose group has no fixed length
(variable-length 7Fh, reserved 60h–7Eh, vendor-specific C0h–FFh): for every class, all arguments -/
theorem refused_opcode (d : CmdDesc) (op : OpCode) (args : Env)
    (hno : initCdbLen op.value = .error .opcodeException) :
    ∀ c, build d op args ≠ .ok c := by
  intro c h
  obtain ⟨_, _, _, _, _, L, _, _, _, _, _, _, _, hL, _⟩ := build_parts d op args c h
  rw [hno] at hL
  cases hL

def refusedGroups (v : Nat) : Bool :=
  match samLen v with
  | some _ => true
  | none => (match initCdbLen v with | .error .opcodeException => true | _ => false)

theorem all_unfixed_opcodes_refused : (List.range 256).all refusedGroups = true := by decide +kernel

/-- for **all 256** operation-code values: if SAM gives the group no fixed length, `init_cdb`
raises `OpcodeException` (and by `refused_opcode` no constructor returns a command) -/
theorem unfixed_length_refused (v : Nat) (hv : v < 256) (hs : samLen v = none) :
    initCdbLen v = .error .opcodeException := by
  have := List.all_eq_true.mp all_unfixed_opcodes_refused v (List.mem_range.mpr hv)
  unfold refusedGroups at this
  rw [hs] at this
  simp only at this
  cases hi : initCdbLen v with
  | ok L => simp [hi] at this
  | error e => cases e <;> simp [hi] at this <;> rfl

/-! ## PERSISTENT RESERVE IN: unknown service actions -/

/-- **for all service-action integers** outside the four the opcode object lists, the facade's
dispatch raises `ValueError` (before any command object exists) -/
theorem unknown_pr_in_service_action (sas : List (String × Nat)) (sa k r c f : Nat)
    (hk : (sas.find? (·.1 == "READ_KEYS")).map (·.2) = some k)
    (hr : (sas.find? (·.1 == "READ_RESERVATION")).map (·.2) = some r)
    (hc : (sas.find? (·.1 == "REPORT_CAPABILITIES")).map (·.2) = some c)
    (hf : (sas.find? (·.1 == "READ_FULL_STATUS")).map (·.2) = some f)
    (h1 : sa ≠ k) (h2 : sa ≠ r) (h3 : sa ≠ c) (h4 : sa ≠ f) :
    prInDispatch sas sa = .error .valueError := by
  simp [prInDispatch, hk, hr, hc, hf, h1, h2, h3, h4, bind, Except.bind, pure, Except.pure]

/-- **for all Python integers, negative ones included**: outside the four listed values the dispatch raises `ValueError` -/
theorem unknown_pr_in_service_action_int (sas : List (String × Nat)) (sa : Int) (k r c f : Nat)
    (hk : (sas.find? (·.1 == "READ_KEYS")).map (·.2) = some k)
    (hr : (sas.find? (·.1 == "READ_RESERVATION")).map (·.2) = some r)
    (hc : (sas.find? (·.1 == "REPORT_CAPABILITIES")).map (·.2) = some c)
    (hf : (sas.find? (·.1 == "READ_FULL_STATUS")).map (·.2) = some f)
    (h1 : sa ≠ k) (h2 : sa ≠ r) (h3 : sa ≠ c) (h4 : sa ≠ f) :
    prInDispatchInt sas sa = .error .valueError := by
  unfold prInDispatchInt
  by_cases hneg : sa < 0
  · rw [if_pos hneg]
    simp [hk, hr, hc, hf, bind, Except.bind]
  · rw [if_neg hneg]
    have hnn : (0 : Int) ≤ sa := by omega
    have e : (sa.toNat : Int) = sa := Int.toNat_of_nonneg hnn
    apply unknown_pr_in_service_action sas sa.toNat k r c f hk hr hc hf
    · intro h; apply h1; rw [← e, h]
    · intro h; apply h2; rw [← e, h]
    · intro h; apply h3; rw [← e, h]
    · intro h; apply h4; rw [← e, h]

def prInOp (set : List (String × OpCode)) : Option OpCode :=
  (set.find? (·.1 == "PERSISTENT_RESERVE_IN")).map (·.2)

def prClass (sas : List (String × Nat)) (sa : Nat) : Option String := (prInDispatch sas sa).toOption

/-- the four known service actions select their class on every command set that lists the
command (so the refusal is not over-broad) -/
theorem known_pr_in_service_actions :
    Gen.sets.all (fun s => match prInOp s.2 with
      | none => true
      | some op =>
        prClass op.sas 0 == some "PersistentReserveInReadKeys" &&
        prClass op.sas 1 == some "PersistentReserveInReadReservation" &&
        prClass op.sas 2 == some "PersistentReserveInReportCapabilities" &&
        prClass op.sas 3 == some "PersistentReserveInReadFullStatus") = true := by
  decide +kernel

/-! non-vacuity -/
example : (ataBuffers 2 1 0 1 7 9 0 none none).toOption = none ∧ (ataBuffers 2 1 0 1 7 9 512 none none).toOption.isSome = true := by decide +kernel

end C17
