import ScsiVerif.Model.Conv
/-!
Model of `SCSIDevice`'s handle management (pyscsi/pyscsi/scsi_device.py): `open`, `close`,
`_is_replugged`, the `try: close() finally: open()` sequence in `execute`, `__exit__`, and the OS
as far as the code observes it (the inode of the node at the device path, `open`, `close`).

Assumption recorded in the trusted base: a node that replaces another gets a fresh inode number.
-/
namespace Handle

structure H where
  ino : Nat
  isOpen : Bool
  closeCalls : Nat
  deriving DecidableEq, Repr

structure World where
  /-- inode of the node currently at the device path; `none` = vanished -/
  fs : Option Nat
  nextIno : Nat
  handles : List H
  /-- index of the handle the device object currently holds -/
  cur : Nat
  recorded : Nat
  detect : Bool
  closeFails : Bool
  deriving DecidableEq, Repr

inductive Ev
  | execute
  | replug
  | unplug
  | setCloseFail (b : Bool)
  | close           -- `device.close()` / leaving a `with` block (normally or by exception)
  deriving DecidableEq, Repr

inductive Obs
  | sent (h : Nat)            -- the command went to the binding through handle number `h`
  | error (e : String)        -- the call raised, nothing was sent
  | ok
  deriving DecidableEq, Repr

/-- a device opened on a node with inode 1 -/
def init (detect : Bool) : World :=
  { fs := some 1, nextIno := 2, handles := [⟨1, true, 0⟩], cur := 0, recorded := 1, detect := detect, closeFails := false }

def closeCur (w : World) : World × Bool :=
  let hs := w.handles.mapIdx (fun i h => if i = w.cur then { h with isOpen := false, closeCalls := h.closeCalls + 1 } else h)
  ({ w with handles := hs }, w.closeFails)

/-- `try: self.close() finally: self.open()` when the node at the path has inode `ino`:
    the current handle is closed (the attempt is counted even when it fails), a fresh handle on the
    present node is opened and becomes current, its inode is recorded -/
def reopen (w : World) (ino : Nat) : World :=
  let w1 := (closeCur w).1
  { w1 with handles := w1.handles ++ [⟨ino, true, 0⟩], cur := w1.handles.length, recorded := ino }

def step (w : World) : Ev → World × Obs
  | .replug => ({ w with fs := some w.nextIno, nextIno := w.nextIno + 1 }, .ok)
  | .unplug => ({ w with fs := none }, .ok)
  | .setCloseFail b => ({ w with closeFails := b }, .ok)
  | .close =>
    let (w', failed) := closeCur w
    (w', if failed then .error "OSError" else .ok)
  | .execute =>
    if w.detect then
      match w.fs with
      | none => (w, .error "FileNotFoundError")          -- get_inode raises: vanished node
      | some ino =>
        if ino ≠ w.recorded then
          -- the close error (if any) propagates after the `finally: open()` ran: nothing is sent
          (reopen w ino, if w.closeFails then .error "OSError" else .sent w.handles.length)
        else (w, .sent w.cur)
    else (w, .sent w.cur)

def run (w : World) : List Ev → World × List Obs
  | [] => (w, [])
  | e :: rest =>
    let (w1, o) := step w e
    let (w2, os) := run w1 rest
    (w2, o :: os)

end Handle
