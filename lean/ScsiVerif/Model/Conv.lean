/-
Model of `pyscsi/utils/converter.py` (scsi_int_to_ba, scsi_ba_to_int, decode_bits, encode_dict).

Executable, total, core Lean only.  Buffers are `List Nat` (a Python `bytearray`), integers are
unbounded `Nat`.  Python exceptions are `Except PyErr`.  The one place where Python does not
terminate (a zero bit mask) is made explicit: `tz 0` is defined but every user of it is guarded by
`mask ≠ 0` (see `FieldSpec.sane`), and the driver answers `hang` for it.
-/
namespace Conv

abbrev Bytes := List Nat

/-- Python exception classes that the modelled code can raise. -/
inductive PyErr
  | indexError | keyError | typeError | valueError | attributeError
  | missingBlocksize | opcodeException | notImplemented | hang
  deriving DecidableEq, Repr, Inhabited

def PyErr.name : PyErr → String
  | .indexError => "IndexError" | .keyError => "KeyError" | .typeError => "TypeError"
  | .valueError => "ValueError" | .attributeError => "AttributeError"
  | .missingBlocksize => "MissingBlocksizeException" | .opcodeException => "OpcodeException"
  | .notImplemented => "NotImplementedError" | .hang => "HANG"

/-- `scsi_int_to_ba(v, n)`: `bytearray((v >> i*8) & 0xFF for i in reversed(range(n)))` -/
def intToBa (v : Nat) : Nat → Bytes
  | 0 => []
  | n+1 => ((v >>> (n*8)) &&& 0xFF) :: intToBa v n

/-- `scsi_ba_to_int(ba)`: `sum(ba[i] << ((len(ba)-1-i)*8))` -/
def baToInt : Bytes → Nat
  | [] => 0
  | b :: bs => (b <<< (bs.length * 8)) + baToInt bs

/-- Python `d[a:b]` for `0 ≤ a`, `0 ≤ b` (never raises, truncates). -/
def slice (d : Bytes) (a b : Nat) : Bytes := (d.take b).drop a

/-- Python `d[a:b] = v` on a bytearray (resizes when lengths differ). -/
def setSlice (d : Bytes) (a b : Nat) (v : Bytes) : Bytes := d.take a ++ v ++ d.drop (max a b)

/-- number of bytes a mask occupies: `_num = 1; while _bm > 0xFF: _bm >>= 8; _num += 1` -/
def numBytes (m : Nat) : Nat := if _h : m > 0xFF then numBytes (m >>> 8) + 1 else 1
termination_by m
decreasing_by
  simp only [Nat.shiftRight_eq_div_pow]
  exact Nat.div_lt_self (by omega) (by decide)

/-- trailing zero count: `while not bm & 1: bm >>= 1`.  Python loops forever on 0. -/
def tz (m : Nat) : Nat := if _h : m = 0 then 0 else if m % 2 = 1 then 0 else tz (m / 2) + 1
termination_by m
decreasing_by exact Nat.div_lt_self (by omega) (by decide)

/-- A layout entry: `[mask, offset]` or `('b'|'w'|'dw', offset, length)` (unit = 1, 2, 4). -/
inductive FieldSpec
  | bits (mask off : Nat)
  | blob (unit off len : Nat)
  deriving DecidableEq, Repr, Inhabited

/-- A Python value that the converter handles. -/
inductive Val
  | int (n : Nat)
  | bytes (b : Bytes)
  deriving DecidableEq, Repr, Inhabited

abbrev Layout := List (String × FieldSpec)
abbrev Dict := List (String × Val)

/-- decode of one `[mask, off]` entry:
    value = ba_to_int(data[off:off+num]); shift right by tz; `&= bitmask>>tz`. -/
def decodeMask (data : Bytes) (mask off : Nat) : Nat :=
  (baToInt (slice data off (off + numBytes mask)) >>> tz mask) &&& (mask >>> tz mask)

def decodeField (data : Bytes) : FieldSpec → Val
  | .bits mask off => .int (decodeMask data mask off)
  | .blob unit off len => .bytes (slice data off (off + len * unit))

/-- `dict.update({key: value})` : replace in place if present, else append (insertion order). -/
def dictSet (d : Dict) (k : String) (v : Val) : Dict :=
  if d.any (·.1 == k) then d.map (fun kv => if kv.1 == k then (k, v) else kv) else d ++ [(k, v)]

def dictGet? (d : Dict) (k : String) : Option Val := (d.find? (·.1 == k)).map (·.2)

def layoutGet? (l : Layout) (k : String) : Option FieldSpec := (l.find? (·.1 == k)).map (·.2)

/-- one iteration of the `decode_bits` loop -/
def decodeStep (data : Bytes) (r : Dict) (kf : String × FieldSpec) : Except PyErr Dict :=
  match kf.2 with
  | .bits 0 _ => .error .hang
  | f => .ok (dictSet r kf.1 (decodeField data f))

/-- `decode_bits(data, check_dict, result_dict)`; `hang` when a mask is 0 (Python never returns). -/
def decodeBits (data : Bytes) (layout : Layout) (result : Dict) : Except PyErr Dict :=
  layout.foldlM (decodeStep data) result

/-- `for i in range(len(v)): result[pos+i] ^= v[i]` -/
def xorAt : Bytes → Nat → Bytes → Except PyErr Bytes
  | buf, _, [] => .ok buf
  | buf, pos, x :: xs =>
    if h : pos < buf.length then xorAt (buf.set pos (buf[pos] ^^^ x)) (pos + 1) xs
    else .error .indexError

/-- encode of one `[mask, off]` entry. -/
def encodeMask (buf : Bytes) (mask off v : Nat) : Except PyErr Bytes :=
  if mask = 0 then .error .hang
  else xorAt buf off (intToBa (v <<< tz mask) (numBytes mask))

def encodeField (buf : Bytes) : FieldSpec → Val → Except PyErr Bytes
  | .bits mask off, .int v => encodeMask buf mask off v
  | .bits mask _, .bytes _ => if mask = 0 then .error .hang else .error .typeError
  | .blob unit off len, .bytes b => .ok (setSlice buf off (off + len * unit) b)
  | .blob _ _ _, .int _ => .error .typeError

/-- `encode_dict(data_dict, check_dict, result)`: keys of the *data* dict in order,
    keys missing from the layout are skipped. -/
def encodeDict (data : Dict) (layout : Layout) (buf : Bytes) : Except PyErr Bytes :=
  data.foldlM (fun b (kv : String × Val) =>
    match layoutGet? layout kv.1 with
    | none => .ok b
    | some f => encodeField b f kv.2) buf

def zeros (n : Nat) : Bytes := List.replicate n 0

/-! ### layout well-formedness (decidable; evaluated by the kernel on the regenerated tables) -/

/-- contiguous mask of width w at shift s -/
def mkMask (w s : Nat) : Nat := (2^w - 1) <<< s

/-- width of a contiguous mask (number of one bits) -/
def maskWidth (m : Nat) : Nat := tz ((m >>> tz m) + 1)

/-- absolute bit position (from the least significant bit of the whole buffer read as one
    big-endian number) of the least significant bit of field `[mask, off]` in a buffer of length `L` -/
def lsbPos (L mask off : Nat) : Nat := 8 * (L - off - numBytes mask) + tz mask

/-- `[mask, off]` is a non-empty contiguous run of bits whose byte window lies inside `L` bytes -/
def bitsWF (L mask off : Nat) : Bool :=
  mask == mkMask (maskWidth mask) (tz mask) && decide (0 < maskWidth mask) &&
  decide (off + numBytes mask ≤ L)

/-- `(lsb position, width)` of an entry; `none` for blobs and malformed masks -/
def FieldSpec.range? (L : Nat) : FieldSpec → Option (Nat × Nat)
  | .bits m off => if bitsWF L m off then some (lsbPos L m off, maskWidth m) else none
  | .blob _ _ _ => none

def rangeDisj (a b : Nat × Nat) : Bool := decide (a.1 + a.2 ≤ b.1) || decide (b.1 + b.2 ≤ a.1)

def pairwiseB {α : Type} (r : α → α → Bool) : List α → Bool
  | [] => true
  | x :: xs => xs.all (r x) && pairwiseB r xs

/-- every entry is a well-formed bit field inside `L` bytes, keys are distinct, fields do not overlap -/
def Layout.wf (l : Layout) (L : Nat) : Bool :=
  l.all (fun kf => (kf.2.range? L).isSome) &&
  pairwiseB (fun a b => a.1 != b.1) l &&
  pairwiseB (fun a b => match a.2.range? L, b.2.range? L with
    | some ra, some rb => rangeDisj ra rb
    | _, _ => false) l

end Conv
