import ScsiVerif.Model.Command
/-! Small dispatch models used by C17/C13: the facade's PERSISTENT RESERVE IN service-action chain. -/
namespace Guards
open Cmd Conv

/-- `SCSI.persistentreservein`: `if service_action == opcode.serviceaction.READ_KEYS: … elif … else: raise ValueError`.
    Each comparison first looks the name up on the opcode's service-action enum (AttributeError when absent). -/
def prInDispatch (sas : List (String × Nat)) (sa : Nat) : Except PyErr String :=
  let get (n : String) : Except PyErr Nat :=
    match (sas.find? (·.1 == n)).map (·.2) with
    | some v => .ok v
    | none => .error .attributeError
  do
    let k ← get "READ_KEYS"
    if sa = k then return "PersistentReserveInReadKeys"
    let r ← get "READ_RESERVATION"
    if sa = r then return "PersistentReserveInReadReservation"
    let c ← get "REPORT_CAPABILITIES"
    if sa = c then return "PersistentReserveInReportCapabilities"
    let f ← get "READ_FULL_STATUS"
    if sa = f then return "PersistentReserveInReadFullStatus"
    .error .valueError

/-- the same chain for any Python integer: `service_action == <table value>` with a negative `service_action` is false
    for every (non-negative) table value, so the chain falls through to the `raise` unless a name is missing -/
def prInDispatchInt (sas : List (String × Nat)) (sa : Int) : Except PyErr String :=
  let has (n : String) : Except PyErr Unit :=
    match (sas.find? (·.1 == n)).map (·.2) with
    | some _ => .ok ()
    | none => .error .attributeError
  if sa < 0 then do
    has "READ_KEYS"
    has "READ_RESERVATION"
    has "REPORT_CAPABILITIES"
    has "READ_FULL_STATUS"
    .error .valueError
  else prInDispatch sas sa.toNat

end Guards
