import ScsiVerif.Model.Conv
/-!
Model of the only state command objects share (pyscsi/pyscsi/scsi_command.py): what
`SCSICommand.__init__` stores on classes and what `build_cdb` / `marshall_cdb` / `unmarshall_cdb`
read back.  The layout a class uses is its own immutable class attribute `_cdb_bits`; the CDB length
is remembered **per command class** (`type(self)._cdb_len`).  The legacy copies on `SCSICommand`
itself are written but never read by a command class.

A schedule is a list of atomic actions in the global order in which they happen (attribute reads and
writes are atomic under the GIL); each thread's own actions appear in its program order.
-/
namespace Iso

structure St where
  /-- `Class._cdb_len` for the classes that have one -/
  perClass : List (String × Nat)
  /-- legacy `SCSICommand._cdb_bits` / `len(SCSICommand._cdb)`: (class whose layout, length) -/
  legacy : Option (String × Nat)
  deriving DecidableEq, Repr

inductive Act
  | ctor (cls : String) (len : Nat)   -- SCSICommand.__init__ of an instance of `cls` with an opcode of length `len`
  | build (cls : String)              -- build_cdb → marshall_cdb on `cls`: reads `cls._cdb_len`
  | decode (cls : String)             -- unmarshall_cdb on `cls`: reads only the class's own layout
  deriving DecidableEq, Repr

def lookup (s : St) (c : String) : Option Nat := (s.perClass.find? (·.1 == c)).map (·.2)

def setLen (s : St) (c : String) (n : Nat) : St :=
  { s with perClass := (c, n) :: s.perClass.filter (·.1 != c), legacy := some (c, n) }

/-- one action: new state and what the action observed: `(layout owner, cdb length)` it works with -/
def step (s : St) : Act → St × Option (String × Option Nat)
  | .ctor c n => (setLen s c n, none)
  | .build c => (s, some (c, lookup s c))
  | .decode c => (s, some (c, none))

def run (s : St) : List Act → List (Option (String × Option Nat))
  | [] => []
  | a :: rest => (step s a).2 :: run (step s a).1 rest

/-- the design before the repair (for the record): `build` read the *legacy* copies -/
def stepOld (s : St) : Act → St × Option (String × Option Nat)
  | .ctor c n => (setLen s c n, none)
  | .build _ => (s, s.legacy.map (fun p => (p.1, some p.2)))
  | .decode _ => (s, s.legacy.map (fun p => (p.1, none)))

def runOld (s : St) : List Act → List (Option (String × Option Nat))
  | [] => []
  | a :: rest => (stepOld s a).2 :: runOld (stepOld s a).1 rest

end Iso
