import ScsiVerif.Model.Conv
import ScsiVerif.Gen.Tables
import ScsiVerif.Gen.Sense
/-!
Model of `SCSICheckCondition` (pyscsi/pyscsi/scsi_sense.py): `__init__` (format dispatch on the
response code, `decode_bits` with the fixed / descriptor tables), `_describe_ascq`, `__str__`.
The layout tables and the text tables are `Gen.*` (regenerated from the source every run).
-/
namespace Sense
open Conv

structure Err where
  valid : Nat
  responseCode : Nat
  data : Dict
  asc : Option Nat
  ascq : Option Nat
  deriving DecidableEq, Repr

def getInt (d : Dict) (k : String) : Except PyErr Nat :=
  match dictGet? d k with
  | some (.int n) => .ok n
  | some _ => .error .typeError
  | none => .error .keyError

/-- `SCSICheckCondition.__init__(sense)` -/
def mk (sense : Bytes) : Except PyErr Err :=
  match sense with
  | [] => .error .indexError
  | b0 :: _ =>
    let rc := b0 &&& 0x7F
    if rc = 0x70 ∨ rc = 0x71 then do
      let d ← decodeBits sense Gen.SCSICheckCondition_fixed_format_sdata_bits []
      let a ← getInt d "additional_sense_code"
      let q ← getInt d "additional_sense_code_qualifier"
      pure ⟨b0 &&& 0x80, rc, d, some a, some q⟩
    else if rc = 0x72 ∨ rc = 0x73 then do
      let d ← decodeBits sense Gen.SCSICheckCondition_desc_format_sdata_bits []
      let a ← getInt d "additional_sense_code"
      let q ← getInt d "additional_sense_code_qualifier"
      pure ⟨b0 &&& 0x80, rc, d, some a, some q⟩
    else .ok ⟨b0 &&& 0x80, rc, [], none, none⟩

def hexDigitU (n : Nat) : Char :=
  if n < 10 then Char.ofNat (48 + n) else Char.ofNat (55 + n)

/-- `"%0<w>X" % n` -/
def hexPad (w n : Nat) : String :=
  let rec go (fuel n : Nat) (acc : List Char) : List Char :=
    match fuel with
    | 0 => acc
    | f + 1 => if n = 0 then acc else go f (n / 16) (hexDigitU (n % 16) :: acc)
  let ds := go 64 n []
  String.ofList (List.replicate (w - ds.length) '0' ++ ds)

def lookupText (tbl : List (Nat × String)) (k : Nat) : Option String := (tbl.find? (·.1 == k)).map (·.2)

/-- `_describe_ascq` -/
def describeAscq (asc ascq : Nat) : String :=
  match lookupText Gen.senseAscq (asc * 256 + ascq) with
  | some t => t
  | none =>
    if Gen.vendorAscLo ≤ asc ∧ asc ≤ Gen.vendorAscHi then "Vendor specific ASC"
    else if Gen.vendorAscLo ≤ ascq ∧ ascq ≤ Gen.vendorAscHi then "Vendor specific ASCQ"
    else "Unknown ASC+Q"

/-- `__str__` -/
def str (e : Err) : Except PyErr String :=
  match e.asc, e.ascq with
  | some a, some q => do
    let k ← getInt e.data "sense_key"
    pure ("Check Condition: " ++ (lookupText Gen.senseKeys k).getD "Reserved" ++ "(0x" ++ hexPad 2 k ++ ") ASC+Q:" ++
      describeAscq a q ++ "(0x" ++ hexPad 4 (a * 256 + q) ++ ")")
  | _, _ => .ok ("Check Condition: unknown sense data format (response code 0x" ++ hexPad 2 e.responseCode ++ ")")

/-- (sense key, ASC, ASCQ) as the error object reports them -/
def triple (e : Err) : Option (Nat × Nat × Nat) :=
  match (getInt e.data "sense_key").toOption, e.asc, e.ascq with
  | some k, some a, some q => some (k, a, q)
  | _, _, _ => none

end Sense
