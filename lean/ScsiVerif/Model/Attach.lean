import ScsiVerif.Model.Conv
/-!
Model of `SCSI.__init__` / `SCSI.__call__` → `__init_opcode` (pyscsi/pyscsi/scsi.py:58-105):
one standard INQUIRY through the device's *current* command set, `devicetype = byte0 & 0x1F`,
then an if/elif chain that assigns the device's command set (no assignment for other types).
Every device object starts with `spc` (scsi_device.py:56, iscsi_device.py:46).
-/
namespace Attach

/-- the if/elif chain of `__init_opcode`; `none` = no branch taken, the device keeps its set -/
def pdtChain (t : Nat) : Option String :=
  if t = 0x00 ∨ t = 0x04 ∨ t = 0x07 then some "sbc"
  else if t = 0x01 ∨ t = 0x02 ∨ t = 0x09 then some "ssc"
  else if t = 0x03 then some "spc"
  else if t = 0x08 then some "smc"
  else if t = 0x05 then some "mmc"
  else none

structure Dev where
  opcodes : String := "spc"
  devicetype : Option Nat := none
  inquiries : Nat := 0        -- INQUIRY commands this device has received from attaches
  deriving DecidableEq, Repr

/-- attach the facade to a device whose standard INQUIRY data starts with `byte0` -/
def attachDev (d : Dev) (byte0 : Nat) : Dev :=
  let t := byte0 &&& 0x1F
  { opcodes := (pdtChain t).getD d.opcodes, devicetype := some t, inquiries := d.inquiries + 1 }

abbrev World := List Dev

def attach (w : World) (k : Nat) (byte0 : Nat) : World :=
  w.mapIdx (fun i d => if i = k then attachDev d byte0 else d)

/-- a history of attaches `(device index, first byte of its INQUIRY data)` -/
def run (w : World) : List (Nat × Nat) → World
  | [] => w
  | (k, b) :: rest => run (attach w k b) rest

end Attach
