import ScsiVerif.Model.Conv
import ScsiVerif.Std.DataFmt
/-!
Decidable compatibility between a library layout table (regenerated from the Python source) and a
parameter-data format of the standard.  `Lemmas/DataCompat.lean` proves that compatibility implies
that `decode_bits` reads back exactly the values a conformant device encoded.
-/
namespace DataCompat
open Conv Std

/-- the library entry occupies exactly the bits of the standard field `g` of an `L`-byte structure -/
def entryMatches (L : Nat) : FieldSpec → DField → Bool
  | .bits m off, g => bitsWF L m off && (lsbPos L m off == g.lsb L) && (maskWidth m == g.width)
  | .blob unit off len, g =>
    (g.byte == off) && (g.msb == 7) && (g.width == 8 * (len * unit)) && decide (off + len * unit ≤ L) &&
    decide (0 < len * unit)

/-- **the obligation decided per table**: the standard format is consistent, the table's keys are
distinct, and every entry of the table sits exactly on the standard field of the same key. -/
def compatible (lay : Layout) (fs : List DField) (L : Nat) : Bool :=
  formatOK L fs &&
  pairwiseB (fun (a b : String × FieldSpec) => a.1 != b.1) lay &&
  lay.all (fun kf => fs.any (fun g => g.key == kf.1 && entryMatches L kf.2 g))

/-- the Python value of a table entry whose standard field holds `x` -/
def expVal : FieldSpec → Nat → Val
  | .bits _ _, x => .int x
  | .blob unit _ len, x => .bytes (intToBa x (len * unit))

/-- what `decode_bits` must return for values `v`: every key of the table, in table order -/
def expected (lay : Layout) (v : Vals) : Dict := lay.map (fun kf => (kf.1, expVal kf.2 (v kf.1)))

end DataCompat
