import ScsiVerif.Model.Conv
/-!
Model of a facade method `SCSI.<command>()`:

    opcode = <lookup in self.device.opcodes>
    cmd = Class(opcode, …)            -- may raise: nothing exists, nothing is sent
    self.execute(cmd)                 -- device.execute; any exception is re-raised unchanged
    [cmd.unmarshall(…)]               -- decode cmd.datain *after* the device filled it
    return cmd

`run` is parameterised by the three things that can fail.  The shape (with / without unmarshall)
of every real method is read from the source by the translator (`Gen.facade[i].events`) and checked
by `shape`.
-/
namespace Facade
open Conv

inductive Ev | construct | execute | unmarshall | ret
  deriving DecidableEq, Repr

inductive Outcome | returned | raised (e : PyErr)
  deriving DecidableEq, Repr

structure Run where
  trace : List Ev
  outcome : Outcome
  deriving DecidableEq, Repr

/-- collapse the `cmd = A(…) / elif … cmd = B(…)` alternatives, then recognise the two legal shapes -/
def shape (events : List String) : Option Bool :=
  match events.dropWhile (· == "construct") with
  | ["execute", "return"] => if events.head? == some "construct" then some false else none
  | ["execute", "unmarshall", "return"] => if events.head? == some "construct" then some true else none
  | _ => none

def run (withUnmarshall : Bool) (construct device unmarshall : Except PyErr Unit) : Run :=
  match construct with
  | .error e => ⟨[], .raised e⟩
  | .ok _ =>
    match device with
    | .error e => ⟨[.construct, .execute], .raised e⟩
    | .ok _ =>
      if withUnmarshall then
        match unmarshall with
        | .error e => ⟨[.construct, .execute, .unmarshall], .raised e⟩
        | .ok _ => ⟨[.construct, .execute, .unmarshall, .ret], .returned⟩
      else ⟨[.construct, .execute, .ret], .returned⟩

def executes (r : Run) : Nat := (r.trace.filter (· == .execute)).length

end Facade
