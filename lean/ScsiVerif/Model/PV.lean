import ScsiVerif.Model.Conv
/-!
Python values that the parameter-data decoders return and the builders take: nested dicts / lists of
ints, byte strings and text.  Used by `Model/Formats/*` and the line protocol.
-/
namespace PVal
open Conv

inductive PV
  | none
  | int (n : Nat)
  | bytes (b : Bytes)
  | str (s : String)
  | list (l : List PV)
  | dict (d : List (String × PV))
  deriving Repr, Inhabited

abbrev PDict := List (String × PV)

def PDict.get? (d : PDict) (k : String) : Option PV := (d.find? (·.1 == k)).map (·.2)

/-- `d[k] = v` / `d.update({k: v})` -/
def PDict.set (d : PDict) (k : String) (v : PV) : PDict :=
  if d.any (·.1 == k) then d.map (fun kv => if kv.1 == k then (k, v) else kv) else d ++ [(k, v)]

def PDict.del (d : PDict) (k : String) : PDict := d.filter (·.1 != k)

def PDict.update (d e : PDict) : PDict := e.foldl (fun acc kv => acc.set kv.1 kv.2) d

def ofVal : Val → PV
  | .int n => .int n
  | .bytes b => .bytes b

def ofDict (d : Dict) : PDict := d.map (fun kv => (kv.1, ofVal kv.2))

/-- `decode_bits(data, layout, result)` into a nested-value dict (updates `result` in place) -/
def decodeInto (data : Bytes) (layout : Layout) (result : PDict) : Except PyErr PDict := do
  let d ← decodeBits data layout []
  pure (result.update (ofDict d))

/-- the int / bytes entries of a nested dict, as the converter sees them (`encode_dict` skips keys
    that are not in the layout; a list/dict/str value under a layout key is a TypeError) -/
def toConv (layout : Layout) (d : PDict) : Except PyErr Dict :=
  d.foldlM (fun acc (kv : String × PV) =>
    match layoutGet? layout kv.1 with
    | Option.none => .ok acc
    | some _ =>
      match kv.2 with
      | .int n => .ok (acc ++ [(kv.1, Val.int n)])
      | .bytes b => .ok (acc ++ [(kv.1, Val.bytes b)])
      | _ => .error .typeError) []

/-- `encode_dict(d, layout, buf)` for a nested-value dict -/
def encodeFrom (d : PDict) (layout : Layout) (buf : Bytes) : Except PyErr Bytes := do
  let c ← toConv layout d
  encodeDict c layout buf

def getInt (d : PDict) (k : String) : Except PyErr Nat :=
  match d.get? k with
  | some (.int n) => .ok n
  | some _ => .error .typeError
  | Option.none => .error .keyError

def getBytes (d : PDict) (k : String) : Except PyErr Bytes :=
  match d.get? k with
  | some (.bytes b) => .ok b
  | some _ => .error .typeError
  | Option.none => .error .keyError

def getDict (d : PDict) (k : String) : Except PyErr PDict :=
  match d.get? k with
  | some (.dict x) => .ok x
  | some _ => .error .typeError
  | Option.none => .error .keyError

def getList (d : PDict) (k : String) : Except PyErr (List PV) :=
  match d.get? k with
  | some (.list x) => .ok x
  | some _ => .error .typeError
  | Option.none => .error .keyError

/-- Python truthiness of a possibly missing value (`d.get(k)`) -/
def truthy? : Option PV → Bool
  | Option.none => false
  | some .none => false
  | some (.int n) => n != 0
  | some (.bytes b) => !b.isEmpty
  | some (.str s) => !s.isEmpty
  | some (.list l) => !l.isEmpty
  | some (.dict d) => !d.isEmpty

/-- `data[i]` on a bytearray -/
def idx (d : Bytes) (i : Nat) : Except PyErr Nat :=
  match d[i]? with
  | some x => .ok x
  | Option.none => .error .indexError

/-- split into `k`-byte pieces (the last may be shorter): the iterations of
    `while len(d): use(d[:k]); d = d[k:]` -/
def pieces (k : Nat) (d : Bytes) : List Bytes :=
  if h : d.length = 0 ∨ k = 0 then [] else d.take k :: pieces k (d.drop k)
termination_by d.length
decreasing_by
  simp only [List.length_drop]
  omega

end PVal
