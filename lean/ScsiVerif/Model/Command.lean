import ScsiVerif.Model.Conv
/-!
Model of `SCSICommand.__init__` / `init_cdb` / `build_cdb` / `marshall_cdb` and of the normal form
that 40 of the 42 command constructors have:

    [guards: if <cond>: raise X]            -- before SCSICommand.__init__
    SCSICommand.__init__(self, opcode, <dataout_len>, <datain_len>)
    [self.dataout = <expr>]
    self.cdb = self.build_cdb(field=<expr>, …)

The constructor descriptions (`CmdDesc`) are *generated* from the Python source by
`tools/lib/gen.py` (AST translation) into `ScsiVerif/Gen/Commands.lean`; this file is the
interpreter that gives them meaning.
-/
namespace Cmd
open Conv

/-- Python values flowing through a constructor -/
inductive PVal
  | none
  | int (n : Nat)
  | bytes (b : Bytes)
  | bool (b : Bool)
  deriving DecidableEq, Repr, Inhabited

/-- Python truthiness -/
def PVal.truthy : PVal → Bool
  | .none => false
  | .int n => n != 0
  | .bytes b => !b.isEmpty
  | .bool b => b

/-- expressions that occur in constructors (first-order fragment recognised by the translator) -/
inductive Expr
  | param (x : String)
  | lit (n : Nat)
  | none
  | opcodeValue                    -- self.opcode.value
  | sa (name : String)             -- [self.]opcode.serviceaction.NAME
  | mul (a b : Expr)
  | add (a b : Expr)
  | band (a b : Expr)
  | shr (a b : Expr)
  | shl (a b : Expr)
  | len (a : Expr)
  | eq (a b : Expr)
  | not (a : Expr)
  | and (a b : Expr)
  | or (a b : Expr)
  | isNotNone (a : Expr)
  | ite (c a b : Expr)             -- a if c else b
  | zeros (n : Expr)               -- bytearray(n)
  deriving DecidableEq, Repr, Inhabited

structure OpCode where
  name : String
  value : Nat
  sas : List (String × Nat)
  deriving DecidableEq, Repr, Inhabited

abbrev Env := List (String × PVal)

def Env.get? (e : Env) (k : String) : Option PVal := (e.find? (·.1 == k)).map (·.2)

def pyEq : PVal → PVal → Bool
  | .none, .none => true
  | .int a, .int b => a == b
  | .int a, .bool b => a == (if b then 1 else 0)
  | .bool a, .int b => (if a then 1 else 0) == b
  | .bool a, .bool b => a == b
  | .bytes a, .bytes b => a == b
  | _, _ => false

def asInt : PVal → Option Nat
  | .int n => some n
  | .bool b => some (if b then 1 else 0)
  | _ => Option.none

def arith (f : Nat → Nat → Nat) (a b : PVal) : Except PyErr PVal :=
  match asInt a, asInt b with
  | some x, some y => .ok (.int (f x y))
  | _, _ => .error .typeError

def eval (op : OpCode) (env : Env) : Expr → Except PyErr PVal
  | .param x => match env.get? x with
    | some v => .ok v
    | Option.none => .error .keyError
  | .lit n => .ok (.int n)
  | .none => .ok .none
  | .opcodeValue => .ok (.int op.value)
  | .sa name => match (op.sas.find? (·.1 == name)).map (·.2) with
    | some v => .ok (.int v)
    | Option.none => .error .attributeError
  | .mul a b => do arith (· * ·) (← eval op env a) (← eval op env b)
  | .add a b => do arith (· + ·) (← eval op env a) (← eval op env b)
  | .band a b => do arith (· &&& ·) (← eval op env a) (← eval op env b)
  | .shr a b => do arith (· >>> ·) (← eval op env a) (← eval op env b)
  | .shl a b => do arith (· <<< ·) (← eval op env a) (← eval op env b)
  | .len a => do
    match (← eval op env a) with
    | .bytes b => .ok (.int b.length)
    | _ => .error .typeError
  | .eq a b => do .ok (.bool (pyEq (← eval op env a) (← eval op env b)))
  | .not a => do .ok (.bool (!(← eval op env a).truthy))
  | .and a b => do
    let x ← eval op env a
    if x.truthy then eval op env b else .ok x
  | .or a b => do
    let x ← eval op env a
    if x.truthy then .ok x else eval op env b
  | .isNotNone a => do .ok (.bool ((← eval op env a) != .none))
  | .ite c a b => do
    if (← eval op env c).truthy then eval op env a else eval op env b
  | .zeros n => do
    match (← eval op env n) with
    | .int k => .ok (.bytes (zeros k))
    | .bool b => .ok (.bytes (zeros (if b then 1 else 0)))
    | _ => .error .typeError

/-- `SCSICommand.init_cdb`: CDB length from the operation code's group (mirrors the if-chain,
including its dead third branch). -/
def initCdbLen (v : Nat) : Except PyErr Nat :=
  if v ≤ 0x1F then .ok 6
  else if 0x20 ≤ v ∧ v ≤ 0x5F then .ok 10
  else if v ≤ 0x1F then .error .opcodeException
  else if 0x80 ≤ v ∧ v ≤ 0x9F then .ok 16
  else if 0xA0 ≤ v ∧ v ≤ 0xBF then .ok 12
  else .error .opcodeException

/-- a constructor in normal form (generated) -/
structure CmdDesc where
  cls : String
  /-- parameters after `self, opcode`, with their defaults -/
  params : List (String × Option PVal)
  guards : List (Expr × PyErr)
  dataoutLen : Expr
  datainLen : Expr
  dataoutSet : Option Expr
  wiring : List (String × Expr)
  layout : Layout
  deriving DecidableEq, Repr, Inhabited

structure Command where
  cdb : Bytes
  dataout : PVal
  datain : Bytes
  deriving DecidableEq, Repr, Inhabited

/-- bind call arguments (by name) over the defaults; a missing required argument is a `TypeError` -/
def bindArgs (args : Env) : List (String × Option PVal) → Except PyErr Env
  | [] => .ok []
  | p :: rest => do
    let v ← match args.get? p.1, p.2 with
      | some v, _ => Except.ok v
      | Option.none, some d => Except.ok d
      | Option.none, Option.none => Except.error PyErr.typeError
    let r ← bindArgs args rest
    pure ((p.1, v) :: r)

def evalGuards (op : OpCode) (env : Env) : List (Expr × PyErr) → Except PyErr Unit
  | [] => .ok ()
  | (c, e) :: rest => do
    if (← eval op env c).truthy then .error e else evalGuards op env rest

def toVal : PVal → Except PyErr Val
  | .int n => .ok (.int n)
  | .bool b => .ok (.int (if b then 1 else 0))
  | .bytes b => .ok (.bytes b)
  | .none => .error .typeError

def evalWiring (op : OpCode) (env : Env) : List (String × Expr) → Except PyErr Dict
  | [] => .ok []
  | (k, e) :: rest => do
    let v ← eval op env e
    let v' ← toVal v
    let r ← evalWiring op env rest
    pure ((k, v') :: r)

def allocLen (v : PVal) : Except PyErr Nat :=
  match v with
  | .int n => .ok n
  | .bool b => .ok (if b then 1 else 0)
  | _ => .error .typeError

/-- run a constructor: `Class(opcode, **args)` -/
def build (d : CmdDesc) (op : OpCode) (args : Env) : Except PyErr Command := do
  let env ← bindArgs args d.params
  evalGuards op env d.guards
  let doLen ← allocLen (← eval op env d.dataoutLen)
  let diLen ← allocLen (← eval op env d.datainLen)
  let L ← initCdbLen op.value
  let dataout ← match d.dataoutSet with
    | Option.none => pure (PVal.bytes (zeros doLen))
    | some e => eval op env e
  let dict ← evalWiring op env d.wiring
  let cdb ← encodeDict dict d.layout (zeros L)
  pure { cdb := cdb, dataout := dataout, datain := zeros diLen }

end Cmd
