import ScsiVerif.Model.Command
import ScsiVerif.Std.Cdb
/-!
Decidable compatibility between a generated constructor description (`Cmd.CmdDesc`, from the Python
source) and the standard's CDB format (`Std.Cdb`).  Evaluated by the kernel (`decide +kernel`) for
every command; `Lemmas/Compat.lean` proves that compatibility implies the C01 statement.
-/
namespace Compat
open Conv Cmd Std

/-- what the translator emits for `ATAPassThrough12.scsi_to_ata_lba_convert(p)` today -/
def ata12Expr (p : String) : Expr :=
  .add (.add (.add (.lit 0) (.shl (.band (.param p) (.lit 255)) (.lit 16)))
    (.shl (.band (.shr (.param p) (.lit 8)) (.lit 255)) (.lit 8)))
    (.band (.shr (.param p) (.lit 16)) (.lit 255))

/-- what the translator emits for `ATAPassThrough16.scsi_to_ata_lba_convert(p)` today -/
def ata16Expr (p : String) : Expr :=
  .add (.add (.add (.add (.add (.add (.lit 0)
    (.shl (.band (.param p) (.lit 255)) (.lit 32)))
    (.shl (.band (.shr (.param p) (.lit 8)) (.lit 255)) (.lit 16)))
    (.band (.shr (.param p) (.lit 16)) (.lit 255)))
    (.shl (.band (.shr (.param p) (.lit 24)) (.lit 255)) (.lit 40)))
    (.shl (.band (.shr (.param p) (.lit 32)) (.lit 255)) (.lit 24)))
    (.shl (.band (.shr (.param p) (.lit 40)) (.lit 255)) (.lit 8))

/-- the wiring expression `e` of the constructor carries what the standard field's source says -/
def srcMatches (d : CmdDesc) (e : Expr) : Src → Bool
  | .arg p => e == .param p
  | .opcode => e == .opcodeValue
  | .sa n _ => e == .sa n
  | .const n => e == .lit n
  | .paramListLen => match e with
    | .len x => d.dataoutSet == some x
    | _ => false
  | .ataLba12 p => e == ata12Expr p
  | .ataLba16 p => e == ata16Expr p

/-- the library entry `layout[key]` occupies exactly the bits of the standard field `g` -/
def fieldCompat (L : Nat) (layout : Layout) (key : String) (g : Field) : Bool :=
  match layoutGet? layout key with
  | some (.bits m off) => g.ok L && (lsbPos L m off == g.lsb L) && (maskWidth m == g.width)
  | _ => false

def entryCompat (d : CmdDesc) (L : Nat) (ke : String × Expr) (g : Field) : Bool :=
  fieldCompat L d.layout ke.1 g && srcMatches d ke.2 g.src

/-- **the obligation decided per command**: the layout is well formed for an `L`-byte CDB, the
constructor writes each key once, every written key is a standard field carrying the right source,
and every standard field is written. -/
def compatible (d : CmdDesc) (s : Cdb) (L : Nat) : Bool :=
  d.layout.wf L &&
  pairwiseB (fun (a b : String × Expr) => a.1 != b.1) d.wiring &&
  d.wiring.all (fun ke => s.fields.any (entryCompat d L ke)) &&
  s.fields.all (fun g => d.wiring.any (fun ke => entryCompat d L ke g))

/-- the value the standard field must carry, given the bound arguments and the data-out buffer -/
def srcVal (op : OpCode) (env : Env) (dataout : PVal) : Src → Option Nat
  | .arg p => (env.get? p).bind asInt
  | .opcode => some op.value
  | .sa n _ => (op.sas.find? (·.1 == n)).map (·.2)
  | .const n => some n
  | .paramListLen => match dataout with
    | .bytes b => some b.length
    | _ => none
  | .ataLba12 p => ((env.get? p).bind asInt).map ataLba12
  | .ataLba16 p => ((env.get? p).bind asInt).map ataLba16

/-- the service actions the standard names have their T10 values in this opcode object -/
def saOK (s : Cdb) (op : OpCode) : Bool :=
  s.fields.all (fun g => match g.src with
    | .sa n v => (op.sas.find? (·.1 == n)).map (·.2) == some v
    | _ => true)

end Compat

namespace Compat
open Conv Cmd Std

/-- how the facade finds the operation code object in a command set: by attribute name, or (for the
    service-action carriers) the first key whose last two characters are `9E` / `A3` (`get_opcode`) -/
def findOp (set : List (String × OpCode)) (opName : String) : Option OpCode :=
  if opName.length == 2 then
    (set.find? (fun ko => (ko.1.drop (ko.1.length - 2)).toString == opName)).map (·.2)
  else (set.find? (·.1 == opName)).map (·.2)

/-- per command set that offers the command: T10 operation code, SAM length, T10 service actions -/
def setOK (s : Cdb) (set : List (String × OpCode)) : Bool :=
  match findOp set s.opName with
  | none => true   -- this command set does not offer the command
  | some op =>
    op.value == s.opcode && saOK s op &&
    (match initCdbLen op.value, samLen s.opcode with
     | .ok L, some L' => L == L'
     | _, _ => false)

end Compat
