import ScsiVerif.Model.Command
import ScsiVerif.Std.Xfer
/-!
Buffer side of the constructors: decidable check that a generated constructor description allocates
its buffers the way the standard's transfer rule says (`xferOK`), the hand model of the two ATA
PASS-THROUGH constructors' transfer computation (`ataBuffers`), and the iSCSI transport's
direction/length derivation (`iscsiXfer`).
-/
namespace Xfer
open Cmd Std Conv

/-- the generated length / data-out expressions have the shape the transfer rule prescribes -/
def xferOK (d : CmdDesc) : Xfer → Bool
  | .noData => d.dataoutLen == .lit 0 && d.datainLen == .lit 0 && d.dataoutSet == none
  | .allocIn p => d.dataoutLen == .lit 0 && d.datainLen == .param p && d.dataoutSet == none
  | .blocksIn tl => d.dataoutLen == .lit 0 && d.datainLen == .mul (.param "blocksize") (.param tl) &&
      d.dataoutSet == none
  | .dataOut data => d.datainLen == .lit 0 && d.dataoutSet == some (.param data)
  | .dataOutUnless data flag => d.datainLen == .lit 0 &&
      d.dataoutSet == some (.ite (.not (.param flag)) (.param data)
        (.zeros (.ite (.param flag) (.lit 0) (.param "blocksize"))))
  | .paramList => d.datainLen == .lit 0 && (match d.dataoutSet with
      | some (.param _) => true
      | _ => false)
  | .readCd tl => d.dataoutLen == .lit 0 && d.datainLen == .mul (.param tl) (.lit 3072) && d.dataoutSet == none
  | .ata => true

/-- the buffers the standard's rule prescribes: (data-out buffer, data-in length) -/
def expected (env : Env) : Xfer → Option (PVal × Nat)
  | .noData => some (.bytes [], 0)
  | .allocIn p => ((env.get? p).bind asInt).map (fun n => (.bytes [], n))
  | .blocksIn tl => do
      let bs ← (env.get? "blocksize").bind asInt
      let n ← (env.get? tl).bind asInt
      pure (.bytes [], bs * n)
  | .dataOut data => (env.get? data).map (fun v => (v, 0))
  | .dataOutUnless data flag => do
      let f ← env.get? flag
      let v ← env.get? data
      pure (if f.truthy then (.bytes [], 0) else (v, 0))
  | .paramList => none
  | .readCd tl => ((env.get? tl).bind asInt).map (fun n => (.bytes [], n * 3072))
  | .ata => none

/-- mirror of the transfer computation at the top of `ATAPassThrough12/16.__init__`
    (`extraTl = none` is Python's `None`; `data = none` or an empty buffer is falsy). -/
def ataBlock (tLength byteBlock tType blocksize : Nat) : Except PyErr Nat :=
  if byteBlock ≠ 0 ∧ tType = 0 ∧ tLength ≠ 0 then .ok 512
  else if byteBlock ≠ 0 ∧ tType ≠ 0 ∧ tLength ≠ 0 then
    (if blocksize = 0 then .error .missingBlocksize else .ok blocksize)
  else if byteBlock = 0 ∧ tLength ≠ 0 then .ok 1
  else if tLength = 0 then .ok 0
  else .ok blocksize

def ataTl (tLength fetures count : Nat) (extraTl : Option Nat) : Nat :=
  if tLength = 1 then fetures else if tLength = 2 then count
  else if tLength = 3 then extraTl.getD 0 else 0

def ataBuffers (tLength byteBlock tDir tType fetures count blocksize : Nat) (extraTl : Option Nat)
    (data : Option Bytes) : Except PyErr (Bytes × Bytes) :=
  match ataBlock tLength byteBlock tType blocksize with
  | .error e => .error e
  | .ok b =>
    let tl := ataTl tLength fetures count extraTl
    let dout := if tDir = 0 then zeros (tl * b) else []
    let din := if tDir = 0 then [] else zeros (tl * b)
    match data with
    | some (x :: xs) => if tDir = 0 then .ok (x :: xs, din) else .ok (dout, x :: xs)
    | _ => .ok (dout, din)

inductive Dir | none | read | write
  deriving DecidableEq, Repr

/-- `ISCSIDevice.execute`: direction and length from `len()` of the two buffers -/
def iscsiXfer (dataoutLen datainLen : Nat) : Dir × Nat :=
  let r : Dir × Nat := (.none, 0)
  let r := if datainLen ≠ 0 then (.read, datainLen) else r
  if dataoutLen ≠ 0 then (.write, dataoutLen) else r

end Xfer
