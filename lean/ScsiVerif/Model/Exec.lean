import ScsiVerif.Model.Sense
import ScsiVerif.Gen.Opcodes
/-!
Model of the two transports' `execute` (after the binding returns):

* `SCSIDevice.execute` (scsi_device.py:115-138) over `sgio`.  Binding contract (embodied by the
  stand-in, see DESIGN.md trusted base): returns on GOOD, raises `CheckConditionError(sense)` on
  CHECK CONDITION, raises another exception (`UnspecifiedError`) for every other outcome.
* `ISCSIDevice.execute` (iscsi_device.py:99-124) over `iscsi`: the binding stores `task.status` and,
  on CHECK CONDITION, `task.raw_sense`.

The status names are looked up in `Gen.scsiStatus` (regenerated from `scsi_enum_command.py`).
-/
namespace Exec
open Conv

inductive Out
  | returned
  | raised (exc : String)
  deriving DecidableEq, Repr

structure Result where
  out : Out
  /-- `cmd.sense` after the call (iSCSI only) -/
  cmdSense : Option Bytes
  /-- `cmd.raw_sense_data` if it was set by this call -/
  rawSense : Option Bytes
  /-- the sense buffer the raised CheckCondition was built from -/
  errSense : Option Bytes
  deriving DecidableEq, Repr

def st (name : String) : Nat := ((Gen.scsiStatus.find? (·.1 == name)).map (·.2)).getD 0xFFFF

/-- raising `self.CheckCondition(sense)`: the constructor itself raises for `None` / empty buffers -/
def raiseCheckCondition (sense : Option Bytes) : Out :=
  match sense with
  | none => .raised "TypeError"
  | some [] => .raised "IndexError"
  | some _ => .raised "CheckCondition"

/-- `ISCSIDevice.execute` given `task.status`, `task.raw_sense` (`none` = attribute absent), the
command's previous `sense` attribute and `en_raw_sense` -/
def iscsiErrName (status : Nat) : String :=
  if status = st "RESERVATION_CONFLICT" then "ReservationConflict"
  else if status = st "TASK_ABORTED" then "TaskAborted"
  else if status = st "BUSY" then "BusyStatus"
  else if status = st "TASK_SET_FULL" then "TaskSetFull"
  else if status = st "ACA_ACTIVE" then "ACAActive"
  else if status = st "CONDITIONS_MET" then "ConditionsMet"
  else "RuntimeError"

def iscsi (status : Nat) (taskSense : Option Bytes) (prevSense : Option Bytes) (enRaw : Bool) : Result :=
  if status = st "CHECK_CONDITION" then
    let s := match taskSense with
      | some x => some x
      | none => prevSense
    ⟨raiseCheckCondition s, s, if enRaw then s else none, s⟩
  else ⟨if status = st "GOOD" then .returned else .raised (iscsiErrName status), prevSense, none, none⟩

/-- `SCSIDevice.execute` given the status the target reported (through the binding contract) -/
def sgio (status : Nat) (sense : Option Bytes) (enRaw : Bool) : Result :=
  if status = 0x00 then ⟨.returned, none, none, none⟩
  else if status = 0x02 then
    if enRaw then ⟨.returned, none, sense, none⟩
    else ⟨raiseCheckCondition sense, none, none, sense⟩
  else ⟨.raised "UnspecifiedError", none, none, none⟩

/-- a sequence of commands on the iSCSI transport, each `(command object index, status, task sense, enRaw)`;
    the per-command `sense` attribute is the only state carried from one execution to the next -/
def iscsiSeq (senses : List (Option Bytes)) : List (Nat × Nat × Option Bytes × Bool) → List Result
  | [] => []
  | (k, status, ts, raw) :: rest =>
    let r := iscsi status ts ((senses[k]?).getD none) raw
    r :: iscsiSeq (senses.set k r.cmdSense) rest

end Exec
