import ScsiVerif.Model.Conv
/-!
Model of `pyscsi.utils.enum.Enum`: an enumeration is an insertion-ordered association list with
unique names (the attributes of a freshly created class, in `vars(cls)` order, after the `keys`
filter).  Domain (`PlainName`/`PlainValue`, see DESIGN.md): names that do not start with `__` and do
not collide with an attribute of the metaclass; values that are not callable.
-/
namespace EnumM
open Conv

abbrev E (V : Type) := List (String × V)

def keys {V : Type} (e : E V) : List String := e.map (·.1)

/-- `getattr(enum, name)`; `none` = AttributeError -/
def lookup {V : Type} (e : E V) (k : String) : Option V := (e.find? (·.1 == k)).map (·.2)

/-- `key in enum.keys` -/
def has {V : Type} (e : E V) (k : String) : Bool := (lookup e k).isSome

/-- `enum[value]`: the first key (in `keys` order) whose value `==` the argument, else `""` -/
def rev {V : Type} [BEq V] (e : E V) (v : V) : String := ((e.find? (·.2 == v)).map (·.1)).getD ""

/-- `enum.add(key, value)` -/
def add {V : Type} (e : E V) (k : String) (v : V) : Except PyErr (E V) :=
  if has e k then .error .keyError else .ok (e ++ [(k, v)])

/-- `enum.remove(key)` -/
def remove {V : Type} (e : E V) (k : String) : Except PyErr (E V) :=
  if has e k then .ok (e.filter (·.1 != k)) else .error .keyError

inductive Op (V : Type)
  | add (k : String) (v : V)
  | remove (k : String)
  deriving Repr

/-- apply an operation; a refused operation leaves the enumeration unchanged -/
def step {V : Type} (e : E V) : Op V → E V × Bool
  | .add k v => match add e k v with
    | .ok e' => (e', true)
    | .error _ => (e, false)
  | .remove k => match remove e k with
    | .ok e' => (e', true)
    | .error _ => (e, false)

def run {V : Type} (e : E V) : List (Op V) → E V
  | [] => e
  | op :: rest => run (step e op).1 rest

/-! several enumerations alive at once -/
def stepAt {V : Type} (w : List (E V)) (i : Nat) (op : Op V) : List (E V) :=
  w.mapIdx (fun j e => if j = i then (step e op).1 else e)

/-! the ordinary dictionary the property compares with: a partial function plus insertion order -/
structure Spec (V : Type) where
  val : String → Option V
  order : List String

def Spec.step {V : Type} (s : Spec V) : Op V → Spec V
  | .add k v => if (s.val k).isSome then s
      else ⟨fun x => if x = k then some v else s.val x, s.order ++ [k]⟩
  | .remove k => if (s.val k).isSome then ⟨fun x => if x = k then none else s.val x, s.order.filter (· != k)⟩
      else s

def abs {V : Type} (e : E V) : Spec V := ⟨lookup e, keys e⟩

end EnumM
