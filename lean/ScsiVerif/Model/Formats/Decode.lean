import ScsiVerif.Model.PV
import ScsiVerif.Gen.Tables
/-!
Models of the `unmarshall_datain` routines (response decoders), line by line.  Every function is a
total Lean function: the recursion that mirrors each Python `while len(data): …; data = data[k:]`
loop is accepted by Lean's termination checker only because its stride is positive — that
termination argument is C11's subject; the decoded values are C04's.
-/
namespace Dec
open Conv PVal

def b2i := baToInt

/-! ### header + fixed-size items: GET LBA STATUS, REPORT LUNS, PR IN READ KEYS -/

/-- `GetLBAStatus.unmarshall_datain` -/
def getLbaStatus (data : Bytes) : Except PyErr PV := do
  let d := slice data 8 (b2i (slice data 0 4) + 4)
  let items ← (pieces 16 d).mapM (fun p => do
    let r ← decodeInto p Gen.GetLBAStatus_datain_bits []
    pure (PV.dict r))
  pure (.dict [("lbas", .list items)])

/-- `ReportLuns.unmarshall_datain` -/
def reportLuns (data : Bytes) : Except PyErr PV := do
  let d := slice data 8 (b2i (slice data 0 4) + 8)
  let items ← (pieces 8 d).mapM (fun p => do
    let r ← decodeInto p Gen.ReportLuns_datain_bits []
    pure r)
  -- key = "lun%s" % count ; _r[key] = _r.pop("lun")
  let named := items.mapIdx (fun i r => PV.dict ((PDict.del r "lun").set ("lun" ++ toString i) ((r.get? "lun").getD .none)))
  pure (.dict [("luns", .list named)])

/-- `PersistentReserveInReadKeys.unmarshall_datain` -/
def prReadKeys (data : Bytes) : Except PyErr PV :=
  let gen := b2i (slice data 0 4)
  let al := b2i (slice data 4 8)
  let d := slice data 8 (al + 8)
  .ok (.dict [("pr_generation", .int gen), ("reservation_keys", .list ((pieces 8 d).map (fun p => .int (b2i p))))])

/-! ### flat formats -/

def readCapacity10 (data : Bytes) : Except PyErr PV := do
  pure (.dict (← decodeInto data Gen.ReadCapacity10_datain_bits []))

def readCapacity16 (data : Bytes) : Except PyErr PV := do
  pure (.dict (← decodeInto data Gen.ReadCapacity16_datain_bits []))

/-- body of `PersistentReserveInReadReservation.unmarshall_datain` once PRGENERATION and ADDITIONAL
    LENGTH have been read -/
def prReadReservationBody (gen al : Nat) (data : Bytes) : Except PyErr PV :=
  if al = 0 then .ok (.dict [("pr_generation", .int gen)])
  else if al ≠ 16 then .error .valueError
  else do pure (.dict (← decodeInto data Gen.PersistentReserveInReadReservation_bits [("pr_generation", .int gen)]))

/-- `PersistentReserveInReadReservation.unmarshall_datain` -/
def prReadReservation (data : Bytes) : Except PyErr PV :=
  prReadReservationBody (b2i (slice data 0 4)) (b2i (slice data 4 8)) data

/-- body of `PersistentReserveInReportCapabilities.unmarshall_datain` once the first table is decoded -/
def prReportCapabilitiesBody (len : Nat) (r : PDict) (data : Bytes) : Except PyErr PV :=
  if len = 0 then .ok (.dict [])
  else if len ≠ 8 then .error .valueError
  else do
    let m ← decodeInto data Gen.PersistentReserveInReportCapabilities_pr_type_mask_bits []
    pure (.dict ((PDict.del r "length").set "pr_type_mask" (.dict m)))

/-- `PersistentReserveInReportCapabilities.unmarshall_datain` -/
def prReportCapabilities (data : Bytes) : Except PyErr PV := do
  let r ← decodeInto data Gen.PersistentReserveInReportCapabilities_bits []
  let len ← getInt r "length"
  prReportCapabilitiesBody len r data

/-- `result[name] = result[msb] * 256 + result[lsb]; del result[msb]; del result[lsb]` -/
def combMsbLsb (r : PDict) (name msb lsb : String) : Except PyErr PDict := do
  let m ← getInt r msb
  let l ← getInt r lsb
  pure (((r.set name (.int (m * 256 + l))).del msb).del lsb)

/-- standard disc information: the three msb/lsb pairs are combined into one number each -/
def discInfoStandard (data : Bytes) : Except PyErr PV := do
  let r ← decodeInto data Gen.ReadDiscInformation_sdi_bits []
  let r ← combMsbLsb r "number_of_sessions" "number_of_sessions_msb" "number_of_sessions_lsb"
  let r ← combMsbLsb r "first_track_number_in_last_session" "first_track_number_in_last_session_msb" "first_track_number_in_last_session_lsb"
  let r ← combMsbLsb r "last_track_number_in_last_session" "last_track_number_in_last_session_msb" "last_track_number_in_last_session_lsb"
  pure (.dict r)

def discInfoTrack (data : Bytes) : Except PyErr PV := do
  pure (.dict (← decodeInto data Gen.ReadDiscInformation_tri_bits []))

def discInfoPow (data : Bytes) : Except PyErr PV := do
  pure (.dict (← decodeInto data Gen.ReadDiscInformation_pow_bits []))

/-- dispatch on the DISC INFORMATION DATA TYPE (`data[2] >> 5`) -/
def discInfoByType (t : Nat) (data : Bytes) : Except PyErr PV :=
  if t = 0 then discInfoStandard data
  else if t = 1 then discInfoTrack data
  else if t = 2 then discInfoPow data
  else .error .notImplemented

/-- `ReadDiscInformation.unmarshall_datain` -/
def readDiscInformation (data : Bytes) : Except PyErr PV := do
  let b2 ← idx data 2
  discInfoByType (b2 >>> 5) data

/-! ### INQUIRY -/

def DESIGNATOR_VENDOR := 0
def DESIGNATOR_T10 := 1
def DESIGNATOR_EUI64 := 2
def DESIGNATOR_NAA := 3
def DESIGNATOR_RELPORT := 4
def DESIGNATOR_TPG := 5
def DESIGNATOR_LUG := 6
def DESIGNATOR_MD5 := 7
def DESIGNATOR_NAME := 8
def DESIGNATOR_PCIE := 9

/-- the fields selected by the NAA value (`if decode_dict["naa"] == NAA.…`) -/
def naaFields (data : Bytes) (naa : Nat) (d : PDict) : Except PyErr PDict := do
  let d ← if naa = 2 then decodeInto data Gen.Inquiry_naa_ieee_extended_bits d else pure d
  let d ← if naa = 3 then decodeInto data Gen.Inquiry_naa_locally_assigned_bits d else pure d
  let d ← if naa = 5 then decodeInto data Gen.Inquiry_naa_ieee_registered_bits d else pure d
  let d ← if naa = 6 then decodeInto data Gen.Inquiry_naa_ieee_registered_extended_bits d else pure d
  pure d

/-- the NAA branch of `Inquiry.unmarshall_designator` -/
def naaDesignator (data : Bytes) (d : PDict) : Except PyErr PDict := do
  let d ← decodeInto data Gen.Inquiry_naa_type_bits d
  let naa ← getInt d "naa"
  naaFields data naa d

/-- `Inquiry.unmarshall_designator(_type, data)` -/
def designator (ty : Nat) (data : Bytes) : Except PyErr PDict := do
  let d : PDict := []
  let d := if ty = DESIGNATOR_VENDOR then d.set "vendor_specific" (.bytes data) else d
  let d := if ty = DESIGNATOR_T10 then (d.set "t10_vendor_id" (.bytes (data.take 8))).set "vendor_specific_id" (.bytes (data.drop 8)) else d
  let d := if ty = DESIGNATOR_EUI64 then
      (if data.length = 8 then
        (d.set "ieee_company_id" (.int (b2i (slice data 0 3)))).set "vendor_specific_extension_id" (.bytes (slice data 3 8))
      else if data.length = 12 then
        ((d.set "ieee_company_id" (.int (b2i (slice data 0 3)))).set "vendor_specific_extension_id" (.bytes (slice data 3 8))).set
          "directory_id" (.bytes (data.drop 8))
      else if data.length = 16 then
        ((d.set "identifier_extension" (.bytes (data.take 8))).set "ieee_company_id" (.int (b2i (slice data 8 11)))).set
          "vendor_specific_extension_id" (.bytes (data.drop 11))
      else d)
    else d
  let d ← if ty = DESIGNATOR_NAA then naaDesignator data d else pure d
  let d ← if ty = DESIGNATOR_RELPORT then decodeInto data Gen.Inquiry_relative_port_bits d else pure d
  let d ← if ty = DESIGNATOR_TPG then decodeInto data Gen.Inquiry_target_portal_group_bits d else pure d
  let d ← if ty = DESIGNATOR_LUG then decodeInto data Gen.Inquiry_logical_unit_group_bits d else pure d
  let d := if ty = DESIGNATOR_MD5 then d.set "md5_logical_identifier" (.bytes (data.take 16)) else d
  let d := if ty = DESIGNATOR_NAME then d.set "scsi_name_string" (.bytes data) else d
  let d ← if ty = DESIGNATOR_PCIE then decodeInto data Gen.Inquiry_pci_express_routing_id_bits d else pure d
  pure d

/-- one iteration of the Device Identification loop (`l` = `data[3]`) -/
def designationDescriptor (data : Bytes) (l : Nat) : Except PyErr PDict := do
  let dd ← decodeInto data Gen.Inquiry_designator_bits []
  let piv ← getInt dd "piv"
  let assoc ← getInt dd "association"
  let dd := if piv = 0 ∨ (assoc ≠ 1 ∧ assoc ≠ 2) then dd.del "protocol_identifier" else dd
  let ty ← getInt dd "designator_type"
  let des ← designator ty (slice data 4 (4 + l))
  pure (dd.set "designator" (.dict des))

/-- the iterations of the Device Identification loop `while len(data): …; data = data[data[3] + 4:]`
    (stride ≥ 4): the bytes each iteration looks at; a tail shorter than 4 bytes is the last piece -/
def desChunks (data : Bytes) : List Bytes :=
  if _h : data.length = 0 then []
  else
    match data[3]? with
    | Option.none => [data]
    | some l => data.take (l + 4) :: desChunks (data.drop (l + 4))
termination_by data.length
decreasing_by
  simp only [List.length_drop]
  omega

def designators (data : Bytes) : Except PyErr (List PV) :=
  (desChunks data).mapM (fun c => do
    let l ← idx c 3
    let dd ← designationDescriptor c l
    pure (PV.dict dd))

/-- `Inquiry.unmarshall_ata_information` -/
def ataInformation (data : Bytes) : Except PyErr PDict := do
  let sig := slice data 36 41
  let ident := data.drop 44
  let result ← decodeInto data Gen.Inquiry_ata_information_bits []
  let r ← decodeInto sig Gen.Inquiry_ata_signature_bits []
  let result := result.set "signature" (.dict r)
  let r ← decodeInto ident Gen.Inquiry_ata_identify_bits r
  let gc ← decodeInto (ident.take 2) Gen.Inquiry_ata_identify_gen_conf_bits []
  let r := r.set "general_config" (.dict gc)
  -- `result.update({"signature": _r})` stored the same dict object that is updated afterwards
  let result := result.set "signature" (.dict r)
  pure (result.set "identify" (.dict r))

/-- `Inquiry.unmarshall_datain(data, evpd=0)`: standard INQUIRY data -/
def inquiryStd (data : Bytes) : Except PyErr PV := do
  let result ← decodeInto data Gen.Inquiry_datain_bits []
  pure (.dict (← decodeInto data Gen.Inquiry_standard_bits result))

/-- the page dispatch of `Inquiry.unmarshall_datain(data, evpd=1)`; `data` already cut to PAGE LENGTH + 4 -/
def inquiryVpdPage (pc : Nat) (data : Bytes) (result : PDict) : Except PyErr PV := do
  if pc = 0x00 then pure (.dict (result.set "vpd_pages" (.list ((data.drop 4).map PV.int))))
  else if pc = 0xB0 then pure (.dict (← decodeInto data Gen.Inquiry_block_limits_bits result))
  else if pc = 0xB1 then pure (.dict (← decodeInto data Gen.Inquiry_block_dev_char_bits result))
  else if pc = 0xB2 then pure (.dict (← decodeInto data Gen.Inquiry_logical_block_provisioning_bits result))
  else if pc = 0xB3 then pure (.dict (← decodeInto data Gen.Inquiry_referrals_bits result))
  else if pc = 0x80 then pure (.dict (result.set "unit_serial_number" (.bytes (data.drop 4))))
  else if pc = 0x86 then pure (.dict (← decodeInto data Gen.Inquiry_extended_bits result))
  else if pc = 0x89 then pure (.dict (result.update (← ataInformation data)))
  else if pc = 0x83 then
    let ds ← designators (data.drop 4)
    pure (.dict (result.set "designator_descriptors" (.list ds)))
  else pure .none     -- falls off the end of the function

/-- `Inquiry.unmarshall_datain(data, evpd=1)` -/
def inquiryVpd (data : Bytes) : Except PyErr PV := do
  let result ← decodeInto data Gen.Inquiry_datain_bits []
  let result ← decodeInto data Gen.Inquiry_pagecode_bits result
  let pc ← getInt result "page_code"
  inquiryVpdPage pc (data.take (4 + b2i (slice data 2 4))) result

/-- `Inquiry.unmarshall_datain(data, evpd)` -/
def inquiry (data : Bytes) (evpd : Nat) : Except PyErr PV :=
  if evpd = 0 then inquiryStd data else inquiryVpd data

/-! ### MODE SENSE -/

/-- the mode page part shared by `ModeSense6/10.unmarshall_datain` (`h` = header length) -/
def modePage (data : Bytes) (zero sub ea ctl ctl1 dr : Layout) : Except PyErr PDict := do
  let b0 ← idx data 0
  let (r, data) ← if b0 &&& 0x40 = 0 then do
      let r ← decodeInto data zero []
      pure (r, data.drop 2)
    else do
      let r ← decodeInto data sub []
      pure (r, data.drop 4)
  let pc ← getInt r "page_code"
  let hasSub := (r.get? "sub_page_code").isSome
  let r ← if pc = 0x1D then decodeInto data ea r else pure r
  let r ← if pc = 0x0A then
      (if !hasSub then decodeInto data ctl r
       else do
         let sp ← getInt r "sub_page_code"
         if sp = 1 then decodeInto data ctl1 r else pure r)
    else pure r
  let r ← if pc = 0x02 then (if !hasSub then decodeInto data dr r else pure r) else pure r
  pure r

def modeSense6 (data : Bytes) : Except PyErr PV := do
  let result ← decodeInto (slice data 0 4) Gen.MODESENSE6_mode_parameter_header_bits []
  let bdl ← idx data 3
  let r ← modePage (data.drop (4 + bdl)) Gen.MODESENSE6_page_zero_bits Gen.MODESENSE6_sub_page_bits
    Gen.MODESENSE6_element_address_bits Gen.MODESENSE6_control_bits Gen.MODESENSE6_control_extension_1_bits
    Gen.MODESENSE6_disconnect_reconnect_bits
  pure (.dict (result.set "mode_pages" (.list [.dict r])))

def modeSense10 (data : Bytes) : Except PyErr PV := do
  let result ← decodeInto (slice data 0 8) Gen.MODESENSE10_mode_parameter_header_bits []
  let bdl := b2i (slice data 6 8)
  let r ← modePage (data.drop (8 + bdl)) Gen.MODESENSE10_page_zero_bits Gen.MODESENSE10_sub_page_bits
    Gen.MODESENSE10_element_address_bits Gen.MODESENSE10_control_bits Gen.MODESENSE10_control_extension_1_bits
    Gen.MODESENSE10_disconnect_reconnect_bits
  pure (.dict (result.set "mode_pages" (.list [.dict r])))

/-! ### READ ELEMENT STATUS -/

/-- the optional volume tags of an element descriptor (`dd` = the bytes after the 12 fixed ones) -/
def elementTags (rr : PDict) (dd : Bytes) (pvol avol : Nat) : PDict :=
  let (rr, dd) := if pvol ≠ 0 then (rr.set "primary_volume_tag" (.bytes (dd.take 36)), dd.drop 36) else (rr, dd)
  if avol ≠ 0 then rr.set "alternate_volume_tag" (.bytes (dd.take 36)) else rr

/-- the fields that depend on the element type code of the page -/
def elementTypeFields (d : Bytes) (ety : Nat) (rr : PDict) : Except PyErr PDict := do
  let rr ← if ety = 4 then decodeInto d Gen.ReadElementStatus_data_transfer_descriptor_bits rr else pure rr
  let rr ← if ety = 2 then decodeInto d Gen.ReadElementStatus_storage_descriptor_bits rr else pure rr
  let rr ← if ety = 3 then decodeInto d Gen.ReadElementStatus_import_export_descriptor_bits rr else pure rr
  pure rr

/-- one iteration of the inner loop -/
def elementDescriptor (d : Bytes) (pvol avol ety : Nat) : Except PyErr PDict := do
  let rr ← decodeInto d Gen.ReadElementStatus_element_status_descriptor_bits []
  elementTypeFields d ety (elementTags rr (d.drop 12) pvol avol)

/-- the inner loop `while len(_d) and _edl: …; _d = _d[_edl:]` -/
def elementDescriptors (d : Bytes) (edl pvol avol ety : Nat) : Except PyErr (List PV) :=
  if _h : d.length = 0 ∨ edl = 0 then .ok []
  else
    match elementDescriptor d pvol avol ety with
    | .error e => .error e
    | .ok rr =>
      match elementDescriptors (d.drop edl) edl pvol avol ety with
      | .error e => .error e
      | .ok rest => .ok (.dict rr :: rest)
termination_by d.length
decreasing_by
  simp only [List.length_drop]
  omega

/-- one element status page (`bc`/`edl` = its byte count / element descriptor length fields) -/
def elementPage (data : Bytes) (bc edl : Nat) : Except PyErr PDict := do
  let r ← decodeInto data Gen.ReadElementStatus_element_status_page_bits []
  let pvol ← getInt r "pvoltag"
  let avol ← getInt r "avoltag"
  let ety ← getInt r "element_type"
  let eds ← elementDescriptors (slice data 8 (8 + bc)) edl pvol avol ety
  pure (r.set "element_descriptors" (.list eds))

/-- the outer loop over element status pages: stride `8 + byte count ≥ 8` -/
def elementPages (data : Bytes) : Except PyErr (List PV) :=
  if _h : data.length = 0 then .ok []
  else
    match elementPage data (b2i (slice data 5 8)) (b2i (slice data 2 4)) with
    | .error e => .error e
    | .ok r =>
      match elementPages (data.drop (8 + b2i (slice data 5 8))) with
      | .error e => .error e
      | .ok rest => .ok (.dict r :: rest)
termination_by data.length
decreasing_by
  simp only [List.length_drop]
  omega

def readElementStatus (data : Bytes) : Except PyErr PV := do
  let result ← decodeInto data Gen.ReadElementStatus_datain_bits []
  let bc := b2i (slice data 5 8)
  let pages ← elementPages (slice data 8 (8 + bc))
  pure (.dict (result.set "element_status_pages" (.list pages)))

/-! ### REPORT TARGET PORT GROUPS -/

/-- inner loop `while len(_data) and len(ports) < count: …; _data = _data[4:]`: at most `count`
    4-byte pieces (the last possibly short) -/
def targetPorts (d : Bytes) (count : Nat) : List PV × Bytes :=
  let ps := (pieces 4 d).take count
  (ps.map (fun p => PV.dict [("relative_target_port_id", .int (b2i (slice p 2 4)))]), d.drop (4 * ps.length))

def tpgHeader (d : Bytes) : Except PyErr (PDict × Nat) := do
  let t ← decodeInto d Gen.ReportTargetPortGroups_tpgd_bits []
  let cnt ← getInt t "target_port_count"
  pure (t, cnt)

/-- the iterations of the descriptor loop: 8 header bytes + at most `d[7]` 4-byte port entries -/
def tpgChunks (d : Bytes) : List Bytes :=
  if _h : d.length = 0 then []
  else
    let n := 8 + 4 * ((pieces 4 (d.drop 8)).take (d[7]?.getD 0)).length
    d.take n :: tpgChunks (d.drop n)
termination_by d.length
decreasing_by
  simp only [List.length_drop]
  omega

def tpgDescriptors (d : Bytes) : Except PyErr (List PV) :=
  (tpgChunks d).mapM (fun c => do
    let (t, cnt) ← tpgHeader c
    pure (PV.dict (t.set "target_ports" (.list (targetPorts (c.drop 8) cnt).1))))

def reportTargetPortGroups (data : Bytes) : Except PyErr PV := do
  let d := slice data 4 (b2i (slice data 0 4) + 4)
  let (result, d) ← if d.length ≥ 4 then do
      let r ← decodeInto d Gen.ReportTargetPortGroups_ext_hdr_bits []
      let ft ← getInt r "format_type"
      let result : PDict := [("format_type", .int ft)]
      if ft = 1 then do
        let itt ← getInt r "implicit_transition_time"
        pure (result.set "implicit_transition_time" (.int itt), d.drop 4)
      else pure (result, d)
    else pure ([("format_type", PV.int 0)], d)
  let ds ← tpgDescriptors d
  pure (.dict (result.set "target_port_group_descriptors" (.list ds)))

/-! ### REPORT PRIORITY -/

/-- loop of `ReportPriority.unmarshall_datain`: stride `8 + additional descriptor length ≥ 8` -/
def priorityDescriptors (d : Bytes) : Except PyErr (List PV) :=
  if _h : d.length = 0 then .ok []
  else
    match decodeInto d Gen.ReportPriority_data_bits [] with
    | .error e => .error e
    | .ok r =>
      match getInt r "adlen" with
      | .error e => .error e
      | .ok adlen =>
        match priorityDescriptors (d.drop (adlen + 8)) with
        | .error e => .error e
        | .ok rest => .ok (.dict (r.set "transport_id" (.bytes (slice d 8 (8 + adlen)))) :: rest)
termination_by d.length
decreasing_by
  simp only [List.length_drop]
  omega

/-- `ReportPriority.unmarshall_datain` -/
def reportPriority (data : Bytes) : Except PyErr PV := do
  let ds ← priorityDescriptors (slice data 4 (b2i (slice data 0 4) + 4))
  pure (.dict [("priority_descriptors", .list ds)])

/-! ### PERSISTENT RESERVE IN: READ FULL STATUS -/

/-- bytes → text: only printable ASCII is modelled (`.decode("utf-8").rstrip("\0")`) -/
def asciiRstrip0 (b : Bytes) : Except PyErr String :=
  if b.any (· ≥ 128) then .error .valueError   -- UnicodeDecodeError is a ValueError
  else
    let trimmed := (b.reverse.dropWhile (· == 0)).reverse
    .ok (String.ofList (trimmed.map Char.ofNat))

def splitOnce (s : String) (sep : String) : Option (String × String) :=
  match s.splitOn sep with
  | [a, b] => some (a, b)
  | _ => Option.none

/-- `unmarshall_transport_id` -/
def transportId (data : Bytes) : Except PyErr PDict := do
  let r ← decodeInto data Gen.PersistentReserveInReadFullStatus_transport_id_bits []
  let pid ← getInt r "protocol_id"
  if pid = 0 then pure (r.set "n_port_name" (.bytes (slice data 8 16)))
  else if pid = 3 then pure (r.set "eui64_name" (.bytes (slice data 8 16)))
  else if pid = 4 then pure (r.set "initiator_port_identifier" (.bytes (slice data 8 24)))
  else if pid = 5 then
    let al := b2i (slice data 2 4)
    let fmt ← getInt r "tpid_format"
    if fmt = 0 then do
      let s ← asciiRstrip0 (slice data 4 (al + 4))
      pure (r.set "iscsi_name" (.str s))
    else if fmt = 1 then do
      let s ← asciiRstrip0 (slice data 4 (al + 4))
      match splitOnce s ",i,0x" with
      | some (a, b) => pure ((r.set "iscsi_name" (.str a)).set "iscsi_initiator_session_id" (.str b))
      | Option.none => .error .valueError
    else .error .valueError
  else if pid = 6 then pure (r.set "sas_address" (.bytes (slice data 4 12)))
  else if pid = 0xA then pure (r.set "routing_id" (.bytes (slice data 4 12)))
  else .error .valueError

def fullStatusHeader (data : Bytes) : Except PyErr (PDict × Nat) := do
  let sd ← decodeInto data Gen.PersistentReserveInReadFullStatus_full_status_desc_bits []
  let adl ← getInt sd "additional_desc_length"
  pure (sd.del "additional_desc_length", adl)

/-- loop of READ FULL STATUS: stride `24 + additional descriptor length ≥ 24` -/
def fullStatusDescriptors (data : Bytes) : Except PyErr (List PV) :=
  if _h : data.length = 0 then .ok []
  else
    match fullStatusHeader data with
    | .error e => .error e
    | .ok (sd, adl) =>
      if adl > 0 then
        match transportId (data.drop 24) with
        | .error e => .error e
        | .ok tid =>
          match fullStatusDescriptors ((data.drop 24).drop adl) with
          | .error e => .error e
          | .ok more => .ok (.dict (sd.set "transport_id" (.dict tid)) :: more)
      else fullStatusDescriptors (data.drop 24)
termination_by data.length
decreasing_by
  all_goals simp only [List.length_drop]
  all_goals omega

def prReadFullStatus (data : Bytes) : Except PyErr PV := do
  let gen := b2i (slice data 0 4)
  let al := b2i (slice data 4 8)
  if al = 0 then pure (.dict [("pr_generation", .int gen), ("full_status", .list [])])
  else
    let ds ← fullStatusDescriptors (slice data 8 (al + 8))
    pure (.dict [("pr_generation", .int gen), ("full_status", .list ds)])

end Dec

namespace Dec
open Conv PVal

/-! ### READ CD (sector layouts; the loop runs `tl` times, bounded by the caller, not by the data) -/

/-- the main-channel selection remapping at the top of `ReadCd.unmarshall_datain`
    (`mcsb` already shifted left by 3); `none` = ValueError -/
def readCdMcsb (mcsb est : Nat) : Option Nat :=
  if [0x28, 0x48, 0x68, 0x88, 0x90, 0x98, 0xA8, 0xC0, 0xC8, 0xD0, 0xD8, 0xE8].contains mcsb ∧ est ≠ 1 then Option.none
  else if [0x30, 0xB0, 0xB8].contains mcsb ∧ est > 3 then Option.none
  else
    let m := mcsb
    let m := if est = 1 then 0x10 else m
    let m := if m = 0x08 ∧ est = 4 then 0x10 else m
    let m := if m = 0x38 ∧ est = 3 then 0x30 else m
    let m := if m = 0x58 ∧ est = 3 then 0x10 else m
    let m := if m = 0xB8 ∧ est = 3 then 0xB0 else m
    let m := if m = 0xF8 ∧ est = 3 then 0xB0 else m
    let m := if m = 0x40 ∧ (est = 2 ∨ est = 3) then 0x00 else m
    let m := if m = 0x50 ∧ est < 4 then 0x10 else m
    let m := if m = 0x58 ∧ est = 2 then 0x18 else m
    let m := if m = 0x60 ∧ (est = 2 ∨ est = 3) then 0x20 else m
    let m := if m = 0x70 ∧ (est = 2 ∨ est = 3) then 0x30 else m
    let m := if m = 0x78 ∧ (est = 2 ∨ est = 3) then 0x38 else m
    let m := if m = 0xE0 ∧ (est = 2 ∨ est = 3) then 0xA0 else m
    let m := if m = 0xF0 ∧ (est = 2 ∨ est = 3) then 0xB0 else m
    let m := if m = 0xF8 ∧ est = 2 then 0xB8 else m
    some (m >>> 3)

def subheader (d : Bytes) : Except PyErr PV := do
  let a ← idx d 0
  let b ← idx d 1
  let c ← idx d 2
  pure (.dict [("file-number", .int a), ("channel-number", .int b), ("sub-mode", .int c), ("data", .bytes (d.take 4))])

/-- one sector; returns the decoded sector and the rest of the buffer -/
def readCdSector (d : Bytes) (m est c2ei scsb : Nat) : Except PyErr (PDict × Bytes) := do
  let r : PDict := []
  let (r, d) := if m &&& 0x10 ≠ 0 then (r.set "sync" (.bytes (d.take 12)), d.drop 12) else (r, d)
  let (r, d) ← if m &&& 0x04 ≠ 0 then do
      let h ← decodeInto d Gen.ReadCd_sh_bits []
      pure (r.set "sector-header" (.dict h), d.drop 4)
    else pure (r, d)
  let (r, d) ← if m &&& 0x08 ≠ 0 then do
      let s1 ← subheader d
      let s2 ← subheader (d.drop 4)
      pure (r.set "sector-subheader" (.list [s1, s2]), d.drop 8)
    else pure (r, d)
  let (r, d) := if m &&& 0x02 ≠ 0 then
      (let n := if est = 1 then 2352 else if est = 2 then 2048 else if est = 3 then 2336 else if est = 4 then 2048
                else if est = 5 then 2324 else 0
       if 1 ≤ est ∧ est ≤ 5 then (r.set "data" (.bytes (d.take n)), d.drop n) else (r, d))
    else (r, d)
  let (r, d) ← if m &&& 0x01 ≠ 0 then
      (if est = 1 then pure (r, d)
       else if est = 2 then
         pure ((((r.set "edc" (.bytes (d.take 4))).set "p-parity" (.bytes ((d.drop 12).take 172))).set "q-parity"
           (.bytes ((d.drop 184).take 104))), d.drop 288)
       else if est = 3 then .error .valueError
       else if est = 4 then
         pure ((((r.set "edc" (.bytes (d.take 4))).set "p-parity" (.bytes ((d.drop 4).take 172))).set "q-parity"
           (.bytes ((d.drop 176).take 104))), d.drop 280)
       else if est = 5 then pure (r.set "edc" (.bytes (d.take 4)), d.drop 4)
       else .error .notImplemented)
    else pure (r, d)
  let (r, d) := if c2ei = 1 then (r.set "c2ei-data" (.bytes (d.take 294)), d.drop 294) else (r, d)
  let (r, d) := if c2ei = 2 then (r.set "c2ei" (.dict [("data", .bytes (d.take 296))]), d.drop 296) else (r, d)
  let (r, d) ← if scsb = 2 then do
      let sc ← decodeInto d Gen.ReadCd_sc2_bits []
      pure (r.set "subchannel" (.dict (sc.set "data" (.bytes (d.take 16)))), d.drop 16)
    else pure (r, d)
  let (r, d) := if scsb = 4 then (r.set "subchannel" (.dict [("data", .bytes (d.take 96))]), d.drop 96) else (r, d)
  pure (r, d)

def readCdLoop (d : Bytes) (m est c2ei scsb lba : Nat) : Nat → Except PyErr (List (String × PV))
  | 0 => .ok []
  | n + 1 => do
    let (r, d') ← readCdSector d m est c2ei scsb
    let rest ← readCdLoop d' m est c2ei scsb (lba + 1) n
    pure ((toString lba, PV.dict r) :: rest)

/-- `ReadCd.unmarshall_datain(d, lba, tl, est, mcsb, c2ei, scsb)`; keys of the result are the LBAs -/
def readCd (d : Bytes) (lba tl est mcsb c2ei scsb : Nat) : Except PyErr PV :=
  match readCdMcsb (mcsb <<< 3) est with
  | Option.none => .error .valueError
  | some m => do
    let r ← readCdLoop d m est c2ei scsb lba tl
    pure (.dict r)

end Dec
