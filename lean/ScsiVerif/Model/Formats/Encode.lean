import ScsiVerif.Model.PV
import ScsiVerif.Gen.Tables
import ScsiVerif.Gen.Enums
/-!
Models of the builders: `marshall_datain` of every structure the library can both build and parse
(C06), and the parameter lists the library composes for data-out commands (C05: MODE SELECT,
PERSISTENT RESERVE OUT with TransportIDs, EXTENDED COPY LID1 / LID4).  Line-by-line mirrors of the
Python; dictionaries are `PDict`, `data["k"]` is `getInt`/`getBytes`/… (KeyError when missing).
-/
namespace Enc
open Conv PVal

def hasKey (d : PDict) (k : String) : Bool := d.any (·.1 == k)

/-- `result[i] = v` on a bytearray (ValueError unless 0 ≤ v < 256) -/
def setByte (b : Bytes) (i v : Nat) : Except PyErr Bytes :=
  if v ≥ 256 then .error .valueError
  else if i < b.length then .ok (b.set i v) else .error .indexError

def asDict : PV → Except PyErr PDict
  | .dict d => .ok d
  | _ => .error .typeError

/-! ### flat structures and header + items -/

def readCapacity10 (d : PDict) : Except PyErr Bytes := encodeFrom d Gen.ReadCapacity10_datain_bits (zeros 8)
def readCapacity16 (d : PDict) : Except PyErr Bytes := encodeFrom d Gen.ReadCapacity16_datain_bits (zeros 32)

/-- `GetLBAStatus.marshall_datain` -/
def getLbaStatus (d : PDict) : Except PyErr Bytes :=
  match d.get? "lbas" with
  | Option.none => .ok (intToBa 4 4 ++ zeros 4)
  | some (.list ls) => do
    let items ← ls.mapM (fun l => do encodeFrom (← asDict l) Gen.GetLBAStatus_datain_bits (zeros 16))
    let body := items.flatten
    pure (intToBa (4 + body.length) 4 ++ zeros 4 ++ body)
  | some _ => .error .typeError

/-- `ReportLuns.marshall_datain`: the parser names the entries `lun0`, `lun1`, …; both spellings are accepted -/
def reportLuns (d : PDict) : Except PyErr Bytes :=
  match d.get? "luns" with
  | Option.none => .ok (intToBa 0 4 ++ zeros 4)
  | some (.list ls) => do
    let items ← (ls.mapIdx (fun i l => (i, l))).mapM (fun il => do
      let l ← asDict il.2
      let v := match l.get? ("lun" ++ toString il.1) with
        | some x => x
        | Option.none => (l.get? "lun").getD (.int 0)
      encodeFrom [("lun", v)] Gen.ReportLuns_datain_bits (zeros 8))
    let body := items.flatten
    pure (intToBa body.length 4 ++ zeros 4 ++ body)
  | some _ => .error .typeError

/-- `ReportTargetPortGroups.marshall_datain` -/
def reportTargetPortGroups (d : PDict) : Except PyErr Bytes := do
  let ext ← if (match d.get? "format_type" with | some (.int 1) => true | _ => false)
    then encodeFrom d Gen.ReportTargetPortGroups_ext_hdr_bits (zeros 4) else pure []
  let gs ← getList d "target_port_group_descriptors"
  let body ← gs.mapM (fun g => do
    let g ← asDict g
    let hdr ← encodeFrom g Gen.ReportTargetPortGroups_tpgd_bits (zeros 8)
    let ports ← getList g "target_ports"
    let ps ← ports.mapM (fun p => do
      let p ← asDict p
      pure (zeros 2 ++ intToBa (← getInt p "relative_target_port_id") 2))
    pure (hdr ++ ps.flatten))
  let rest := ext ++ body.flatten
  pure (intToBa rest.length 4 ++ rest)

/-- `ReportPriority.marshall_datain` -/
def reportPriority (d : PDict) : Except PyErr Bytes :=
  match d.get? "priority_descriptors" with
  | Option.none => .ok (intToBa 0 4)
  | some (.list ls) => do
    let items ← ls.mapM (fun l => do
      let l ← asDict l
      let tid ← match l.get? "transport_id" with
        | Option.none => pure []
        | some (.bytes b) => pure b
        | some _ => .error .typeError
      let r ← encodeFrom (l.set "adlen" (.int tid.length)) Gen.ReportPriority_data_bits (zeros 8)
      pure (r ++ tid))
    let body := items.flatten
    pure (intToBa body.length 4 ++ body)
  | some _ => .error .typeError

/-! ### READ ELEMENT STATUS -/

/-- `_rr = bytearray(36); _rr[:36] = _ed.get(tag, _rr)[:36]` -/
def volumeTag (ed : PDict) (key : String) : Except PyErr Bytes :=
  match ed.get? key with
  | Option.none => .ok (zeros 36)
  | some (.bytes b) => .ok (b.take 36)
  | some _ => .error .typeError

def elementDescriptor (ed : PDict) (ety pvol avol : Nat) : Except PyErr Bytes := do
  let rr ← encodeFrom ed Gen.ReadElementStatus_element_status_descriptor_bits (zeros 12)
  let rr ← if ety = 4 then encodeFrom ed Gen.ReadElementStatus_data_transfer_descriptor_bits rr else pure rr
  let rr ← if ety = 2 then encodeFrom ed Gen.ReadElementStatus_storage_descriptor_bits rr else pure rr
  let rr ← if ety = 3 then encodeFrom ed Gen.ReadElementStatus_import_export_descriptor_bits rr else pure rr
  let p ← if pvol ≠ 0 then volumeTag ed "primary_volume_tag" else pure []
  let a ← if avol ≠ 0 then volumeTag ed "alternate_volume_tag" else pure []
  pure (rr ++ p ++ a ++ zeros 4)

def elementPage (esp : PDict) : Except PyErr Bytes := do
  let r ← encodeFrom esp Gen.ReadElementStatus_element_status_page_bits (zeros 8)
  let pvol ← getInt esp "pvoltag"
  let avol ← getInt esp "avoltag"
  let edl := 16 + (if pvol ≠ 0 then 36 else 0) + (if avol ≠ 0 then 36 else 0)
  let ety ← getInt esp "element_type"
  let eds ← getList esp "element_descriptors"
  let ds ← eds.mapM (fun e => do elementDescriptor (← asDict e) ety pvol avol)
  let r := r ++ ds.flatten
  let r := setSlice r 2 4 (intToBa edl 2)
  pure (setSlice r 5 8 (intToBa (r.length - 8) 3))

/-- `ReadElementStatus.marshall_datain` -/
def readElementStatus (d : PDict) : Except PyErr Bytes := do
  let r ← encodeFrom d Gen.ReadElementStatus_datain_bits (zeros 8)
  let pages ← getList d "element_status_pages"
  let ps ← pages.mapM (fun p => do elementPage (← asDict p))
  let r := r ++ ps.flatten
  pure (setSlice r 5 8 (intToBa (r.length - 8) 3))

/-! ### INQUIRY -/

/-- `Inquiry.marshall_designator(_type, data)`; `none` = falls off the end (returns None) -/
def designator (ty : Nat) (d : PDict) : Except PyErr (Option Bytes) := do
  if ty = 0 then pure (some (← getBytes d "vendor_specific"))
  else if ty = 1 then pure (some ((← getBytes d "t10_vendor_id") ++ (← getBytes d "vendor_specific_id")))
  else if ty = 2 then
    if hasKey d "identifier_extension" then
      pure (some ((← getBytes d "identifier_extension") ++ intToBa (← getInt d "ieee_company_id") 3 ++
        (← getBytes d "vendor_specific_extension_id")))
    else if hasKey d "directory_id" then
      pure (some (intToBa (← getInt d "ieee_company_id") 3 ++ (← getBytes d "vendor_specific_extension_id") ++
        (← getBytes d "directory_id")))
    else pure (some (intToBa (← getInt d "ieee_company_id") 3 ++ (← getBytes d "vendor_specific_extension_id")))
  else if ty = 3 then do
    let r ← encodeFrom d Gen.Inquiry_naa_type_bits (zeros 16)
    let naa ← getInt d "naa"
    if naa = 2 then pure (some ((← encodeFrom d Gen.Inquiry_naa_ieee_extended_bits r).take 8))
    else if naa = 3 then pure (some ((← encodeFrom d Gen.Inquiry_naa_locally_assigned_bits r).take 8))
    else if naa = 5 then pure (some ((← encodeFrom d Gen.Inquiry_naa_ieee_registered_bits r).take 8))
    else if naa = 6 then pure (some ((← encodeFrom d Gen.Inquiry_naa_ieee_registered_extended_bits r).take 16))
    else pure Option.none
  else if ty = 4 then pure (some (← encodeFrom d Gen.Inquiry_relative_port_bits (zeros 4)))
  else if ty = 5 then pure (some (← encodeFrom d Gen.Inquiry_target_portal_group_bits (zeros 4)))
  else if ty = 6 then pure (some (← encodeFrom d Gen.Inquiry_logical_unit_group_bits (zeros 4)))
  else if ty = 7 then pure (some (← getBytes d "md5_logical_identifier"))
  else if ty = 8 then pure (some (← getBytes d "scsi_name_string"))
  else if ty = 9 then pure (some (← encodeFrom d Gen.Inquiry_pci_express_routing_id_bits (zeros 8)))
  else pure Option.none

/-- `marshall_designation_descriptor` given the table of the 4-byte header (the EXTENDED COPY
    identification descriptor uses the same code with its own table) -/
def designationDescriptorWith (hdr : Layout) (d : PDict) : Except PyErr Bytes := do
  let r ← encodeFrom d hdr (zeros 4)
  let ty ← getInt d "designator_type"
  let des ← designator ty (← getDict d "designator")
  match des with
  | Option.none => .error .typeError     -- bytearray += None
  | some b =>
    let r := r ++ b
    setByte r 3 (r.length - 4)

def designationDescriptor (d : PDict) : Except PyErr Bytes := designationDescriptorWith Gen.Inquiry_designator_bits d

/-- `Inquiry.marshall_datain` -/
def inquiry (d : PDict) : Except PyErr Bytes := do
  if !hasKey d "page_code" then
    let r ← encodeFrom d Gen.Inquiry_datain_bits (zeros 96)
    encodeFrom d Gen.Inquiry_standard_bits r
  else
    let r ← encodeFrom d Gen.Inquiry_datain_bits (zeros 4)
    let r ← encodeFrom d Gen.Inquiry_pagecode_bits r
    let pc ← getInt d "page_code"
    let r ← if pc = 0xB2 then encodeFrom d Gen.Inquiry_logical_block_provisioning_bits (r ++ zeros 4) else pure r
    let r ← if pc = 0x80 then do pure (r ++ (← getBytes d "unit_serial_number")) else pure r
    let r ← if pc = 0xB3 then encodeFrom d Gen.Inquiry_referrals_bits (r ++ zeros 12) else pure r
    let r ← if pc = 0x86 then encodeFrom d Gen.Inquiry_extended_bits (r ++ zeros 60) else pure r
    let r ← if pc = 0x83 then do
        let ds ← getList d "designator_descriptors"
        let bs ← ds.mapM (fun x => do designationDescriptor (← asDict x))
        pure (r ++ bs.flatten)
      else pure r
    pure (setSlice r 2 4 (intToBa (r.length - 4) 2))

/-! ### MODE SENSE / MODE SELECT -/

/-- one mode page of `ModeSense6/10.marshall_datain`; `none` body = `_mpd` unbound (UnboundLocalError,
    reported as a NameError-like failure: the library cannot marshal that page) -/
def modePageBody (mp : PDict) (spf : Bool) (pc : Nat) (ea ctl ctl1 dr : Layout) : Except PyErr (Option Bytes) := do
  let body : Option Bytes := Option.none
  let body ← if pc = 0x1D then do pure (some (← encodeFrom mp ea (zeros 18))) else pure body
  let body ← if pc = 0x0A then
      (if !spf then do pure (some (← encodeFrom mp ctl (zeros 10)))
       else do
         let sp ← getInt mp "sub_page_code"
         if sp = 1 then do pure (some (← encodeFrom mp ctl1 (zeros 28))) else pure body)
    else pure body
  let body ← if pc = 0x02 then (if !spf then do pure (some (← encodeFrom mp dr (zeros 14))) else pure body) else pure body
  pure body

/-- `_d[1] = len(_mpd)` / `_d[2:4] = scsi_int_to_ba(len(_mpd), 2)`, then `result += _d; result += _mpd` -/
def modePageAssemble (spf : Bool) (hdr b : Bytes) : Except PyErr Bytes := do
  let hdr ← if !spf then setByte hdr 1 b.length else pure (setSlice hdr 2 4 (intToBa b.length 2))
  pure (hdr ++ b)

/-- `mp["spf"]` (KeyError when absent) -/
def modePageSpf (mp : PDict) : Except PyErr PV :=
  match mp.get? "spf" with | some v => pure v | Option.none => .error .keyError

/-- the page header: page_0 format (2 bytes) or sub_page format (4 bytes) -/
def modePageHeader (mp : PDict) (spf : Bool) (zero sub : Layout) : Except PyErr Bytes :=
  if !spf then encodeFrom mp zero (zeros 2) else encodeFrom mp sub (zeros 4)

def modePageFinish (spf : Bool) (hdr : Bytes) : Option Bytes → Except PyErr Bytes
  | Option.none => .error .attributeError      -- UnboundLocalError: `_mpd` referenced before assignment
  | some b => modePageAssemble spf hdr b

def modePage (mp : PDict) (zero sub ea ctl ctl1 dr : Layout) : Except PyErr Bytes := do
  let sv ← modePageSpf mp
  let hdr ← modePageHeader mp (truthy? (some sv)) zero sub
  let pc ← getInt mp "page_code"
  let body ← modePageBody mp (truthy? (some sv)) pc ea ctl ctl1 dr
  modePageFinish (truthy? (some sv)) hdr body

def modePages6 (d : PDict) : Except PyErr Bytes := do
  let mps ← getList d "mode_pages"
  let ps ← mps.mapM (fun mp => do
    modePage (← asDict mp) Gen.MODESENSE6_page_zero_bits Gen.MODESENSE6_sub_page_bits Gen.MODESENSE6_element_address_bits
      Gen.MODESENSE6_control_bits Gen.MODESENSE6_control_extension_1_bits Gen.MODESENSE6_disconnect_reconnect_bits)
  pure ps.flatten

/-- `ModeSense6.marshall_datain` (= the MODE SELECT(6) parameter list) -/
def modeSense6 (d : PDict) : Except PyErr Bytes := do
  let r ← encodeFrom d Gen.MODESENSE6_mode_parameter_header_bits (zeros 4)
  let r := r ++ (← modePages6 d)
  setByte r 0 (r.length - 1)

def modePages10 (d : PDict) : Except PyErr Bytes := do
  let mps ← getList d "mode_pages"
  let ps ← mps.mapM (fun mp => do
    modePage (← asDict mp) Gen.MODESENSE10_page_zero_bits Gen.MODESENSE10_sub_page_bits Gen.MODESENSE10_element_address_bits
      Gen.MODESENSE10_control_bits Gen.MODESENSE10_control_extension_1_bits Gen.MODESENSE10_disconnect_reconnect_bits)
  pure ps.flatten

/-- `ModeSense10.marshall_datain` (= the MODE SELECT(10) parameter list) -/
def modeSense10 (d : PDict) : Except PyErr Bytes := do
  let r ← encodeFrom d Gen.MODESENSE10_mode_parameter_header_bits (zeros 8)
  let r := r ++ (← modePages10 d)
  pure (setSlice r 0 2 (intToBa (r.length - 2) 2))

/-! ### TransportIDs and PERSISTENT RESERVE OUT -/

/-- `_pad4_len(s)`: room for the string and a null terminator, rounded up to a multiple of 4 -/
def pad4Len (n : Nat) : Nat :=
  let l := n + 1
  if l % 4 ≠ 0 then l + (4 - l % 4) else l

def strBytes (s : String) : Bytes := s.toUTF8.toList.map (·.toNat)

def getStr (d : PDict) (k : String) : Except PyErr String :=
  match d.get? k with
  | some (.str s) => .ok s
  | some _ => .error .typeError
  | Option.none => .error .keyError

/-- the iSCSI branch of `marshall_transport_id` once the string `s` is known -/
def transportIdIscsi (d : PDict) (s : String) : Except PyErr Bytes := do
  let r ← encodeFrom d Gen.PersistentReserveInReadFullStatus_transport_id_bits (zeros (4 + pad4Len s.length))
  let r := setSlice r 2 4 (intToBa (r.length - 4) 2)
  pure (setSlice r 4 (s.length + 4) (strBytes s))

/-- `PersistentReserveInReadFullStatus.marshall_transport_id` -/
def transportId (d : PDict) : Except PyErr Bytes := do
  let pid ← getInt d "protocol_id"
  let tbl := Gen.PersistentReserveInReadFullStatus_transport_id_bits
  if pid = 5 then
    let fmt := truthy? (d.get? "tpid_format")
    let isid := truthy? (d.get? "iscsi_initiator_session_id")
    if fmt && !isid then .error .valueError
    else if isid && !fmt then .error .valueError
    else
      let s ← if isid then do pure ((← getStr d "iscsi_name") ++ ",i,0x" ++ (← getStr d "iscsi_initiator_session_id"))
              else getStr d "iscsi_name"
      transportIdIscsi d s
  else
    let r ← encodeFrom d tbl (zeros 24)
    if pid = 0 then pure (setSlice r 8 16 ((← getBytes d "n_port_name").take 8))
    else if pid = 3 then pure (setSlice r 8 16 ((← getBytes d "eui64_name").take 8))
    else if pid = 4 then pure (setSlice r 8 24 ((← getBytes d "initiator_port_identifier").take 16))
    else if pid = 6 then pure (setSlice r 4 12 ((← getBytes d "sas_address").take 8))
    else if pid = 0xA then pure (setSlice r 4 12 ((← getBytes d "routing_id").take 8))
    else pure r

/-- REGISTER AND MOVE list once the TransportID bytes are known (`tid = []` when none is given) -/
def prOutRamWith (d : PDict) (tid : Bytes) : Except PyErr Bytes := do
  let r ← encodeFrom (d.set "transportid_length" (.int tid.length)) Gen.PersistentReserveOut_ram_parameter_list_bits (zeros 24)
  pure (r ++ tid)

/-- basic list with SPEC_I_PT once the additional parameter data (the TransportIDs) is known -/
def prOutSpecWith (d : PDict) (add : Bytes) : Except PyErr Bytes := do
  let r ← encodeFrom d Gen.PersistentReserveOut_basic_parameter_list_bits (zeros 28)
  pure (setSlice r 24 28 (intToBa add.length 4) ++ add)

/-- `PersistentReserveOut.marshall_dataout(opcode, service_action, data)`;
    `sa`: 0 = any other service action, 1 = REGISTER, 2 = REGISTER AND MOVE -/
def prOut (sa : Nat) (d : PDict) : Except PyErr Bytes := do
  if sa = 2 then
    if truthy? (d.get? "transport_id") then
      let tid ← transportId (← getDict d "transport_id")
      prOutRamWith d tid
    else prOutRamWith d []
  else if sa = 1 && truthy? (d.get? "spec_i_pt") then
    let ts ← match d.get? "transport_ids" with
      | Option.none => pure []
      | some (.list l) => pure l
      | some _ => .error .typeError
    let tids ← ts.mapM (fun t => do transportId (← asDict t))
    prOutSpecWith d tids.flatten
  else
    encodeFrom d Gen.PersistentReserveOut_basic_parameter_list_bits (zeros 24)

/-! ### EXTENDED COPY (LID1: SPC-4 module, LID4: SPC-5 module) -/

structure XTables where
  header : Layout
  headerLen : Nat
  target : Layout
  block : Layout
  sequential : Layout
  processor : Layout
  designator : Layout
  segB2S : Layout
  segS2B : Layout
  segB2B : Layout
  targetCodes : List (Nat × Nat)     -- (descriptor type code, size)
  deviceCodes : List Nat
  segmentCodes : List Nat

def codeTable (m a : String) : List (Nat × Nat) :=
  ((Gen.codeTables.find? (fun t => t.2.1 == m && t.2.2.1 == a)).map (·.2.2.2)).getD []

def x4 : XTables := {
  header := Gen.ExtendedCopy_parameter_list_bits, headerLen := 16,
  target := Gen.ExtendedCopy_target_descriptor_bits,
  block := Gen.ExtendedCopy_device_specific_target_descriptor_parameters_block,
  sequential := Gen.ExtendedCopy_device_specific_target_descriptor_parameters_sequential,
  processor := Gen.ExtendedCopy_device_specific_target_descriptor_parameters_processor,
  designator := Gen.ExtendedCopy_target_designator_bits,
  segB2S := Gen.ExtendedCopy_segment_descriptor_bits_block_to_stream,
  segS2B := Gen.ExtendedCopy_segment_descriptor_bits_stream_to_block,
  segB2B := Gen.ExtendedCopy_segment_descriptor_bits_block_to_block,
  targetCodes := codeTable "scsi_cdb_extended_copy_spc4" "_target_descriptor_type_codes",
  deviceCodes := (codeTable "scsi_cdb_extended_copy_spc4" "_device_type_codes").map (·.1),
  segmentCodes := (codeTable "scsi_cdb_extended_copy_spc4" "_segment_descriptor_type_codes").map (·.1) }

def x5 : XTables := {
  header := Gen.ExtendedCopy_parameter_list_bits_spc5, headerLen := 48,
  target := Gen.ExtendedCopy_cscd_descriptor_bits_spc5,
  block := Gen.ExtendedCopy_device_specific_cscd_descriptor_parameters_block_spc5,
  sequential := Gen.ExtendedCopy_device_specific_cscd_descriptor_parameters_sequential_spc5,
  processor := Gen.ExtendedCopy_device_specific_cscd_descriptor_parameters_processor_spc5,
  designator := Gen.ExtendedCopy_cscd_designator_bits_spc5,
  segB2S := Gen.ExtendedCopy_segment_descriptor_bits_block_to_stream_spc5,
  segS2B := Gen.ExtendedCopy_segment_descriptor_bits_stream_to_block_spc5,
  segB2B := Gen.ExtendedCopy_segment_descriptor_bits_block_to_block_spc5,
  targetCodes := codeTable "scsi_cdb_extended_copy_spc5" "_cscd_descriptor_type_codes",
  deviceCodes := (codeTable "scsi_cdb_extended_copy_spc5" "_device_type_codes").map (·.1),
  segmentCodes := (codeTable "scsi_cdb_extended_copy_spc5" "_segment_descriptor_type_codes").map (·.1) }

/-- `get_code_int` for integer codes (names / descriptions are resolved by the harness) -/
def codeInt (d : PDict) (key : String) (valid : List Nat) : Except PyErr Nat :=
  match d.get? key with
  | some (.int n) => if valid.contains n then .ok n else .error .valueError
  | _ => .error .valueError

def optInt (d : PDict) (k : String) : Except PyErr Nat :=
  match d.get? k with
  | Option.none => .ok 0
  | some (.int n) => .ok n
  | some _ => .error .typeError

/-- `marshall_target` / `marshall_cscd`; `paramsKey` = "target_descriptor_parameters" / "cscd_descriptor_parameters" -/
def xTarget (t : XTables) (paramsKey : String) (d : PDict) : Except PyErr Bytes := do
  let valid := t.target.map (·.1) ++ [paramsKey, "device_type_specific_parameters"]
  if d.any (fun kv => !valid.contains kv.1) then .error .valueError
  else
    let code ← codeInt d "descriptor_type_code" (t.targetCodes.map (·.1))
    let pdt ← codeInt d "peripheral_device_type" t.deviceCodes
    let lu ← optInt d "lu_id_type"
    if lu ≠ 0 then .error .valueError
    else
      let ripi ← optInt d "relative_initiator_port_identifier"
      let size := ((t.targetCodes.find? (·.1 == code)).map (·.2)).getD 0
      let r ← encodeFrom [("descriptor_type_code", .int code), ("peripheral_device_type", .int pdt), ("lu_id_type", .int lu),
        ("relative_initiator_port_identifier", .int ripi)] t.target (zeros size)
      if code ≠ 0xE4 then .error .notImplemented
      else
        let params ← match d.get? paramsKey with
          | Option.none => pure []
          | some (.dict p) => pure p
          | some _ => .error .typeError
        let des ← designationDescriptorWith t.designator params
        let r := setSlice r 4 (4 + des.length) des
        let dp ← match d.get? "device_type_specific_parameters" with
          | Option.none => pure []
          | some (.dict p) => pure p
          | some _ => .error .typeError
        if [0x00, 0x04, 0x05, 0x07, 0x0E].contains pdt then
          encodeFrom [("pad", .int (← optInt dp "pad")), ("disk_block_length", .int (← optInt dp "disk_block_length"))] t.block r
        else if pdt = 0x01 then
          encodeFrom [("fixed", .int (← optInt dp "fixed")), ("pad", .int (← optInt dp "pad")),
            ("stream_block_length", .int (← optInt dp "stream_block_length"))] t.sequential r
        else if pdt = 0x03 then encodeFrom [("pad", .int (← optInt dp "pad"))] t.processor r
        else pure r

/-- `encode_segment_dict` -/
def xEncodeSegment (d : PDict) (lay : Layout) (n : Nat) : Except PyErr Bytes :=
  let d := d.set "descriptor_length" (.int (n - 4))
  if d.any (fun kv => !(lay.map (·.1)).contains kv.1) then .error .valueError
  else encodeFrom d lay (zeros n)

/-- `marshall_segment` -/
def xSegment (t : XTables) (d : PDict) : Except PyErr Bytes := do
  let code ← codeInt d "descriptor_type_code" t.segmentCodes
  let d := d.set "descriptor_type_code" (.int code)
  if code = 0x00 ∨ code = 0x0B then xEncodeSegment d t.segB2S 24
  else if code = 0x01 ∨ code = 0x0C then xEncodeSegment d t.segS2B 24
  else if code = 0x02 ∨ code = 0x0D then xEncodeSegment d t.segB2B 28
  else .error .notImplemented

/-- the parameter list once the descriptor bytes are known: header with the three list lengths
    written into it, then CSCD descriptors, segment descriptors, inline data -/
def xAssemble (t : XTables) (hdr : PDict) (ts ss inline : Bytes) (tlKey : String) : Except PyErr Bytes := do
  let hd := ((hdr.set tlKey (.int ts.length)).set "segment_descriptor_list_length" (.int ss.length)).set
    "inline_data_length" (.int inline.length)
  let r ← encodeFrom hd t.header (zeros t.headerLen)
  pure (r ++ ts ++ ss ++ inline)

/-- `marshall_parameter_list`; `hdr` = the header dictionary the constructor assembles (without the
    three list lengths, which are computed here) -/
def xParameterList (t : XTables) (paramsKey : String) (hdr : PDict) (targets segments : List PV) (inline : Bytes)
    (tlKey : String) : Except PyErr Bytes := do
  let ts ← targets.mapM (fun x => do xTarget t paramsKey (← asDict x))
  let ss ← segments.mapM (fun x => do
    let s ← xSegment t (← asDict x)
    if s.isEmpty then .error .valueError else pure s)
  xAssemble t hdr ts.flatten ss.flatten inline tlKey

end Enc
