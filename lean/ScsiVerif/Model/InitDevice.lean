import ScsiVerif.Model.Conv
/-!
Model of `pyscsi.utils.init_device` (prefix dispatch with lazy imports) and of the guards at the
top of `SCSIDevice.__init__` / `ISCSIDevice.__init__` (`_has_sgio and device[:5] == "/dev/"`,
`_has_iscsi and device[:8] == "iscsi://"`), with the side effects that matter: which path is
opened in which mode, which initiator name / URL a connection is made with.
Device strings are `List Char`.
-/
namespace InitDevice

inductive Effect
  | openFile (path : List Char) (mode : String)
  | connect (url : List Char) (initiator : List Char)
  deriving DecidableEq, Repr

inductive Res
  | refused                         -- NotImplementedError
  | scsiDevice (path : List Char)
  | iscsiDevice (url : List Char)
  deriving DecidableEq, Repr

def devPrefix : List Char := "/dev/".toList
def iscsiPrefix : List Char := "iscsi://".toList

/-- `SCSIDevice(device, readwrite)` -/
def scsiCtor (dev : List Char) (hasSgio rw : Bool) : Res × List Effect :=
  if hasSgio ∧ dev.take 5 = devPrefix then (.scsiDevice dev, [.openFile dev (if rw then "w+b" else "rb")])
  else (.refused, [])

/-- `ISCSIDevice(device, initiator_name)`: `Context(initiator_name or device)`, `URL(ctx, device)`, connect -/
def iscsiCtor (dev : List Char) (hasIscsi : Bool) (initiator : List Char) : Res × List Effect :=
  if hasIscsi ∧ dev.take 8 = iscsiPrefix then
    (.iscsiDevice dev, [.connect dev (if initiator.length ≠ 0 then initiator else dev)])
  else (.refused, [])

/-- `init_device(dev, read_write, initiator_name)` -/
def initDevice (dev : List Char) (hasSgio hasIscsi rw : Bool) (initiator : List Char) : Res × List Effect :=
  if dev.take 5 = devPrefix then scsiCtor dev hasSgio rw
  else if dev.take 8 = iscsiPrefix then iscsiCtor dev hasIscsi initiator
  else (.refused, [])

end InitDevice
