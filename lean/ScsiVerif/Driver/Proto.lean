import ScsiVerif.Model.Conv
import ScsiVerif.Model.Command
/-!
Line protocol between the Python harness and the Lean model (one request per line, one reply per
line).  Tokens are separated by single spaces:

* numbers: decimal
* bytes:   `x` followed by hex digits (`x` alone is the empty buffer)
* layout:  `L` followed by `name:m:<mask>:<off>` / `name:b:<unit>:<off>:<len>` joined by `,`
* dict:    `D` followed by `name=i<dec>` / `name=x<hex>` joined by `,`

Replies: `ok …`, `err <PythonExceptionName>`.
-/
namespace Proto
open Conv

def hexDigit (c : Char) : Option Nat :=
  if '0' ≤ c ∧ c ≤ '9' then some (c.toNat - '0'.toNat)
  else if 'a' ≤ c ∧ c ≤ 'f' then some (c.toNat - 'a'.toNat + 10)
  else if 'A' ≤ c ∧ c ≤ 'F' then some (c.toNat - 'A'.toNat + 10)
  else none

def parseHexList : List Char → Option Bytes
  | [] => some []
  | [_] => none
  | a :: b :: rest => do
    let x ← hexDigit a
    let y ← hexDigit b
    let r ← parseHexList rest
    pure ((x * 16 + y) :: r)

def parseBytes (s : String) : Option Bytes :=
  match s.toList with
  | 'x' :: rest => parseHexList rest
  | _ => none

def hexChar (n : Nat) : Char :=
  if n < 10 then Char.ofNat ('0'.toNat + n) else Char.ofNat ('a'.toNat + n - 10)

def showBytes (b : Bytes) : String :=
  "x" ++ String.ofList (b.flatMap (fun v => [hexChar ((v / 16) % 16), hexChar (v % 16)]))

def splitOn (s : String) (sep : String) : List String :=
  if s.isEmpty then [] else s.splitOn sep

def parseFieldSpec (parts : List String) : Option (String × FieldSpec) :=
  match parts with
  | [name, "m", mask, off] => do
    let m ← mask.toNat?
    let o ← off.toNat?
    pure (name, .bits m o)
  | [name, "b", unit, off, len] => do
    let u ← unit.toNat?
    let o ← off.toNat?
    let l ← len.toNat?
    pure (name, .blob u o l)
  | _ => none

def parseLayout (s : String) : Option Layout :=
  match s.toList with
  | 'L' :: rest => (splitOn (String.ofList rest) ",").mapM (fun e => parseFieldSpec (e.splitOn ":"))
  | _ => none

def parseVal (s : String) : Option Val :=
  match s.toList with
  | 'i' :: rest => (String.ofList rest).toNat?.map Val.int
  | 'x' :: rest => (parseHexList rest).map Val.bytes
  | _ => none

def parseDict (s : String) : Option Dict :=
  match s.toList with
  | 'D' :: rest => (splitOn (String.ofList rest) ",").mapM (fun e =>
      match e.splitOn "=" with
      | [k, v] => (parseVal v).map (fun x => (k, x))
      | _ => none)
  | _ => none

def showVal : Val → String
  | .int n => "i" ++ toString n
  | .bytes b => showBytes b

def showDict (d : Dict) : String :=
  "D" ++ ",".intercalate (d.map (fun kv => kv.1 ++ "=" ++ showVal kv.2))

def showErr (e : PyErr) : String := "err " ++ e.name

def showExceptBytes : Except PyErr Bytes → String
  | .ok b => "ok " ++ showBytes b
  | .error e => showErr e

def showExceptDict : Except PyErr Dict → String
  | .ok d => "ok " ++ showDict d
  | .error e => showErr e


/-- environment of Python values: `E` + `name=i5` | `name=xhex` | `name=n` (None) | `name=t` | `name=f` -/
def parsePVal (s : String) : Option Cmd.PVal :=
  match s.toList with
  | ['n'] => some .none
  | ['t'] => some (.bool true)
  | ['f'] => some (.bool false)
  | 'i' :: rest => (String.ofList rest).toNat?.map Cmd.PVal.int
  | 'x' :: rest => (parseHexList rest).map Cmd.PVal.bytes
  | _ => none

def parseEnv (s : String) : Option Cmd.Env :=
  match s.toList with
  | 'E' :: rest => (splitOn (String.ofList rest) ",").mapM (fun e =>
      match e.splitOn "=" with
      | [k, v] => (parsePVal v).map (fun x => (k, x))
      | _ => none)
  | _ => none

def showPVal : Cmd.PVal → String
  | .none => "n"
  | .int n => "i" ++ toString n
  | .bytes b => showBytes b
  | .bool true => "t"
  | .bool false => "f"

end Proto
