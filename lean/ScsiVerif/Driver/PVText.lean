import ScsiVerif.Model.PV
import ScsiVerif.Driver.Proto
/-!
Text form of nested Python values on the line protocol:
`n` | `i<dec>` | `x<hex>` | `s<hex of utf-8>` | `[v,v,…]` | `{key=v,key=v,…}`  (no spaces).
-/
namespace PVText
open PVal Conv Proto

def showStrHex (s : String) : String := (showBytes (s.toUTF8.toList.map (·.toNat))).drop 1 |>.toString

mutual
  def showPV : PV → String
    | .none => "n"
    | .int n => "i" ++ toString n
    | .bytes b => showBytes b
    | .str s => "s" ++ showStrHex s
    | .list l => "[" ++ showList l ++ "]"
    | .dict d => "{" ++ showDictE d ++ "}"
  def showList : List PV → String
    | [] => ""
    | [x] => showPV x
    | x :: rest => showPV x ++ "," ++ showList rest
  def showDictE : List (String × PV) → String
    | [] => ""
    | [(k, v)] => k ++ "=" ++ showPV v
    | (k, v) :: rest => k ++ "=" ++ showPV v ++ "," ++ showDictE rest
end

def isAtomEnd (c : Char) : Bool := c == ',' || c == ']' || c == '}'

/-- recursive descent with fuel; returns the value and the rest of the input -/
def parse : Nat → List Char → Option (PV × List Char)
  | 0, _ => none
  | fuel + 1, cs =>
    match cs with
    | 'n' :: rest => some (.none, rest)
    | 'i' :: rest =>
      let ds := rest.takeWhile (fun c => !isAtomEnd c)
      (String.ofList ds).toNat?.map (fun n => (.int n, rest.dropWhile (fun c => !isAtomEnd c)))
    | 'x' :: rest =>
      let ds := rest.takeWhile (fun c => !isAtomEnd c)
      (parseHexList ds).map (fun b => (.bytes b, rest.dropWhile (fun c => !isAtomEnd c)))
    | 's' :: rest =>
      let ds := rest.takeWhile (fun c => !isAtomEnd c)
      (parseHexList ds).bind (fun b =>
        (String.fromUTF8? (ByteArray.mk (b.map (fun x => UInt8.ofNat x)).toArray)).map
          (fun s => (.str s, rest.dropWhile (fun c => !isAtomEnd c))))
    | '[' :: ']' :: rest => some (.list [], rest)
    | '[' :: rest =>
      let rec items (f : Nat) (cs : List Char) (acc : List PV) : Option (List PV × List Char) :=
        match f with
        | 0 => none
        | f' + 1 =>
          match parse fuel cs with
          | none => none
          | some (v, ',' :: more) => items f' more (v :: acc)
          | some (v, ']' :: more) => some ((v :: acc).reverse, more)
          | some _ => none
      (items (rest.length + 1) rest []).map (fun r => (.list r.1, r.2))
    | '{' :: '}' :: rest => some (.dict [], rest)
    | '{' :: rest =>
      let rec entries (f : Nat) (cs : List Char) (acc : List (String × PV)) : Option (List (String × PV) × List Char) :=
        match f with
        | 0 => none
        | f' + 1 =>
          let k := cs.takeWhile (· != '=')
          match cs.dropWhile (· != '=') with
          | '=' :: vs =>
            match parse fuel vs with
            | none => none
            | some (v, ',' :: more) => entries f' more ((String.ofList k, v) :: acc)
            | some (v, '}' :: more) => some (((String.ofList k, v) :: acc).reverse, more)
            | some _ => none
          | _ => none
      (entries (rest.length + 1) rest []).map (fun r => (.dict r.1, r.2))
    | _ => none

def parsePV (s : String) : Option PV :=
  match parse (s.length + 2) s.toList with
  | some (v, []) => some v
  | _ => none

def showExceptPV : Except PyErr PV → String
  | .ok v => "ok " ++ showPV v
  | .error e => showErr e

end PVText
