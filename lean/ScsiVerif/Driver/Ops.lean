import ScsiVerif.Driver.Proto
import ScsiVerif.Model.Compat
import ScsiVerif.Std.T10
import ScsiVerif.Model.Xfer
import ScsiVerif.Model.Guards
import ScsiVerif.Model.Facade
import ScsiVerif.Model.Attach
import ScsiVerif.Model.Sense
import ScsiVerif.Model.Exec
import ScsiVerif.Model.Handle
import ScsiVerif.Model.Enum
import ScsiVerif.Model.InitDevice
import ScsiVerif.Model.Isolation
import ScsiVerif.Std.Target
import ScsiVerif.Driver.PVText
import ScsiVerif.Model.Formats.Decode
import ScsiVerif.Std.Sense
import ScsiVerif.Gen.Commands
import ScsiVerif.Gen.Opcodes
import ScsiVerif.Gen.Tables
import ScsiVerif.Driver.StdOps
/-! Request dispatch for the line-protocol driver. -/
namespace Driver
open Conv Proto

/-- driver state carried between lines (stateful models register their state here) -/
structure State where
  target : Option Std.Target.T := none

def convOp (toks : List String) : Option String :=
  match toks with
  | ["i2b", v, n] => do
    let v ← v.toNat?
    let n ← n.toNat?
    pure ("ok " ++ showBytes (intToBa v n))
  | ["b2i", b] => do
    let b ← parseBytes b
    pure ("ok " ++ toString (baToInt b))
  | ["dec", data, layout] => do
    let d ← parseBytes data
    let l ← parseLayout layout
    pure (showExceptDict (decodeBits d l []))
  | ["enc", buf, layout, dict] => do
    let b ← parseBytes buf
    let l ← parseLayout layout
    let d ← parseDict dict
    pure (showExceptBytes (encodeDict d l b))
  | ["wf", layout, len] => do
    let l ← parseLayout layout
    let n ← len.toNat?
    pure ("ok " ++ toString (l.wf n))
  | _ => none

def genCmd (module cls : String) : Option Cmd.CmdDesc :=
  (Gen.commands.find? (fun c => c.1 == module && c.2.1.cls == cls)).map (·.2.1)

def stdCmd (module cls : String) : Option Std.Cdb :=
  Std.cdbs.find? (fun s => s.module == module && s.cls == cls)

def genSet (name : String) : Option (List (String × Cmd.OpCode)) :=
  (Gen.sets.find? (·.1 == name)).map (·.2)

def cmdOp (toks : List String) : Option String :=
  match toks with
  -- build <module> <cls> <set> <opname> E…   : the model's constructor on the library's opcode object
  | ["build", module, cls, set, opname, env] => do
    let d ← genCmd module cls
    let st ← genSet set
    let e ← parseEnv env
    match Compat.findOp st opname with
    | none => pure "err NoSuchOpcode"
    | some op =>
      match Cmd.build d op e with
      | .ok c => pure ("ok cdb=" ++ showBytes c.cdb ++ " dataout=" ++ showPVal c.dataout ++ " datain=" ++ toString c.datain.length)
      | .error x => pure (showErr x)
  -- stdcdb <module> <cls> <dataoutlen> E…   : the oracle's CDB (T10 opcode, SAM length, standard positions)
  | ["stdcdb", module, cls, dolen, env] => do
    let s ← stdCmd module cls
    let e ← parseEnv env
    let n ← dolen.toNat?
    let L ← Std.samLen s.opcode
    let op : Cmd.OpCode := ⟨s.opName, s.opcode, []⟩
    let vals := s.fields.map (fun g => match g.src with
      | .sa _ v => some v
      | src => Compat.srcVal op e (.bytes (List.replicate n 0)) src)
    if vals.any (·.isNone) then pure "err MissingArgument" else
    let tbl := s.fields.zip (vals.map (·.getD 0))
    pure ("ok " ++ showBytes (Std.encode L s.fields (fun g => ((tbl.find? (fun p => p.1 == g)).map (·.2)).getD 0)))
  -- stdfields <module> <cls> : name|byte|msb|width|srckind|srcarg ; …
  | ["stdfields", module, cls] => do
    let s ← stdCmd module cls
    let showSrc : Std.Src → String := fun
      | .arg p => "arg|" ++ p
      | .opcode => "opcode|"
      | .sa n v => "sa|" ++ n ++ "=" ++ toString v
      | .const n => "const|" ++ toString n
      | .paramListLen => "pll|"
      | .ataLba12 p => "ata12|" ++ p
      | .ataLba16 p => "ata16|" ++ p
    pure ("ok " ++ s.opName ++ " " ++ toString s.opcode ++ " " ++ ";".intercalate (s.fields.map (fun g =>
      g.name.replace " " "_" ++ "|" ++ toString g.byte ++ "|" ++ toString g.msb ++ "|" ++ toString g.width ++ "|" ++ showSrc g.src)))
  | ["initcdb", v] => do
    let n ← v.toNat?
    match Cmd.initCdbLen n with
    | .ok L => pure ("ok " ++ toString L)
    | .error x => pure (showErr x)
  -- stdxfer <module> <cls> E… : the buffers the standard's transfer rule prescribes
  | ["stdxfer", module, cls, env] => do
    let e ← parseEnv env
    let r ← (Std.xfers.find? (fun r => r.1 == module && r.2.1 == cls)).map (·.2.2)
    match Xfer.expected e r with
    | some (o, n) => pure ("ok dataout=" ++ showPVal o ++ " datain=" ++ toString n)
    | none => pure (match r with | .paramList => "paramlist" | .ata => "ata" | _ => "none")
  -- ata <tlen> <bb> <tdir> <ttype> <fet> <count> <bs> <extra|n> <data|n>
  | ["ata", a, b, c, d, e, f, g, x, y] => do
    let a ← a.toNat?; let b ← b.toNat?; let c ← c.toNat?; let d ← d.toNat?
    let e ← e.toNat?; let f ← f.toNat?; let g ← g.toNat?
    let x : Option Nat := x.toNat?
    let y : Option Conv.Bytes := parseBytes y
    let std := Std.ataBytes a b d e f g x
    match Xfer.ataBuffers a b c d e f g x y with
    | .ok (o, i) => pure ("ok dataout=" ++ toString o.length ++ " datain=" ++ toString i.length ++ " std=" ++ toString std)
    | .error err => pure (showErr err)
  | ["iscsixfer", a, b] => do
    let a ← a.toNat?; let b ← b.toNat?
    let r := Xfer.iscsiXfer a b
    pure ("ok " ++ (match r.1 with | .none => "none" | .read => "read" | .write => "write") ++ " " ++ toString r.2)
  | ["prdispatch", set, sa] => do
    let st ← genSet set
    let n ← sa.toInt?
    match Compat.findOp st "PERSISTENT_RESERVE_IN" with
    | none => pure "err AttributeError"
    | some op => match Guards.prInDispatchInt op.sas n with
      | .ok c => pure ("ok " ++ c)
      | .error e => pure (showErr e)
  -- facaderun <withUnmarshall 0|1> <construct ok|err> <device ok|err> <unmarshall ok|err>
  | ["facaderun", w, c, d, u] => do
    let f : String → Except Conv.PyErr Unit := fun x => if x == "ok" then .ok () else .error .valueError
    let r := Facade.run (w == "1") (f c) (f d) (f u)
    let ev : Facade.Ev → String := fun | .construct => "c" | .execute => "e" | .unmarshall => "u" | .ret => "r"
    pure ("ok execs=" ++ toString (Facade.executes r) ++ " trace=" ++ ",".intercalate (r.trace.map ev) ++ " " ++
      (match r.outcome with | .returned => "returned" | .raised _ => "raised"))
  -- attachrun <ndevices> <k:b,k:b,…> : attach history over fresh devices; reply: opcodes/devicetype/inquiries per device
  | ["attachrun", n, hist] => do
    let n ← n.toNat?
    let evs ← (splitOn hist ",").mapM (fun e => match e.splitOn ":" with
      | [k, b] => do let k ← k.toNat?; let b ← b.toNat?; pure (k, b)
      | _ => none)
    let w := Attach.run (List.replicate n {}) evs
    pure ("ok " ++ ";".intercalate (w.map (fun d => d.opcodes ++ "/" ++ (match d.devicetype with | some t => toString t | none => "none") ++ "/" ++ toString d.inquiries)))
  -- sense <hex> : SCSICheckCondition(sense) and str() of it; `std=` what SPC prescribes
  | ["sense", b] => do
    let b ← parseBytes b
    let std := match Std.senseFields b with
      | some (k, a, q) => toString k ++ "/" ++ toString a ++ "/" ++ toString q
      | none => "none"
    match Sense.mk b with
    | .error e => pure (showErr e ++ " std=" ++ std)
    | .ok e =>
      let t := match Sense.triple e with
        | some (k, a, q) => toString k ++ "/" ++ toString a ++ "/" ++ toString q
        | none => "none"
      match Sense.str e with
      | .ok s => pure ("ok triple=" ++ t ++ " std=" ++ std ++ " str=" ++ s)
      | .error x => pure ("ok triple=" ++ t ++ " std=" ++ std ++ " strerr=" ++ x.name)
  -- iscsiexec <status> <tasksense x..|absent> <prevsense x..|n> <raw 0|1>
  | ["iscsiexec", stt, ts, ps, raw] => do
    let stt ← stt.toNat?
    let ts : Option Conv.Bytes := parseBytes ts
    let ps : Option Conv.Bytes := parseBytes ps
    let r := Exec.iscsi stt ts ps (raw == "1")
    let so : Option Conv.Bytes → String := fun | some b => showBytes b | none => "n"
    pure ("ok " ++ (match r.out with | .returned => "returned" | .raised e => "raised:" ++ e) ++
      " sense=" ++ so r.cmdSense ++ " raw=" ++ so r.rawSense ++ " err=" ++ so r.errSense)
  | ["sgioexec", stt, sn, raw] => do
    let stt ← stt.toNat?
    let sn : Option Conv.Bytes := parseBytes sn
    let r := Exec.sgio stt sn (raw == "1")
    let so : Option Conv.Bytes → String := fun | some b => showBytes b | none => "n"
    pure ("ok " ++ (match r.out with | .returned => "returned" | .raised e => "raised:" ++ e) ++
      " raw=" ++ so r.rawSense ++ " err=" ++ so r.errSense)
  -- handlerun <detect 0|1> <x|r|u|f1|f0|c , …> : observations ; handles (ino/open/closeCalls) ; cur
  | ["handlerun", d, evs] => do
    let es ← (splitOn evs ",").mapM (fun e => match e with
      | "x" => some Handle.Ev.execute | "r" => some .replug | "u" => some .unplug
      | "f1" => some (.setCloseFail true) | "f0" => some (.setCloseFail false) | "c" => some .close | _ => none)
    let (w, obs) := Handle.run (Handle.init (d == "1")) es
    let so : Handle.Obs → String := fun | .sent h => "sent" ++ toString h | .error e => "err:" ++ e | .ok => "ok"
    pure ("ok " ++ ",".intercalate (obs.map so) ++ " " ++
      ",".intercalate (w.handles.map (fun h => toString h.ino ++ "/" ++ (if h.isOpen then "1" else "0") ++ "/" ++ toString h.closeCalls)) ++
      " cur=" ++ toString w.cur)
  -- enumworld <init0|init1|…> <op;op;…>   values are opaque tokens compared by equality
  | ["enumworld", inits, ops] => do
    let parseItems : String → Option (EnumM.E String) := fun s =>
      (splitOn s ",").mapM (fun kv => match kv.splitOn "=" with | [k, v] => some (k, v) | _ => none)
    let w0 ← (inits.splitOn "|").mapM parseItems
    let rec go (fuel : Nat) (w : List (EnumM.E String)) (ops : List String) (acc : List String) : List String :=
      match fuel, ops with
      | 0, _ => acc.reverse
      | _, [] => acc.reverse
      | f + 1, o :: rest =>
        match o.splitOn ":" with
        | ["a", i, k, v] =>
          let i := i.toNat!
          (match w[i]? with
           | some e => (match EnumM.add e k v with
             | .ok _ => go f (EnumM.stepAt w i (.add k v)) rest ("ok" :: acc)
             | .error x => go f w rest (x.name :: acc))
           | none => go f w rest ("bad" :: acc))
        | ["r", i, k] =>
          let i := i.toNat!
          (match w[i]? with
           | some e => (match EnumM.remove e k with
             | .ok _ => go f (EnumM.stepAt w i (.remove k)) rest ("ok" :: acc)
             | .error x => go f w rest (x.name :: acc))
           | none => go f w rest ("bad" :: acc))
        | ["g", i, k] => go f w rest (((w[i.toNat!]?.bind (fun e => EnumM.lookup e k)).getD "AttributeError") :: acc)
        | ["v", i, v] => go f w rest (("rev=" ++ (w[i.toNat!]?.map (fun e => EnumM.rev e v)).getD "bad") :: acc)
        | ["k", i] => go f w rest (("keys=" ++ ",".intercalate ((w[i.toNat!]?.map EnumM.keys).getD [])) :: acc)
        | _ => go f w rest ("bad-op" :: acc)
    pure ("ok " ++ ";".intercalate (go 100000 w0 (splitOn ops ";") []))
  -- initdev <dev hex> <sgio 0|1> <iscsi 0|1> <rw 0|1> <initiator hex>
  | ["initdev", dev, sg, isc, rw, ini] => do
    let toChars : String → Option (List Char) := fun h => (parseBytes h).map (fun b => b.map Char.ofNat)
    let d ← toChars dev
    let i ← toChars ini
    let (r, eff) := InitDevice.initDevice d (sg == "1") (isc == "1") (rw == "1") i
    let sc : List Char → String := fun l => showBytes (l.map Char.toNat)
    pure ("ok " ++ (match r with | .refused => "refused" | .scsiDevice p => "scsi:" ++ sc p | .iscsiDevice u => "iscsi:" ++ sc u) ++ " " ++
      ",".intercalate (eff.map (fun | .openFile p m => "open:" ++ sc p ++ ":" ++ m | .connect u n => "connect:" ++ sc u ++ ":" ++ sc n)))
  -- isorun <c:Cls:len | b:Cls | d:Cls , …> : what each build/decode works with (layout owner / length)
  | ["isorun", acts] => do
    let as ← (splitOn acts ",").mapM (fun a => match a.splitOn ":" with
      | ["c", c, n] => n.toNat?.map (fun n => Iso.Act.ctor c n)
      | ["b", c] => some (.build c)
      | ["d", c] => some (.decode c)
      | _ => none)
    let obs := Iso.run ⟨[], none⟩ as
    pure ("ok " ++ ",".intercalate (obs.map (fun
      | none => "-"
      | some (c, some n) => c ++ "/" ++ toString n
      | some (c, none) => c)))
  -- unm <decoder> <hex> <E args> : model of Class.unmarshall_datain
  | ["unm", name, data, env] => do
    let d ← parseBytes data
    let e ← parseEnv env
    let arg : String → Nat := fun k => ((e.find? (·.1 == k)).bind (fun kv => Cmd.asInt kv.2)).getD 0
    let r : Except Conv.PyErr PVal.PV := match name with
      | "getlbastatus" => Dec.getLbaStatus d
      | "reportluns" => Dec.reportLuns d
      | "prreadkeys" => Dec.prReadKeys d
      | "readcapacity10" => Dec.readCapacity10 d
      | "readcapacity16" => Dec.readCapacity16 d
      | "prreadreservation" => Dec.prReadReservation d
      | "prreportcapabilities" => Dec.prReportCapabilities d
      | "readdiscinformation" => Dec.readDiscInformation d
      | "inquiry" => Dec.inquiry d (arg "evpd")
      | "modesense6" => Dec.modeSense6 d
      | "modesense10" => Dec.modeSense10 d
      | "readelementstatus" => Dec.readElementStatus d
      | "reporttargetportgroups" => Dec.reportTargetPortGroups d
      | "prreadfullstatus" => Dec.prReadFullStatus d
      | "reportpriority" => Dec.reportPriority d
      | "readcd" => Dec.readCd d (arg "lba") (arg "tl") (arg "est") (arg "mcsb") (arg "c2ei") (arg "scsb")
      | _ => .error .notImplemented
    pure (PVText.showExceptPV r)
  | ["t10op", name] => pure (match Std.lookup Std.t10Opcodes name with | some v => "ok " ++ toString v | none => "none")
  | ["t10sahome", name] => pure (match Std.lookup Std.t10ServiceActionHome name with | some v => "ok " ++ toString v | none => "none")
  | ["t10sa", name] => pure (match Std.lookup Std.t10ServiceActions name with | some v => "ok " ++ toString v | none => "none")
  | ["t10ascq", code] => do
    -- the T10 text of an ASC/ASCQ pair (asc*256+ascq) in the oracle's list of well-known assignments
    let c ← code.toNat?
    pure (match Std.ascqNames.find? (fun e => e.1 * 256 + e.2.1 == c) with | some e => "ok " ++ e.2.2 | none => "none")
  | ["t10sensekey", k] => do
    let k ← k.toNat?
    pure (match Std.senseKeyNames.find? (fun e => e.1 == k) with | some e => "ok " ++ e.2 | none => "none")
  | ["samstatus", name] => pure (match Std.lookup Std.samStatus name with | some v => "ok " ++ toString v | none => "none")
  | ["samlen", v] => do
    let n ← v.toNat?
    match Std.samLen n with
    | some L => pure ("ok " ++ toString L)
    | none => pure "none"
  | _ => none

/-- the conformant Lean target behind the stand-in transports (stateful) -/
def targetOp (s : State) (toks : List String) : Option (State × String) :=
  match toks with
  | ["tgtnew", bs, cap, pdt] => do
    let bs ← bs.toNat?; let cap ← cap.toNat?; let pdt ← pdt.toNat?
    pure ({ s with target := some ⟨bs, cap, [], pdt, "LEANTGT ".toList.map Char.toNat, "CONFORMANT BLOCK ".toList.map Char.toNat⟩ }, "ok")
  | ["tgtcmd", cdb, dout, n] => do
    let cdb ← parseBytes cdb; let dout ← parseBytes dout; let n ← n.toNat?
    let t ← s.target
    let (t', r) := Std.Target.step t cdb dout n
    pure ({ s with target := some t' }, "ok " ++ (match r.status with | .good => "good" | .checkCondition => "cc") ++ " " ++ showBytes r.datain)
  | ["tgtaddr", cdb] => do
    -- the conformant target's reading of a READ/WRITE CDB (operation code, LBA, TRANSFER LENGTH by byte position)
    let cdb ← parseBytes cdb
    let (lba, tl) := Std.Target.addr cdb
    pure (s, "ok " ++ toString (cdb.headD 0) ++ " " ++ toString lba ++ " " ++ toString tl)
  | ["tgtdisk", lba] => do
    let lba ← lba.toNat?
    let t ← s.target
    pure (s, "ok " ++ showBytes (Std.Target.disk t lba))
  | _ => none

def step (s : State) (line : String) : State × String :=
  let toks := line.splitOn " "
  match targetOp s toks with
  | some r => r
  | none =>
  match convOp toks with
  | some r => (s, r)
  | none =>
  match cmdOp toks with
  | some r => (s, r)
  | none =>
  match StdOps.stdOp toks with
  | some r => (s, r)
  | none => (s, "bad-op")

end Driver
