import ScsiVerif.Driver.PVText
import ScsiVerif.Std.DataIn
import ScsiVerif.Std.DataIn2
import ScsiVerif.Std.DataOut
import ScsiVerif.Model.Formats.Encode
/-!
Line-protocol access to the oracle `Std.DataIn`: the harness asks Lean for the bytes of a block /
response as the standard prescribes them (it never encodes a standard structure itself).
-/
namespace StdOps
open Conv PVal Proto Std

def valsOfDict (d : Dict) : Vals := fun k =>
  match dictGet? d k with
  | some (.int n) => n
  | some (.bytes b) => beValue b
  | none => 0

def valsOfPV : PV → Vals
  | .dict d => fun k => match PDict.get? d k with
    | some (.int n) => n
    | some (.bytes b) => beValue b
    | _ => 0
  | _ => fun _ => 0

def pvBytes (v : PV) (k : String) : List Nat :=
  match v with
  | .dict d => (match PDict.get? d k with | some (.bytes b) => b | _ => [])
  | _ => []

def pvList (v : PV) (k : String) : List PV :=
  match v with
  | .dict d => (match PDict.get? d k with | some (.list l) => l | _ => [])
  | _ => []

def showField (g : DField) : String :=
  g.key ++ "/" ++ toString g.byte ++ "/" ++ toString g.msb ++ "/" ++ toString g.width

def showBlock (b : Block) : String :=
  b.name ++ ":" ++ toString b.base ++ ":" ++ toString b.len ++ ":" ++ ";".intercalate (b.fields.map showField)

def findBlock (name : String) : Option Block := (allBlocks ++ allOutBlocks).find? (·.name == name)

def stdOp (toks : List String) : Option String :=
  match toks with
  -- blklist : every block of Std.DataIn (name:base:len:key/byte/msb/width;…)
  | ["blklist"] => some ("ok " ++ "|".intercalate (allBlocks.map showBlock))
  | ["blklist", "out"] => some ("ok " ++ "|".intercalate (allOutBlocks.map showBlock))
  -- blkenc <block> <D values> : the bytes of the block for these values, every other bit zero
  | ["blkenc", name, d] => do
    let b ← findBlock name
    let d ← parseDict d
    pure ("ok " ++ showBytes (b.enc (valsOfDict d)))
  -- stdenc <format> <PV> : a whole response
  | ["stdenc", "getlbastatus", pv] => do
    match ← PVText.parsePV pv with
    | .list ds => pure ("ok " ++ showBytes (encGetLbaStatus (ds.map valsOfPV)))
    | _ => none
  | ["stdenc", "reportluns", pv] => do
    match ← PVText.parsePV pv with
    | .list ds => pure ("ok " ++ showBytes (encReportLuns (ds.map valsOfPV)))
    | _ => none
  | ["stdenc", "prreadkeys", pv] => do
    match ← PVText.parsePV pv with
    | .dict d =>
      let gen := match PDict.get? d "pr_generation" with | some (.int n) => n | _ => 0
      let keys := match PDict.get? d "reservation_keys" with
        | some (.list l) => l.map (fun x => match x with | .int n => n | _ => 0)
        | _ => []
      pure ("ok " ++ showBytes (encReadKeys gen keys))
    | _ => none
  | ["stdenc", "reportpriority", pv] => do
    -- [{current_priority=…, rtpi=…, adlen=…, transport_id=x…}, …]
    match ← PVText.parsePV pv with
    | .list ds => pure ("ok " ++ showBytes (encReportPriority (ds.map (fun d => (valsOfPV d, pvBytes d "transport_id")))))
    | _ => none
  | ["stdenc", "rtpg", pv] => do
    -- {groups=[{…tpg fields…, ports=[{relative_target_port_id=…}, …]}, …]} ; with ext={format_type=1, implicit_transition_time=…} the extended header format
    match ← PVText.parsePV pv with
    | .dict d =>
      let gs := (pvList (.dict d) "groups").map (fun g => (valsOfPV g, (pvList g "ports").map valsOfPV))
      match PDict.get? d "ext" with
      | some h => pure ("ok " ++ showBytes (encRtpgExt (valsOfPV h) gs))
      | none => pure ("ok " ++ showBytes (encRtpg gs))
    | _ => none
  | ["stdenc", "prreadfullstatus", pv] => do
    -- {gen=i…, descs=[{header={…}, pid=i0|i3|i4|i6, tid={…}}, …]}  (fixed-size TransportIDs)
    match ← PVText.parsePV pv with
    | .dict d =>
      let gen := match PDict.get? d "gen" with | some (.int n) => n | _ => 0
      let ds ← (pvList (.dict d) "descs").mapM (fun e => do
        let ed ← match e with | .dict ed => some ed | _ => none
        let hv := match PDict.get? ed "header" with | some h => valsOfPV h | none => fun _ => 0
        let pid := match PDict.get? ed "pid" with | some (.int n) => n | _ => 0
        let K ← tidKinds.find? (·.pid == pid)
        let tv := match PDict.get? ed "tid" with | some t => valsOfPV t | none => fun _ => 0
        pure (hv, K, tv))
      pure ("ok " ++ showBytes (encReadFullStatus gen ds))
    | _ => none
  | ["stdenc", "prreadfullstatusany", pv] => do
    -- descs entries: {header={…}, pid=…, tid={…}} (fixed-size TransportID) or {header={…}, name=x…, pad=i…} (iSCSI name)
    match ← PVText.parsePV pv with
    | .dict d =>
      let gen := match PDict.get? d "gen" with | some (.int n) => n | _ => 0
      let ds ← (pvList (.dict d) "descs").mapM (fun e => do
        let ed ← match e with | .dict ed => some ed | _ => none
        let hv := match PDict.get? ed "header" with | some h => valsOfPV h | none => fun _ => 0
        match PDict.get? ed "name" with
        | some _ =>
          let pad := match PDict.get? ed "pad" with | some (.int n) => n | _ => 0
          pure (hv, Tid.iscsi (pvBytes e "name") pad)
        | none =>
          let pid := match PDict.get? ed "pid" with | some (.int n) => n | _ => 0
          let K ← tidKinds.find? (·.pid == pid)
          let tv := match PDict.get? ed "tid" with | some t => valsOfPV t | none => fun _ => 0
          pure (hv, Tid.fixed K tv))
      pure ("ok " ++ showBytes (encReadFullStatusAny gen ds))
    | _ => none
  | ["stdenc", "tidiscsi", pv] => do
    -- {name=x…, pad=i…}
    match ← PVText.parsePV pv with
    | .dict d =>
      let pad := match PDict.get? d "pad" with | some (.int n) => n | _ => 0
      pure ("ok " ++ showBytes (encTidIscsiName (pvBytes (.dict d) "name") pad))
    | _ => none
  | ["stdenc", "vpd83", pv] => do
    -- {header={…}, descs=[{header={…}, ty=i0|1|2|3|4|5|6|7|8, body=x…, vid=x…, rest=x…, cid=i…, ext=x…, dir=x…, idext=x…, code=i…, v={…}}, …]}
    match ← PVText.parsePV pv with
    | .dict d =>
      let hv := match PDict.get? d "header" with | some h => valsOfPV h | none => fun _ => 0
      let ds ← (pvList (.dict d) "descs").mapM (fun e => do
        let ed ← match e with | .dict ed => some ed | _ => none
        let h := match PDict.get? ed "header" with | some h => valsOfPV h | none => fun _ => 0
        let ty := match PDict.get? ed "ty" with | some (.int n) => n | _ => 99
        let v := match PDict.get? ed "v" with | some t => valsOfPV t | none => fun _ => 0
        let code := match PDict.get? ed "code" with | some (.int n) => n | _ => 0
        let cid := match PDict.get? ed "cid" with | some (.int n) => n | _ => 0
        let des ← if ty = 0 then some (Des.vendor (pvBytes e "body")) else if ty = 1 then some (Des.t10 (pvBytes e "vid") (pvBytes e "rest"))
          else if ty = 2 then
            (match PDict.get? ed "idext", PDict.get? ed "dir" with
             | some _, _ => some (Des.eui16 (pvBytes e "idext") cid (pvBytes e "ext"))
             | none, some _ => some (Des.eui12 cid (pvBytes e "ext") (pvBytes e "dir"))
             | none, none => some (Des.eui8 cid (pvBytes e "ext")))
          else if ty = 3 then some (Des.naa code v) else if ty = 4 then some (Des.port v) else if ty = 5 then some (Des.tpg v)
          else if ty = 6 then some (Des.lug v) else if ty = 7 then some (Des.md5 (pvBytes e "body"))
          else if ty = 8 then some (Des.name (pvBytes e "body")) else none
        pure (h, des))
      pure ("ok " ++ showBytes (encVpd83 hv ds))
    | _ => none
  | ["stdenc", "readelementstatus", pv] => do
    -- {header={…}, pages=[{header={…}, descs=[{fields={…}, ptag=x…, atag=x…, rest=x…}, …]}, …]}
    match ← PVText.parsePV pv with
    | .dict d =>
      let hv := match PDict.get? d "header" with | some h => valsOfPV h | none => fun _ => 0
      let pages := (pvList (.dict d) "pages").map (fun p =>
        ((match p with | .dict pd => (match PDict.get? pd "header" with | some h => valsOfPV h | none => fun _ => 0) | _ => fun _ => 0),
         (pvList p "descs").map (fun e =>
           ((match e with | .dict ed => (match PDict.get? ed "fields" with | some f => valsOfPV f | none => fun _ => 0) | _ => fun _ => 0),
            pvBytes e "ptag", pvBytes e "atag", pvBytes e "rest"))))
      pure ("ok " ++ showBytes (encReadElementStatus hv pages))
    | _ => none
  | ["stdenc", fmt, pv] => do
    -- modesense6 / modesense10: {header={…}, bd=x…, page={sub=i0|i1, header={…}, body=x…}}
    if fmt != "modesense6" && fmt != "modesense10" then none else
    match ← PVText.parsePV pv with
    | .dict d =>
      let hv := match PDict.get? d "header" with | some h => valsOfPV h | none => fun _ => 0
      let bd := pvBytes (.dict d) "bd"
      let pg := match PDict.get? d "page" with | some p => p | none => .dict []
      let pvh := match pg with | .dict pd => (match PDict.get? pd "header" with | some h => valsOfPV h | none => fun _ => 0) | _ => fun _ => 0
      let body := pvBytes pg "body"
      let sub := match pg with | .dict pd => (match PDict.get? pd "sub" with | some (.int 1) => true | _ => false) | _ => false
      let page := if sub then encModeSubPage pvh body else encModePage0 pvh body
      pure ("ok " ++ showBytes (if fmt == "modesense6" then encModeSense6 hv bd page else encModeSense10 hv bd page))
    | _ => none
  -- mar <builder> <PV> : model of the library's marshall routines (Model/Formats/Encode.lean)
  | ["mar", name, pv] => do
    let v ← PVText.parsePV pv
    let d ← match v with | .dict d => some d | _ => none
    let r : Except PyErr Bytes := match name with
      | "readcapacity10" => Enc.readCapacity10 d
      | "readcapacity16" => Enc.readCapacity16 d
      | "getlbastatus" => Enc.getLbaStatus d
      | "reportluns" => Enc.reportLuns d
      | "reporttargetportgroups" => Enc.reportTargetPortGroups d
      | "reportpriority" => Enc.reportPriority d
      | "readelementstatus" => Enc.readElementStatus d
      | "inquiry" => Enc.inquiry d
      | "modesense6" => Enc.modeSense6 d
      | "modesense10" => Enc.modeSense10 d
      | "transportid" => Enc.transportId d
      | "designationdescriptor" => Enc.designationDescriptor d
      | "prout0" => Enc.prOut 0 d
      | "prout1" => Enc.prOut 1 d
      | "prout2" => Enc.prOut 2 d
      | "xcopy4" | "xcopy5" =>
        let hdr := match PDict.get? d "header" with | some (.dict h) => h | _ => []
        let ts := match PDict.get? d "targets" with | some (.list l) => l | _ => []
        let ss := match PDict.get? d "segments" with | some (.list l) => l | _ => []
        let inl := match PDict.get? d "inline" with | some (.bytes b) => b | _ => []
        if name == "xcopy4" then Enc.xParameterList Enc.x4 "target_descriptor_parameters" hdr ts ss inl "target_descriptor_list_length"
        else Enc.xParameterList Enc.x5 "cscd_descriptor_parameters" hdr ts ss inl "cscd_descriptor_list_length"
      | _ => .error .notImplemented
    pure (showExceptBytes r)
  | _ => none

end StdOps
