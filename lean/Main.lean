import ScsiVerif.Driver.Ops

partial def loop (hin hout : IO.FS.Stream) (s : Driver.State) : IO Unit := do
  let line ← hin.getLine
  if line.isEmpty then return ()
  let l := String.ofList (line.toList.filter (fun c => c != '\n' && c != '\r'))
  let (s', out) := Driver.step s l
  hout.putStrLn out
  hout.flush
  loop hin hout s'

def main : IO Unit := do
  loop (← IO.getStdin) (← IO.getStdout) {}
