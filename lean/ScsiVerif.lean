-- root of the `ScsiVerif` library: everything that `setup` builds
import ScsiVerif.Gen.Tables
import ScsiVerif.Gen.Opcodes
import ScsiVerif.Gen.Commands
import ScsiVerif.Gen.Facade
import ScsiVerif.Gen.Sense
import ScsiVerif.Gen.Enums
import ScsiVerif.Props.C10
