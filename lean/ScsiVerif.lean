import ScsiVerif.Model.Conv
