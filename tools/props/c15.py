"""C15 — commands never go through a stale device handle; handles are released.

Theorems: lean/ScsiVerif/Props/C15.lean (invariant by induction over event histories).
Tie: correspondence of the real SCSIDevice (and SCSI as a context manager) over a virtual OS
(injected `open`/`os.stat`) and the sgio stand-in with Handle.run on random event sequences;
the property is evaluated on the implementation at every send."""
import random
import sys

from lib import cmds, common, virtos
from lib.common import Driver

TARGETS = ["ScsiVerif.Props.C15"]
NEEDS_GEN = False

PATH = "/dev/sgv"


def run(res, tier, build_ok):
    rng = random.Random(common.SEED * 7919 + 15)
    scale = 1 if (tier == "quick" and build_ok) else 8
    drv = Driver()
    sgio, iscsi = sys.modules["sgio"], sys.modules["iscsi"]
    from pyscsi.pyscsi.scsi_device import SCSIDevice
    from pyscsi.utils import init_device
    from pyscsi.pyiscsi.iscsi_device import ISCSIDevice
    from pyscsi.pyscsi.scsi import SCSI
    from pyscsi.pyscsi.scsi_cdb_testunitready import TestUnitReady
    sets = cmds.opcode_sets()
    reqs = []
    for it in range(250 * scale):
        vos = virtos.VirtualOS()
        vos.install()
        vos.next_ino = 1
        vos.mknod(PATH)
        detect = rng.random() < 0.75
        rw = rng.random() < 0.5
        sends = []
        status = {"v": 0}

        def backend(f, cdb, do, di, vos=vos, sends=sends, status=status):
            sends.append((f.id, f.is_open, f.ino, vos.nodes.get(PATH)))
            return status["v"], bytearray([0x70, 0, 5] + [0] * 15)

        sgio.BACKEND = backend
        # how the application got the device: the constructor with explicit flags, the constructor with its
        # defaults, or pyscsi.utils.init_device (what the tools and examples use) — detection is on by default
        how = rng.choice(["ctor", "ctor", "ctor-default", "init_device", "init_device-kw"])
        if how == "ctor":
            dev = SCSIDevice(PATH, readwrite=rw, detect_replugged=detect)
        else:
            detect = True
            if how == "ctor-default":
                dev = SCSIDevice(PATH, rw)
            elif how == "init_device":
                dev = init_device(PATH, rw)
            else:
                dev = init_device(PATH, read_write=rw)
        res.count("device obtained via " + how)
        n = rng.randint(1, 10)
        evs = []
        for _ in range(n):
            evs.append(rng.choice(["x", "x", "x", "r", "r", "u", "f1", "f0", "a", "xf"]))
        evs.append("c")
        obs = []
        facade = None
        for e in evs:
            if e in ("x", "a", "xf"):
                # "a": the application wraps the device in the facade (SCSI(dev) sends the probe INQUIRY, which may
                # itself end in CHECK CONDITION, e.g. a unit attention); "xf": a command through the facade when one
                # is attached.  For the handle model all three are one command through device.execute.
                status["v"] = rng.choice([0, 0, 2])
                before = len(sends)
                try:
                    if e == "a":
                        res.count("facade attach (probe INQUIRY) %s" % ("GOOD" if status["v"] == 0 else "CHECK CONDITION"))
                        facade = SCSI(dev)
                    elif e == "xf" and facade is not None:
                        res.count("command through the facade")
                        if rng.random() < 0.3 and hasattr(facade.device.opcodes, "ATA_PASS_THROUGH_16"):
                            facade.atapassthrough16(3, 0, 0, 0, 0, 0, 0, 0, 0, 0xE5)
                        else:
                            facade.testunitready()
                    elif rng.random() < 0.35:
                        # the raw-sense path (what the ATA PASS-THROUGH facade methods use) is a command like any other
                        res.count("command with en_raw_sense=True")
                        dev.execute(TestUnitReady(sets["spc"].TEST_UNIT_READY), en_raw_sense=True)
                    else:
                        dev.execute(TestUnitReady(sets["spc"].TEST_UNIT_READY))
                    o = "sent"
                except Exception as ex:
                    o = "sent" if len(sends) > before else "err:" + type(ex).__name__
                if len(sends) > before:
                    hid, is_open, hino, node = sends[-1]
                    o = "sent%d" % hid
                    if detect and (not is_open or hino != node):
                        res.violation("stale handle", "a command was sent through a handle that is %s / opened on inode %s while the node is %s" % (
                            "open" if is_open else "closed", hino, node), {"detect": detect, "obtained_via": how, "readwrite": rw, "events": evs, "send": sends[-1]})
                    if not detect and hid != 0:
                        res.violation("detection off reopened", "with detection disabled a new handle was opened", {"events": evs})
                elif detect and vos.nodes.get(PATH) is None and not o.startswith("err"):
                    res.violation("vanished node not reported", "execute on a vanished node did not raise", {"events": evs, "obtained_via": how, "readwrite": rw})
                obs.append(o)
            elif e == "r":
                vos.replug(PATH)
                obs.append("ok")
            elif e == "u":
                vos.unplug(PATH)
                obs.append("ok")
            elif e in ("f1", "f0"):
                vos.close_fail = e == "f1"
                obs.append("ok")
            elif e == "c":
                try:
                    dev.close()
                    obs.append("ok")
                except Exception as ex:
                    obs.append("err:" + type(ex).__name__)
        hs = ",".join("%d/%d/%d" % (h.ino, 1 if h.is_open else 0, h.close_calls) for h in vos.handles)
        held = getattr(dev, "_file", None)
        cur = vos.handles.index(held) if held in vos.handles else len(vos.handles) - 1   # observable: the last handle opened is the one in use
        res.case((detect, tuple(evs)), {"detect": detect, "readwrite": rw, "events": evs, "observed": obs, "handles ino/open/closes": hs})
        res.count("detect on" if detect else "detect off")
        res.count("histories with replug" if "r" in evs else "histories without replug")
        for h in vos.handles:
            if h.is_open or h.close_calls != 1:
                res.violation("handle not released once", "after close(): handle on inode %d is %s, close() was called %d times" % (
                    h.ino, "open" if h.is_open else "closed", h.close_calls), {"detect": detect, "events": evs, "handles": hs})
                break
        if any(h.mode != ("w+b" if rw else "rb") for h in vos.handles):
            res.violation("open mode", "a handle was opened with the wrong mode", {"readwrite": rw, "modes": [h.mode for h in vos.handles]})
        impl = "ok %s %s cur=%d" % (",".join(obs), hs, cur)
        reqs.append(("handlerun %d %s" % (1 if detect else 0, ",".join("x" if e in ("a", "xf") else e for e in evs)), impl))
    # ---- context managers: released exactly once, normally and by exception; facade and both device classes
    for kind in ("device", "facade", "iscsi", "iscsi-facade"):
        for raising in (False, True):
            vos = virtos.VirtualOS()
            vos.install()
            vos.mknod(PATH)
            sgio.BACKEND = None
            iscsi.BACKEND = None
            del iscsi.LOG[:]
            try:
                if kind == "device":
                    with SCSIDevice(PATH) as d:
                        if raising:
                            raise KeyError("boom")
                elif kind == "facade":
                    with SCSI(SCSIDevice(PATH)) as s:
                        if raising:
                            raise KeyError("boom")
                elif kind == "iscsi":
                    with ISCSIDevice("iscsi://h/t/0", "iqn.i") as d:
                        if raising:
                            raise KeyError("boom")
                else:
                    with SCSI(ISCSIDevice("iscsi://h/t/0", "iqn.i")) as s:
                        if raising:
                            raise KeyError("boom")
                out = "normal"
            except KeyError:
                out = "exception passed on"
            if kind.startswith("iscsi"):
                closes = len([e for e in iscsi.LOG if e[0] == "disconnect"])
                ok = closes == 1
            else:
                closes = [h.close_calls for h in vos.handles]
                ok = closes == [1] and not vos.handles[0].is_open
            res.case(("with", kind, raising), {"with": kind, "leaves by exception": raising, "close calls": closes})
            res.count("context manager exits")
            if not ok or (raising and out != "exception passed on"):
                res.violation("with %s exit" % kind, "leaving a with block (%s) did not release the handle exactly once: %s" % ("by exception" if raising else "normally", closes),
                              {"kind": kind, "raising": raising, "closes": closes})
    reps = drv.batch([r[0] for r in reqs])
    for (line, impl), rep in zip(reqs, reps):
        if rep != impl:
            res.tie_break("Handle model disagrees with SCSIDevice", {"request": line, "model": rep, "implementation": impl})
    sgio.BACKEND = None
    res.assumptions += ["a node that replaces another gets a fresh inode number (inode reuse is indistinguishable to the code)",
                        "a failing close() still releases the descriptor (virtual OS); the error is reported to the caller",
                        "event sequences of length <= 11 are sampled on the real code; the theorems cover every length"]
