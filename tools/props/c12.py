"""C12 — data written through the library is read back intact from a conformant target.

Theorems: lean/ScsiVerif/Props/C12.lean (the conformant target Std.Target refines an abstract disk for
every command sequence; library-built CDBs are conformant by C01).  Tie: the real facade over both
stand-in transports talks to the *Lean* target (interactive driver); what the library reads back is
compared with an abstract Python dict disk."""
import random
import sys

from lib import cmds, common, virtos
from lib.common import Interactive, hx

TARGETS = ["ScsiVerif.Props.C12", "ScsiVerif.Props.C12b"]
NEEDS_GEN = True


def run(res, tier, build_ok):
    rng = random.Random(common.SEED * 7919 + 12)
    scale = 1 if (tier == "quick" and build_ok) else 6
    sgio, iscsi = sys.modules["sgio"], sys.modules["iscsi"]
    vos = virtos.VirtualOS()
    vos.install()
    from pyscsi.pyscsi.scsi import SCSI
    from pyscsi.pyscsi.scsi_device import SCSIDevice
    from pyscsi.pyiscsi.iscsi_device import ISCSIDevice
    sets = cmds.opcode_sets()
    tgt = Interactive()
    try:
        def talk(cdb, dataout, datain):
            r = tgt.ask("tgtcmd %s %s %d" % (hx(cdb), hx(dataout), len(datain)))
            if not r.startswith("ok "):
                raise common.Infra("target: " + r)
            _, st, data = r.split(" ")
            data = bytes.fromhex(data[1:])
            datain[: len(data)] = data
            return (0, None) if st == "good" else (2, bytearray([0x70, 0, 5, 0, 0, 0, 0, 10, 0, 0, 0, 0, 0x21, 0, 0, 0, 0, 0]))

        def italk(task, do, di):
            # an iSCSI target moves at most the expected data transfer length the initiator announced, in the
            # announced direction (1 = read, 2 = write): what the library announces is part of what reaches the target
            n = task.xferlen
            dout = bytes(do[:n]) if task.dir == 2 else b""
            room = memoryview(di)[: (n if task.dir == 1 else 0)]
            return talk(task.cdb, dout, room)

        sgio.BACKEND = lambda f, cdb, do, di: talk(cdb, do, di)
        iscsi.BACKEND = lambda lun, task, do, di: italk(task, do, di)
        for it in range(40 * scale):
            bs = rng.choice([1, 4, 512, 520, 4096])
            big = rng.random() < 0.35
            cap = rng.choice([1 << 33, (1 << 40) + 7, 1 << 63]) if big else rng.choice([16, 64, 5000, 1 << 20])
            pdt = rng.choice([0, 0, 0, 4, 7])
            assert tgt.ask("tgtnew %d %d %d" % (bs, cap, pdt)) == "ok"
            kind = rng.choice(["sgio", "iscsi"])
            if kind == "sgio":
                vos.mknod("/dev/sgt")
                dev = SCSIDevice("/dev/sgt", readwrite=True)
            else:
                dev = ISCSIDevice("iscsi://h/iqn.t/0", "iqn.i")
            fac = SCSI(dev, bs)
            if dev.opcodes is not sets["sbc"]:
                res.violation("attach to block target", "a conformant block target (type %d) is not driven with SBC" % pdt, {"pdt": pdt})
                continue
            disk = {}
            fills = []                     # WRITE SAME with a block count of zero: (first LBA, block), in order of execution

            def expect(l, disk=disk, fills=fills):
                """what the block at LBA l must read as: the last explicit write, else the latest fill-to-end covering it, else zeros"""
                if l in disk:
                    return disk[l]
                for lo, blk_ in reversed(fills):
                    if lo <= l:
                        return blk_
                return bytes(bs)
            hist = []
            bad = None
            for step in range(rng.randint(3, 14)):
                op = rng.choice(["write", "write", "write", "writesame", "read", "read", "sync", "cap10", "cap16", "inq"])
                width = rng.choice([10, 12, 16])
                maxlba = cap - 1
                if width != 16:
                    maxlba = min(maxlba, (1 << 32) - 1)
                lba = rng.choice([0, maxlba, rng.randint(0, maxlba), rng.randint(0, min(maxlba, 40))])
                if big and width == 16 and rng.random() < 0.6:
                    lba = rng.randint(1 << 32, maxlba)
                if op == "read" and disk and rng.random() < 0.7:
                    cand = [x for x in disk if x <= maxlba]
                    if cand:
                        lba = max(0, rng.choice(cand) - rng.randint(0, 1))
                tl = rng.randint(0, 6 if bs > 16 else 40)
                tl = max(0, min(tl, cap - lba))
                flags = {}
                if rng.random() < 0.5:
                    flags = {"dpo": rng.getrandbits(1), "fua": rng.getrandbits(1), "group": rng.getrandbits(5)}
                try:
                    if op == "write":
                        data = bytearray(rng.getrandbits(8) for _ in range(tl * bs))
                        flags2 = dict(flags, wrprotect=rng.getrandbits(3)) if flags else {}
                        getattr(fac, "write%d" % width)(lba, tl, data, **flags2)
                        for i in range(tl):
                            disk[lba + i] = bytes(data[i * bs:(i + 1) * bs])
                        hist.append(("write%d" % width, lba, tl))
                    elif op == "writesame":
                        w = rng.choice([10, 16])
                        if w == 10:
                            lba = min(lba, (1 << 32) - 1)
                        nb = rng.randint(0, min(5, cap - lba))
                        if rng.random() < 0.3:
                            nb = 0              # WSNZ = 0: "from this LBA to the last logical block of the medium"
                        blk = bytearray(rng.getrandbits(8) for _ in range(bs))
                        ndob = w == 16 and rng.random() < 0.25
                        kw = {"ndob": 1} if ndob else {}
                        if rng.random() < 0.4:
                            kw.update({"group": rng.getrandbits(5), "wrprotect": rng.getrandbits(3)})
                        if rng.random() < 0.4:
                            # UNMAP / ANCHOR: a conformant target either deallocates (only when the block equals what an
                            # unmapped block reads as) or writes; either way the range then reads as the Data-Out block
                            kw.update({"unmap": 1, "anchor": rng.getrandbits(1)})
                        getattr(fac, "writesame%d" % w)(lba, nb, blk, **kw)
                        for i in range(nb):
                            disk[lba + i] = bytes(bs) if ndob else bytes(blk)
                        if nb == 0:
                            res.count("WRITE SAME with block count 0 (to the end of the medium)")
                            for l in [l for l in disk if l >= lba]:
                                del disk[l]
                            fills.append((lba, bytes(bs) if ndob else bytes(blk)))
                        hist.append(("writesame%d%s" % (w, " ndob" if ndob else ""), lba, nb))
                    elif op == "read":
                        flags2 = dict(flags, rdprotect=rng.getrandbits(3), rarc=rng.getrandbits(1)) if flags else {}
                        cmd = getattr(fac, "read%d" % width)(lba, tl, **flags2)
                        want = b"".join(expect(lba + i) for i in range(tl))
                        hist.append(("read%d" % width, lba, tl))
                        if bytes(cmd.datain) != want:
                            bad = ("read%d(lba=%d, tl=%d) returned data that differs from what was last written" % (width, lba, tl),
                                   bytes(cmd.datain)[:64].hex(), want[:64].hex())
                    elif op == "sync":
                        w = rng.choice([10, 16])
                        getattr(fac, "synchronizecache%d" % w)(min(lba, (1 << 32) - 1) if w == 10 else lba, min(tl, 0xFFFF))
                        hist.append(("sync%d" % w, lba, tl))
                    elif op == "cap10":
                        r = fac.readcapacity10().result
                        hist.append(("readcapacity10",))
                        if r["returned_lba"] != min(cap - 1, 0xFFFFFFFF) or r["block_length"] != bs:
                            bad = ("readcapacity10 reports %s for a target of %d blocks of %d bytes" % (r, cap, bs), str(r), "")
                    elif op == "cap16":
                        r = fac.readcapacity16().result
                        hist.append(("readcapacity16",))
                        if r["returned_lba"] != cap - 1 or r["block_length"] != bs:
                            bad = ("readcapacity16 reports %s for a target of %d blocks of %d bytes" % ({k: r[k] for k in ("returned_lba", "block_length")}, cap, bs), str(r), "")
                    else:
                        r = fac.inquiry().result
                        hist.append(("inquiry",))
                        if r["peripheral_device_type"] != pdt or bytes(r["t10_vendor_identification"]) != b"LEANTGT " or bytes(r["product_identification"]) != b"CONFORMANT BLOCK "[:16]:
                            bad = ("inquiry does not report the target's identity", str(r)[:200], "")
                except Exception as e:
                    bad = ("%s raised %s: %s" % (op, type(e).__name__, str(e)[:80]), "", "")
                if bad:
                    break
            res.case((kind, bs, cap, tuple(hist)), {"transport": kind, "blocksize": bs, "capacity": cap, "history": hist})
            res.count("transport " + kind)
            res.count("large LBA histories" if big else "small LBA histories")
            res.count("ops", len(hist))
            if bad:
                res.violation("c12 %s" % bad[0].split("(")[0].split(" ")[0], bad[0], {"transport": kind, "blocksize": bs, "capacity": cap, "history": hist, "got": bad[1], "expected": bad[2]})
                continue
            # final sweep: the Lean target's own block map agrees with the abstract disk
            for lba in list(disk)[:20] + [x for lo, _ in fills for x in (lo, cap - 1) if x < cap]:
                r = tgt.ask("tgtdisk %d" % lba)
                if r != "ok " + hx(expect(lba)):
                    res.violation("c12 written block not at its LBA", "a block written through the library at LBA %d is not what the conformant target holds at that LBA" % lba,
                                  {"transport": kind, "blocksize": bs, "capacity": cap, "history": hist, "lba": lba, "target": r[:80], "written": hx(expect(lba))[:80]})
                    break
            dev.close()
        # boundary transfer lengths (the random histories above keep tl small): block size 1, every
        # write width x read width, lengths around the 8/16-bit edges of the TRANSFER LENGTH fields
        small = [(255, 10, (10, 12, 16)), (256, 12, (10, 12, 16)), (257, 16, (10, 12, 16))]
        if scale == 1:      # each read of >= 64 Ki blocks costs the (list-based) Lean target ~5 s
            plan = {"sgio": small + [(65535, 10, (10,)), (65536, 12, (12, 16))],
                    "iscsi": small + [(65535, 16, (10,)), (65537, 16, (12, 16))]}
        else:
            full = [(tl, ww, (10, 12, 16)) for tl in (255, 256, 257, 65535, 65536, 65537) for ww in (10, 12, 16)]
            plan = {"sgio": full, "iscsi": full}
        for kind in ("sgio", "iscsi"):
            bs, cap = 1, 1 << 34
            if kind == "sgio":
                vos.mknod("/dev/sgt")
                dev = SCSIDevice("/dev/sgt", readwrite=True)
            else:
                dev = ISCSIDevice("iscsi://h/iqn.t/0", "iqn.i")
            fac = None
            for tl, ww, rws in plan[kind]:
                if ww == 10 and tl > 0xFFFF:
                    continue
                assert tgt.ask("tgtnew %d %d %d" % (bs, cap, 0)) == "ok"     # fresh (small) block map per case
                if fac is None:
                    fac = SCSI(dev, bs)
                lba = rng.randint(0, 1 << 20)
                data = (bytearray(rng.getrandbits(8) for _ in range(64)) * (tl // 64 + 1))[:tl]
                hist = [("write%d" % ww, lba, tl)]
                bad = None
                try:
                    getattr(fac, "write%d" % ww)(lba, tl, data)
                    for rw in rws:
                        if rw == 10 and tl > 0xFFFF:
                            continue
                        hist.append(("read%d" % rw, lba, tl))
                        cmd = getattr(fac, "read%d" % rw)(lba, tl)
                        if bytes(cmd.datain) != bytes(data):
                            bad = "read%d(lba=%d, tl=%d) after write%d returned %d bytes, %s" % (
                                rw, lba, tl, ww, len(cmd.datain),
                                "not the %d bytes written" % tl if len(cmd.datain) != tl else "content differs from what was written")
                            break
                except Exception as e:
                    bad = "%s raised %s: %s" % (hist[-1][0], type(e).__name__, str(e)[:80])
                res.case((kind, "edge", tl, ww), None)
                res.count("boundary transfer length histories")
                if bad:
                    res.violation("c12 %s boundary" % hist[-1][0], bad, {"transport": kind, "blocksize": bs, "capacity": cap, "history": hist})
            dev.close()
        # ---- single commands moving more than 16 MiB (24/25-bit edges of byte counts), both transports.  The list-based
        #      Lean target cannot hold such payloads, so here it only decodes the CDB (Std.Target.addr, by byte position)
        #      and the stand-in moves the payload itself: at most the announced length over iSCSI, the buffers over SG_IO.
        store = {}

        def bigtalk(cdb, dataout, room, bs):
            r = tgt.ask("tgtaddr %s" % hx(cdb)).split(" ")
            op, lba, tl = int(r[1]), int(r[2]), int(r[3])
            if op in (0x2A, 0xAA, 0x8A):
                if len(dataout) != tl * bs:
                    return (2, bytearray([0x70, 0, 5, 0, 0, 0, 0, 10, 0, 0, 0, 0, 0x1A, 0, 0, 0, 0, 0]))
                for i in range(tl):
                    store[lba + i] = bytes(dataout[i * bs:(i + 1) * bs])
            elif op in (0x28, 0xA8, 0x88):
                data = b"".join(store.get(lba + i, bytes(bs)) for i in range(tl))[: len(room)]
                room[: len(data)] = data
            elif op == 0x12:
                room[:5] = bytes([0, 0, 6, 2, 31])[: len(room)]
            return (0, None)

        bigplan = [(4096, 4097, 16, 16), (512, 32769, 12, 16)] if scale == 1 else [
            (4096, 4097, 16, 16), (512, 32769, 12, 12), (4096, 4095, 16, 12), (4096, 4096, 12, 16), (65536, 513, 10, 10), (4096, 8193, 16, 16)]
        for kind in ("sgio", "iscsi"):
            for bs, tl, ww, rw in bigplan:
                store.clear()
                sgio.BACKEND = lambda f, cdb, do, di, bs=bs: bigtalk(cdb, do, memoryview(di), bs)
                iscsi.BACKEND = lambda lun, task, do, di, bs=bs: bigtalk(
                    task.cdb, bytes(do[:task.xferlen]) if task.dir == 2 else b"", memoryview(di)[: (task.xferlen if task.dir == 1 else 0)], bs)
                if kind == "sgio":
                    vos.mknod("/dev/sgt")
                    dev = SCSIDevice("/dev/sgt", readwrite=True)
                else:
                    dev = ISCSIDevice("iscsi://h/iqn.t/0", "iqn.i")
                fac = SCSI(dev, bs)
                lba = rng.randint(0, 1 << 20)
                pat = bytes(rng.getrandbits(8) for _ in range(251))
                data = bytearray((pat * (bs * tl // 251 + 1))[: bs * tl])
                data[-1] = (data[-1] | 1)
                hist = [("write%d" % ww, lba, tl)]
                bad = None
                try:
                    getattr(fac, "write%d" % ww)(lba, tl, data)
                    hist.append(("read%d" % rw, lba, tl))
                    cmd = getattr(fac, "read%d" % rw)(lba, tl)
                    got = bytes(cmd.datain)
                    if got != bytes(data):
                        first = next((i for i in range(min(len(got), len(data))) if got[i] != data[i]), min(len(got), len(data)))
                        bad = "read%d(lba=%d, tl=%d) of %d bytes after write%d differs from what was written from byte %d on" % (rw, lba, tl, bs * tl, ww, first)
                except Exception as e:
                    bad = "%s raised %s: %s" % (hist[-1][0], type(e).__name__, str(e)[:80])
                res.case((kind, "big", bs, tl, ww, rw), {"transport": kind, "blocksize": bs, "history": hist, "bytes": bs * tl})
                res.count("single commands moving > 15 MiB")
                if bad:
                    res.violation("c12 %s large transfer" % hist[-1][0], bad, {"transport": kind, "blocksize": bs, "history": hist, "bytes": bs * tl})
                dev.close()
                del data
        store.clear()
    finally:
        tgt.close()
        sgio.BACKEND = None
        iscsi.BACKEND = None
    res.assumptions += ["the target is the conformant Lean target Std.Target (decoding by byte position); real devices and the real bindings are outside the model",
                        "commands moving more than 16 MiB: the Lean target only decodes the CDB (Std.Target.addr); the payload is moved by the stand-in (at most the announced expected transfer length over iSCSI)",
                        "transfers stay within the target's capacity and payloads have length transfer-length x block-size (the property's domain)"]
