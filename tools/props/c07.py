"""C07 — a command that did not complete with GOOD status never looks successful.

Theorems: lean/ScsiVerif/Props/C07.lean (all status values, all sense buffers, any position in any
sequence).  Tie: exhaustive correspondence of SCSIDevice.execute / ISCSIDevice.execute with
Exec.sgio / Exec.iscsi over all 256 status bytes x raw-sense on/off, direct and through the facade,
plus sequences that re-execute command objects.  The bindings are stand-ins embodying the stated
contract (what the real C bindings do is outside the model)."""
import random
import sys

from lib import cmds, common, virtos
from lib.common import Driver, hx

TARGETS = ["ScsiVerif.Props.C07"]
NEEDS_GEN = True

NAMED = {0x02: "CheckCondition", 0x04: "ConditionsMet", 0x08: "BusyStatus", 0x18: "ReservationConflict",
         0x28: "TaskSetFull", 0x30: "ACAActive", 0x40: "TaskAborted"}


DESC_LEN = {0x00: 10, 0x01: 10, 0x02: 6, 0x03: 2, 0x04: 2, 0x05: 2, 0x06: 30, 0x09: 12, 0x0A: 6, 0x0D: 10, 0x80: 4}


def sense_buf(rng):
    """sense data as a target sends it: half of the time well formed (fixed format incl. truncated
    lengths; descriptor format with a list of well-formed descriptors of every kind, each kind also
    as the first descriptor), otherwise arbitrary bytes behind a valid response code"""
    rc = rng.choice([0x70, 0x71, 0x72, 0x73])
    if rng.random() < 0.5:
        n = rng.choice([18, 18, 32, 8, 96])
        b = bytearray(rng.getrandbits(8) for _ in range(n))
        b[0] = rc
        return b
    key, asc, ascq = rng.randrange(16), rng.getrandbits(8), rng.getrandbits(8)
    if rc in (0x70, 0x71):
        b = bytearray(18)
        b[0] = rc | (0x80 if rng.getrandbits(1) else 0)
        b[2] = key | (rng.getrandbits(3) << 5)
        b[3:7] = rng.getrandbits(32).to_bytes(4, "big")
        b[7] = 10
        b[12], b[13] = asc, ascq
        b[15:18] = rng.getrandbits(24).to_bytes(3, "big")
        how = rng.randrange(8)
        if how < 3:
            return b
        if how < 5:
            return b[:rng.choice([14, 8])]          # cut short by the transport, ADDITIONAL SENSE LENGTH still 10
        # a target that sends less than 18 bytes and says so: ADDITIONAL SENSE LENGTH = n - 7 (ASCQ or ASC is the
        # last byte), as sent or inside the transport's larger zero-filled sense buffer
        n = rng.choice([13, 14, 15, 16, 17])
        b = b[:n]
        b[7] = n - 8
        return b + bytearray(rng.choice([0, 0, 32 - n, 96 - n]))
    body = bytearray()
    for ty in rng.sample(sorted(DESC_LEN), rng.choice([0, 1, 1, 2, 3])):
        body += bytes([ty, DESC_LEN[ty]]) + bytes(rng.getrandbits(8) for _ in range(DESC_LEN[ty]))
    return bytearray([rc, key, asc, ascq, 0, 0, 0, len(body)]) + body


def run(res, tier, build_ok):
    rng = random.Random(common.SEED * 7919 + 7)
    thorough = not (tier == "quick" and build_ok)
    drv = Driver()
    sgio, iscsi = sys.modules["sgio"], sys.modules["iscsi"]
    vos = virtos.VirtualOS()
    vos.install()
    from pyscsi.pyscsi.scsi import SCSI
    from pyscsi.pyscsi.scsi_device import SCSIDevice
    from pyscsi.pyiscsi.iscsi_device import ISCSIDevice
    from pyscsi.pyscsi.scsi_cdb_testunitready import TestUnitReady
    from pyscsi.pyscsi.scsi_cdb_read10 import Read10
    from pyscsi.pyscsi.scsi_sense import SCSICheckCondition
    sets = cmds.opcode_sets()
    state = {"status": 0, "sense": None}
    sgio.BACKEND = lambda f, cdb, do, di: (state["status"], state["sense"])
    iscsi.BACKEND = lambda lun, task, do, di: (state["status"], state["sense"] if state["sense"] is not None else "absent")
    vos.mknod("/dev/sg0")
    sdev = SCSIDevice("/dev/sg0", detect_replugged=False)
    idev = ISCSIDevice("iscsi://h/t/0", "iqn.i")
    reqs = []

    def fresh_cmd():
        return TestUnitReady(sets["spc"].TEST_UNIT_READY) if rng.random() < 0.5 else Read10(sets["sbc"].READ_10, 512, 5, 1)

    def observe(dev, cmd, raw):
        """-> (outcome text, exception object or None)"""
        try:
            with common.time_limit(5.0):        # a Stalled escapes to check.py: "the implementation does not terminate"
                dev.execute(cmd, en_raw_sense=raw)
            return "returned", None
        except Exception as e:
            return "raised:" + type(e).__name__, e

    def judge(kind, status, sense, raw, cmd, out, exc, where):
        """the property, evaluated on the implementation"""
        sig = "transport=%s status=%#x raw=%d %s" % (kind, status, raw, where)
        rep = {"transport": kind, "status": status, "sense": bytes(sense).hex() if sense is not None else None, "raw": raw, "outcome": out}
        if out == "returned":
            ok = status == 0 or (status == 2 and raw and kind == "sgio" and cmd.raw_sense_data is not None
                                 and bytes(cmd.raw_sense_data) == bytes(sense))
            if not ok:
                res.violation(sig + " returns", "status %#x over %s returned normally (raw sense %s)" % (status, kind, raw), rep)
            return
        if status == 0:
            res.violation(sig + " GOOD raises", "GOOD status raised %s" % out, rep)
            return
        name = out.split(":")[1]
        if status == 2:
            if name != "CheckCondition" or not isinstance(exc, SCSICheckCondition):
                res.violation(sig + " wrong error", "CHECK CONDITION surfaced as %s" % name, rep)
                return
            b = sense
            rc = b[0] & 0x7F
            want = ((b[2] & 15, b[12] if len(b) > 12 else 0, b[13] if len(b) > 13 else 0) if rc in (0x70, 0x71)
                    else (b[1] & 15, b[2], b[3]))
            got = (exc.data.get("sense_key"), exc.asc, exc.ascq)
            if got != want:
                res.violation(sig + " wrong sense", "CheckCondition reports key/ASC/ASCQ %s, the target sent %s" % (got, want), rep)
            if raw and kind == "iscsi" and (cmd.raw_sense_data is None or bytes(cmd.raw_sense_data) != bytes(b)):
                res.violation(sig + " raw sense", "raw sense attached to the command is not the sense the target sent", rep)
        elif kind == "iscsi":
            want = NAMED.get(status, "RuntimeError")
            if name != want:
                res.violation(sig + " wrong error", "status %#x raised %s, expected %s" % (status, name, want), rep)

    # ---- all 256 statuses x both transports x raw on/off, fresh command objects, direct execute
    for status in range(256):
        for raw in (False, True):
            for kind, dev in (("sgio", sdev), ("iscsi", idev)):
                sense = sense_buf(rng)
                state["status"], state["sense"] = status, sense
                cmd = fresh_cmd()
                out, exc = observe(dev, cmd, raw)
                res.case((kind, status, raw), {"transport": kind, "status": hex(status), "raw_sense": raw, "outcome": out})
                res.count("direct " + kind)
                judge(kind, status, sense, raw, cmd, out, exc, "direct")
                if kind == "sgio":
                    reqs.append(("sgioexec %d %s %d" % (status, hx(sense), raw),
                                 "ok %s raw=%s" % (out, hx(cmd.raw_sense_data) if cmd.raw_sense_data is not None else "n"), "sgio"))
                else:
                    reqs.append(("iscsiexec %d %s n %d" % (status, hx(sense), raw),
                                 "ok %s sense=%s raw=%s" % (out, hx(cmd.sense) if cmd.sense is not None else "n",
                                                            hx(cmd.raw_sense_data) if cmd.raw_sense_data is not None else "n"), "iscsi"))
    # ---- CHECK CONDITION with every kind of well-formed sense: each descriptor type first, every sense key, both formats
    shapes = []
    for ty in sorted(DESC_LEN):
        for rc in (0x72, 0x73):
            key = rng.randrange(16)
            body = bytes([ty, DESC_LEN[ty]]) + bytes(rng.getrandbits(8) for _ in range(DESC_LEN[ty]))
            if rng.getrandbits(1):
                body += bytes([0x00, 10]) + bytes(10)
            shapes.append(bytearray([rc, key, rng.getrandbits(8), rng.getrandbits(8), 0, 0, 0, len(body)]) + body)
    for key in range(16):
        for rc in (0x70, 0x71, 0xF0):
            b = bytearray(18)
            b[0], b[2], b[7], b[12], b[13] = rc, key, 10, rng.getrandbits(8), rng.getrandbits(8)
            shapes.append(b)
            for n in (13, 14):
                for pad in (0, 32 - n):
                    b = bytearray(n)
                    b[0], b[2], b[7], b[12] = rc, key, n - 8, 1 + rng.randrange(255)
                    if n > 13:
                        b[13] = 1 + rng.randrange(255)
                    shapes.append(b + bytearray(pad))
    for sense in shapes:
        for raw in (False, True):
            for kind, dev in (("sgio", sdev), ("iscsi", idev)):
                state["status"], state["sense"] = 2, sense
                cmd = fresh_cmd()
                out, exc = observe(dev, cmd, raw)
                res.case((kind, "shape", bytes(sense), raw), None)
                res.count("well-formed sense shapes " + kind)
                judge(kind, 2, sense, raw, cmd, out, exc, "sense-shape")
    # ---- sequences re-executing command objects (stale sense), mixed outcomes
    for it in range(80 if not thorough else 600):
        kind, dev = rng.choice([("sgio", sdev), ("iscsi", idev)])
        objs = [fresh_cmd() for _ in range(rng.randint(1, 3))]
        prev = [None] * len(objs)
        for step in range(rng.randint(2, 8)):
            k = rng.randrange(len(objs))
            status = rng.choice([0, 2, 2, 2, 8, 0x18, 0x28, 0x40, rng.randrange(256)])
            raw = rng.random() < 0.3
            sense = sense_buf(rng)
            state["status"], state["sense"] = status, sense
            out, exc = observe(dev, objs[k], raw)
            res.case(("seq", kind, it, step, status, raw), None)
            res.count("sequence steps")
            judge(kind, status, sense, raw, objs[k], out, exc, "re-executed" if prev[k] is not None else "sequence")
            if kind == "iscsi":
                reqs.append(("iscsiexec %d %s %s %d" % (status, hx(sense), hx(prev[k]) if prev[k] is not None else "n", raw),
                             "ok %s sense=%s raw=%s" % (out, hx(objs[k].sense) if objs[k].sense is not None else "n",
                                                        hx(objs[k].raw_sense_data) if (objs[k].raw_sense_data is not None and status == 2 and raw) else "n"), "iscsi-seq"))
                prev[k] = bytes(objs[k].sense) if objs[k].sense is not None else None
            objs[k].raw_sense_data = None
    # ---- through facade methods over the real device classes
    for kind, dev in (("sgio", sdev), ("iscsi", idev)):
        state["status"], state["sense"] = 0, None
        fac = SCSI(dev, 512)
        dev.opcodes = sets["sbc"]
        calls = [("testunitready", {}), ("inquiry", {}), ("read10", {"lba": 1, "tl": 1}), ("readcapacity10", {}),
                 ("write10", {"lba": 0, "tl": 1, "data": bytearray(512)}), ("reportluns", {}), ("modesense6", {"page_code": 0x0A}),
                 ("atapassthrough16", dict(protocal=4, t_length=0, byte_block=0, t_dir=0, t_type=0, off_line=0, fetures=0, count=0, lba=0, command=0xE5))]
        grid = [(status, meth, kw) for status in (list(range(256)) if thorough else [0, 2, 4, 8, 0x18, 0x28, 0x30, 0x40, 0x22, 0xFF, 1, 3])
                for meth, kw in calls]
        # then a history on the same facade object: any mix of methods and outcomes, in particular CHECK CONDITION on an
        # ordinary command after an ATA PASS-THROUGH (the one method that asks for raw sense) that failed or succeeded
        calls12 = calls + [("atapassthrough12", dict(protocal=4, t_length=0, byte_block=0, t_dir=0, t_type=0, off_line=0, fetures=0, count=0, lba=0, command=0xE5))]
        for _ in range(400 if thorough else 120):
            meth, kw = rng.choice(calls12 + calls12[-2:] * 2)
            grid.append((rng.choice([0, 2, 2, 2, 4, 8, 0x18, 0x28]), meth, kw))
        res.count("facade history steps " + kind, len(grid))
        for status, meth, kw in grid:
            if True:
                sense = sense_buf(rng)
                state["status"], state["sense"] = status, sense
                del iscsi.LOG[:]
                del sgio.CALLS[:]
                try:
                    with common.time_limit(5.0):
                        cmd = getattr(fac, meth)(**kw)
                    out, exc = "returned", None
                except Exception as e:
                    cmd, out, exc = None, "raised:" + type(e).__name__, e
                nsent = len([e for e in iscsi.LOG if e[0] == "command"]) if kind == "iscsi" else len(sgio.CALLS)
                if nsent != 1:
                    res.violation("facade=%s transport=%s sends=%d" % (meth, kind, nsent), "facade %s sent %d commands for one call (status %#x)" % (meth, nsent, status),
                                  {"status": status, "sent": nsent})
                res.case(("facade", kind, meth, status), {"transport": kind, "facade": meth, "status": hex(status), "outcome": out})
                res.count("facade " + kind)
                raw = meth.startswith("atapassthrough")
                if cmd is not None:
                    judge(kind, status, sense, raw, cmd, out, exc, "facade=" + meth)
                elif status == 0:
                    res.violation("facade=%s transport=%s GOOD raises" % (meth, kind), "facade %s raised %s on GOOD" % (meth, out), {"status": status})
                else:
                    name = out.split(":")[1]
                    want = "CheckCondition" if status == 2 else (NAMED.get(status, "RuntimeError") if kind == "iscsi" else "UnspecifiedError")
                    if name != want:
                        res.violation("facade=%s transport=%s status=%#x" % (meth, kind, status),
                                      "facade %s over %s: status %#x surfaced as %s, expected %s" % (meth, kind, status, name, want), {"status": status, "outcome": out})
    # CHECK CONDITION without any sense data over iSCSI: still an error, still exactly one send
    state["status"], state["sense"] = 0, None
    fac = SCSI(idev, 512)
    idev.opcodes = sets["sbc"]
    for meth, kw in (("testunitready", {}), ("write10", {"lba": 0, "tl": 1, "data": bytearray(512)}), ("readcapacity10", {})):
        state["status"], state["sense"] = 2, None
        del iscsi.LOG[:]
        try:
            getattr(fac, meth)(**kw)
            out = "returned"
        except Exception as e:
            out = "raised:" + type(e).__name__
        nsent = len([e for e in iscsi.LOG if e[0] == "command"])
        res.case(("facade-nosense", meth), {"facade": meth, "status": "CHECK CONDITION without sense", "outcome": out, "sent": nsent})
        if out == "returned" or nsent != 1:
            res.violation("facade=%s iscsi CHECK CONDITION without sense" % meth, "CHECK CONDITION without sense data: %s, %d commands sent" % (out, nsent), {"facade": meth, "outcome": out, "sent": nsent})
    reps = drv.batch([r[0] for r in reqs])
    for (line, impl, what), rep in zip(reqs, reps):
        parts = rep.split(" ")
        if what == "sgio":
            mod = "%s %s %s" % (parts[0], parts[1], parts[2])
        else:
            mod = "%s %s %s %s" % (parts[0], parts[1], parts[2], parts[3])
        if mod != impl:
            res.tie_break("Exec model disagrees with %s execute" % what, {"request": line[:160], "model": mod[:200], "implementation": impl[:200]})
    sgio.BACKEND = None
    iscsi.BACKEND = None
    res.exhaustive = True
    res.assumptions += ["binding contract (stand-ins): sgio raises CheckConditionError(sense) on CHECK CONDITION, UnspecifiedError on every other non-GOOD outcome; iscsi sets task.status and task.raw_sense",
                        "a target that sends CHECK CONDITION supplies sense data (without it the error is TypeError: still an error, proved as iscsi_check_condition_always_raises)"]
