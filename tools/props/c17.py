"""C17 — invalid requests are refused before anything is sent.

Theorems: lean/ScsiVerif/Props/C17.lean.  Tie: Gen guards (translator) + correspondence; every
refusal is also driven through the facade over a recording device to observe that nothing is sent."""
import itertools
import random

from lib import cmds, common, devices
from lib.common import Driver
from props import c01

TARGETS = ["ScsiVerif.Props.C17", "ScsiVerif.Props.C17b"]
NEEDS_GEN = True


def run(res, tier, build_ok):
    rng = random.Random(common.SEED * 7919 + 17)
    scale = 1 if (tier == "quick" and build_ok) else 5
    data = cmds.gen_data()
    drv = Driver()
    std = cmds.StdInfo(drv, data["commands"])
    sets = cmds.opcode_sets()
    from pyscsi.pyscsi.scsi_command import SCSICommand
    from pyscsi.pyscsi.scsi_opcode import OpCode
    bycls = {c["cls"]: c for c in data["commands"] if not c["module"].endswith("spc5")}
    reqs = []

    def expect_exc(fn, exc_name, sig, what, replay, dev=None):
        try:
            r = fn()
            got = "returned %r" % (r,)
        except Exception as e:
            got = type(e).__name__
        sent = len(dev.calls) if dev is not None else 0
        if got != exc_name or sent:
            res.violation(sig, what + " (got %s, %d command(s) sent)" % (got, sent), replay)
        return got

    # ---- 1. block transfers without a block size: constructor and facade
    facade_name = {"Read10": "read10", "Read12": "read12", "Read16": "read16", "Write10": "write10",
                   "Write12": "write12", "Write16": "write16", "WriteSame10": "writesame10", "WriteSame16": "writesame16"}
    for name, meth in facade_name.items():
        c = bycls[name]
        cls = cmds.get_class(c["module"], name)
        s = std.get(c["module"].split(".")[-1], name)
        op = cmds.find_op(sets["sbc"], s["opname"])
        for kw0 in c01.make_cases(c, s, rng, 1)[: 12 * scale]:
            kw = c01.finalize_kwargs(c, kw0, rng)
            kw["blocksize"] = 0
            if name == "WriteSame16":
                kw["ndob"] = 0
            if kw.get("data") is None and "data" in kw:
                kw["data"] = bytearray(4)
            shown = {k: (v if isinstance(v, (int, type(None))) else "<bytes>") for k, v in kw.items()}
            res.case(("bs0", name, tuple(sorted(shown.items(), key=str))), {"class": name, "args": shown, "expect": "MissingBlocksizeException"})
            res.count("zero blocksize")
            expect_exc(lambda: cls(op, **kw), "MissingBlocksizeException", "cls=%s blocksize=0 accepted" % name,
                       "%s accepts blocksize 0" % name, {"class": name, "args": shown})
            fac, dev = devices.attach(sets["sbc"], blocksize=0)
            fkw = {k: v for k, v in kw.items() if k != "blocksize"}
            expect_exc(lambda: getattr(fac, meth)(**fkw), "MissingBlocksizeException", "facade=%s blocksize=0 sends" % meth,
                       "facade %s with blocksize 0 is not refused before sending" % meth, {"facade": meth, "args": shown}, dev)
            envd = {k: (v if isinstance(v, (int, bytes, bytearray, type(None))) else None) for k, v in kw.items()}
            reqs.append(("build %s %s sbc %s %s" % (c["module"].split(".")[-1], name, s["opname"], cmds.enc_env(envd)),
                         "err MissingBlocksizeException", name))
        if name == "WriteSame16":
            kw["ndob"] = 1
            try:
                cls(op, **kw)
            except Exception as e:
                res.violation("cls=WriteSame16 ndob=1 blocksize=0 refused", "WRITE SAME(16) with NDOB needs no block size but is refused (%s)" % type(e).__name__, {"args": str(kw)[:200]})
    # ---- 1b. the same through a facade attached to a device of every peripheral device type, every way of attaching
    #          (SCSI(dev), SCSI(dev, 0), SCSI(None) then s(dev), re-targeted from another device), no block size given:
    #          refused, nothing but the probing INQUIRY reaches the device
    from pyscsi.pyscsi.scsi import SCSI
    for dt in range(32):
        for inq_extra in (0x00, 0x80):                # also with RMB set in the INQUIRY answer
            def responder(cmd, dt=dt, inq_extra=inq_extra):
                if cmd.cdb[0] == 0x12 and len(cmd.datain) > 4:
                    cmd.datain[0] = dt
                    cmd.datain[1] = inq_extra
            for way in ("ctor", "ctor0", "call", "retarget"):
                dev = devices.RecordingDevice(sets["spc"], responder)
                try:
                    if way == "ctor":
                        fac = SCSI(dev)
                    elif way == "ctor0":
                        fac = SCSI(dev, blocksize=0)
                    elif way == "call":
                        fac = SCSI(None)
                        fac(dev)
                    else:
                        fac = SCSI(devices.RecordingDevice(sets["spc"], None))
                        fac(dev)
                except Exception as e:
                    res.tie_break("attaching to a device of type %d raised %s" % (dt, type(e).__name__), {"devicetype": dt, "way": way})
                    continue
                for name, meth in facade_name.items():
                    c = bycls[name]
                    st = std.get(c["module"].split(".")[-1], name)
                    kw = c01.finalize_kwargs(c, c01.make_cases(c, st, rng, 1)[0], rng)
                    kw.pop("blocksize", None)
                    if name == "WriteSame16":
                        kw["ndob"] = 0
                    if kw.get("data") is None and "data" in kw:
                        kw["data"] = bytearray(4)
                    del dev.calls[:]
                    offered = cmds.find_op(dev.opcodes, st["opname"]) is not None
                    try:
                        r = getattr(fac, meth)(**kw)
                        got = "returned a %s" % type(r).__name__
                    except Exception as e:
                        got = type(e).__name__
                    res.count("no block size x device type x way of attaching")
                    ok = (got == "MissingBlocksizeException") if offered else (got in ("MissingBlocksizeException", "AttributeError"))
                    if not ok or dev.calls:
                        shown = {k: (v if isinstance(v, (int, type(None))) else "<bytes>") for k, v in kw.items()}
                        res.violation("facade=%s devicetype no blocksize" % meth,
                                      "SCSI.%s without a block size on a device of type %02Xh (attached by %s) is not refused: %s, %d command(s) sent" % (
                                          meth, dt, way, got, len(dev.calls)),
                                      {"facade": meth, "devicetype": dt, "inquiry_byte1": inq_extra, "way": way, "args": shown})
            res.case(("bs0-devtype", dt, inq_extra), {"devicetype": dt, "inquiry_byte1": inq_extra, "ways": 4, "methods": len(facade_name)})
    # ---- 2. ATA: refused exactly when byte_block & t_type & t_length and no block size
    for name in ("ATAPassThrough12", "ATAPassThrough16"):
        c = bycls[name]
        cls = cmds.get_class(c["module"], name)
        op = cmds.find_op(sets["sbc"], "ATA_PASS_THROUGH_12" if name.endswith("12") else "ATA_PASS_THROUGH_16")
        for tlen, bb, tdir, ttype, bs in itertools.product(range(4), range(2), range(2), range(2), (0, 512)):
            kw = dict(protocal=4, t_length=tlen, byte_block=bb, t_dir=tdir, t_type=ttype, off_line=0,
                      fetures=rng.randint(0, 5), count=rng.randint(0, 5), lba=rng.getrandbits(24), command=0x25, blocksize=bs)
            refuse = bool(bb and ttype and tlen and bs == 0)
            try:
                cls(op, **kw)
                got = "ok"
            except Exception as e:
                got = type(e).__name__
            res.case(("ata", name, tlen, bb, tdir, ttype, bs), {"class": name, "args": kw, "result": got})
            res.count("ata combinations")
            if (got == "MissingBlocksizeException") != refuse or (got not in ("ok", "MissingBlocksizeException")):
                res.violation("cls=%s ata refusal" % name, "%s: refusal does not match 'byte_block & t_type & t_length without blocksize' (%s)" % (name, got),
                              {"class": name, "args": kw, "result": got, "should_refuse": refuse})
            fac, dev = devices.attach(sets["sbc"])
            if refuse:
                expect_exc(lambda: getattr(fac, name.lower())(**kw), "MissingBlocksizeException", "facade=%s sends" % name.lower(),
                           "facade %s not refused before sending" % name.lower(), {"args": kw}, dev)
    # ---- 3. operation codes without a fixed CDB length: no command object
    from pyscsi.pyscsi.scsi_cdb_testunitready import TestUnitReady
    from pyscsi.pyscsi.scsi_cdb_read10 import Read10
    sam = drv.batch(["samlen %d" % v for v in range(256)])
    for v, srep in zip(range(256), sam):
        res.case(("opcode", v), {"opcode": hex(v), "sam": srep})
        res.count("opcode values")
        for klass, kw in ((TestUnitReady, {}), (Read10, dict(blocksize=512, lba=1, tl=1))):
            try:
                klass(OpCode("X", v, {}), **kw)
                got = "ok"
            except Exception as e:
                got = type(e).__name__
            bad = (got != "OpcodeException") if srep == "none" else (klass is TestUnitReady and got != "ok")
            if bad:
                res.violation("opcode=%s not refused" % hex(v), "%s built with operation code %s: %s (SAM: %s)" % (klass.__name__, hex(v), got, srep),
                              {"opcode": v, "class": klass.__name__, "result": got})
    # ---- 4. PERSISTENT RESERVE IN service actions through the facade
    sas = list(range(-40, 40)) + [255, 256, 1 << 20, -255, -256, -(1 << 20), (1 << 64) + 3, -(1 << 64)]   # any Python integer
    for sn in ("spc", "sbc", "ssc", "smc"):
        for sa in sas:
            fac, dev = devices.attach(sets[sn])
            try:
                cmd = fac.persistentreservein(sa)
                got = "ok " + type(cmd).__name__
            except Exception as e:
                got = "err " + type(e).__name__
            res.case(("prin", sn, sa), {"set": sn, "service_action": sa, "result": got})
            res.count("pr-in service actions")
            if sa not in (0, 1, 2, 3):
                if got != "err ValueError" or dev.calls:
                    res.violation("facade=persistentreservein set=%s sa=%d" % (sn, sa),
                                  "unknown PERSISTENT RESERVE IN service action %d is not refused with ValueError before sending (%s, %d sent)" % (sa, got, len(dev.calls)),
                                  {"set": sn, "service_action": sa, "result": got})
            reqs.append(("prdispatch %s %d" % (sn, sa), got, "persistentreservein"))
    # ---- 5. EXTENDED COPY descriptors with unknown keys / codes, inconsistent TransportIDs (implementation vs the property)
    from pyscsi.pyscsi.scsi_cdb_extended_copy_spc4 import ExtendedCopy as X4
    from pyscsi.pyscsi.scsi_cdb_extended_copy_spc5 import ExtendedCopy as X5
    from pyscsi.pyscsi.scsi_cdb_persistentreservein import PersistentReserveInReadFullStatus as RFS
    good_t = {"descriptor_type_code": 0xE4, "peripheral_device_type": 0,
              "target_descriptor_parameters": {"code_set": 1, "designator_type": 3, "designator": {"naa": 5, "ieee_company_id": 1, "vendor_specific_identifier": 2}}}
    good_s = {"descriptor_type_code": 2, "dc": 0, "cat": 0, "source_target_descriptor_id": 0, "destination_target_descriptor_id": 1,
              "block_device_number_of_blocks": 4, "source_block_device_logical_block_address": 5, "destination_block_device_logical_block_address": 6}
    for X, tname in ((X4, "marshall_target"), (X5, "marshall_cscd")):
        mt = getattr(X, tname)
        bad = []
        for k in ("bogus", "pad", "designator", ""):
            d = dict(good_t)
            d[k] = 1
            bad.append(("target unknown key %r" % k, lambda d=d: mt(d)))
        ttab = getattr(X, "_target_descriptor_type_codes", None) or getattr(X, "_cscd_descriptor_type_codes")
        for code in [x for x in (0x00, 0xDF, 0xFF, 256) if x not in ttab] + ["no such name", None]:
            d = dict(good_t)
            d["descriptor_type_code"] = code
            bad.append(("target unknown type code %r" % (code,), lambda d=d: mt(d)))
        for pdt in [x for x in (0x02, 0x1F, 0x20) if x not in X._device_type_codes] + ["Printer"]:
            d = dict(good_t)
            d["peripheral_device_type"] = pdt
            bad.append(("target unknown device type %r" % (pdt,), lambda d=d: mt(d)))
        for k in ("bogus", "stream_device_transfer_length", "x"):
            d = dict(good_s)
            d[k] = 1
            bad.append(("segment unknown key %r" % k, lambda d=d: X.marshall_segment(d)))
        for code in [x for x in (0x16, 0x7F, 0xFF, 1000) if x not in X._segment_descriptor_type_codes] + ["nothing", None]:
            d = dict(good_s)
            d["descriptor_type_code"] = code
            bad.append(("segment unknown type code %r" % (code,), lambda d=d: X.marshall_segment(d)))
        for what, fn in bad:
            res.case(("xcopy", X.__module__, what), {"module": X.__module__, "case": what})
            res.count("extended copy invalid descriptors")
            expect_exc(fn, "ValueError", "xcopy %s %s" % (X.__module__.split("_")[-1], what.split("%")[0]),
                       "%s: %s is not refused with ValueError" % (X.__module__, what), {"module": X.__module__, "case": what})
        # through the facade: nothing is sent
        fac, dev = devices.attach(sets["spc"])
        meth = fac.extendedcopy4 if X is X4 else fac.extendedcopy5
        arg = "target_descriptor_list" if X is X4 else "cscd_descriptor_list"
        d = dict(good_t)
        d["bogus"] = 1
        expect_exc(lambda: meth(**{arg: [d], "segment_descriptor_list": []}), "ValueError", "facade extendedcopy sends", "facade EXTENDED COPY with an invalid descriptor is not refused before sending", {"case": "bogus key"}, dev)
    for tid, what in (({"protocol_id": 5, "iscsi_name": "iqn.a", "iscsi_initiator_session_id": "00023d000001"}, "session id without tpid_format"),
                      ({"protocol_id": 5, "iscsi_name": "iqn.a", "tpid_format": 1}, "tpid_format without session id"),
                      ({"protocol_id": 5, "iscsi_name": "iqn.a", "tpid_format": 0, "iscsi_initiator_session_id": "1"}, "session id with tpid_format 0"),
                      ({"protocol_id": 5, "iscsi_name": "iqn.a", "tpid_format": 1, "iscsi_initiator_session_id": ""}, "tpid_format with empty session id")):
        res.case(("tid", what), {"transport_id": tid, "case": what})
        res.count("inconsistent TransportIDs")
        expect_exc(lambda: RFS.marshall_transport_id(dict(tid)), "ValueError", "transportid " + what, "TransportID with %s is not refused with ValueError" % what, {"transport_id": tid})
        fac, dev = devices.attach(sets["spc"])
        expect_exc(lambda: fac.persistentreserveout(7, reservation_key=1, transport_id=dict(tid)), "ValueError", "facade persistentreserveout sends",
                   "facade PR OUT with inconsistent TransportID not refused before sending", {"transport_id": tid}, dev)
    reps = drv.batch([r[0] for r in reqs])
    for (line, impl, what), rep in zip(reqs, reps):
        rep = rep.replace("ok PersistentReserveIn", "ok PersistentReserveIn")
        if rep != impl:
            res.tie_break("model of the refusal in %s disagrees with the implementation" % what, {"request": line[:300], "model": rep, "implementation": impl})
    res.notes.append("EXTENDED COPY / TransportID refusals are decided against the implementation by enumeration of the invalid-input classes; their Lean model arrives with the C05 marshaller models")
    res.exhaustive = True
