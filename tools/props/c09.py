"""C09 — command objects are isolated from one another, in any order or interleaving.

Theorems: lean/ScsiVerif/Props/C09.lean (isolation for every schedule of constructor / encode /
decode actions).  Tie: correspondence of histories over pairs and triples of command classes
(constructors, Class.marshall_cdb, Class.unmarshall_cdb) with Iso.run, each result compared with the
class's solo result; two real threads run under a deterministic line-level scheduler
(sys.settrace) through every interleaving with at most two preemptions."""
import random
import sys
import threading

from lib import cmds, common
from lib.common import Driver
from props import c01

TARGETS = ["ScsiVerif.Props.C09"]
NEEDS_GEN = True


class Sched:
    """runs thread bodies one traced source line at a time, in the order a schedule dictates"""

    def __init__(self, files):
        self.files = files
        self.cv = threading.Condition()
        self.turn = None
        self.alive = set()
        self.steps = {}

    def _tracer(self, tid):
        def local(frame, event, arg):
            if event == "line":
                self._yield(tid)
            return local

        def glob(frame, event, arg):
            if event == "call" and frame.f_code.co_filename.endswith(self.files):
                return local
            return None
        return glob

    def _yield(self, tid):
        with self.cv:
            self.steps[tid] = self.steps.get(tid, 0) + 1
            self.turn = None
            self.cv.notify_all()
            while self.turn != tid:
                self.cv.wait()

    def run(self, bodies, pick):
        """bodies: {tid: callable}; pick(step_counts, alive) -> tid to run next"""
        results = {}
        threads = {}

        def wrap(tid, fn):
            def go():
                with self.cv:
                    while self.turn != tid:
                        self.cv.wait()
                sys.settrace(self._tracer(tid))
                try:
                    results[tid] = ("ok", fn())
                except Exception as e:
                    results[tid] = ("raises", type(e).__name__)
                finally:
                    sys.settrace(None)
                    with self.cv:
                        self.alive.discard(tid)
                        self.turn = None
                        self.cv.notify_all()
            return go

        for tid, fn in bodies.items():
            self.alive.add(tid)
            t = threading.Thread(target=wrap(tid, fn))
            threads[tid] = t
            t.start()
        with self.cv:
            while self.alive:
                nxt = pick(dict(self.steps), set(self.alive))
                self.turn = nxt
                self.cv.notify_all()
                while self.turn is not None and nxt in self.alive:
                    self.cv.wait(timeout=5)
                    if self.turn is not None and nxt in self.alive and not threads[nxt].is_alive():
                        self.alive.discard(nxt)
        for t in threads.values():
            t.join(timeout=10)
        return results, dict(self.steps)


def run(res, tier, build_ok):
    import time as _t
    _t0 = [_t.time()]

    def lap(name):
        res.notes.append("section %s: %.1fs" % (name, _t.time() - _t0[0]))
        _t0[0] = _t.time()
    rng = random.Random(common.SEED * 7919 + 9)
    scale = 1 if (tier == "quick" and build_ok) else 5
    data = cmds.gen_data()
    drv = Driver()
    std = cmds.StdInfo(drv, data["commands"])
    sets = cmds.opcode_sets()
    import os
    import pickle
    pool = []
    for c in data["commands"]:
        if (c.get("computed") and not c["cls"].startswith("ATAPass")) or c["cls"].startswith("ExtendedCopy"):
            continue
        module = c["module"].split(".")[-1]
        s = std.get(module, c["cls"])
        op = None
        for sn, e in sets.items():
            op = cmds.find_op(e, s["opname"])
            if op is not None:
                break
        if op is None:
            continue
        cls = cmds.get_class(c["module"], c["cls"])
        kw = c01.finalize_kwargs(c, c01.make_cases(c, s, rng, 1)[-1], rng)
        if c["cls"].startswith("ATAPass"):
            # an LBA whose bytes are pairwise different, so that any byte mix-up shows
            kw.update({"lba": 0x123456 if c["cls"].endswith("12") else 0x0000A1B2C3D4, "t_length": 0, "data": None})
        pool.append({"c": c, "cls": cls, "op": op, "kw": kw, "name": c["cls"], "set": sn, "opname": s["opname"], "module": c["module"]})

    # solo results: each class built, decoded and re-encoded in a process of its own, forked before this process has
    # constructed any command (a class whose first use is disturbed by an earlier use of another class would otherwise
    # already be disturbed when its reference is taken)
    def solo_of(p):
        r, w = os.pipe()
        pid = os.fork()
        if pid == 0:
            try:
                os.close(r)
                inst = p["cls"](p["op"], **p["kw"])
                fields = p["cls"].unmarshall_cdb(inst.cdb)
                out = (bytes(inst.cdb), bytes(inst.dataout), len(inst.datain), fields, bytes(p["cls"].marshall_cdb(fields)))
                os.write(w, pickle.dumps(out))
            finally:
                os._exit(0)
        os.close(w)
        buf = b""
        while True:
            chunk = os.read(r, 1 << 16)
            if not chunk:
                break
            buf += chunk
        os.close(r)
        os.waitpid(pid, 0)
        if not buf:
            raise common.Infra("C09: solo construction of %s failed in its own process" % p["name"])
        return pickle.loads(buf)

    for p in pool:
        p["cdb"], p["dataout"], p["datain_len"], p["fields"], p["re"] = solo_of(p)
        p["L"] = len(p["cdb"])
        inst = p["cls"](p["op"], **p["kw"])
        if (bytes(inst.cdb), bytes(inst.dataout), len(inst.datain)) != (p["cdb"], p["dataout"], p["datain_len"]):
            res.violation("first use of %s" % p["name"], "%s built in this process (after %s) differs from the same construction in a process of its own" % (
                p["name"], ", ".join(q["name"] for q in pool[:pool.index(p)][-6:]) or "nothing"),
                {"class": p["name"], "got": bytes(inst.cdb).hex(), "solo": p["cdb"].hex()})
    reqs = []
    # ---- sequential histories over pairs / triples of classes
    for it in range(200 * scale):
        group = rng.sample(pool, rng.choice([2, 2, 3]))
        built = set()
        acts, obs = [], []
        bad = None
        for step in range(rng.randint(2, 10)):
            p = rng.choice(group)
            what = rng.choice(["ctor", "ctor", "marshall", "unmarshall", "discard"])
            if what == "ctor" or p["name"] not in built:
                inst = p["cls"](p["op"], **p["kw"])
                built.add(p["name"])
                acts.append("c:%s:%d" % (p["name"], p["L"]))
                obs.append("-")
                if bytes(inst.cdb) != p["cdb"] or bytes(inst.dataout) != p["dataout"] or len(inst.datain) != p["datain_len"]:
                    bad = ("constructor", p["name"], bytes(inst.cdb).hex(), p["cdb"].hex())
            elif what == "marshall":
                b = bytes(p["cls"].marshall_cdb(dict(p["fields"])))
                acts.append("b:%s" % p["name"])
                obs.append("%s/%d" % (p["name"], len(b)) if b == p["re"] else "WRONG/%d" % len(b))
                if b != p["re"]:
                    bad = ("marshall_cdb", p["name"], b.hex(), p["re"].hex())
            elif what == "unmarshall":
                d = p["cls"].unmarshall_cdb(bytearray(p["cdb"]))
                acts.append("d:%s" % p["name"])
                obs.append(p["name"] if d == p["fields"] else "WRONG")
                if d != p["fields"]:
                    bad = ("unmarshall_cdb", p["name"], str(d)[:120], str(p["fields"])[:120])
            else:
                inst = None
                continue
            if bad:
                break
        res.case(tuple(acts), {"history": acts, "observed": obs})
        res.count("sequential histories")
        if bad:
            res.violation("history %s of %s" % (bad[0], bad[1]),
                          "%s of %s gives %s after the history, %s on its own" % (bad[0], bad[1], bad[2], bad[3]), {"history": acts, "got": bad[2], "solo": bad[3]})
        else:
            reqs.append(("isorun " + ",".join(acts), "ok " + ",".join(obs)))
    lap("solo+sequential histories")
    # ---- histories in a fresh interpreter each (first use of a class after other classes / the base-class entry points)
    import base64
    import pickle
    import subprocess
    child = str(common.VERIF / "tools" / "lib" / "c09_child.py")
    jobs = []
    # classes that share a module family, a base class or helpers: every ordered pair of them, each in a fresh interpreter
    fam = {}
    for p in pool:
        key = p["name"].rstrip("0123456789")
        fam.setdefault(key, []).append(p)
    related = [(a, b) for ps in fam.values() if len(ps) > 1 for a in ps for b in ps if a is not b]
    related += [(a, b) for a in pool for b in pool if a is not b and a["name"].startswith("PersistentReserveIn") and b["name"].startswith("PersistentReserveIn")]
    picks = related + [tuple(rng.sample(pool, 2)) for _ in range(12 * scale)]
    res.count("fresh-interpreter related ordered pairs", len(related))
    for a, b in picks:
        classes = {}
        for tag, p in (("A", a), ("B", b)):
            classes[tag] = {"module": p["module"], "cls": p["name"], "set": p["set"], "opname": p["opname"], "kw": p["kw"],
                            "cdb": p["cdb"], "fields": p["fields"]}
        mid = rng.choice([["base_unmarshall"], ["base_marshall"], ["unmarshall"], ["marshall"], ["base_unmarshall", "base_marshall"], [], []])
        # the static calls of a class follow a construction of that class (before the first construction
        # marshall_cdb has no CDB length to work with and raises TypeError — original and repaired code alike)
        steps = [("ctor", "A")] + [(m, "A") for m in mid] + rng.choice([[("ctor", "B"), ("unmarshall", "B"), ("marshall", "B")],
                                                                        [("ctor", "B"), ("marshall", "B"), ("unmarshall", "B")]]) + \
            [("unmarshall", "A"), ("marshall", "A")]
        jobs.append(({"classes": classes, "steps": steps}, a, b))
    procs = []
    for k in range(0, len(jobs), 16):          # 16 interpreters at a time
        batch = [(subprocess.Popen([common.PYTHON, child], stdin=subprocess.PIPE, stdout=subprocess.PIPE, stderr=subprocess.PIPE,
                                   env=dict(os.environ, VERIF_REPO=str(common.REPO))), job, a, b) for job, a, b in jobs[k:k + 16]]
        for pr, job, a, b in batch:
            o, e = pr.communicate(base64.b64encode(pickle.dumps(job)), timeout=120)
            procs.append((pr, job, a, b, o, e))
    for pr, job, a, b, o, e in procs:
        if pr.returncode != 0:
            raise common.Infra("C09 child failed: " + e.decode()[-800:])
        obs = pickle.loads(base64.b64decode(o))
        who = {"A": a, "B": b}
        hist = ["%s(%s)" % (act, who[w]["name"]) for act, w in job["steps"]]
        res.case(("fresh", tuple(hist)), None)
        res.count("fresh-interpreter histories")
        for ob in obs:
            p = who[ob[1]]
            bad = None
            if ob[0] == "ctor" and ob[2:] != (p["cdb"], p["dataout"], p["datain_len"]):
                bad = ("constructor", str(ob[2].hex() if isinstance(ob[2], bytes) else ob[2]), p["cdb"].hex())
            elif ob[0] == "unmarshall" and ob[2] != p["fields"]:
                bad = ("unmarshall_cdb", str(ob[2])[:160], str(p["fields"])[:160])
            elif ob[0] == "marshall" and ob[2] != p["re"]:
                bad = ("marshall_cdb", str(ob[2].hex() if isinstance(ob[2], bytes) else ob[2]), p["re"].hex())
            if bad:
                res.violation("fresh history %s of %s" % (bad[0], p["name"]),
                              "in a fresh interpreter, after %s: %s of %s gives %s, %s on its own" % (" ; ".join(hist), bad[0], p["name"], bad[1], bad[2]),
                              {"history": hist, "got": bad[1], "solo": bad[2]})
                break
    lap("fresh-interpreter histories")
    # ---- two threads, cold process: thread A parked after k traced lines (scsi_command.py and converter.py), thread B
    #      runs to completion, then A finishes; every k, each schedule in a freshly forked process
    tchild = str(common.VERIF / "tools" / "lib" / "c09_threads_child.py")
    tjobs = []
    same = rng.choice(pool)
    diff = rng.sample(pool, 2)
    for a, b in [(same, same), (diff[0], diff[1])] + ([(rng.choice(pool), rng.choice(pool)) for _ in range(2)] if scale > 1 else []):
        desc = lambda p: {"module": p["module"], "cls": p["name"], "set": p["set"], "opname": p["opname"], "kw": p["kw"]}
        tjobs.append(({"A": desc(a), "B": desc(b), "ks": [], "step": 1 if (a is b or scale > 1) else 3}, a, b))
    tprocs = [(subprocess.Popen([common.PYTHON, tchild], stdin=subprocess.PIPE, stdout=subprocess.PIPE, stderr=subprocess.PIPE,
                                env=dict(__import__("os").environ, VERIF_REPO=str(common.REPO))), job, a, b) for job, a, b in tjobs]
    for pr, job, a, b in tprocs:
        o, e = pr.communicate(base64.b64encode(pickle.dumps(job)), timeout=900)
        if pr.returncode != 0:
            raise common.Infra("C09 thread child failed: " + e.decode()[-800:])
        out = pickle.loads(base64.b64decode(o))
        for k, results in sorted(out["runs"].items()):
            res.case(("cold-threads", a["name"], b["name"], k), None)
            res.count("cold-process thread schedules")
            if not isinstance(results, dict):
                res.violation("cold threads %s|%s crash" % (a["name"], b["name"]), "schedule k=%d crashed: %s" % (k, str(results)[:200]),
                              {"classes": [a["name"], b["name"]], "preempt_after": k})
                break
            bad = None
            for tid, p in ((0, a), (1, b)):
                want = ("ok", (p["cdb"], p["fields"], p["re"]))
                if results.get(tid) != want:
                    bad = (tid, p, results.get(tid), want)
                    break
            if bad:
                tid, p, got, want = bad
                res.violation("cold threads %s|%s" % (a["name"], b["name"]),
                              "in a fresh process, thread 0 (%s) parked after %d traced lines while thread 1 (%s) runs: thread %d got %s, %s on its own" % (
                                  a["name"], k, b["name"], tid, str(got)[:200], str(want)[:200]),
                              {"classes": [a["name"], b["name"]], "preempt_after": k, "thread": tid, "got": str(got)[:400], "solo": str(want)[:400]})
                break
    lap("cold-process thread schedules")
    # ---- two threads under a deterministic line-level scheduler
    pairs = [(a, b) for a in pool for b in pool if a["L"] != b["L"]]
    rng.shuffle(pairs)
    nsched = 0
    for a, b in pairs[: 3 * scale]:
        def body(p):
            def fn():
                inst = p["cls"](p["op"], **p["kw"])
                d = p["cls"].unmarshall_cdb(inst.cdb)
                return bytes(inst.cdb), d, bytes(p["cls"].marshall_cdb(d))
            return fn
        # measure thread lengths with a solo run each
        s0 = Sched(("scsi_command.py",))
        _, st = s0.run({0: body(a)}, lambda steps, alive: 0)
        na = st.get(0, 0)
        s0 = Sched(("scsi_command.py",))
        _, st = s0.run({0: body(b)}, lambda steps, alive: 0)
        nb = st.get(0, 0)
        # the (i, j) grid is split over forked workers (rows of i), each returning its mismatches
        def rows(i_list, a=a, b=b, nb=nb):
            bad = []
            n = 0
            for i in i_list:
                for j in range(0, nb + 1, 1 if scale > 1 else 2):
                    sch = Sched(("scsi_command.py",))

                    def pick(steps, alive, i=i, j=j):
                        sa, sb = steps.get(0, 0), steps.get(1, 0)
                        if 0 in alive and sa < i:
                            return 0
                        if 1 in alive and sb < j:
                            return 1
                        if 0 in alive:
                            return 0
                        return 1
                    results, _ = sch.run({0: body(a), 1: body(b)}, pick)
                    n += 1
                    for tid, p in ((0, a), (1, b)):
                        r = results.get(tid)
                        want = ("ok", (p["cdb"], p["fields"], p["re"]))
                        if r != want:
                            bad.append((i, j, tid, str(r)[:300], str(want)[:300]))
            return n, bad

        nwork = 12
        chunks = [list(range(w, na + 1, nwork)) for w in range(nwork)]
        workers = []
        for ch in chunks:
            if not ch:
                continue
            r_, w_ = os.pipe()
            pid = os.fork()
            if pid == 0:
                try:
                    os.close(r_)
                    out = rows(ch)
                    with os.fdopen(w_, "wb") as f:
                        pickle.dump(out, f)
                finally:
                    os._exit(0)
            os.close(w_)
            workers.append((pid, r_))
        for pid, r_ in workers:
            with os.fdopen(r_, "rb") as f:
                blob = f.read()
            os.waitpid(pid, 0)
            if not blob:
                raise common.Infra("C09: a thread-schedule worker died")
            n, bad = pickle.loads(blob)
            nsched += n
            res.count("thread schedules", n)
            res.cases += n
            for i, j, tid, got, want in bad[:3]:
                p = a if tid == 0 else b
                res.violation("threads %s|%s" % (a["name"], b["name"]),
                              "thread building %s interleaved with a thread building %s (switch after %d and %d lines) got %s" % (
                                  p["name"], (b if tid == 0 else a)["name"], i, j, got[:160]),
                              {"classes": [a["name"], b["name"]], "preempt_after": [i, j], "thread": tid, "got": got, "solo": want})
        res.case(("threads", a["name"], b["name"]), {"threads": [a["name"], b["name"]],
                 "schedules": "T0 runs i lines, then T1 j lines, then T0 to the end, then T1; all i in 0..%d, j in 0..%d" % (na, nb)})
        # the schedule of the Lean witness: T0 constructs, T1 constructs and builds, T0 builds
        reqs.append(("isorun c:%s:%d,c:%s:%d,b:%s,b:%s,d:%s" % (a["name"], a["L"], b["name"], b["L"], a["name"], b["name"], a["name"]),
                     "ok -,-,%s/%d,%s/%d,%s" % (a["name"], a["L"], b["name"], b["L"], a["name"])))
    lap("line-level scheduler")
    # ---- commands that compose a parameter list (MODE SELECT 6/10, PERSISTENT RESERVE OUT, EXTENDED COPY): several
    #      argument variants per class, valid and rejected ones.  What a construction yields (CDB + data-out) or the
    #      error it is refused with must be what the same construction yields in a process of its own, after any
    #      history of other constructions (including refused ones) and when another thread is parked inside one.
    import copy
    import importlib
    import os
    from props import c05
    g = c05.G(common.SEED * 7919 + 909)
    try:
        g.out_blocks()
        m = lambda n: importlib.import_module("pyscsi.pyscsi." + n)
        MS6, MS10 = m("scsi_cdb_modesense6").ModeSelect6, m("scsi_cdb_modesense10").ModeSelect10
        PRO = m("scsi_cdb_persistentreserveout").PersistentReserveOut
        X4, X5 = m("scsi_cdb_extended_copy_spc4").ExtendedCopy, m("scsi_cdb_extended_copy_spc5").ExtendedCopy
        spc = sets["spc"]
        opp = spc.PERSISTENT_RESERVE_OUT
        variants = []
        for ten in (False, True):
            for _ in range(2):
                d, _e = g.mode_list(ten)
                variants.append(("modeselect%d" % (10 if ten else 6), MS10 if ten else MS6, (spc.MODE_SELECT_10 if ten else spc.MODE_SELECT_6, d), {"pf": 1, "sp": 0}))
        seen_kinds = {}
        for _ in range(60):
            kindp, d, _e = g.prout()
            if seen_kinds.get(kindp, 0) >= 2:
                continue
            seen_kinds[kindp] = seen_kinds.get(kindp, 0) + 1
            sa = {"basic": opp.serviceaction.REGISTER, "spec": opp.serviceaction.REGISTER, "ram": opp.serviceaction.REGISTER_AND_MOVE}[kindp]
            d = dict(d)
            if kindp == "basic":
                d.update({"aptpl": 1, "all_tg_pt": 1})
            variants.append(("prout-" + kindp, PRO, (opp, sa), dict(d, scope=1, pr_type=3)))
        base_ram = {"reservation_key": 5, "service_action_reservation_key": 6, "aptpl": 1, "unreg": 1, "relative_target_port_id": 2, "scope": 0, "pr_type": 1}
        variants.append(("prout-ram-rejected-iscsi", PRO, (opp, opp.serviceaction.REGISTER_AND_MOVE),
                         dict(base_ram, transport_id={"tpid_format": 1, "protocol_id": 5, "iscsi_name": "iqn.2001-04.com.example:x"})))
        variants.append(("prout-ram-rejected-fcp", PRO, (opp, opp.serviceaction.REGISTER_AND_MOVE),
                         dict(base_ram, transport_id={"tpid_format": 0, "protocol_id": 0})))
        variants.append(("prout-spec-rejected", PRO, (opp, opp.serviceaction.REGISTER),
                         {"reservation_key": 1, "service_action_reservation_key": 2, "spec_i_pt": 1, "aptpl": 1, "scope": 0, "pr_type": 1,
                          "transport_ids": [{"tpid_format": 0, "protocol_id": 6, "sas_address": b"\x01" * 8}, {"tpid_format": 0, "protocol_id": 4}]}))
        for five in (False, True):
            for _ in range(2):
                kw, _e, _m = g.xcopy(five)
                variants.append(("xcopy%d" % (5 if five else 4), X5 if five else X4, (spc.EXTENDED_COPY,), kw))
            kw, _e, _m = g.xcopy(five)
            kw = copy.deepcopy(kw)
            kw["segment_descriptor_list"] = list(kw["segment_descriptor_list"]) + [{"descriptor_type_code": 0x02, "bogus_key": 1}]
            variants.append(("xcopy%d-rejected-key" % (5 if five else 4), X5 if five else X4, (spc.EXTENDED_COPY,), kw))
            kw = copy.deepcopy(kw)
            kw["segment_descriptor_list"] = [{"descriptor_type_code": 0x55}]
            variants.append(("xcopy%d-rejected-type" % (5 if five else 4), X5 if five else X4, (spc.EXTENDED_COPY,), kw))
    finally:
        g.close()

    def construct(v):
        try:
            inst = v[1](*v[2], **copy.deepcopy(v[3]))
            return ("ok", bytes(inst.cdb), bytes(inst.dataout), len(inst.datain))
        except Exception as e:
            return ("raises", type(e).__name__)

    def in_own_process(v):
        r, w = os.pipe()
        pid = os.fork()
        if pid == 0:
            try:
                os.close(r)
                os.write(w, pickle.dumps(construct(v)))
            finally:
                os._exit(0)
        os.close(w)
        buf = b""
        while True:
            chunk = os.read(r, 1 << 16)
            if not chunk:
                break
            buf += chunk
        os.close(r)
        os.waitpid(pid, 0)
        return pickle.loads(buf)

    solo = [in_own_process(v) for v in variants]       # before this process has built any of these classes
    for v, so in zip(variants, solo):
        res.count("parameter-list variant %s: %s" % (v[0], so[0] if so[0] == "ok" else so[1]))
    sofar = []
    for it in range(120 * scale):
        idx = [rng.randrange(len(variants)) for _ in range(rng.randint(2, 6))]
        hist = [variants[i][0] for i in idx]
        res.case(("paramlist history", tuple(idx)), {"history": hist} if it < 2 else None)
        res.count("parameter-list histories")
        for pos, i in enumerate(idx):
            got = construct(variants[i])
            sofar.append(variants[i][0])
            if got != solo[i]:
                res.violation("paramlist history %s" % variants[i][0].split("-rejected")[0],
                              "after building (most recent last) %s: %s yields %s, in a process of its own %s" % (
                                  " ; ".join(sofar[-9:-1]) or "nothing", variants[i][0], str(got)[:160], str(solo[i])[:160]),
                              {"constructions_in_this_process": sofar[-40:], "got": str(got)[:600], "solo": str(solo[i])[:600]})
                break
        else:
            continue
        break
    # ---- the application keeps its own argument containers and edits them in place between two constructions (same
    #      list objects, same lengths, other contents): the second command must be what those contents yield in a
    #      process of its own — not what the containers held the first time
    def lists_in(x, out):
        if isinstance(x, dict):
            for v_ in x.values():
                lists_in(v_, out)
        elif isinstance(x, list):
            out.append(x)
            for v_ in x:
                lists_in(v_, out)
        return out

    def construct_with(v, pos, kw):
        try:
            inst = v[1](*pos, **kw)
            return ("ok", bytes(inst.cdb), bytes(inst.dataout), len(inst.datain))
        except Exception as e:
            return ("raises", type(e).__name__)

    def edit_in_place(pos, kw):
        """same containers, same lengths, other contents: lists reversed, integers inside descriptors changed"""
        changed = False
        for l in lists_in({"p": list(pos[1:]), "k": kw}, [])[1:]:
            if len(l) >= 2 and l[0] != l[-1]:
                l.reverse()
                changed = True
            for d_ in l:
                if isinstance(d_, dict):
                    for k_, x_ in list(d_.items()):
                        if isinstance(x_, int) and not isinstance(x_, bool) and x_ >= 2 and k_.endswith(("_length", "block_length", "key", "count")) \
                                and "type" not in k_ and "code" not in k_:
                            d_[k_] = x_ - 1
                            changed = True
        return changed
    for i, v in enumerate(variants):
        if solo[i][0] != "ok":
            continue
        pos = tuple(x if j == 0 else copy.deepcopy(x) for j, x in enumerate(v[2]))
        kw = copy.deepcopy(v[3])
        if not lists_in({"p": list(pos[1:]), "k": kw}, [])[1:]:
            continue
        # what the edited contents yield on their own
        pos_b = tuple(x if j == 0 else copy.deepcopy(x) for j, x in enumerate(pos))
        kw_b = copy.deepcopy(kw)
        if not edit_in_place(pos_b, kw_b):
            continue
        solo_b = in_own_process((v[0], v[1], pos_b, kw_b))
        res.case(("containers reused", v[0], i), None)
        res.count("caller-owned containers edited in place between two constructions")
        first = construct_with(v, pos, kw)
        edit_in_place(pos, kw)
        second = construct_with(v, pos, kw)
        if first != solo[i] or second != solo_b:
            which = "first" if first != solo[i] else "second"
            res.violation("paramlist reused containers %s" % v[0].split("-rejected")[0],
                          "%s built twice from the same argument containers, edited in place in between: the %s construction yields %s, the same contents in a process of their own %s" % (
                              v[0], which, str(first if which == "first" else second)[:160], str(solo[i] if which == "first" else solo_b)[:160]),
                          {"variant": v[0], "which": which, "got": str(first if which == "first" else second)[:600],
                           "solo": str(solo[i] if which == "first" else solo_b)[:600]})
    # one preemption: thread 0 parked after i traced lines inside the list builders, thread 1 builds, thread 0 finishes
    files = ("scsi_cdb_persistentreserveout.py", "scsi_cdb_persistentreservein.py", "scsi_cdb_modesense6.py", "scsi_cdb_modesense10.py",
             "scsi_cdb_extended_copy_spc4.py", "scsi_cdb_extended_copy_spc5.py")
    byname = {}
    for i, v in enumerate(variants):
        byname.setdefault(v[0], i)
    tpairs = [("prout-ram", "prout-basic"), ("prout-ram-rejected-iscsi", "prout-basic"), ("prout-spec", "prout-ram"), ("prout-basic", "prout-spec"),
              ("modeselect6", "modeselect10"), ("xcopy4", "xcopy5"), ("xcopy5-rejected-key", "xcopy5")]
    stop = False
    for an, bn in tpairs:
        if an not in byname or bn not in byname or stop:
            continue
        ia, ib = byname[an], byname[bn]
        if an.split("-")[0] == bn.split("-")[0]:
            ib = max(i for i, v in enumerate(variants) if v[0] == bn)      # a different dictionary of the same kind
        s0 = Sched(files)
        _, st = s0.run({0: lambda: construct(variants[ia])}, lambda steps, alive: 0)
        na = st.get(0, 0)
        stride = 1 if (scale > 1 or na <= 90) else (na // 90 + 1)
        for i in range(0, na + 1, stride):
            sch = Sched(files)

            def pick(steps, alive, i=i):
                if 0 in alive and steps.get(0, 0) < i:
                    return 0
                if 1 in alive:
                    return 1
                return 0
            results, _ = sch.run({0: lambda: construct(variants[ia]), 1: lambda: construct(variants[ib])}, pick)
            res.case(("paramlist threads", an, bn, i), None)
            res.count("parameter-list thread schedules")
            for tid, iv in ((0, ia), (1, ib)):
                if results.get(tid) != ("ok", solo[iv]):
                    res.violation("paramlist threads %s|%s" % (an.split("-rejected")[0], bn.split("-rejected")[0]),
                                  "thread building %s parked after %d traced lines while another thread builds %s: thread %d got %s, in a process of its own %s" % (
                                      an, i, bn, tid, str(results.get(tid))[:160], str(solo[iv])[:160]),
                                  {"variants": [an, bn], "preempt_after": i, "thread": tid, "got": str(results.get(tid))[:600], "solo": str(solo[iv])[:600]})
                    stop = True
                    break
            if stop:
                break
    lap("parameter-list commands")
    reps = drv.batch([r[0] for r in reqs])
    for (line, impl), rep in zip(reqs, reps):
        if rep != impl:
            res.tie_break("Iso model disagrees with the observed histories", {"request": line[:300], "model": rep[:300], "implementation": impl[:300]})
    res.assumptions += ["attribute reads/writes are atomic (GIL); thread interleavings are enumerated at source-line granularity inside scsi_command.py with at most two preemptions on the real code, the theorem covers every schedule",
                        "every construction of a class uses an operation code of the same CDB length (C01: one group per class)"]
