"""C05 — parameter lists sent to the device have the standard layout and honest lengths.

Theorems: lean/ScsiVerif/Props/C05.lean.  Decision on the real code: valid parameter dictionaries
are generated, the real constructors (ModeSelect6/10, PersistentReserveOut, ExtendedCopy SPC-4/5)
build `dataout` and `cdb`; the expected parameter list is assembled from blocks encoded by the Lean
oracle (Std.DataOut / Std.DataIn) with the standards' length fields; the CDB's PARAMETER LIST LENGTH
is read at the standard's byte positions.  Tie: the Lean builder model (Enc.*) on the same dictionary."""
import copy
import importlib
import random

from lib import cmds, common, formats, stdresp
from lib.common import Driver, hx

TARGETS = ["ScsiVerif.Props.C05", "ScsiVerif.Props.C05b"]
NEEDS_GEN = True

PLL = {"modeselect6": (4, 1), "modeselect10": (7, 2), "prout": (5, 4), "xcopy": (10, 4)}   # (byte, width) of PARAMETER LIST LENGTH


class G(stdresp.Oracle):
    """generators of (dictionary for the library, expected parameter list)"""

    def out_blocks(self):
        r = self.drv.ask("blklist out")
        if not r.startswith("ok "):
            raise common.Infra("driver: blklist out -> " + r[:80])
        for b in r[3:].split("|"):
            name, base, ln, fields = b.split(":")
            self.blocks[name] = (int(base), int(ln), [(k, int(by), int(msb), int(w)) for k, by, msb, w in (f.split("/") for f in fields.split(";"))])

    # ---- MODE SELECT
    def mode_list(self, ten):
        npages = self.rng.choice([1, 1, 1, 2, 3])
        pages, dicts = b"", []
        for _ in range(npages):
            p, e = self.mode_page()
            pages += p
            dicts.append(e)
        if ten:
            v = self.vals("mode_header10", {"block_descriptor_length": 0, "mode_data_length": 6 + len(pages)})
            hdr = self.enc("mode_header10", v)
            d = {k: v[k] for k in ("medium_type", "device_specific_parameter", "longlba")}
        else:
            if 3 + len(pages) > 255:
                return self.mode_list(ten)
            v = self.vals("mode_header6", {"block_descriptor_length": 0, "mode_data_length": 3 + len(pages)})
            hdr = self.enc("mode_header6", v)
            d = {k: v[k] for k in ("medium_type", "device_specific_parameter")}
        d["mode_pages"] = dicts
        return d, hdr + pages

    # ---- TransportIDs as dictionaries for the builder
    def tid(self):
        raw, e = self.transport_id()
        return dict(e), raw

    # ---- PERSISTENT RESERVE OUT
    def prout(self):
        kind = self.rng.choice(["basic", "basic", "spec", "ram", "ram_none"])
        if kind == "basic":
            v = self.vals("prout_basic", {"spec_i_pt": 0})
            return "basic", dict(v), self.enc("prout_basic", v)
        if kind == "spec":
            tids = [self.tid() for _ in range(self.rng.choice([0, 1, 2, 3]))]
            raw = b"".join(t[1] for t in tids)
            v = self.vals("prout_basic", {"spec_i_pt": 1})
            d = dict(v)
            d["transport_ids"] = [t[0] for t in tids]
            v2 = dict(v, transportid_parameter_data_length=len(raw))
            return "spec", d, self.enc("prout_basic_spec", v2) + raw
        v = self.vals("prout_ram")
        d = {k: x for k, x in v.items() if k != "transportid_length"}
        if kind == "ram":
            t, raw = self.tid()
            d["transport_id"] = t
            v["transportid_length"] = len(raw)
            return "ram", d, self.enc("prout_ram", v) + raw
        v["transportid_length"] = 0
        return "ram", d, self.enc("prout_ram", v)

    # ---- EXTENDED COPY
    def xcopy(self, five):
        r = self.rng
        tkey = "cscd_descriptor_parameters" if five else "target_descriptor_parameters"
        targets, traw = [], b""
        for _ in range(r.choice([0, 1, 2, 2, 5])):
            # identification descriptor CSCD descriptor with a designator of at most 20 bytes
            while True:
                ty, des, exp = self.designator()
                if len(des) <= 20 and ty != 8:
                    break
            pdts = [0x00, 0x01, 0x03, 0x05, 0x0E] + ([] if five else [0x04, 0x07])
            pdt = r.choice(pdts)
            ident = self.vals("xcopy_ident_header", {"designator_type": ty, "designator_length": len(des)})
            params = {"code_set": ident["code_set"], "association": ident["association"], "designator_type": ty,
                      "designator_length": len(des), "designator": exp}
            d = {"descriptor_type_code": 0xE4, "peripheral_device_type": pdt, tkey: params}
            ripi = self.value(16)
            if r.random() < 0.5:
                d["relative_initiator_port_identifier"] = ripi
            else:
                ripi = 0
            if r.random() < 0.3:
                d["lu_id_type"] = 0
            dp = {}
            tv = {"descriptor_type_code": 0xE4, "lu_id_type": 0, "peripheral_device_type": pdt, "relative_initiator_port_identifier": ripi,
                  "pad": 0, "fixed": 0, "disk_block_length": 0}
            if pdt in (0, 4, 5, 7, 0x0E):
                if r.random() < 0.8:
                    dp = {"pad": r.getrandbits(1), "disk_block_length": self.value(24)}
                    tv.update(dp)
                raw = self.enc("xcopy_target_descriptor", tv)
            elif pdt == 1:
                if r.random() < 0.8:
                    dp = {"pad": r.getrandbits(1), "fixed": r.getrandbits(1), "stream_block_length": self.value(24)}
                tv2 = dict(tv)
                tv2.pop("disk_block_length")
                tv2["stream_block_length"] = dp.get("stream_block_length", 0)
                tv2["pad"], tv2["fixed"] = dp.get("pad", 0), dp.get("fixed", 0)
                raw = self.enc("xcopy_target_descriptor_seq", tv2)
            else:
                if r.random() < 0.8:
                    dp = {"pad": r.getrandbits(1)}
                    tv.update(dp)
                raw = self.enc("xcopy_target_descriptor", tv)
            if dp or r.random() < 0.5:
                d["device_type_specific_parameters"] = dp
            ih = self.enc("xcopy_ident_header", ident)
            raw = raw[:4] + ih + des + raw[8 + len(des):]
            targets.append(d)
            traw += raw
        segs, sraw = [], b""
        for _ in range(r.choice([0, 1, 2, 4])):
            code = r.choice([0x00, 0x0B, 0x01, 0x0C, 0x02, 0x0D])
            if code in (0x02, 0x0D):
                blk = "xcopy_seg_block_block5" if five else "xcopy_seg_block_block"
                v = self.vals(blk, {"descriptor_type_code": code, "descriptor_length": 24})
                if not five:
                    v["fco"] = 0
            else:
                blk = "xcopy_seg_block_stream5" if five else "xcopy_seg_block_stream"
                v = self.vals(blk, {"descriptor_type_code": code, "descriptor_length": 20})
            sraw += self.enc(blk, v)
            d = {k: x for k, x in v.items() if k != "descriptor_length" and not (k == "fco" and not five)}
            # leave some optional keys out: the library must then encode zero
            for k in list(d):
                if k != "descriptor_type_code" and d[k] == 0 and r.random() < 0.5:
                    del d[k]
            segs.append(d)
        inline = self.rbytes(r.choice([0, 0, 1, 7, 300]))
        if five:
            hv = self.vals("xcopy_lid4_header", {"parameter_list_format": 1, "header_cscd_descriptor_list_length": 0x20,
                                                "header_cscd_descriptor_type_code": 0xFF, "cscd_descriptor_list_length": len(traw),
                                                "segment_descriptor_list_length": len(sraw), "inline_data_length": len(inline)})
            kw = {"list_identifier": hv["list_identifier"], "sequential_striped": hv["str"], "list_id_usage": hv["list_id_usage"],
                  "priority": hv["priority"], "g_sense": hv["g_sense"], "immed": hv["immed"],
                  "cscd_descriptor_list": targets, "segment_descriptor_list": segs, "inline_data": bytearray(inline)}
            hdr = self.enc("xcopy_lid4_header", hv)
            mh = {"parameter_list_format": 1, "priority": hv["priority"], "list_id_usage": hv["list_id_usage"], "str": hv["str"],
                  "header_cscd_descriptor_list_length": 0x20, "immed": hv["immed"], "g_sense": hv["g_sense"],
                  "header_cscd_descriptor_type_code": 0xFF, "list_identifier": hv["list_identifier"]}
        else:
            hv = self.vals("xcopy_lid1_header", {"target_descriptor_list_length": len(traw), "segment_descriptor_list_length": len(sraw),
                                                "inline_data_length": len(inline)})
            kw = {"list_identifier": hv["list_identifier"], "sequential_striped": hv["str"], "nrcr": hv["nrcr"], "priority": hv["priority"],
                  "target_descriptor_list": targets, "segment_descriptor_list": segs, "inline_data": bytearray(inline)}
            hdr = self.enc("xcopy_lid1_header", hv)
            mh = {"list_identifier": hv["list_identifier"], "priority": hv["priority"], "nrcr": hv["nrcr"], "str": hv["str"],
                  "header_target_descriptor_list_length": 0x20}
        model = {"header": mh, "targets": targets, "segments": segs, "inline": inline}
        return kw, hdr + traw + sraw + inline, model


def run(res, tier, build_ok):
    scale = 1 if (tier == "quick" and build_ok) else 8
    sets = cmds.opcode_sets()
    spc = sets["spc"]
    m = lambda n: importlib.import_module("pyscsi.pyscsi." + n)
    MS6, MS10 = m("scsi_cdb_modesense6").ModeSelect6, m("scsi_cdb_modesense10").ModeSelect10
    PRO = m("scsi_cdb_persistentreserveout").PersistentReserveOut
    X4, X5 = m("scsi_cdb_extended_copy_spc4").ExtendedCopy, m("scsi_cdb_extended_copy_spc5").ExtendedCopy
    g = G(common.SEED * 7919 + 5)
    g.out_blocks()
    reqs = []

    from lib import devices

    def via_facade(kind, what, call, expected, replay):
        """the same command through the facade (what an application calls): constructible there too, same list"""
        fac, dev = devices.attach(spc)
        res.count("through the facade: " + kind.split(" ")[0])
        try:
            cmd = call(fac)
        except Exception as e:
            res.violation("facade cmd=%s raises=%s" % (kind, type(e).__name__),
                          "%s cannot be built through the facade for a valid parameter dictionary: %s (%s)" % (what, type(e).__name__, str(e)[:100]), replay)
            return
        if bytes(cmd.dataout) != expected or len(dev.calls) != 1 or dev.calls[0][2] is not cmd.dataout:
            res.violation("facade cmd=%s list differs" % kind, "%s through the facade: the parameter list handed to the device differs from the standard's layout" % what,
                          dict(replay, dataout=bytes(cmd.dataout).hex()[:1200], expected=expected.hex()[:1200]))

    def judge(kind, what, cmd_fn, expected, pll, replay, model_line):
        res.case((kind, expected), None)
        res.count("command " + kind)
        try:
            cmd = cmd_fn()
        except Exception as e:
            res.violation("cmd=%s raises=%s" % (kind, type(e).__name__),
                          "%s cannot be constructed for a valid parameter dictionary: %s (%s)" % (what, type(e).__name__, str(e)[:100]), replay)
            return
        out = bytes(cmd.dataout)
        replay = dict(replay, dataout=out.hex()[:1200], expected=expected.hex()[:1200], cdb=bytes(cmd.cdb).hex())
        if out != expected:
            k = next((j for j in range(min(len(out), len(expected))) if out[j] != expected[j]), min(len(out), len(expected)))
            res.violation("cmd=%s list differs" % kind,
                          "%s: the parameter list differs from the standard's layout at byte %d (%d bytes built, %d expected)" % (what, k, len(out), len(expected)), replay)
            return
        by, w = pll
        if int.from_bytes(bytes(cmd.cdb)[by:by + w], "big") != len(out):
            res.violation("cmd=%s cdb length" % kind, "%s: PARAMETER LIST LENGTH in the CDB is %d, the list has %d bytes" % (
                what, int.from_bytes(bytes(cmd.cdb)[by:by + w], "big"), len(out)), replay)
            return
        if model_line:
            reqs.append((kind, out, model_line))

    try:
        for i in range(60 * scale):
            for ten in (False, True):
                d, exp = g.mode_list(ten)
                cls, op = (MS10, spc.MODE_SELECT_10) if ten else (MS6, spc.MODE_SELECT_6)
                pf, sp = g.rng.getrandbits(1), g.rng.getrandbits(1)
                kind = "modeselect10" if ten else "modeselect6"
                judge(kind, "MODE SELECT(%d)" % (10 if ten else 6), lambda: cls(op, copy.deepcopy(d), pf=pf, sp=sp), exp, PLL[kind],
                      {"command": kind, "data": str(d)[:800]}, "mar %s %s" % ("modesense10" if ten else "modesense6", formats.to_text(d)))
                if i % 4 == 0:
                    via_facade(kind, "MODE SELECT(%d)" % (10 if ten else 6),
                               lambda f: (f.modeselect10 if ten else f.modeselect6)(copy.deepcopy(d), pf=pf, sp=sp), exp, {"command": kind, "data": str(d)[:800]})
            kindp, d, exp = g.prout()
            op = spc.PERSISTENT_RESERVE_OUT
            sa = {"basic": g.rng.choice([op.serviceaction.REGISTER, op.serviceaction.RESERVE, op.serviceaction.RELEASE, op.serviceaction.CLEAR,
                                         op.serviceaction.PREEMPT, op.serviceaction.REGISTER_AND_IGNORE_EXISTING_KEY]),
                  "spec": op.serviceaction.REGISTER, "ram": op.serviceaction.REGISTER_AND_MOVE}[kindp]
            scope, ty = g.rng.getrandbits(4), g.rng.getrandbits(4)
            judge("prout " + kindp, "PERSISTENT RESERVE OUT (%s list)" % kindp,
                  lambda: PRO(op, sa, scope=scope, pr_type=ty, **copy.deepcopy(d)), exp, PLL["prout"],
                  {"command": "prout", "service_action": sa, "data": str(d)[:800]},
                  "mar prout%d %s" % ({"basic": 0, "spec": 1, "ram": 2}[kindp], formats.to_text(d)))
            via_facade("prout " + kindp, "PERSISTENT RESERVE OUT (%s list)" % kindp,
                       lambda f: f.persistentreserveout(sa, scope=scope, pr_type=ty, **copy.deepcopy(d)), exp,
                       {"command": "prout", "service_action": sa, "data": str(d)[:800]})
            for five in (False, True):
                kw, exp, model = g.xcopy(five)
                cls = X5 if five else X4
                opx = spc.EXTENDED_COPY
                judge("xcopy lid%d" % (4 if five else 1), "EXTENDED COPY(LID%d)" % (4 if five else 1),
                      lambda: cls(opx, **copy.deepcopy(kw)), exp, PLL["xcopy"],
                      {"command": "xcopy%d" % (5 if five else 4), "kwargs": str(kw)[:1200]},
                      "mar xcopy%d %s" % (5 if five else 4, formats.to_text(model)))
                if i % 4 == 0:
                    via_facade("xcopy lid%d" % (4 if five else 1), "EXTENDED COPY(LID%d)" % (4 if five else 1),
                               lambda f: (f.extendedcopy5 if five else f.extendedcopy4)(**copy.deepcopy(kw)), exp,
                               {"command": "xcopy%d" % (5 if five else 4), "kwargs": str(kw)[:1200]})
        # ---- read-modify-write: the dictionary decoded from a MODE SENSE answer that carries block descriptors, handed to
        #      MODE SELECT.  Whatever the library does with the block descriptors, the list must be walkable: BLOCK
        #      DESCRIPTOR LENGTH equals the block-descriptor bytes that follow the header, then the page, then nothing.
        MSE6, MSE10 = m("scsi_cdb_modesense6").ModeSense6, m("scsi_cdb_modesense10").ModeSense10
        for i in range(40 * scale):
            for ten in (False, True):
                resp, _e = g.modesense(ten)
                hl = 8 if ten else 4
                bdl_in = int.from_bytes(resp[6:8], "big") if ten else resp[3]
                page = bytes(resp[hl + bdl_in:])
                kind = "modeselect10" if ten else "modeselect6"
                replay = {"command": kind, "route": "decode MODE SENSE data, hand the dictionary to MODE SELECT", "modesense_data": bytes(resp).hex()}
                res.case(("rmw", kind, bytes(resp)), None)
                res.count("MODE SENSE answer -> MODE SELECT list")
                try:
                    parsed = (MSE10 if ten else MSE6).unmarshall_datain(bytearray(resp))
                    cmd = (MS10 if ten else MS6)(spc.MODE_SELECT_10 if ten else spc.MODE_SELECT_6, parsed)
                except Exception as e:
                    res.violation("cmd=%s rmw raises=%s" % (kind, type(e).__name__),
                                  "MODE SELECT(%d) cannot be constructed from a decoded MODE SENSE answer: %s" % (10 if ten else 6, type(e).__name__), replay)
                    continue
                out = bytes(cmd.dataout)
                replay["dataout"] = out.hex()
                bdl = int.from_bytes(out[6:8], "big") if ten else out[3]
                by, w = PLL[kind]
                bad = None
                if int.from_bytes(bytes(cmd.cdb)[by:by + w], "big") != len(out):
                    bad = "PARAMETER LIST LENGTH in the CDB is %d, the list has %d bytes" % (int.from_bytes(bytes(cmd.cdb)[by:by + w], "big"), len(out))
                elif len(out) != hl + bdl + len(page):
                    bad = "BLOCK DESCRIPTOR LENGTH is %d but %d bytes follow the header where %d + the %d-byte page are announced" % (bdl, len(out) - hl, bdl, len(page))
                elif out[hl + bdl:] != page:
                    bad = "the mode page does not stand where the length fields say it starts (byte %d)" % (hl + bdl)
                if bad:
                    res.violation("cmd=%s rmw lengths" % kind, "MODE SELECT(%d) built from a decoded MODE SENSE answer: %s" % (10 if ten else 6, bad), replay)
        # ---- honest lengths for iSCSI TransportIDs of every name length (1..40), incl. the short ones the byte-for-byte
        #      oracle above leaves out: whatever padding is chosen, every length field must equal what follows it
        op = spc.PERSISTENT_RESERVE_OUT
        for n in range(1, 41):
            for fmt in (0, 1):
                name = ("iqn.2001-04.a:" + "b" * 40)[:n]
                tid = {"tpid_format": fmt, "protocol_id": 5, "iscsi_name": name}
                if fmt:
                    tid["iscsi_initiator_session_id"] = "0123456789ab"
                for kindp, sa, kw in (("ram", op.serviceaction.REGISTER_AND_MOVE, {"transport_id": tid, "relative_target_port_id": 3}),
                                      ("spec", op.serviceaction.REGISTER, {"spec_i_pt": 1, "transport_ids": [dict(tid), dict(tid)]})):
                    res.case(("prout tid lengths", n, fmt, kindp), None)
                    res.count("iSCSI TransportID name lengths x list kinds")
                    replay = {"command": "prout", "list": kindp, "iscsi_name": name, "tpid_format": fmt}
                    try:
                        cmd = PRO(op, sa, scope=0, pr_type=1, reservation_key=1, service_action_reservation_key=2, **copy.deepcopy(kw))
                    except Exception as e:
                        res.violation("cmd=prout %s raises=%s" % (kindp, type(e).__name__),
                                      "PERSISTENT RESERVE OUT (%s list) cannot be constructed with a %d-character iSCSI name: %s" % (kindp, n, type(e).__name__), replay)
                        continue
                    out = bytes(cmd.dataout)
                    replay["dataout"] = out.hex()
                    bad = None
                    if int.from_bytes(bytes(cmd.cdb)[5:9], "big") != len(out):
                        bad = "PARAMETER LIST LENGTH in the CDB is %d, the list has %d bytes" % (int.from_bytes(bytes(cmd.cdb)[5:9], "big"), len(out))
                    hdr = 24 if kindp == "ram" else 28
                    lenf = int.from_bytes(out[20:24] if kindp == "ram" else out[24:28], "big")
                    if bad is None and lenf != len(out) - hdr:
                        bad = "TRANSPORTID (PARAMETER DATA) LENGTH is %d, %d bytes follow" % (lenf, len(out) - hdr)
                    pos = hdr
                    ntid = 0
                    while bad is None and pos < len(out):
                        al = int.from_bytes(out[pos + 2:pos + 4], "big")
                        body = out[pos + 4:pos + 4 + al]
                        want = (name + (",i,0x0123456789ab" if fmt else "")).encode()
                        if pos + 4 + al > len(out) or al % 4 or out[pos] != ((fmt << 6) | 5) or body[:len(want)] != want or any(body[len(want):]) or len(body) <= len(want):
                            bad = "TransportID at byte %d: ADDITIONAL LENGTH %d does not delimit the null-terminated, null-padded name (%d bytes remain)" % (pos, al, len(out) - pos - 4)
                        pos += 4 + al
                        ntid += 1
                    if bad is None and ntid != (1 if kindp == "ram" else 2):
                        bad = "%d TransportIDs found by walking the length fields" % ntid
                    if bad:
                        res.violation("cmd=prout %s iscsi lengths" % kindp, "PERSISTENT RESERVE OUT (%s list), iSCSI name of %d characters: %s" % (kindp, n, bad), replay)
    finally:
        nreq = g.nreq
        g.close()
    res.count("oracle (Lean) encodings requested", nreq)
    drv = Driver()
    reps = drv.batch([r[2] for r in reqs])
    for (kind, out, line), rep in zip(reqs, reps):
        if rep == "bad-op":
            raise common.Infra("driver does not know " + line[:80])
        if rep != "ok " + hx(out):
            res.tie_break("builder model for %s disagrees with the implementation" % kind,
                          {"command": kind, "request": line[:600], "model": rep[:300], "implementation": out.hex()[:300]})
        else:
            res.count("model agreements")
    res.assumptions += [
        "the expected parameter lists are concatenations of blocks encoded by the Lean oracle (Std.DataOut/Std.DataIn) with the standards' length fields filled in by the harness",
        "EXTENDED COPY: identification-descriptor CSCD descriptors (E4h) with designators of at most 20 bytes and segment descriptors 00h/01h/02h/0Bh/0Ch/0Dh — the types the library implements; codes are given as integers",
        "iSCSI names are realistic (>= 20 characters): the standard's minimum ADDITIONAL LENGTH of 20 for shorter names is recorded in DESIGN.md, not judged",
        "MODE SELECT parameter lists carry MODE DATA LENGTH and PS as built by the library (reserved for MODE SELECT; recorded, not judged)",
    ]
