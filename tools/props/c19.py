"""C19 — the transport bindings are optional; a missing one is refused, not half-used.

Theorems: lean/ScsiVerif/Props/C19.lean (refusal iff, no effect on refusal, exact path / URL /
initiator, for all device strings and the four presence combinations).
Tie: correspondence of init_device and the two constructors with InitDevice.initDevice in all four
configurations (fresh import each), and — exhaustive execution, not a theorem — a fresh interpreter
per configuration imports every module, builds/encodes/decodes every command and drives the facade
over a plain device object."""
import json
import random
import subprocess
import sys

from lib import common, virtos
from lib.common import Driver

TARGETS = ["ScsiVerif.Props.C19"]
NEEDS_GEN = False


def hexs(s):
    return "x" + s.encode("latin-1").hex()


def run(res, tier, build_ok):
    rng = random.Random(common.SEED * 7919 + 19)
    scale = 1 if (tier == "quick" and build_ok) else 5
    drv = Driver()
    reqs = []
    # ---- exhaustive execution: four fresh interpreters
    for has_sgio in (False, True):
        for has_iscsi in (False, True):
            p = subprocess.run([common.PYTHON, str(common.VERIF / "tools" / "lib" / "c19_probe.py"), str(common.REPO),
                                "1" if has_sgio else "0", "1" if has_iscsi else "0"], stdout=subprocess.PIPE, stderr=subprocess.PIPE,
                               text=True, timeout=300)
            cfg = "sgio=%d iscsi=%d" % (has_sgio, has_iscsi)
            if p.returncode != 0:
                res.violation("config %s import" % cfg, "the library cannot even be imported with %s: %s" % (cfg, p.stderr[-300:]), {"config": cfg, "stderr": p.stderr[-1000:]})
                continue
            o = json.loads(p.stdout)
            res.case(("probe", has_sgio, has_iscsi), {"config": cfg, "modules_imported": o["modules"], "commands_built": o["commands"], "flags": o["flags"]})
            res.count("probe configurations")
            if o["flags"].get("importable_sgio") != has_sgio or o["flags"].get("importable_iscsi") != has_iscsi:
                raise common.Infra("probe environment wrong: %s vs %s" % (o["flags"], cfg))
            if o["import_failures"]:
                res.violation("config %s module import" % cfg, "with %s these modules fail to import: %s" % (cfg, o["import_failures"]), {"config": cfg, "failures": o["import_failures"]})
            if o["command_failures"]:
                res.violation("config %s commands" % cfg, "with %s these commands cannot be built/encoded/decoded: %s" % (cfg, o["command_failures"]), {"config": cfg, "failures": o["command_failures"]})
            if o["facade_failures"]:
                res.violation("config %s facade" % cfg, "with %s the facade fails over a plain device object: %s" % (cfg, o["facade_failures"]), {"config": cfg, "failures": o["facade_failures"]})
            if o["flags"].get("_has_sgio") != has_sgio or o["flags"].get("_has_iscsi") != has_iscsi:
                res.violation("config %s flags" % cfg, "binding detection wrong: %s" % o["flags"], {"config": cfg, "flags": o["flags"]})
    # ---- init_device / constructors in the four configurations (fresh import each)
    devs = ["/dev/sg0", "/dev/", "/dev", "/dev/nvme0n1", "/Dev/sg0", " /dev/sg0", "dev/sg0", "/devx/sg", "iscsi://h/t/1", "iscsi://",
            "iscsi:/h/t/0", "ISCSI://h/t/0", "iscsi://10.0.0.1:3260/iqn.2001-04.com.example:x/0", "", "x", "file:///dev/sg0", "/dev/iscsi://",
            "iscsi:///dev/sg0", "\\dev\\sg0", "iscsi://[fe80::1", "http://[fe80::1", " iscsi://h/t/0", "iscsi:h/t/0", "iscsi:",
            "Iscsi://h/t/0", "iscsi://[::1]:3260/iqn.t/0", "iscsi://user%secret@10.0.0.1:3260/iqn.2001-04.com.example:x/0",
            "iscsi://chapuser%p%40ss@h/iqn.t/3", "iscsi://user@h/iqn.t/0", "iscsi://h/iqn.t/0?x=1", "/dev/../dev/sg0", "/dev//sg0", "//dev/sg0", "/dev/sg0\x00"]
    for _ in range(20 * scale):
        devs.append("".join(rng.choice("/deviscsi:. x01") for _ in range(rng.randint(0, 14))))
    for has_sgio in (False, True):
        for has_iscsi in (False, True):
            stubs = tuple(n for n, h in (("sgio", has_sgio), ("iscsi", has_iscsi)) if h)
            common.bootstrap_repo(stubs=stubs)
            vos = virtos.VirtualOS()
            vos.install()
            from pyscsi.utils import init_device
            from pyscsi.pyscsi.scsi_device import SCSIDevice
            from pyscsi.pyiscsi.iscsi_device import ISCSIDevice
            isc = sys.modules.get("iscsi")
            for dev in devs:
                for rw in (False, True):
                    for ini in (None, "iqn.2005-03.org.example:initiator"):
                        if dev.startswith("/dev/"):
                            vos.nodes[dev] = 7
                        del vos.log[:]
                        if isc:
                            del isc.LOG[:]
                        kw = {} if ini is None else {"initiator_name": ini}
                        try:
                            d = init_device(dev, rw, **kw)
                            got = "scsi" if isinstance(d, SCSIDevice) else ("iscsi" if isinstance(d, ISCSIDevice) else "other")
                        except NotImplementedError:
                            got = "refused"
                        except Exception as e:
                            got = "raises " + type(e).__name__
                        opens = [e for e in vos.log if e[0] == "open"]
                        conns = [e for e in (isc.LOG if isc else []) if e[0] in ("context", "url", "connect")]
                        want = "scsi" if (dev.startswith("/dev/") and has_sgio) else ("iscsi" if (dev.startswith("iscsi://") and has_iscsi) else "refused")
                        cfg = "sgio=%d iscsi=%d" % (has_sgio, has_iscsi)
                        res.case((has_sgio, has_iscsi, dev, rw, ini), {"config": cfg, "device": dev, "read_write": rw, "initiator": ini, "result": got})
                        res.count("init_device " + cfg)
                        bad = None
                        if got != want:
                            bad = "init_device(%r) with %s gives %s, expected %s" % (dev, cfg, got, want)
                        elif got == "refused" and (opens or conns):
                            bad = "init_device(%r) is refused but %s was opened first" % (dev, opens or conns)
                        elif got == "scsi" and (len(opens) != 1 or opens[0][1] != dev or opens[0][2] != ("w+b" if rw else "rb") or conns):
                            bad = "init_device(%r): opened %s, expected exactly %r in mode %s" % (dev, opens, dev, "w+b" if rw else "rb")
                        elif got == "iscsi":
                            ctx = [e for e in conns if e[0] == "context"]
                            url = [e for e in conns if e[0] == "url"]
                            if len(ctx) != 1 or len(url) != 1 or url[0][1] != dev or opens:
                                bad = "init_device(%r): connection made with %s" % (dev, conns)
                            elif ini is not None and ctx[0][1] != ini:
                                bad = "init_device(%r, initiator_name=%r) connected as %r" % (dev, ini, ctx[0][1])
                            elif ini is None and not ctx[0][1].startswith("iqn.2018-01.org.pyscsi:"):
                                bad = "init_device(%r) default initiator name is %r" % (dev, ctx[0][1])
                        if bad:
                            res.violation("init_device config=%s result=%s" % (cfg, got), bad, {"config": cfg, "device": dev, "rw": rw, "initiator": ini, "result": got})
                        if ini is not None and not got.startswith("raises"):
                            eff = ""
                            if got == "scsi":
                                eff = "open:%s:%s" % (hexs(dev), "w+b" if rw else "rb")
                            elif got == "iscsi":
                                eff = "connect:%s:%s" % (hexs(dev), hexs([e for e in conns if e[0] == "context"][0][1]))
                            impl = "ok %s %s" % ("refused" if got == "refused" else "%s:%s" % (got, hexs(dev)), eff)
                            reqs.append(("initdev %s %d %d %d %s" % (hexs(dev), has_sgio, has_iscsi, rw, hexs(ini)), impl))
            # ---- the two constructors called directly: same refusal rule, no effect when refused
            for dev in devs:
                for kind in ("scsi", "iscsi"):
                    if dev.startswith("/dev/"):
                        vos.nodes[dev] = 7
                    del vos.log[:]
                    if isc:
                        del isc.LOG[:]
                    try:
                        d = SCSIDevice(dev, True) if kind == "scsi" else ISCSIDevice(dev, "iqn.2005-03.org.example:initiator")
                        got = "opened"
                    except NotImplementedError:
                        got = "refused"
                    except Exception as e:
                        got = "raises " + type(e).__name__
                    opens = [e for e in vos.log if e[0] == "open"]
                    conns = [e for e in (isc.LOG if isc else []) if e[0] in ("context", "url", "connect")]
                    ok = (dev.startswith("/dev/") and has_sgio) if kind == "scsi" else (dev.startswith("iscsi://") and has_iscsi)
                    cfg = "sgio=%d iscsi=%d" % (has_sgio, has_iscsi)
                    res.case(("ctor", kind, has_sgio, has_iscsi, dev), None)
                    res.count("constructor " + kind)
                    bad = None
                    if got != ("opened" if ok else "refused"):
                        bad = "%s(%r) with %s: %s, expected %s" % ("SCSIDevice" if kind == "scsi" else "ISCSIDevice", dev, cfg, got, "opened" if ok else "refused")
                    elif not ok and (opens or conns):
                        bad = "%s(%r) is refused but %s happened first" % (kind, dev, opens or conns)
                    elif ok and kind == "scsi" and (len(opens) != 1 or opens[0][1] != dev):
                        bad = "SCSIDevice(%r) opened %s" % (dev, opens)
                    elif ok and kind == "iscsi" and ([e[1] for e in conns if e[0] == "url"] != [dev]):
                        bad = "ISCSIDevice(%r) connected with %s" % (dev, conns)
                    if bad:
                        res.violation("constructor=%s config=%s result=%s" % (kind, cfg, got), bad, {"config": cfg, "device": dev, "constructor": kind, "result": got})
    common.bootstrap_repo()
    reps = drv.batch([r[0] for r in reqs])
    for (line, impl), rep in zip(reqs, reps):
        if rep != impl:
            res.tie_break("InitDevice model disagrees with init_device", {"request": line, "model": rep, "implementation": impl})
    res.exhaustive = True
    res.assumptions += ["the import half of the property is decided by exhaustive execution (four fresh interpreters), not by a theorem: Python's import machinery is not modelled",
                        "presence of a binding = an importable module of that name (stand-ins in tools/stubs/pkg_*)"]
