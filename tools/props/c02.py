"""C02 — CDB decoding is the exact inverse of CDB encoding.

Theorems: lean/ScsiVerif/Props/C02.lean (decode_encode, encode_decode, locality for every well-formed
layout; all_cdb_layouts_wf decided on Gen).  Tie: Gen tables + correspondence of
Class.marshall_cdb / Class.unmarshall_cdb (called right after constructing an instance of the class,
see C09) with encodeDict / decodeBits."""
import random

from lib import cmds, common
from lib.common import Driver, enc_dict, enc_layout, hx
from props import c01

TARGETS = ["ScsiVerif.Props.C02"]
NEEDS_GEN = True


def mask_width(m):
    while not m & 1:
        m >>= 1
    return m.bit_length()


def run(res, tier, build_ok):
    rng = random.Random(common.SEED * 7919 + 2)
    scale = 1 if (tier == "quick" and build_ok) else 6
    data = cmds.gen_data()
    drv = Driver()
    std = cmds.StdInfo(drv, data["commands"])
    sets = cmds.opcode_sets()
    reqs = []
    for c in data["commands"]:
        module = c["module"].split(".")[-1]
        cls = cmds.get_class(c["module"], c["cls"])
        s = std.get(module, c["cls"])
        if s is None:
            continue
        op = None
        for sn, e in sets.items():
            op = cmds.find_op(e, s["opname"])
            if op is not None:
                break
        if op is None:
            continue
        kw = c01.finalize_kwargs(c, c01.make_cases(c, s, rng, 1)[-1], rng)
        layout = cls._cdb_bits
        fields = [(k, v[0], v[1]) for k, v in layout.items()]
        for it in range(12 * scale):
            try:
                inst = cls(op, **kw)       # (re)establish the class-level layout/length, as the API requires
            except Exception as e:
                res.tie_break("cannot construct %s to exercise its static (un)marshall" % c["cls"], {"class": c["cls"], "exc": type(e).__name__})
                break
            L = len(inst.cdb)
            mode = it % 4
            d = {}
            for k, m, off in fields:
                w = mask_width(m)
                d[k] = [rng.getrandbits(w), (1 << w) - 1, 0, 1 << rng.randrange(w)][mode if mode < 3 else 3]
            keys = list(d)
            rng.shuffle(keys)
            d = {k: d[k] for k in keys}
            b = cls.marshall_cdb(d)
            d2 = cls.unmarshall_cdb(b)
            b2 = cls.marshall_cdb(d2)
            res.case((c["cls"], tuple(sorted(d.items()))), {"class": c["cls"], "fields": d, "cdb": bytes(b).hex()})
            res.count("class " + c["cls"])
            if len(b) != L or d2 != d:
                res.violation("cls=%s decode_encode" % c["cls"], "%s.unmarshall_cdb(marshall_cdb(d)) != d" % c["cls"],
                              {"class": c["cls"], "d": d, "cdb": bytes(b).hex(), "decoded": d2})
                continue
            if bytes(b2) != bytes(b):
                res.violation("cls=%s encode_decode" % c["cls"], "%s.marshall_cdb(unmarshall_cdb(b)) != b" % c["cls"],
                              {"class": c["cls"], "b": bytes(b).hex(), "re-encoded": bytes(b2).hex()})
                continue
            # locality: change one field
            f = rng.choice(keys)
            w = mask_width(layout[f][0])
            d3 = dict(d)
            d3[f] = (d[f] + 1 + rng.getrandbits(w)) % (1 << w)
            o3 = cls.unmarshall_cdb(cls.marshall_cdb(d3))
            if any(o3[k] != d[k] for k in keys if k != f) or o3[f] != d3[f]:
                res.violation("cls=%s locality field=%s" % (c["cls"], f), "changing %s of %s changed another decoded field" % (f, c["cls"]),
                              {"class": c["cls"], "d": d, "changed": {f: d3[f]}, "decoded": o3})
            reqs.append(("enc %s %s %s" % (hx(bytearray(L)), enc_layout(layout), enc_dict(d)), "ok " + hx(b), c["cls"]))
            reqs.append(("dec %s %s" % (hx(b), enc_layout(layout)), common.canon_dict(d2), c["cls"]))
            reqs.append(("wf %s %d" % (enc_layout(layout), L), "ok true", c["cls"]))
    # ---- the same three clauses on CDBs the *constructors* build, one after another (the way an application builds
    #      them): decode(built) returns the arguments; building again with one argument changed changes only that
    #      argument's decoded value
    for c in data["commands"]:
        module = c["module"].split(".")[-1]
        cls = cmds.get_class(c["module"], c["cls"])
        s = std.get(module, c["cls"])
        if s is None or c["cls"].startswith("ATAPassThrough"):
            continue
        op = None
        for sn, e in sets.items():
            op = cmds.find_op(e, s["opname"])
            if op is not None:
                break
        if op is None:
            continue
        argf = [f for f in s["fields"] if f["kind"] == "arg"]
        # library key of each standard field: the table entry occupying the same bits
        lay = cls._cdb_bits

        def key_of(f, L):
            lsb = 8 * (L - 1 - f["byte"]) + f["msb"] + 1 - f["width"]
            for k, (m, off) in lay.items():
                nb = max(1, (m.bit_length() + 7) // 8)
                tz = (m & -m).bit_length() - 1
                if 8 * (L - off - nb) + tz == lsb and mask_width(m) == f["width"]:
                    return k
            return None
        for base in c01.make_cases(c, s, rng, 1)[: 3 * scale]:
            kw = c01.finalize_kwargs(c, base, rng)
            try:
                first = cls(op, **kw)
            except Exception:
                break
            L = len(first.cdb)
            d0 = cls.unmarshall_cdb(first.cdb)
            for f in argf:
                a = f["arg"]
                k = key_of(f, L)
                if k is None or not isinstance(kw.get(a), int) or a in ("blocksize",) or kw[a] >= (1 << f["width"]):
                    continue
                # decoding the built CDB returns the argument it was built from — zero included (an explicit 0 is a value)
                for v0 in (kw[a], 0):
                    kwz = dict(kw)
                    kwz[a] = v0
                    if "data" in kwz and isinstance(kwz.get("data"), (bytes, bytearray)) and a in ("tl",):
                        continue
                    try:
                        cz = cls(op, **kwz)
                    except Exception:
                        continue
                    dz = cls.unmarshall_cdb(cz.cdb)
                    res.count("constructor-built CDB decoded back to its argument")
                    if dz.get(k) != v0:
                        res.violation("cls=%s built decode arg=%s" % (c["cls"], a),
                                      "%s built with %s=%d: decoding the CDB it built gives %s=%s" % (c["cls"], a, v0, k, dz.get(k)),
                                      {"class": c["cls"], "argument": a, "value": v0, "cdb": bytes(cz.cdb).hex(), "decoded": dz.get(k)})
                        break
                # size arguments at the boundaries of their field, as far as the buffer that goes with them stays a lazily
                # mapped allocation (≤ 128 MiB): the CDB must carry the argument, not a clamped one
                if a in c01.size_params(c) and not isinstance(kw.get("data"), (bytes, bytearray)):
                    mult = 3072 if c["cls"] == "ReadCd" else ((kw.get("blocksize") or 1) if a in ("tl", "nb") else 1)
                    for v0 in sorted({(1 << b) + dlt for b in range(9, f["width"] + 1) for dlt in (-1, 0, 1)} | {0x5555, 0x5556, 0xAAAB}):
                        if v0 >= (1 << f["width"]) or v0 * mult > (1 << 27):
                            continue
                        kwz = dict(kw)
                        kwz[a] = v0
                        try:
                            cz = cls(op, **kwz)
                        except Exception:
                            continue
                        cdbz = bytes(cz.cdb)
                        del cz
                        dz = cls.unmarshall_cdb(bytearray(cdbz))
                        res.count("constructor-built CDB with a large size argument decoded back")
                        if dz.get(k) != v0:
                            res.violation("cls=%s built decode arg=%s" % (c["cls"], a),
                                          "%s built with %s=%d: decoding the CDB it built gives %s=%s" % (c["cls"], a, v0, k, dz.get(k)),
                                          {"class": c["cls"], "argument": a, "value": v0, "cdb": cdbz.hex(), "decoded": dz.get(k)})
                            break
                if a in c01.size_params(c) and kw[a] + 1 > 4096:
                    continue
                kw2 = dict(kw)
                kw2[a] = (kw[a] + 1) % (1 << f["width"])
                if "data" in kw2 and isinstance(kw2.get("data"), (bytes, bytearray)) and a in ("tl",):
                    continue            # the payload would have to change with the length
                try:
                    second = cls(op, **kw2)
                except Exception:
                    continue
                d1 = cls.unmarshall_cdb(second.cdb)
                res.case(("built-locality", c["cls"], a), None)
                res.count("constructor-built pairs differing in one argument")
                bad = [x for x in d1 if x != k and d1[x] != d0.get(x)]
                if d1.get(k) != kw2[a] or bad:
                    res.violation("cls=%s built locality arg=%s" % (c["cls"], a),
                                  "%s built with %s=%d after the same command with %s=%d: decoding the second CDB gives %s=%s%s" % (
                                      c["cls"], a, kw2[a], a, kw[a], k, d1.get(k), (" and changes " + ", ".join(bad)) if bad else ""),
                                  {"class": c["cls"], "first": {x: (v if isinstance(v, int) else None) for x, v in kw.items()}, "changed": {a: kw2[a]},
                                   "first_cdb": bytes(first.cdb).hex(), "second_cdb": bytes(second.cdb).hex()})
                    break
    reps = drv.batch([r[0] for r in reqs])
    for (line, impl, cls), rep in zip(reqs, reps):
        def unordered(t):
            # key order of a decoded dictionary is not an observable the property speaks of
            return sorted(t[4:].split(",")) if t.startswith("ok D") else t
        if rep != impl and unordered(rep) != unordered(impl):
            res.tie_break("model of marshall_cdb/unmarshall_cdb disagrees with %s" % cls, {"request": line[:400], "model": rep, "implementation": impl})
    res.assumptions += ["static marshall_cdb/unmarshall_cdb are called immediately after constructing an instance of the same class (C09 covers what happens otherwise)"]
