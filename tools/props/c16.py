"""C16 — attaching to a device selects the command set of its peripheral device type.

Theorems: lean/ScsiVerif/Props/C16.lean.  Tie: exhaustive correspondence of SCSI.__init__/__call__
with Attach.attachDev over all 256 first bytes of the INQUIRY data on both transports (stand-in
bindings, virtual OS), and random attach / re-attach histories over several devices."""
import random
import sys

from lib import cmds, common, virtos
from lib.common import Driver

TARGETS = ["ScsiVerif.Props.C16"]
NEEDS_GEN = True

STD = {0x00: "sbc", 0x04: "sbc", 0x07: "sbc", 0x01: "ssc", 0x05: "mmc", 0x08: "smc"}


def run(res, tier, build_ok):
    rng = random.Random(common.SEED * 7919 + 16)
    scale = 1 if (tier == "quick" and build_ok) else 6
    drv = Driver()
    sgio, iscsi = sys.modules["sgio"], sys.modules["iscsi"]
    vos = virtos.VirtualOS()
    sd = vos.install()
    from pyscsi.pyscsi.scsi import SCSI
    from pyscsi.pyscsi.scsi_device import SCSIDevice
    from pyscsi.pyiscsi.iscsi_device import ISCSIDevice
    sets = cmds.opcode_sets()
    name_of = {id(v): k for k, v in sets.items()}
    state = {"byte0": 0, "seen": []}

    def fill(cdb, datain):
        state["seen"].append(bytes(cdb))
        if len(datain):
            datain[0] = state["byte0"]
            by, mask = state.get("extra", (0, 0))
            if by and len(datain) > by:
                datain[by] |= mask

    sgio.BACKEND = lambda f, cdb, do, di: (fill(cdb, di), (0, None))[1]
    iscsi.BACKEND = lambda lun, task, do, di: (fill(task.cdb, di), (0, None))[1]

    def new_dev(kind, i):
        if kind == "sgio":
            p = "/dev/sg%d" % i
            vos.mknod(p)
            return SCSIDevice(p)
        return ISCSIDevice("iscsi://10.0.0.%d/iqn.t:%d/0" % (i, i), "iqn.i")

    def observe(dev):
        return "%s/%s" % (name_of.get(id(dev.opcodes), "?"), getattr(dev, "devicetype", None))

    reqs = []
    # ---- the selection depends on the peripheral device type alone: every other bit of the first eight bytes of the
    #      standard INQUIRY data set in turn (RMB, version, MCHNGR, MULTIP, ...), every device type
    for kind in ("sgio", "iscsi"):
        for t in range(32):
            state["byte0"], state["extra"] = t, (0, 0)
            try:
                dev = new_dev(kind, 300 + t)
                SCSI(dev)
                plain = observe(dev)
            except Exception as e:
                plain = "raises " + type(e).__name__
            for by in range(1, 8):
                for bit in range(8):
                    state["extra"] = (by, 1 << bit)
                    try:
                        dev = new_dev(kind, 300 + t)
                        SCSI(dev)
                        got = observe(dev)
                    except Exception as e:
                        got = "raises " + type(e).__name__
                    res.count("attach with one further INQUIRY bit set")
                    if got != plain:
                        res.violation("attach depends on inquiry byte %d" % by,
                                      "device type %02Xh over %s: with bit %d of INQUIRY byte %d set the facade selects %s, without it %s" % (t, kind, bit, by, got, plain),
                                      {"transport": kind, "devicetype": t, "byte": by, "bit": bit, "selected": got, "plain": plain})
            res.case(("attach-bits", kind, t), {"transport": kind, "devicetype": t, "selected": plain})
    state["extra"] = (0, 0)
    # ---- all 256 first bytes, both transports, fresh device each
    for kind in ("sgio", "iscsi"):
        for b in range(256):
            dev = new_dev(kind, b)
            state["byte0"] = b
            del state["seen"][:]
            try:
                SCSI(dev)
                got = observe(dev)
            except Exception as e:
                got = "raises " + type(e).__name__
            t = b & 0x1F
            res.case(("attach", kind, b), {"transport": kind, "inquiry_byte0": hex(b), "selected": got})
            res.count("attach " + kind)
            n_inq = [c for c in state["seen"] if c[0] == 0x12]
            ok_inq = len(state["seen"]) == 1 and len(n_inq) == 1 and (n_inq[0][1] & 1) == 0 and n_inq[0][2] == 0
            want = STD.get(t)
            sel = got.split("/")[0]
            if got.startswith("raises") or (want and sel != want) or got.split("/")[1] != str(t) or not ok_inq:
                res.violation("attach transport=%s type=%s" % (kind, hex(t)),
                              "attach to a device of type %s (byte0 %s) over %s: selected %s, sent %s" % (hex(t), hex(b), kind, got, [c.hex() for c in state["seen"]]),
                              {"transport": kind, "byte0": b, "selected": got, "commands": [c.hex() for c in state["seen"]]})
            elif not want:
                e = sets.get(sel)
                prim = e is not None and all(k in e.keys for k in ("INQUIRY", "TEST_UNIT_READY", "REPORT_LUNS"))
                if not prim:
                    res.violation("attach type=%s no primary commands" % hex(t), "set selected for type %s lacks the primary commands" % hex(t), {"byte0": b, "selected": got})
            reqs.append(("attachrun 1 0:%d" % b, "ok %s/1" % got, "fresh attach"))
            dev.close()
    # ---- histories of attach / re-attach over several devices with one facade object
    for it in range(60 * scale):
        n = rng.randint(1, 4)
        kinds = [rng.choice(["sgio", "iscsi"]) for _ in range(n)]
        devs = [new_dev(k, 300 + i) for i, k in enumerate(kinds)]
        hist = [(rng.randrange(n), rng.choice([0, 1, 3, 4, 5, 7, 8, 0x0C, 0x1F, rng.randrange(256)])) for _ in range(rng.randint(1, 7))]
        fac = None
        counts = [0] * n
        for k, b in hist:
            state["byte0"] = b
            del state["seen"][:]
            if fac is None:
                fac = SCSI(devs[k])
            else:
                fac(devs[k])
            counts[k] += 1
        got = ";".join("%s/%d" % (observe(d) if c else "spc/none", c) for d, c in zip(devs, counts))
        res.case(("history", tuple(kinds), tuple(hist)), {"devices": kinds, "history": hist, "final": got})
        res.count("histories")
        # oracle (the property itself, on the implementation): each device ends up as if only its own
        # attaches had happened, each through a fresh facade - nothing leaks from another device
        for j, d in enumerate(devs):
            own = [b for k, b in hist if k == j]
            solo = new_dev(kinds[j], 600 + j)
            for b in own:
                state["byte0"] = b
                SCSI(solo)
            want_solo = observe(solo) if own else "spc/None"
            have = observe(d) if own else "%s/None" % name_of.get(id(d.opcodes), "?")
            solo.close()
            if have != want_solo:
                res.violation("re-attach leak", "device %d (own reports %s) holds %s after the shared-facade history, %s when attached alone" % (
                    j, [hex(b) for b in own], have, want_solo), {"devices": kinds, "history": hist, "final": got})
        reqs.append(("attachrun %d %s" % (n, ",".join("%d:%d" % e for e in hist)), "ok " + got, "history"))
        for d in devs:
            d.close()
    reps = drv.batch([r[0] for r in reqs])
    for (line, impl, what), rep in zip(reqs, reps):
        if rep != impl:
            res.tie_break("Attach model disagrees with SCSI.__init__/__call__ (%s)" % what, {"request": line, "model": rep, "implementation": impl})
    sgio.BACKEND = None
    iscsi.BACKEND = None
    res.exhaustive = True
    res.notes.append("types 02h and 09h also select ssc and 03h selects spc: allowed by the property (recorded)")
