"""C03 — data buffers match the transfer the CDB announces.

Theorems: lean/ScsiVerif/Props/C03.lean (buffers_match / param_list_buffers for every argument
value, ATA transfer rules, iSCSI direction) + all_commands_allocate_by_rule decided on Gen.
Tie: Gen + correspondence of the real constructors' buffers with Cmd.build, Xfer.ataBuffers and the
oracle Xfer.expected / Std.ataBytes; the iSCSI direction/length is observed through the stand-in."""
import itertools
import random
import sys

from lib import cmds, common
from lib.common import Driver, hx
from props import c01

TARGETS = ["ScsiVerif.Props.C03"]
NEEDS_GEN = True


class FakeTaskRec:
    pass


def run(res, tier, build_ok):
    rng = random.Random(common.SEED * 7919 + 3)
    scale = 1 if (tier == "quick" and build_ok) else 4
    data = cmds.gen_data()
    drv = Driver()
    std = cmds.StdInfo(drv, data["commands"])
    sets = cmds.opcode_sets()
    from pyscsi.pyiscsi.iscsi_device import ISCSIDevice
    iscsi = sys.modules["iscsi"]
    dev = ISCSIDevice("iscsi://127.0.0.1/iqn.x:y/0", "iqn.init")
    reqs = []
    it_count = [0]

    def iscsi_observe(cmd):
        del iscsi.LOG[:]
        iscsi.BACKEND = None
        dev.execute(cmd)
        for ev in iscsi.LOG:
            if ev[0] == "command":
                return {0: "none", 1: "read", 2: "write"}[ev[3]], ev[4]
        return None

    for c in data["commands"]:
        module = c["module"].split(".")[-1]
        cls = cmds.get_class(c["module"], c["cls"])
        s = std.get(module, c["cls"])
        if s is None:
            continue
        op = None
        for sn, e in sets.items():
            op = cmds.find_op(e, s["opname"])
            if op is not None:
                break
        if op is None:
            continue
        if c["cls"].startswith("ATAPassThrough"):
            continue
        cases = c01.make_cases(c, s, rng, 1)
        rng.shuffle(cases)
        extra = []
        # boundary sizes: 0 and a large-but-affordable value for every size parameter
        for n in c01.size_params(c):
            if n in c.get("computed", []) or n not in [p[0] for p in c["params"]]:
                continue
            for v in ((1, 512, 4096, 520) if n == "blocksize" else (0, 1, 255, 4097)):
                kw = dict(cases[0])
                if n in ("ndob",):
                    v = v & 1
                kw[n] = v
                if "blocksize" in kw and kw["blocksize"] is not None and n != "blocksize":
                    kw["blocksize"] = rng.choice([1, 512])
                # keep the product inside what the harness can afford (the base case may carry a large count)
                for cnt in ("tl", "nb"):
                    if isinstance(kw.get(cnt), int) and isinstance(kw.get("blocksize"), int) and kw["blocksize"] > 0 \
                            and c["cls"].startswith(("Read", "Write1")):
                        kw[cnt] = min(kw[cnt], c01.CAP // kw["blocksize"])
                extra.append(kw)
        for kw0 in cases[:25 * scale] + extra:
            kw = c01.finalize_kwargs(c, kw0, rng)
            try:
                cmd = cls(op, **kw)
            except Exception as e:
                res.violation("cls=%s raises=%s" % (c["cls"], type(e).__name__),
                              "%s cannot be constructed for in-range arguments" % c["cls"],
                              {"class": c["cls"], "args": {k: str(v)[:40] for k, v in kw.items()}, "exception": type(e).__name__})
                continue
            shown = {k: (v if isinstance(v, (int, type(None))) else "<%s len %d>" % (type(v).__name__, len(v))) for k, v in kw.items()}
            isbytes = isinstance(cmd.datain, (bytes, bytearray)) and isinstance(cmd.dataout, (bytes, bytearray))
            res.case((c["cls"], tuple(sorted(shown.items(), key=str))),
                     {"class": c["cls"], "args": shown, "dataout_len": len(cmd.dataout) if isbytes else None,
                      "datain_len": len(cmd.datain) if isbytes else None})
            res.count("class " + c["cls"])
            if not isbytes:
                res.violation("cls=%s buffers not bytes" % c["cls"],
                              "%s: dataout/datain is not a byte buffer (%s/%s)" % (c["cls"], type(cmd.dataout).__name__, type(cmd.datain).__name__),
                              {"class": c["cls"], "args": shown})
                continue
            # what the CDB itself announces, read at the standard's position (not what the caller asked for)
            for f in s["fields"]:
                if f["kind"] != "arg" or not isinstance(kw.get(f["arg"]), int) or kw[f["arg"]] >= (1 << f["width"]):
                    continue        # (the boundary values above include lengths wider than the field: outside the domain)
                announced = None
                if f["arg"] in ("alloclen", "alloc_len"):
                    announced = cmds.std_field_value(cmd.cdb, f)
                elif f["arg"] == "tl" and c["cls"] in ("Read10", "Read12", "Read16"):
                    announced = cmds.std_field_value(cmd.cdb, f) * (kw.get("blocksize") or 0)
                if announced is not None:
                    res.count("CDB-announced length vs data-in buffer")
                    if announced != len(cmd.datain):
                        res.violation("cls=%s cdb announces" % c["cls"],
                                      "%s: the CDB announces %d bytes of data-in (%s at byte %d), the data-in buffer has %d bytes" % (
                                          c["cls"], announced, f["name"], f["byte"], len(cmd.datain)),
                                      {"class": c["cls"], "args": shown, "cdb": bytes(cmd.cdb).hex(), "datain_len": len(cmd.datain)})
            # decoding must not resize the buffer the command carries (it may be executed again: the CDB still announces it)
            if hasattr(cmd, "unmarshall_datain") and len(cmd.datain) and len(cmd.datain) <= 4096 and it_count[0] % 5 == 0:
                n0 = len(cmd.datain)
                for fill in (0x00, 0xFF, None):
                    cmd.datain[:] = bytes([fill]) * n0 if fill is not None else bytes(rng.getrandbits(8) for _ in range(n0))
                    try:
                        cmd.unmarshall()
                    except Exception:
                        pass
                    res.count("buffer length after decoding")
                    if len(cmd.datain) != n0:
                        res.violation("cls=%s datain resized by decoding" % c["cls"],
                                      "%s: after decoding, the data-in buffer of the command has %d bytes; the CDB announces %d" % (c["cls"], len(cmd.datain), n0),
                                      {"class": c["cls"], "args": shown, "fill": fill})
                        break
                cmd.datain[:] = bytes(len(cmd.datain))
            it_count[0] += 1
            envd = {k: (v if isinstance(v, (int, bytes, bytearray, type(None))) else None) for k, v in kw.items()}
            for comp in c.get("computed", []):
                envd[comp] = bytes(cmd.dataout)
            obs = iscsi_observe(cmd)
            reqs.append((c, shown, cmd, obs,
                         "stdxfer %s %s %s" % (module, c["cls"], cmds.enc_env(envd)),
                         "build %s %s %s %s %s" % (module, c["cls"], sn, s["opname"], cmds.enc_env(envd)),
                         "iscsixfer %d %d" % (len(cmd.dataout), len(cmd.datain))))
    r1 = drv.batch([r[4] for r in reqs])
    r2 = drv.batch([r[5] for r in reqs])
    r3 = drv.batch([r[6] for r in reqs])
    for (c, shown, cmd, obs, _, _, _), rs, rm, ri in zip(reqs, r1, r2, r3):
        impl = "ok dataout=%s datain=%d" % (hx(cmd.dataout), len(cmd.datain))
        if rs == "paramlist":
            # dataout is the marshalled list; its length is what PARAMETER LIST LENGTH carries (decoded by the oracle's position)
            f = [f for f in std.get(c["module"].split(".")[-1], c["cls"])["fields"] if f["kind"] == "pll"][0]
            if cmds.std_field_value(cmd.cdb, f) != len(cmd.dataout) or len(cmd.datain) != 0:
                res.violation("cls=%s paramlist length" % c["cls"], "%s: PARAMETER LIST LENGTH %d but dataout has %d bytes (datain %d)" % (
                    c["cls"], cmds.std_field_value(cmd.cdb, f), len(cmd.dataout), len(cmd.datain)), {"class": c["cls"], "args": shown})
        elif rs.startswith("ok "):
            if impl != rs:
                res.violation("cls=%s buffers" % c["cls"], "%s: buffers differ from the transfer the CDB announces" % c["cls"],
                              {"class": c["cls"], "args": shown, "implementation": impl[:200], "standard": rs[:200]})
                continue
        else:
            res.tie_break("oracle has no transfer rule result for %s (%s)" % (c["cls"], rs), {"class": c["cls"], "args": shown})
        if rm.startswith("ok cdb="):
            parts = rm.split(" ")
            mod = "ok %s %s" % (parts[2], parts[3])
            if mod != impl:
                res.tie_break("Cmd.build buffers disagree with the real constructor of %s" % c["cls"],
                              {"class": c["cls"], "args": shown, "model": mod[:200], "implementation": impl[:200]})
        else:
            res.tie_break("Cmd.build fails where the real constructor of %s succeeds" % c["cls"], {"class": c["cls"], "args": shown, "model": rm})
        want = ("write", len(cmd.dataout)) if len(cmd.dataout) else (("read", len(cmd.datain)) if len(cmd.datain) else ("none", 0))
        if obs != want:
            res.violation("iscsi xfer cls=%s" % c["cls"], "ISCSIDevice announces %s to the binding for buffers of %d/%d bytes" % (obs, len(cmd.dataout), len(cmd.datain)),
                          {"class": c["cls"], "args": shown, "observed": obs, "expected": want})
        elif ri != "ok %s %d" % want:
            res.tie_break("Xfer.iscsiXfer disagrees with ISCSIDevice.execute", {"model": ri, "implementation": obs})
    # ---- through the facade, against a device whose answer announces more data than fits: at every send the data-in
    #      buffer is the one the CDB announces (a buffer regrown for a second attempt under the old CDB is not)
    from props import c13
    bycls = {}
    for c in data["commands"]:
        key = c["cls"]
        if c["module"].endswith("spc4"):
            key = "ExtendedCopy4"
        if c["module"].endswith("spc5"):
            key = "ExtendedCopy5"
        bycls[key] = c
    for ob in c13.oversubscribed_runs(data, std, sets, rng, bycls):
        fa = [f for f in ob["std"]["fields"] if f["kind"] == "arg" and f["arg"] in ("alloclen", "alloc_len")]
        if not fa:
            continue
        res.case(("facade-oversubscribed", ob["method"], ob["fill"], tuple(sorted(ob["args"].items(), key=str))),
                 {"method": ob["method"], "args": ob["args"], "fill": ob["fill"], "sends": len(ob["sends"])})
        res.count("facade call, device announces more than fits")
        for cdb, n_in, n_out in ob["sends"]:
            announced = cmds.std_field_value(bytearray(cdb), fa[0])
            if announced != n_in:
                res.violation("facade=%s cdb announces" % ob["method"],
                              "SCSI.%s hands the device a %d-byte data-in buffer under a CDB announcing %d (%s at byte %d)" % (
                                  ob["method"], n_in, announced, fa[0]["name"], fa[0]["byte"]),
                              {"method": ob["method"], "args": ob["args"], "fill": ob["fill"], "cdb": cdb.hex(), "datain_len": n_in})
                break
    # ---- the same command object executed again (polling, retry) over SG_IO against a device that answers short and
    #      reports the residual: at every send the data-in buffer is still the one the CDB announces
    from lib import virtos
    from pyscsi.pyscsi.scsi_device import SCSIDevice
    sgio_mod = sys.modules["sgio"]
    vos = virtos.VirtualOS()
    vos.install()
    vos.mknod("/dev/sgr")
    sdev = SCSIDevice("/dev/sgr")
    seen_lens = []

    def short_backend(f, cdb, do, di):
        seen_lens.append(len(di))
        filled = min(len(di), 8)
        for i in range(filled):
            di[i] = 0
        return 0, None, len(di) - filled
    sgio_mod.BACKEND = short_backend
    try:
        for c in data["commands"]:
            s = std.get(c["module"].split(".")[-1], c["cls"])
            if s is None or c["cls"].startswith("ATAPassThrough"):
                continue
            fa = [f for f in s["fields"] if f["kind"] == "arg" and f["arg"] in ("alloclen", "alloc_len")]
            op = next((cmds.find_op(e, s["opname"]) for e in sets.values() if cmds.find_op(e, s["opname"]) is not None), None)
            if not fa or op is None:
                continue
            kw = c01.finalize_kwargs(c, c01.make_cases(c, s, rng, 1)[0], rng)
            kw[fa[0]["arg"]] = min(96, (1 << fa[0]["width"]) - 1)
            try:
                cmd = cmds.get_class(c["module"], c["cls"])(op, **kw)
            except Exception:
                continue
            del seen_lens[:]
            res.case(("re-executed", c["cls"]), {"class": c["cls"], "executions": 3})
            res.count("same command object executed three times, short answers with residual")
            for k in range(3):
                try:
                    sdev.execute(cmd)
                except Exception as e:      # noqa
                    res.violation("cls=%s re-execute raises" % c["cls"], "%s: execution %d of the same command raised %s" % (c["cls"], k + 1, type(e).__name__),
                                  {"class": c["cls"], "execution": k + 1})
                    break
                announced = cmds.std_field_value(cmd.cdb, fa[0])
                if seen_lens[-1] != announced or len(cmd.datain) != announced:
                    res.violation("cls=%s re-execute buffer" % c["cls"],
                                  "%s executed %d time(s) against a device answering short: the CDB announces %d bytes, the transport was handed %d, the command now holds %d" % (
                                      c["cls"], k + 1, announced, seen_lens[-1], len(cmd.datain)),
                                  {"class": c["cls"], "execution": k + 1, "cdb": bytes(cmd.cdb).hex(), "handed": seen_lens[-1], "held": len(cmd.datain)})
                    break
    finally:
        sgio_mod.BACKEND = None
    # ---- "for every command": also for one that is inspected / executed only after other commands have been built.
    #      Pairs of the same class with different transfer sizes, built back to back, buffers looked at afterwards.
    for c in data["commands"]:
        if c["cls"].startswith("ATAPassThrough"):
            continue
        names = [p[0] for p in c["params"]]
        szs = [n for n in ("tl", "alloclen", "alloc_len") if n in names and n in c01.size_params(c)]
        s0 = std.get(c["module"].split(".")[-1], c["cls"])
        if not szs or s0 is None:
            continue
        cls = cmds.get_class(c["module"], c["cls"])
        op = None
        for sn, e in sets.items():
            op = cmds.find_op(e, s0["opname"])
            if op is not None:
                break
        if op is None:
            continue
        base = c01.finalize_kwargs(c, c01.make_cases(c, s0, rng, 1)[0], rng)
        n = szs[0]
        built = []
        try:
            for v in (3, 40, 1, 17):
                kw = dict(base)
                kw[n] = v
                if "blocksize" in kw and kw["blocksize"] is not None:
                    kw["blocksize"] = 512
                if "data" in kw and kw.get("data") is not None and c["cls"].startswith("Write1"):
                    kw["data"] = bytearray(512 * v)
                built.append((kw, cls(op, **kw)))
        except Exception as e:
            res.tie_break("deferred-inspection pair of %s could not be built: %s" % (c["cls"], type(e).__name__), {"class": c["cls"]})
            continue
        observed = [(len(cmd.dataout), len(cmd.datain)) for _, cmd in built]     # before anything else is built
        for (kw, cmd), a in zip(built, observed):
            fresh = cls(op, **kw)
            b = (len(fresh.dataout), len(fresh.datain))
            mult = 512 if "blocksize" in kw and kw["blocksize"] else 1
            res.case(("deferred", c["cls"], kw[n]), None)
            res.count("buffers inspected after building other commands")
            want_n = kw[n] * mult * (3072 // 512 if c["cls"] == "ReadCd" else 1) if c["cls"] != "ReadCd" else kw[n] * 3072
            if a != b or (a[0] != want_n and a[1] != want_n):
                res.violation("cls=%s buffers deferred" % c["cls"],
                              "%s(%s=%d): buffers of %s bytes when inspected after other commands were built; the CDB announces %d (a command built alone has %s)" % (
                                  c["cls"], n, kw[n], a, want_n, b),
                              {"class": c["cls"], "size_parameter": n, "value": kw[n], "observed": a, "built_alone": b})
                break
    # ---- the transports announce / hand over exactly the buffers, at every size boundary a length field or a
    #      transport limit could have (8/16/24/25-bit edges, > 16 MiB in one command), reads and writes
    from pyscsi.pyscsi.scsi_cdb_read16 import Read16
    from pyscsi.pyscsi.scsi_cdb_write16 import Write16
    from pyscsi.pyscsi.scsi_device import SCSIDevice
    from lib import virtos
    vos = virtos.VirtualOS()
    vos.install()
    vos.mknod("/dev/sgx03")
    sgio = sys.modules["sgio"]
    sdev = SCSIDevice("/dev/sgx03", detect_replugged=False)
    seen = []
    sgio.BACKEND = lambda f, cdb, do, di: (seen.append((len(do), len(di))) or (0, None))
    sizes = [1, 3, 255, 256, 257, 65535, 65536, 65537, (1 << 24) - 1, 1 << 24, (1 << 24) + 1, (1 << 24) + 4096, (1 << 25) + 512]
    sizes += [rng.randrange(1 << 16, 1 << 25) for _ in range(4 * scale)]
    breqs = []
    for n in sizes:
        for direction in ("read", "write"):
            bs = rng.choice([b for b in (1, 512, 4096) if n % b == 0])
            if direction == "read":
                cmd = Read16(sets["sbc"].READ_16, blocksize=bs, lba=rng.getrandbits(40), tl=n // bs)
            else:
                cmd = Write16(sets["sbc"].WRITE_16, blocksize=bs, lba=rng.getrandbits(40), tl=n // bs, data=bytearray(n))
            want = ("write", n) if direction == "write" else ("read", n)
            obs = iscsi_observe(cmd)
            del seen[:]
            sdev.execute(cmd)
            res.case(("transport size", n, direction), {"transfer bytes": n, "direction": direction, "iscsi announces": obs, "sgio gets": seen[:1]})
            res.count("transport boundary sizes")
            if obs != want:
                res.violation("iscsi xfer size", "ISCSIDevice announces %s to the binding for a %s of %d bytes (blocksize %d x %d blocks)" % (obs, direction, n, bs, n // bs),
                              {"direction": direction, "bytes": n, "blocksize": bs, "tl": n // bs, "observed": obs, "expected": want})
            wants = (n, 0) if direction == "write" else (0, n)
            if seen[:1] != [wants]:
                res.violation("sgio buffers size", "SCSIDevice hands buffers of %s bytes to the binding for a %s of %d bytes" % (seen[:1], direction, n),
                              {"direction": direction, "bytes": n, "observed": seen[:1], "expected": wants})
            breqs.append(("iscsixfer %d %d" % (wants[0], wants[1]), "ok %s %d" % want, obs))
            del cmd
    for (line, wantrep, obs), rep in zip(breqs, drv.batch([b[0] for b in breqs])):
        if rep != wantrep:
            res.tie_break("Xfer.iscsiXfer disagrees with the transfer rule at a boundary size", {"request": line, "model": rep, "expected": wantrep})
    sgio.BACKEND = None
    # ---- ATA PASS-THROUGH: every flag combination x a few lengths, both classes
    for c in data["commands"]:
        if not c["cls"].startswith("ATAPassThrough"):
            continue
        cls = cmds.get_class(c["module"], c["cls"])
        op = cmds.find_op(sets["sbc"], "ATA_PASS_THROUGH_12" if c["cls"].endswith("12") else "ATA_PASS_THROUGH_16")
        areqs = []
        for tlen, bb, tdir, ttype in itertools.product(range(4), range(2), range(2), range(2)):
            for bs in (0, 512, 4096):
                for extra in (None, 3):
                    for dat in (None, b"", b"\x01\x02\x03"):
                        fet, cnt = rng.randint(0, 9), rng.randint(0, 9)
                        kw = dict(protocal=rng.randint(0, 15), t_length=tlen, byte_block=bb, t_dir=tdir, t_type=ttype,
                                  off_line=0, fetures=fet, count=cnt, lba=rng.getrandbits(24), command=0xEC,
                                  blocksize=bs, extra_tl=extra, data=dat)
                        try:
                            cmd = cls(op, **kw)
                            impl = "ok dataout=%d datain=%d" % (len(cmd.dataout), len(cmd.datain))
                        except Exception as e:
                            impl = "err " + type(e).__name__
                        shown = {k: (v if not isinstance(v, bytes) else v.hex()) for k, v in kw.items()}
                        res.case((c["cls"], tuple(shown.items())), {"class": c["cls"], "args": shown, "buffers": impl})
                        res.count("ata flag combinations")
                        areqs.append((shown, impl, kw, "ata %d %d %d %d %d %d %d %s %s" % (
                            tlen, bb, tdir, ttype, fet, cnt, bs, "n" if extra is None else str(extra),
                            "n" if dat is None else hx(dat))))
        reps = drv.batch([a[3] for a in areqs])
        for (shown, impl, kw, _), rep in zip(areqs, reps):
            if rep.startswith("ok"):
                parts = rep.split(" ")
                mod = " ".join(parts[:3])
                stdn = int(parts[3][4:])
                if impl.startswith("ok") and not kw["data"]:
                    do, di = int(impl.split(" ")[1][8:]), int(impl.split(" ")[2][7:])
                    want = (stdn, 0) if kw["t_dir"] == 0 else (0, stdn)
                    if (do, di) != want:
                        res.violation("ata buffers %s" % c["cls"], "%s: buffers %s differ from the SAT transfer rules %s" % (c["cls"], (do, di), want),
                                      {"class": c["cls"], "args": shown, "implementation": impl, "sat": want})
                        continue
            else:
                mod = rep
            if mod != impl:
                res.tie_break("Xfer.ataBuffers disagrees with %s.__init__" % c["cls"], {"args": shown, "model": rep, "implementation": impl})
    res.assumptions += ["READ CD: the standard fixes no allocation length; the library allocates 3072 bytes per sector (documented over-allocation), proved as stated and not judged against a tighter bound",
                        "READ CAPACITY(10) has no ALLOCATION LENGTH field: the buffer has the caller's alloclen (default 8 = the fixed parameter data length)"]
