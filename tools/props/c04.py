"""C04 — well-formed device responses are decoded to the values the device sent.

Theorems: lean/ScsiVerif/Props/C04.lean (every response layout table sits on the standard's fields;
per-format decoder theorems for all values / counts / trailing bytes).
Tie + decision on the real code: conformant responses with known content are produced by the Lean
oracle (Std.DataIn, lib/stdresp.py), fed to the real `unmarshall_datain`, and the result is compared
(a) with the values that were encoded — the property's own oracle — and (b) with the Lean decoder
model on the same bytes (the tie between model and code)."""
import json

from lib import common, formats, stdresp
from lib.common import Driver, hx

TARGETS = ["ScsiVerif.Props.C04", "ScsiVerif.Props.C04b", "ScsiVerif.Props.C04c", "ScsiVerif.Props.C04d", "ScsiVerif.Props.C04e", "ScsiVerif.Props.C04f", "ScsiVerif.Props.C04g", "ScsiVerif.Props.C04h", "ScsiVerif.Props.C04i"]
NEEDS_GEN = True

# format name -> (decoder name in lib/formats.decoders, generator method, kwargs)
FORMATS = [
    ("readcapacity10", "readcapacity10", "readcapacity10", {}),
    ("readcapacity16", "readcapacity16", "readcapacity16", {}),
    ("inquiry standard", "inquiry", "inquiry_standard", {"evpd": 0}),
    ("vpd b0", "inquiry", ("vpd_flat", "vpd_b0"), {"evpd": 1}),
    ("vpd b1", "inquiry", ("vpd_flat", "vpd_b1"), {"evpd": 1}),
    ("vpd b2", "inquiry", ("vpd_flat", "vpd_b2"), {"evpd": 1}),
    ("vpd b3", "inquiry", ("vpd_flat", "vpd_b3"), {"evpd": 1}),
    ("vpd 86", "inquiry", ("vpd_flat", "vpd_86"), {"evpd": 1}),
    ("vpd 80", "inquiry", "vpd_serial", {"evpd": 1}),
    ("vpd 00", "inquiry", "vpd_supported", {"evpd": 1}),
    ("vpd 83", "inquiry", "vpd_devid", {"evpd": 1}),
    ("modesense6", "modesense6", ("modesense", False), {}),
    ("modesense10", "modesense10", ("modesense", True), {}),
    ("getlbastatus", "getlbastatus", "getlbastatus", {}),
    ("reportluns", "reportluns", "reportluns", {}),
    ("prreadkeys", "prreadkeys", "prreadkeys", {}),
    ("prreadreservation", "prreadreservation", "prreadreservation", {}),
    ("prreportcapabilities", "prreportcapabilities", "prreportcapabilities", {}),
    ("prreadfullstatus", "prreadfullstatus", "prreadfullstatus", {}),
    ("readdiscinformation", "readdiscinformation", "discinfo", {}),
    ("reporttargetportgroups", "reporttargetportgroups", "rtpg", {}),
    ("readelementstatus", "readelementstatus", "readelementstatus", {}),
    ("reportpriority", "reportpriority", "reportpriority", {}),
    ("readcd", "readcd", "readcd", None),
]
NO_MODEL = set()


def generate(orc, gen):
    if isinstance(gen, tuple):
        return getattr(orc, gen[0])(*gen[1:])
    return getattr(orc, gen)()


def check_one(res, decs, name, dec, data, exp, kw, trailing, reqs):
    fn = decs[dec][0]
    buf = bytearray(data + trailing)
    sig_base = "format=%s" % name
    replay = {"format": name, "decoder": dec, "args": kw, "response": data.hex(), "trailing": trailing.hex(),
              "device_sent": json.loads(json.dumps(exp, default=lambda b: "x" + bytes(b).hex()))}
    try:
        got = formats.normalize(fn(buf, **kw))
    except Exception as e:
        res.violation(sig_base + " raises=" + type(e).__name__,
                      "%s.unmarshall_datain raised %s (%s) on a conformant response" % (dec, type(e).__name__, str(e)[:100]), replay)
        return
    m = stdresp.match(got, exp)
    if m:
        where = m.split(":")[0]
        # signature: format + the field path without list indices
        import re
        res.violation(sig_base + " field=" + re.sub(r"\[\d+\]", "[]", where),
                      "%s.unmarshall_datain on a conformant %s response: %s" % (dec, name, m), dict(replay, decoded=str(got)[:600]))
        return
    if dec not in NO_MODEL:
        reqs.append((name, dec, kw, buf, got,
                     "unm %s %s E%s" % (dec, hx(buf), ",".join("%s=i%d" % kv for kv in kw.items()))))


def run(res, tier, build_ok):
    scale = 1 if (tier == "quick" and build_ok) else 8
    decs = formats.decoders()
    orc = stdresp.Oracle(common.SEED * 7919 + 4)
    reqs = []
    try:
        for name, dec, gen, kw in FORMATS:
            n = (40 if name in ("readcd", "readelementstatus", "vpd 83") else 60) * scale
            for i in range(n):
                if name == "readcd":
                    data, exp, kw2 = generate(orc, gen)
                else:
                    data, exp = generate(orc, gen)
                    kw2 = kw
                tr = orc.trailing() if name != "readcd" else b""
                if name == "inquiry standard" and len(data) == 36:
                    tr = bytes(len(tr))      # unused allocation after a short response is what the library allocated: zeros
                res.case((name, data, tr), None)
                res.count("format " + name)
                res.count("with trailing bytes" if tr else "exact length")
                if len(res.samples) < 6 and i == 3 and name in ("vpd 83", "reporttargetportgroups", "readcapacity16", "modesense10", "prreadfullstatus", "readelementstatus"):
                    res.samples.append({"format": name, "response": data.hex()[:200], "device_sent": str(exp)[:300]})
                check_one(res, decs, name, dec, data, exp, kw2, tr, reqs)
    finally:
        nreq = orc.nreq
        orc.close()
    res.count("oracle (Lean) encodings requested", nreq)
    # tie: the Lean decoder model on the same bytes
    drv = Driver()
    reps = drv.batch([r[5] for r in reqs])
    for (name, dec, kw, buf, got, line), rep in zip(reqs, reps):
        if rep == "bad-op":
            raise common.Infra("driver does not know " + line[:60])
        if not rep.startswith("ok "):
            res.tie_break("decoder model %s raises on a conformant %s response the implementation decodes" % (dec, name),
                          {"format": name, "buffer": bytes(buf).hex(), "model": rep[:200]})
            continue
        mod = formats.parse_text(rep[3:])
        if mod != got:
            res.tie_break("decoder model %s disagrees with the implementation on a conformant %s response" % (dec, name),
                          {"format": name, "buffer": bytes(buf).hex(), "model": rep[:400], "implementation": str(got)[:400]})
        else:
            res.count("model agreements")
    res.assumptions += [
        "conformant responses are produced by the Lean oracle Std.DataIn (blocks) and, for GET LBA STATUS / REPORT LUNS / READ KEYS, whole; the other structured formats are concatenations of Lean-encoded blocks with length fields filled in by tools/lib/stdresp.py",
        "not covered (oracle not certain enough): ATA Information VPD page, SOP/PCIe TransportID and designator type 9, READ CD selections outside the listed sector layouts, raw P-W sub-channel (scsb=1), OPC table entries, provisioning group descriptor",
        "MODE SENSE: one mode page per response (the library decodes only the first page); block descriptors may precede it",
    ]
