"""C10 — the bit-field codec obeys its algebraic laws for every layout.

Theorems: lean/ScsiVerif/Props/C10.lean (about lean/ScsiVerif/Model/Conv.lean).
Tie: correspondence of the four functions of pyscsi/utils/converter.py with the model, plus the
property's laws evaluated directly on the implementation (oracle = Python int arithmetic on
int.from_bytes / int.to_bytes, which shares nothing with converter.py)."""
import random

from lib import common
from lib.common import Driver, enc_dict, enc_layout, hx

TARGETS = ["ScsiVerif.Props.C10", "ScsiVerif.Props.C10b"]
NEEDS_GEN = False


def rand_bytes(rng, n):
    return bytearray(rng.getrandbits(8) for _ in range(n))


def field_cases(rng, n):
    """(L, w, s, off, nb, prior, v): one contiguous mask field, prior contents arbitrary outside it"""
    out = []
    for _ in range(n):
        w = rng.choice([1, 2, 3, 4, 5, 7, 8, 9, 12, 16, 17, 24, 31, 32, 33, 48, 63, 64, 65, 72, rng.randint(1, 72)])
        s = rng.randint(0, 7)
        nb = (s + w + 7) // 8
        off = rng.randint(0, 6)
        L = off + nb + rng.randint(0, 5)
        prior = rand_bytes(rng, L)
        mask = ((1 << w) - 1) << s
        # zero the field's bits in the prior contents (domain of the property: the code XORs)
        N = int.from_bytes(prior, "big")
        p = 8 * (L - off - nb) + s
        N &= ~(((1 << w) - 1) << p)
        prior = bytearray(N.to_bytes(L, "big")) if L else bytearray()
        kind = rng.random()
        if kind < 0.1:
            v = 0
        elif kind < 0.2:
            v = (1 << w) - 1
        elif kind < 0.45:
            v = 1 << rng.randrange(w)
        else:
            v = rng.getrandbits(w)
        out.append((L, w, s, off, nb, prior, mask, p, v))
    return out


def run(res, tier, build_ok):
    from pyscsi.utils import converter as cv

    rng = random.Random(common.SEED * 7919 + 10)
    scale = 1 if (tier == "quick" and build_ok) else 12
    drv = Driver()
    reqs = []     # (line, expected-impl-reply, description)

    def add(line, impl, what):
        reqs.append((line, impl, what))

    # ---- 1. int <-> bytes
    vals = []
    for n in range(0, 13):
        cand = {0, (1 << (8 * n)) - 1 if n else 0}
        for b in range(0, 8 * n):
            cand.add(1 << b)
        for _ in range(6 * scale):
            cand.add(rng.getrandbits(8 * n) if n else 0)
        for v in cand:
            vals.append((v, n))
    def guarded(sig, what, replay, fn):
        try:
            return True, fn()
        except Exception as e:   # the implementation must not raise inside the property's domain
            res.violation(sig + " raises", what + " raises " + type(e).__name__, dict(replay, exception=type(e).__name__))
            return False, None

    for v, n in vals:
        ok, ba = guarded("int_ba_roundtrip", "scsi_int_to_ba", {"v": v, "n": n}, lambda: cv.scsi_int_to_ba(v, n))
        if not ok:
            continue
        res.case(("i2b", v, n), {"op": "scsi_int_to_ba", "v": v, "n": n, "out": bytes(ba).hex()})
        res.count("int_to_ba")
        ok = isinstance(ba, bytearray) and len(ba) == n and bytes(ba) == v.to_bytes(n, "big") \
            and cv.scsi_ba_to_int(ba) == v
        if not ok:
            res.violation("int_ba_roundtrip", "scsi_int_to_ba/scsi_ba_to_int are not big-endian inverses",
                          {"v": v, "n": n, "got": bytes(ba).hex(), "back": cv.scsi_ba_to_int(ba)})
        add("i2b %d %d" % (v, n), "ok " + hx(ba), ("i2b", v, n))
    for _ in range(300 * scale):
        n = rng.randint(0, 12)
        b = rand_bytes(rng, n)
        ok, i = guarded("ba_int_roundtrip", "scsi_ba_to_int", {"bytes": bytes(b).hex()}, lambda: cv.scsi_ba_to_int(b))
        if not ok:
            continue
        res.case(("b2i", bytes(b)))
        res.count("ba_to_int")
        if i != int.from_bytes(b, "big") or bytes(cv.scsi_int_to_ba(i, n)) != bytes(b):
            res.violation("ba_int_roundtrip", "scsi_ba_to_int is not the big-endian value / not inverted by scsi_int_to_ba",
                          {"bytes": bytes(b).hex(), "got": i})
        add("b2i %s" % hx(b), "ok %d" % i, ("b2i", bytes(b).hex()))
    # values larger than the array: documented truncation (model: mod 256^n) - compared with the model only
    for _ in range(50 * scale):
        n = rng.randint(0, 6)
        v = rng.getrandbits(8 * n + rng.randint(1, 16))
        try:
            add("i2b %d %d" % (v, n), "ok " + hx(cv.scsi_int_to_ba(v, n)), ("i2b-trunc", v, n))
        except Exception as e:
            add("i2b %d %d" % (v, n), "err " + type(e).__name__, ("i2b-trunc", v, n))

    # ---- 2. single mask fields
    cases = field_cases(rng, 900 * scale)
    # exhaustive values for narrow fields
    for w in range(1, 11 if scale > 1 else 8):
        for s in (0, 3, 7):
            nb = (s + w + 7) // 8
            L = nb + 2
            mask = ((1 << w) - 1) << s
            p = 8 * (L - 1 - nb) + s
            for v in range(1 << w):
                cases.append((L, w, s, 1, nb, bytearray(L), mask, p, v))
    for (L, w, s, off, nb, prior, mask, p, v) in cases:
        lay = {"f": [mask, off]}
        buf = bytearray(prior)
        ok, _ = guarded("encode_exact", "encode_dict", {"mask": mask, "off": off, "prior": bytes(prior).hex(), "value": v},
                        lambda: cv.encode_dict({"f": v}, lay, buf))
        if not ok:
            continue
        res.case(("enc1", L, w, s, off, bytes(prior), v),
                 {"op": "encode_dict one field", "mask": hex(mask), "off": off, "prior": bytes(prior).hex(),
                  "value": v, "out": bytes(buf).hex()})
        res.count("field w=%d" % w if w in (1, 8, 16, 32, 64) else "field other widths")
        N0 = int.from_bytes(prior, "big")
        N1 = int.from_bytes(buf, "big")
        out = {}
        ok, _ = guarded("decode_encode", "decode_bits", {"mask": mask, "off": off, "data": bytes(buf).hex()},
                        lambda: cv.decode_bits(buf, lay, out))
        if not ok:
            continue
        if len(buf) != L or N1 != (N0 | (v << p)):
            res.violation("encode_exact", "encode_dict does not write the value into exactly the bits of its field",
                          {"mask": mask, "off": off, "prior": bytes(prior).hex(), "value": v, "got": bytes(buf).hex(),
                           "want": (N0 | (v << p)).to_bytes(L, "big").hex()})
        elif out.get("f") != v:
            res.violation("decode_encode", "decode_bits after encode_dict does not return the value",
                          {"mask": mask, "off": off, "prior": bytes(prior).hex(), "value": v, "decoded": out.get("f")})
        add("enc %s %s %s" % (hx(prior), enc_layout(lay), enc_dict({"f": v})), "ok " + hx(buf), ("enc1", mask, off))
        # decode of arbitrary contents reads exactly the field's bits
        arb = rand_bytes(rng, L)
        o2 = {}
        cv.decode_bits(arb, lay, o2)
        want = (int.from_bytes(arb, "big") >> p) & ((1 << w) - 1)
        if o2.get("f") != want:
            res.violation("decode_exact", "decode_bits does not read exactly the bits of the field",
                          {"mask": mask, "off": off, "data": bytes(arb).hex(), "got": o2.get("f"), "want": want})
        add("dec %s %s" % (hx(arb), enc_layout(lay)), common.canon_dict(o2), ("dec1", mask, off))

    # ---- 3. multi-field layouts incl. blobs, order independence
    for _ in range(250 * scale):
        L = rng.randint(1, 24)
        # carve disjoint bit ranges / byte ranges
        lay = {}
        vals = {}
        pos = 0  # byte cursor
        bitcur = 0
        i = 0
        while pos < L and i < 8:
            kind = rng.random()
            if kind < 0.25 and bitcur == 0:
                unit = rng.choice([1, 1, 2, 4])
                ln = rng.randint(0, max(0, (L - pos) // unit))
                ln = min(ln, 3)
                name = "b%d" % i
                lay[name] = ({1: "b", 2: "w", 4: "dw"}[unit], pos, ln)
                vals[name] = rand_bytes(rng, ln * unit)
                pos += ln * unit
            else:
                # a bit field starting at absolute MSB-first bit position pos*8+bitcur
                start = pos * 8 + bitcur
                maxw = min(8 * L - start, 40)
                if maxw <= 0:
                    break
                w = rng.randint(1, maxw)
                end = start + w  # exclusive, msb-first
                off = start // 8
                lastbyte = (end - 1) // 8
                nb = lastbyte - off + 1
                s = nb * 8 - (end - off * 8)
                mask = ((1 << w) - 1) << s
                name = "f%d" % i
                lay[name] = [mask, off]
                vals[name] = rng.getrandbits(w) if rng.random() < 0.8 else (1 << w) - 1
                pos, bitcur = end // 8, end % 8
                if rng.random() < 0.4 and bitcur:
                    pos, bitcur = pos + 1, 0  # gap
            i += 1
        if not lay:
            continue
        keys = list(lay)
        order1 = keys[:]
        rng.shuffle(order1)
        order2 = keys[:]
        rng.shuffle(order2)
        b1 = bytearray(L)
        b2 = bytearray(L)
        ok, _ = guarded("order_independent", "encode_dict on a layout", {"layout": {k: list(v) for k, v in lay.items()}},
                        lambda: (cv.encode_dict({k: vals[k] for k in order1}, lay, b1), cv.encode_dict({k: vals[k] for k in order2}, lay, b2)))
        if not ok:
            continue
        res.case(("layout", tuple(sorted((k, tuple(v)) for k, v in lay.items())), tuple(order1)),
                 {"op": "encode_dict layout", "layout": {k: list(v) for k, v in lay.items()}, "order": order1,
                  "out": bytes(b1).hex()})
        res.count("layouts with blobs" if any(len(v) == 3 for v in lay.values()) else "layouts bits only")
        out = {}
        cv.decode_bits(b1, lay, out)
        # the table is a dictionary: the order of its entries is not part of the layout (a wide field listed before a
        # narrow one that starts in the same byte, or after it, decodes the same)
        for perm in (order1, order2, keys[::-1]):
            outp = {}
            try:
                cv.decode_bits(b1, {k: lay[k] for k in perm}, outp)
            except Exception as e:      # noqa
                outp = {"raises": type(e).__name__}
            res.count("decode with permuted table order")
            if outp != out:
                res.violation("decode_table_order", "decode_bits result depends on the order of the entries in the layout table",
                              {"layout": {k: list(v) for k, v in lay.items()}, "order": perm, "buffer": bytes(b1).hex(),
                               "decoded_in_table_order": {k: (v if isinstance(v, int) else bytes(v).hex()) for k, v in out.items()},
                               "decoded_in_this_order": {k: (v if isinstance(v, int) else (bytes(v).hex() if not isinstance(v, str) else v)) for k, v in outp.items()}})
                break
        if bytes(b1) != bytes(b2):
            res.violation("order_independent", "encode_dict result depends on the order fields are supplied",
                          {"layout": lay, "order1": order1, "order2": order2, "b1": bytes(b1).hex(), "b2": bytes(b2).hex()})
        elif set(out) != set(keys) or any((bytes(out[k]) if not isinstance(vals[k], int) else out[k]) != (bytes(vals[k]) if not isinstance(vals[k], int) else vals[k]) for k in keys):
            res.violation("layout_roundtrip", "decode_bits(encode_dict(values)) != values for a non-overlapping layout",
                          {"layout": lay, "values": {k: (v if isinstance(v, int) else bytes(v).hex()) for k, v in vals.items()},
                           "decoded": {k: (v if isinstance(v, int) else bytes(v).hex()) for k, v in out.items()}})
        add("enc %s %s %s" % (hx(bytearray(L)), enc_layout(lay), enc_dict({k: vals[k] for k in order1})),
            "ok " + hx(b1), ("encL",))
        add("dec %s %s" % (hx(b1), enc_layout(lay)), common.canon_dict(out), ("decL",))

    # ---- model correspondence
    replies = drv.batch([r[0] for r in reqs])
    for (line, impl, what), rep in zip(reqs, replies):
        if rep != impl:
            res.tie_break("converter model disagrees with pyscsi.utils.converter on %s" % (what[0],),
                          {"request": line, "model": rep, "implementation": impl})
    res.count("model_requests", len(reqs))
    res.assumptions += [
        "domain: values fit their field, offsets inside the buffer, the field's bits are zero before encoding, blobs have the declared length (outside it the code spills/raises; not compared)",
        "a zero mask makes decode_bits/encode_dict loop forever (outside the property's quantifier; Layout.wf excludes it for every library table)",
    ]
