"""C18 — enumerations map names to values and back consistently under add/remove.

Theorems: lean/ScsiVerif/Props/C18.lean (refinement to an ordinary dictionary for all operation
sequences, reverse-lookup laws, isolation between enumerations).  Tie: correspondence of the real
pyscsi.utils.enum.Enum with EnumM on random operation sequences over several live enumerations; the
oracle is an ordinary Python dict undergoing the same operations."""
import random

from lib import cmds, common
from lib.common import Driver

TARGETS = ["ScsiVerif.Props.C18"]
NEEDS_GEN = False

RESERVED = {"keys", "add", "remove", "mro", "name", ""}


def tok(v):
    if isinstance(v, bool):
        return "b%d" % int(v)
    if isinstance(v, int):
        return "i%d" % v
    if isinstance(v, str):
        return "s" + v
    if isinstance(v, dict):
        return "d" + "_".join("%s-%s" % (k, tok(x)) for k, x in sorted(v.items()))
    return "o%d" % v._verif_serial      # OpCode objects compare by identity: one token per object


def run(res, tier, build_ok):
    from pyscsi.utils.enum import Enum
    from pyscsi.pyscsi.scsi_opcode import OpCode
    rng = random.Random(common.SEED * 7919 + 18)
    scale = 1 if (tier == "quick" and build_ok) else 10
    drv = Driver()
    names = ["A", "B", "READ_10", "x", "y1", "Zed", "lower_case", "K9", "_single", "q"]
    reqs = []
    serial = [0]

    def value(kind, i):
        # value kinds whose Python == coincides with token equality (no bool/int mixing inside one enumeration)
        if kind == "int":
            return rng.choice([0, 1, 2, 5, 0x28, 255, 70000])
        if kind == "str":
            return rng.choice(["", "a", "READ", "x y".replace(" ", "_")])
        if kind == "bool":
            return rng.choice([True, False])
        if kind == "dict":
            return {"m": rng.choice([1, 2]), "n": {"z": rng.choice([3, 4])}}
        oc = OpCode("OP%d" % i, rng.choice([0x12, 0x28, 0x2A, 0xA0]), {})
        serial[0] += 1
        oc._verif_serial = serial[0]
        return oc

    for it in range(150 * scale):
        n = rng.randint(1, 3)
        enums, oracles, kinds, inits = [], [], [], []
        for j in range(n):
            kind = rng.choice(["int", "int", "str", "bool", "dict", "opcode"])
            ks = rng.sample(names, rng.randint(1, 5))
            d = {k: value(kind, i) for i, k in enumerate(ks)}
            if j > 0 and rng.random() < 0.35:
                # an enumeration built from a mapping equal to an earlier one's (they must still be independent)
                kind, d = kinds[0], dict(first_init)
            how = rng.choice(["dict", "dict", "kwargs", "opcode", "opcode"])
            if how == "opcode" and rng.random() < 0.3 and kind == "int":
                d = {} if j == 0 or rng.random() < 0.5 else d
            if not d:
                how = "opcode"      # the empty mapping is the common case for operation codes without service actions
            res.count("enumeration built via " + how)
            if how == "dict":
                e = Enum(d)
            elif how == "kwargs":
                e = Enum(**d)
            else:
                # the service-action enumeration of an operation code object (what the opcode tables are made of)
                e = OpCode("OPC%d" % j, 0xA3, dict(d)).serviceaction
            if j == 0:
                first_init = dict(d)
            enums.append(e)
            oracles.append(dict(d))
            kinds.append(kind)
            inits.append(",".join("%s=%s" % (k, tok(v)) for k, v in d.items()))
        ops, obs = [], []
        for step in range(rng.randint(1, 14)):
            j = rng.randrange(n)
            e, o, kind = enums[j], oracles[j], kinds[j]
            what = rng.choice(["add", "add", "remove", "remove", "get", "rev", "keys"])
            k = rng.choice(names)
            if what == "add":
                v = value(kind, step)
                try:
                    e.add(k, v)
                    r = "ok"
                except KeyError:
                    r = "KeyError"
                want = "KeyError" if k in o else "ok"
                if want == "ok":
                    o[k] = v
                ops.append("a:%d:%s:%s" % (j, k, tok(v)))
            elif what == "remove":
                try:
                    e.remove(k)
                    r = "ok"
                except KeyError:
                    r = "KeyError"
                want = "ok" if k in o else "KeyError"
                o.pop(k, None)
                ops.append("r:%d:%s" % (j, k))
            elif what == "get":
                try:
                    r = tok(getattr(e, k))
                except AttributeError:
                    r = "AttributeError"
                want = tok(o[k]) if k in o else "AttributeError"
                ops.append("g:%d:%s" % (j, k))
            elif what == "rev":
                v = rng.choice(list(o.values())) if o and rng.random() < 0.8 else value(kind, 99)
                r = "rev=" + e[v]
                # "a name carrying that value": the dictionary is searched by token (OpCode objects are themselves, not their code)
                want = "rev=" + next((kk for kk, vv in o.items() if tok(vv) == tok(v)), "")
                ops.append("v:%d:%s" % (j, tok(v)))
            else:
                r = "keys=" + ",".join(e.keys)
                want = "keys=" + ",".join(o.keys())
                ops.append("k:%d" % j)
            obs.append(r)
            if r != want:
                res.violation("enum %s" % what, "Enum.%s disagrees with an ordinary dict after the same operations: %s, dict says %s" % (what, r, want),
                              {"inits": inits, "ops": ops, "observed": obs})
                break
        # final agreement of every enumeration with its dictionary (isolation included)
        for j in range(n):
            if list(enums[j].keys) != list(oracles[j].keys()) or any(tok(getattr(enums[j], k)) != tok(v) for k, v in oracles[j].items()):
                res.violation("enum final state", "enumeration %d differs from its dictionary after the history" % j, {"inits": inits, "ops": ops})
        res.case((tuple(inits), tuple(ops)), {"enumerations": inits, "ops": ops, "observed": obs})
        res.count("value kind " + "/".join(sorted(set(kinds))))
        res.count("ops", len(ops))
        reqs.append(("enumworld %s %s" % ("|".join(inits), ";".join(ops)), "ok " + ";".join(obs)))
    # ---- the library's own tables: reverse lookup of every entry's value gives a name that carries that very value
    #      (operation codes sharing a code byte — MAINTENANCE IN / the per-set A3h alias — are different values)
    for sn, table in cmds.opcode_sets().items():
        for k in list(table.keys):
            v = getattr(table, k)
            back = table[v]
            res.count("library table reverse lookups")
            if not back or getattr(table, back, None) is not v:
                res.violation("library table reverse lookup", "%s[%s.%s] returns %r, a name that does not carry that value" % (sn, sn, k, back),
                              {"set": sn, "name": k, "returned": back})
                break
    # ---- the library's own enumerations: the service-action enumeration of every operation code of every command
    #      set is an enumeration of its own; adding to / removing from one leaves every other one (same name in
    #      another set, another name in the same set) as it was.  The tables are restored afterwards.
    sets = cmds.opcode_sets()
    owners = [(sn, k, getattr(e, k)) for sn, e in sets.items() for k in e.keys]
    owners = [(sn, k, oc) for sn, k, oc in owners if hasattr(oc, "serviceaction")]
    snapshot = lambda: [(sn, k, tuple((n, getattr(oc.serviceaction, n)) for n in oc.serviceaction.keys)) for sn, k, oc in owners]
    before = snapshot()
    picks = rng.sample(range(len(owners)), min(len(owners), 25 * scale))
    # always include an operation code that exists under the same name in several sets
    for want in ("PERSISTENT_RESERVE_IN", "INQUIRY", "MODE_SENSE_6"):
        picks += [i for i, (sn, k, oc) in enumerate(owners) if k == want][:2]
    for i in picks:
        sn, k, oc = owners[i]
        name = "VERIF_PROBE_%d" % i
        try:
            oc.serviceaction.add(name, 0x1F)
        except KeyError:
            res.violation("library enum add refused", "adding a fresh name to %s.%s.serviceaction was refused" % (sn, k), {"set": sn, "opcode": k})
            continue
        after = snapshot()
        changed = [(a[0], a[1]) for a, b in zip(after, before) if a != b]
        expect = [(sn, k)]
        res.case(("library enum", sn, k), None)
        res.count("library service-action enumerations mutated")
        if changed != expect:
            others = [c for c in changed if c != (sn, k)]
            res.violation("library enum shared", "adding a name to %s.%s.serviceaction also changed %s" % (sn, k, ", ".join("%s.%s" % c for c in others[:6])),
                          {"mutated": [sn, k], "also_changed": others[:20]})
        oc.serviceaction.remove(name)
        if snapshot() != before:
            res.violation("library enum remove", "removing the added name from %s.%s.serviceaction did not restore the tables" % (sn, k), {"set": sn, "opcode": k})
            break
    reps = drv.batch([r[0] for r in reqs])
    for (line, impl), rep in zip(reqs, reps):
        if rep != impl:
            res.tie_break("EnumM model disagrees with pyscsi.utils.enum.Enum", {"request": line[:400], "model": rep[:300], "implementation": impl[:300]})
    res.assumptions += ["domain: names not starting with '__' and not colliding with metaclass attributes (keys/add/remove/mro…), values not callable; outside it Enum.keys drops the entry (recorded finding F19, outside the property's domain)",
                        "Python == on values coincides with token equality for the generated value kinds (no bool/int mixing)"]
