"""C14 — operation codes, service actions and status codes are the T10 assignments.

Theorems: lean/ScsiVerif/Props/C14.lean over Gen.Opcodes (regenerated) and Std.T10 (oracle).
Tie: translator T1 (runtime introspection of the five Enum objects) + exhaustive correspondence of
`SCSICommand.init_cdb` with `Cmd.initCdbLen` and `Std.samLen` over all 256 operation-code values;
the failing-input search evaluates the oracle directly on the live Enum objects."""
from lib import cmds, common
from lib.common import Driver

TARGETS = ["ScsiVerif.Props.C14"]
NEEDS_GEN = True


def run(res, tier, build_ok):
    from pyscsi.pyscsi.scsi_command import SCSICommand
    from pyscsi.pyscsi.scsi_opcode import OpCode
    import pyscsi.pyscsi.scsi_enum_command as ec

    drv = Driver()
    sets = cmds.opcode_sets()
    def snapshot():
        return {sn: {k: (getattr(e, k).name, getattr(e, k).value, tuple((x, getattr(getattr(e, k).serviceaction, x)) for x in getattr(e, k).serviceaction.keys))
                     for k in e.keys} for sn, e in sets.items()}

    def check_tables(tag):
        # ---- names / values on the live objects against the oracle
        names, sas = set(), set()
        for sn, e in sets.items():
            for k in e.keys:
                oc = getattr(e, k)
                names.add(k)
                names.add(oc.name)
                for s in oc.serviceaction.keys:
                    sas.add(s)
        names = sorted(names)
        sas = sorted(sas)
        t10 = dict(zip(names, drv.batch(["t10op %s" % n for n in names])))
        t10sa = dict(zip(sas, drv.batch(["t10sa %s" % n for n in sas])))
        t10home = dict(zip(sas, drv.batch(["t10sahome %s" % n for n in sas])))
        GENERIC = ("_OPCODE_",)
        nonlocal no_oracle
        seen = {}
        for sn, e in sets.items():
            for k in e.keys:
                oc = getattr(e, k)
                res.case(("opcode", sn, k), {"set": sn, "name": k, "value": hex(oc.value), "t10": t10[k]})
                res.count("opcode entries")
                for nm, kind in ((k, "key"), (oc.name, "name")):
                    r = t10[nm]
                    if r == "none":
                        no_oracle += 1
                        continue
                    if int(r[3:]) != oc.value:
                        res.violation(tag + "set=%s %s=%s value=%s" % (sn, kind, nm, hex(oc.value)),
                                      "%s.%s exposes %s under the name %s; T10 assigns %s" % (sn, k, hex(oc.value), nm, hex(int(r[3:]))),
                                      {"set": sn, "key": k, "name": oc.name, "value": oc.value, "t10": int(r[3:])})
                if k in seen and seen[k][1] != oc.value:
                    res.violation(tag + "name=%s differs between %s and %s" % (k, seen[k][0], sn),
                                  "%s is %s in %s but %s in %s" % (k, hex(seen[k][1]), seen[k][0], hex(oc.value), sn),
                                  {"name": k, "sets": [seen[k][0], sn], "values": [seen[k][1], oc.value]})
                seen.setdefault(k, (sn, oc.value))
                for s in oc.serviceaction.keys:
                    v = getattr(oc.serviceaction, s)
                    res.case(("sa", sn, k, s))
                    res.count("service action entries")
                    h = t10home.get(s, "none")
                    # a service action hangs off the operation code it is a service action of (the generic *_OPCODE_xx
                    # entries and smc's 1Bh entry carry the whole shared table and are not judged here)
                    if h != "none" and not any(g in k for g in GENERIC) and not (sn == "smc" and k == "OPEN_CLOSE_IMPORT_EXPORT_ELEMENT") \
                            and int(h[3:]) != oc.value:
                        res.violation(tag + "set=%s opcode=%s lists foreign sa=%s" % (sn, k, s),
                                      "%s.%s (operation code %s) lists the service action %s, which T10 assigns under operation code %s" % (
                                          sn, k, hex(oc.value), s, hex(int(h[3:]))),
                                      {"set": sn, "opcode": k, "value": oc.value, "service_action": s, "t10_home": int(h[3:])})
                    r = t10sa[s]
                    if r == "none":
                        no_oracle += 1
                    elif int(r[3:]) != v:
                        res.violation(tag + "set=%s opcode=%s sa=%s value=%s" % (sn, k, s, hex(v)),
                                      "%s.%s service action %s is %s; T10 assigns %s" % (sn, k, s, hex(v), hex(int(r[3:]))),
                                      {"set": sn, "opcode": k, "service_action": s, "value": v, "t10": int(r[3:])})
    no_oracle = 0
    before = snapshot()
    check_tables("")
    # ---- names looked up on a set that does not list them: whatever a set *exposes* under a standard command name — by
    #      attribute access too, not only in its listing — must be T10's value for that name; and looking names up must not
    #      change the tables
    allnames = sorted({k for e in sets.values() for k in e.keys})
    t10all = dict(zip(allnames, drv.batch(["t10op %s" % n for n in allnames])))
    for sn, e in sets.items():
        for nm in allnames:
            try:
                oc = getattr(e, nm)
            except AttributeError:
                res.count("names a set does not offer (AttributeError)")
                continue
            except Exception as ex:
                res.violation("lookup set=%s name=%s raises" % (sn, nm), "%s.%s raises %s" % (sn, nm, type(ex).__name__), {"set": sn, "name": nm})
                continue
            res.count("names resolved by attribute access")
            r = t10all[nm]
            val = getattr(oc, "value", None)
            if r != "none" and val != int(r[3:]):
                res.violation("lookup set=%s name=%s value=%s" % (sn, nm, hex(val) if isinstance(val, int) else val),
                              "%s.%s resolves to operation code %s; T10 assigns %s to that name" % (sn, nm, hex(val) if isinstance(val, int) else val, hex(int(r[3:]))),
                              {"set": sn, "name": nm, "value": val, "t10": int(r[3:]), "listed": nm in e.keys})
    if snapshot() != before:
        res.violation("tables changed by lookups", "looking names up by attribute access changed the opcode tables", {})
        check_tables("after lookups: ")
    # ---- the tables are constants: attaching to devices of every type (any INQUIRY contents) and using the
    #      facade must not change them
    from pyscsi.pyscsi.scsi import SCSI

    class Dev:
        def __init__(self, inq):
            self.inq, self.opcodes, self.devicetype = inq, sets["spc"], None

        def execute(self, cmd, en_raw_sense=False):
            if cmd.cdb[0] == 0x12:
                cmd.datain[: len(self.inq)] = self.inq[: len(cmd.datain)]

        def close(self):
            pass
    import random
    rng = random.Random(common.SEED * 7919 + 14)
    inqs = []
    for pdt in range(32):
        base = bytearray(96)
        base[0], base[4] = pdt, 91
        inqs.append(bytes(base))
        for byte in range(1, 8):
            for bit in range(8):
                b = bytearray(base)
                b[byte] |= 1 << bit
                if byte != 4:
                    inqs.append(bytes(b))
        inqs.append(bytes([pdt] + [0xFF] * 95))
        inqs.append(bytes([pdt | (rng.randrange(8) << 5)]) + bytes(rng.getrandbits(8) for _ in range(95)))
    for inq in inqs:
        d = Dev(bytearray(inq))
        try:
            s0 = SCSI(d, 512)
            s0.testunitready()
            s0.inquiry()
        except Exception:
            s0 = None
        if s0 is not None and inq[1:8] == bytes(7)[:3] + bytes([91]) + bytes(3):
            # one device per type: every facade method once (whatever it does — refused, unsupported on this set, sent)
            import inspect
            for mname, fn in inspect.getmembers(SCSI, predicate=inspect.isfunction):
                if mname.startswith("_") or mname in ("execute",):
                    continue
                kw = {}
                for pn, par in list(inspect.signature(fn).parameters.items())[1:]:
                    if par.default is inspect.Parameter.empty and par.kind == par.POSITIONAL_OR_KEYWORD:
                        kw[pn] = bytearray(512) if pn in ("data",) else 0
                try:
                    getattr(s0, mname)(**kw)
                except Exception:
                    pass
                res.count("facade methods called before re-checking the tables")
        res.case(("attach", inq[:8]), None)
        res.count("attach histories before re-checking the tables")
    after = snapshot()
    if after != before:
        diff = [(sn, k, before[sn].get(k), after[sn].get(k)) for sn in after for k in set(after[sn]) | set(before[sn]) if before[sn].get(k) != after[sn].get(k)]
        res.violation("tables changed by use set=%s key=%s" % (diff[0][0], diff[0][1]),
                      "after attaching to devices the opcode table %s changed: %s was %s, is now %s" % (diff[0][0], diff[0][1], diff[0][2], diff[0][3]),
                      {"changes": [str(x) for x in diff[:10]]})
    check_tables("after use: ")
    st = [k for k in ec.SCSI_STATUS.keys]
    for k, r in zip(st, drv.batch(["samstatus %s" % k for k in st])):
        v = getattr(ec.SCSI_STATUS, k)
        res.case(("status", k), {"status": k, "value": hex(v), "sam": r})
        if r != "none" and int(r[3:]) != v:
            res.violation("status=%s value=%s" % (k, hex(v)), "SCSI_STATUS.%s is %s; SAM assigns %s" % (k, hex(v), hex(int(r[3:]))),
                          {"status": k, "value": v, "sam": int(r[3:])})
    for k in ("GOOD", "CHECK_CONDITION", "CONDITIONS_MET", "BUSY", "RESERVATION_CONFLICT", "TASK_SET_FULL", "ACA_ACTIVE", "TASK_ABORTED"):
        if k not in st:
            res.violation("status=%s missing" % k, "SCSI_STATUS lacks %s" % k, {"status": k})
    res.count("entries without oracle (not judged)", no_oracle)
    # ---- init_cdb over all 256 values (+ a few beyond): implementation vs model vs SAM
    vals = list(range(256)) + [256, 300, 1 << 16]
    mod = drv.batch(["initcdb %d" % v for v in vals])
    sam = drv.batch(["samlen %d" % v for v in vals])
    for v, m, s in zip(vals, mod, sam):
        try:
            impl = "ok %d" % len(SCSICommand.init_cdb(OpCode("X", v, {})))
        except Exception as e:
            impl = "err " + type(e).__name__
        res.case(("init_cdb", v), {"opcode": hex(v), "init_cdb": impl, "sam": s})
        res.count("init_cdb values")
        want = s if s.startswith("ok") else "err OpcodeException"
        if v < 256 and impl != want:
            res.violation("init_cdb opcode=%s" % hex(v),
                          "init_cdb(%s) gives %s; SAM prescribes %s" % (hex(v), impl, "refusal" if s == "none" else s[3:] + " bytes"),
                          {"opcode": v, "implementation": impl, "sam": s})
        elif impl != m:
            res.tie_break("Cmd.initCdbLen disagrees with SCSICommand.init_cdb", {"opcode": v, "model": m, "implementation": impl})
    res.exhaustive = True
    res.assumptions += ["Std/T10.lean is a transcription of the T10 op-code list from knowledge; library names absent from it are counted, not judged"]
