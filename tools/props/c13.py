"""C13 — each facade call sends exactly one command and decodes what the device returned.

Theorems: lean/ScsiVerif/Props/C13.lean (method model for all behaviours; facts about the 38 real
methods decided on Gen.facade, regenerated from scsi.py).  Tie: translator + correspondence of every
method on every command set that defines it, with every subset of optional keyword arguments, over
a recording device whose responder fills the data-in buffer at execute time; failure injection at
the device."""
import inspect
import itertools
import random

from lib import cmds, common, devices
from lib.common import Driver
from props import c01

TARGETS = ["ScsiVerif.Props.C13"]
NEEDS_GEN = True


def response_for(method, kwargs, alloc):
    """a standards-conformant, non-zero response for the methods that decode one (None = zeros suffice)"""
    def pad(b):
        b = bytearray(b)
        return b + bytearray(max(0, alloc - len(b))) if alloc else b
    if method == "inquiry":
        if kwargs.get("evpd"):
            return pad([0x00, 0x80, 0, 4, 0x41, 0x42, 0x43, 0x44])
        return pad([0x05, 0x80, 0x06, 0x12, 91] + [0] * 3 + list(b"VENDOR  PRODUCT         REV1"))
    if method == "readcapacity10":
        return pad([0x00, 0x0F, 0xFF, 0xFF, 0, 0, 2, 0])
    if method == "readcapacity16":
        return pad([0, 0, 0, 1, 0, 0, 0, 0, 0, 0, 0x10, 0, 0x03, 0x21, 0x80, 0x05])
    if method == "getlbastatus":
        return pad([0, 0, 0, 20, 0, 0, 0, 0] + [0] * 7 + [9, 0, 0, 0, 8, 1, 0, 0, 0])
    if method in ("modesense6",):
        return pad([15, 0x11, 0x22, 0, 0x0A, 0x0A, 0x24, 0x10, 0x08] + [0] * 7)
    if method in ("modesense10",):
        return pad([0, 18, 0x11, 0x22, 0, 0, 0, 0, 0x0A, 0x0A, 0x24, 0x10, 0x08] + [0] * 7)
    if method == "reporttargetportgroups":
        return pad([0, 0, 0, 12, 0x81, 0x0F, 0, 7, 0, 0, 0, 1, 0, 0, 0, 5])
    if method == "readdiscinformation":
        return pad([0, 32, 0x0E, 1, 1, 1, 1, 0x20] + [0] * 26)
    if method == "persistentreservein":
        return pad([0, 0, 0, 7, 0, 0, 0, 0])
    if method == "reportluns":
        # a target with 16 logical units: LUN LIST LENGTH says 128, the data is cut at the allocation length (SPC: the
        # length field is not adjusted to reflect truncation) — one command, decoded as far as it goes
        full = [0, 0, 0, 128, 0, 0, 0, 0] + [x for i in range(16) for x in (0, i, 0, 0, 0, 0, 0, 0)]
        return bytearray(full[: (alloc or 96)]) if (alloc or 96) < len(full) else pad(full)
    return None


def oversubscribed_runs(data, std, sets, rng, bycls):
    """every facade method against a device that has more to say than fits: the whole data-in buffer is filled
    (every length field inside it then announces far more than the buffer holds — 0xFF… — or a little more — 0x0101…).
    Yields one observation per call: what was handed to the device at every send, and how the call ended.  A
    decoding error on such (truncated) data is not this property's business; a second command is."""
    from pyscsi.pyscsi.scsi import SCSI
    for m in data["facade"]:
        meth = m["name"]
        fsig = inspect.signature(getattr(SCSI, meth))
        for ci, call in enumerate(m["calls"]):
            c = bycls.get(call["cls"])
            if c is None or c["cls"].startswith("ATAPassThrough"):
                continue
            s = std.get(c["module"].split(".")[-1], c["cls"])
            enums = [(sn, e) for sn, e in sets.items() if cmds.find_op(e, s["opname"]) is not None]
            if not enums:
                continue
            required = [p for p, par in list(fsig.parameters.items())[1:] if par.default is inspect.Parameter.empty
                        and par.kind in (par.POSITIONAL_OR_KEYWORD,)]
            allockey = [k for k in ("alloclen", "alloc_len") if k in fsig.parameters or (m["kwargs"] and k in [p[0] for p in c["params"]])]
            base = c01.make_cases(c, s, rng, 1)
            kw0 = c01.finalize_kwargs(c, base[0], rng)
            blocksize = kw0.pop("blocksize", 0) or 0
            if c["cls"] in ("Read10", "Read12", "Read16"):
                blocksize, kw0["tl"] = 512, 1
            args0 = {k: v for k, v in kw0.items() if k in required}
            if meth == "persistentreservein":
                args0["service_action"] = ci
            if meth == "persistentreserveout":
                args0.setdefault("service_action", 0)
            if meth == "readcd":
                continue
            for r in required:
                args0.setdefault(r, kw0.get(r, 0))
            variants = [dict(args0)] + [dict(args0, **{k: a}) for k in allockey[:1] for a in (8, 96)]
            for args in variants:
                for fill in (0xFF, 0x01):
                    sn, enum = enums[(fill + len(args)) % len(enums)]
                    sends = []

                    def responder(cmd, fill=fill, sends=sends):
                        sends.append((bytes(cmd.cdb), len(cmd.datain), len(cmd.dataout)))
                        if len(cmd.datain):
                            cmd.datain[:] = bytes([fill]) * len(cmd.datain)
                    fac, dev = devices.attach(enum, blocksize=blocksize, responder=responder)
                    del sends[:]
                    try:
                        cmd = getattr(fac, meth)(**args)
                        err = None
                    except Exception as e:          # noqa
                        cmd, err = None, e
                    shown = {k: (v if isinstance(v, (int, type(None))) else "<%s>" % type(v).__name__) for k, v in args.items()}
                    yield {"method": meth, "set": sn, "args": shown, "fill": fill, "sends": list(sends), "calls": len(dev.calls),
                           "error": err, "cmd": cmd, "class": c, "std": s}


def optional_subsets(names, cap=64):
    if len(names) <= 6:
        for r in range(len(names) + 1):
            for sub in itertools.combinations(names, r):
                yield sub
    else:
        yield ()
        yield tuple(names)
        for n in names:
            yield (n,)
        for n in names:
            yield tuple(x for x in names if x != n)


def run(res, tier, build_ok):
    rng = random.Random(common.SEED * 7919 + 13)
    scale = 1 if (tier == "quick" and build_ok) else 4
    data = cmds.gen_data()
    drv = Driver()
    std = cmds.StdInfo(drv, data["commands"])
    sets = cmds.opcode_sets()
    from pyscsi.pyscsi.scsi import SCSI
    import pyscsi.pyscsi.scsi as scsi_mod
    bycls = {}
    for c in data["commands"]:
        key = c["cls"]
        if c["module"].endswith("spc4"):
            key = "ExtendedCopy4"
        if c["module"].endswith("spc5"):
            key = "ExtendedCopy5"
        bycls[key] = c
    reqs = []
    for m in data["facade"]:
        meth = m["name"]
        fsig = inspect.signature(getattr(SCSI, meth))
        for ci, call in enumerate(m["calls"]):
            c = bycls.get(call["cls"])
            if c is None:
                res.tie_break("facade %s constructs unknown class %s" % (meth, call["cls"]), {"method": meth})
                continue
            module = c["module"].split(".")[-1]
            s = std.get(module, c["cls"])
            cls = getattr(scsi_mod, call["cls"])
            base_cases = c01.make_cases(c, s, rng, 1)
            rng.shuffle(base_cases)
            # optional arguments: parameters with defaults of the constructor (reached through **kwargs) or of the facade method
            required = [p for p, par in list(fsig.parameters.items())[1:] if par.default is inspect.Parameter.empty
                        and par.kind in (par.POSITIONAL_OR_KEYWORD,)]
            fopt = [p for p, par in list(fsig.parameters.items())[1:] if par.default is not inspect.Parameter.empty]
            copt = [p[0] for p in c["params"] if p[1] is not None and p[0] not in required and p[0] != "blocksize"] if m["kwargs"] else []
            optional = fopt + [x for x in copt if x not in fopt]
            if c["cls"].startswith("ATAPassThrough"):
                optional = [x for x in optional if x != "blocksize"] + ["blocksize"]
            injected_done = False
            for sn, enum in sets.items():
                op = cmds.find_op(enum, s["opname"])
                if op is None:
                    continue
                res.count("method x command set")
                subsets = list(optional_subsets(optional))
                if sn != "sbc" and len(subsets) > 4 * scale:
                    subsets = rng.sample(subsets, 4 * scale)
                if scale > 1:
                    subsets = subsets * 2          # every subset with two different argument tuples
                for si, sub in enumerate(subsets):
                    kw0 = c01.finalize_kwargs(c, base_cases[si % len(base_cases)], rng)
                    blocksize = kw0.pop("blocksize", 0) if "blocksize" in [p[0] for p in c["params"]] and not c["cls"].startswith("ATA") else 0
                    if c["cls"].startswith("ATA") and "blocksize" in kw0 and "blocksize" not in sub:
                        kw0.pop("blocksize")
                        if kw0.get("byte_block") and kw0.get("t_type") and kw0.get("t_length"):
                            kw0["t_type"] = 0
                    args = {}
                    for k, v in kw0.items():
                        if k in required or k in sub or (k not in optional and k in fsig.parameters):
                            args[k] = v
                        elif k not in optional and m["kwargs"] and k not in [p for p in fsig.parameters]:
                            args[k] = v     # parameter-list keys of PR OUT etc.
                    if meth == "persistentreservein":
                        args["service_action"] = ci
                    if meth == "persistentreserveout":
                        args.setdefault("service_action", 0)
                    for r in required:
                        if r not in args:
                            args[r] = kw0.get(r, 0)
                    # stay inside the domain: the response must fit the buffer; valid READ CD layouts only
                    for k in ("alloclen", "alloc_len"):
                        if k in args and m["unmarshall"] is not None:
                            args[k] = rng.choice([96, 255, 1024])
                    if meth == "readcd":
                        if "est" in args:
                            args["est"] = rng.choice([2, 4])
                        if "mcsb" in args:
                            # EDC/ECC (bit 0) has a defined layout only for a stated expected sector type
                            args["mcsb"] = rng.choice([0x00, 0x02, 0x03] if "est" in args else [0x00, 0x02])
                        if "c2ei" in args:
                            args["c2ei"] = rng.choice([0, 1, 2])
                        if "scsb" in args:
                            args["scsb"] = rng.choice([0, 2, 4])
                        args["tl"] = rng.randint(0, 3)
                    if meth == "readdiscinformation":
                        args["data_type"] = rng.choice([0, 1, 2])
                    alloc = None
                    for k in ("alloclen", "alloc_len"):
                        alloc = args.get(k, alloc)
                    resp = response_for(meth, args, None)
                    seen = {}

                    def responder(cmd, resp=resp, seen=seen):
                        seen["before"] = bytes(cmd.datain)
                        if resp is not None and len(cmd.datain) >= len(resp):
                            cmd.datain[: len(resp)] = resp
                        elif len(cmd.datain):
                            for i in range(min(len(cmd.datain), 8)):
                                cmd.datain[i] = 0
                        seen["after"] = bytes(cmd.datain)

                    fac, dev = devices.attach(enum, blocksize=blocksize, responder=responder)
                    shown = {k: (v if isinstance(v, (int, type(None))) else "<%s>" % type(v).__name__) for k, v in args.items()}
                    res.case((meth, sn, tuple(sorted(shown.items(), key=str))),
                             {"method": meth, "set": sn, "args": shown, "optional_supplied": list(sub)})
                    res.count("method " + meth)
                    try:
                        cmd = getattr(fac, meth)(**args)
                        err = None
                    except Exception as e:
                        cmd, err = None, e
                    sig = "facade=%s set=%s" % (meth, sn)
                    if err is not None:
                        res.violation(sig + " raises=" + type(err).__name__,
                                      "SCSI.%s(%s) on %s raises %s: %s" % (meth, ", ".join(sorted(shown)), sn, type(err).__name__, str(err)[:100]),
                                      {"method": meth, "set": sn, "args": shown, "exception": type(err).__name__, "sent": len(dev.calls)})
                        continue
                    if len(dev.calls) != 1:
                        res.violation(sig + " executes=%d" % len(dev.calls), "SCSI.%s sent %d commands" % (meth, len(dev.calls)),
                                      {"method": meth, "set": sn, "args": shown})
                        continue
                    sent = dev.calls[0]
                    if sent[0] is not cmd or sent[2] is not cmd.dataout or sent[3] is not cmd.datain or sent[1] != bytes(cmd.cdb):
                        res.violation(sig + " returned object differs", "SCSI.%s returns a command/buffers other than the ones handed to the device" % meth,
                                      {"method": meth, "set": sn, "args": shown})
                        continue
                    if "after" in seen and bytes(cmd.datain) != seen["after"]:
                        res.violation(sig + " datain changed after the device filled it",
                                      "SCSI.%s: the data-in buffer the caller gets back (%d bytes) is not the buffer as the device left it (%d bytes)" % (
                                          meth, len(cmd.datain), len(seen["after"])), {"method": meth, "set": sn, "args": shown})
                        continue
                    if cmd.opcode is not op or cmd.cdb[0] != s["opcode"]:
                        res.violation(sig + " opcode", "SCSI.%s used opcode %s, the device's set assigns %s" % (meth, cmd.opcode, op),
                                      {"method": meth, "set": sn, "args": shown})
                        continue
                    if sent[4] != m["en_raw_sense"]:
                        res.tie_break("en_raw_sense of %s differs from Gen.facade" % meth, {"method": meth})
                    # same CDB as the constructor called directly with the same arguments (C01 covers that one)
                    direct = dict(args)
                    direct.pop("service_action", None) if meth == "persistentreservein" else None
                    if "blocksize" in [p[0] for p in c["params"]] and not c["cls"].startswith("ATA"):
                        direct["blocksize"] = blocksize
                    try:
                        dcmd = cls(op, **direct)
                        if bytes(dcmd.cdb) != bytes(cmd.cdb):
                            res.violation(sig + " arguments", "SCSI.%s does not forward its arguments: CDB %s vs constructor %s" % (meth, bytes(cmd.cdb).hex(), bytes(dcmd.cdb).hex()),
                                          {"method": meth, "set": sn, "args": shown})
                            continue
                    except Exception as e:
                        res.tie_break("direct constructor call failed for %s: %s" % (meth, type(e).__name__), {"method": meth, "args": shown})
                    # decoded after the device filled the buffer
                    if m["unmarshall"] is not None and hasattr(cmd, "unmarshall_datain"):
                        ukw = {}
                        for k, v in m["unmarshall"]:
                            if k is None:
                                ukw.update({a: b for a, b in args.items() if a not in fsig.parameters or fsig.parameters[a].kind == inspect.Parameter.VAR_KEYWORD})
                            else:
                                ukw[k] = args[v] if v in args else fsig.parameters[v].default
                        try:
                            want = type(cmd).unmarshall_datain(bytearray(seen["after"]), **ukw)
                        except Exception as e:
                            want = "raises " + type(e).__name__
                        if cmd.result != want:
                            res.violation(sig + " decode", "SCSI.%s: result is not the decoding of the buffer as the device left it" % meth,
                                          {"method": meth, "set": sn, "args": shown, "result": str(cmd.result)[:200], "expected": str(want)[:200]})
                            continue
                    reqs.append(("facaderun %d ok ok ok" % (1 if m["unmarshall"] is not None else 0),
                                 "ok execs=1 trace=%s returned" % ("c,e,u,r" if m["unmarshall"] is not None else "c,e,r"), meth))
                # failure injection (once per method): the device raises -> same exception, one send, nothing decoded
                if injected_done:
                    continue
                injected_done = True
                op0 = [cmds.find_op(e, s["opname"]) for e in sets.values()]
                enum0 = [e for e in sets.values() if cmds.find_op(e, s["opname"]) is not None][0]

                class Boom(Exception):
                    pass
                kw0 = c01.finalize_kwargs(c, base_cases[0], rng)
                blocksize = kw0.pop("blocksize", 0) if not c["cls"].startswith("ATA") else 0
                args = {k: v for k, v in kw0.items() if k in required or (k not in optional)}
                if c["cls"].startswith("ATA"):
                    args = {k: v for k, v in kw0.items() if k in required}
                    args["t_type"] = 0
                if meth == "persistentreservein":
                    args["service_action"] = ci
                if meth == "persistentreserveout":
                    args.setdefault("service_action", 0)
                # whatever the device raises - also the built-in exception types - is passed on as is
                for boom in (Boom("injected"), TypeError("injected"), ValueError("injected"), KeyError("injected"),
                             AttributeError("injected"), RuntimeError("injected"), OSError(5, "injected"), NotImplementedError("injected")):
                    fac, dev = devices.attach(enum0, blocksize=blocksize)
                    dev.fail = boom
                    try:
                        getattr(fac, meth)(**args)
                        got = "returned"
                    except Exception as e:
                        got = e
                    if got is not boom or len(dev.calls) != 1 or dev.calls[0][0].result != {}:
                        res.violation("facade=%s device error %s" % (meth, type(boom).__name__),
                                      "SCSI.%s: a %s raised by the device is not passed on unchanged after exactly one send (got %s, %d sent)" % (
                                          meth, type(boom).__name__, str(got)[:60], len(dev.calls)),
                                      {"method": meth, "exception": type(boom).__name__, "got": str(got)[:100], "sent": len(dev.calls)})
                        break
                res.count("device failure injections")
                reqs.append(("facaderun %d ok err ok" % (1 if m["unmarshall"] is not None else 0), "ok execs=1 trace=c,e raised", meth))
    # ---- a device that has more to say than fits into the buffer (every length field in the response announces more
    #      than was transferred): still exactly one command per call
    for ob in oversubscribed_runs(data, std, sets, rng, bycls):
        res.case(("oversubscribed", ob["method"], ob["set"], ob["fill"], tuple(sorted(ob["args"].items(), key=str))),
                 {"method": ob["method"], "set": ob["set"], "args": ob["args"], "fill": ob["fill"], "sent": ob["calls"]})
        res.count("device announces more than fits")
        if ob["calls"] != 1:
            res.violation("facade=%s oversubscribed executes=%d" % (ob["method"], ob["calls"]),
                          "SCSI.%s sent %d commands to a device whose answer announces more data than the buffer holds" % (ob["method"], ob["calls"]),
                          {"method": ob["method"], "set": ob["set"], "args": ob["args"], "fill": ob["fill"],
                           "sends": [(a.hex(), b, c_) for a, b, c_ in ob["sends"]]})
        elif ob["error"] is None and ob["cmd"] is not None and len(ob["cmd"].datain) != ob["sends"][0][1]:
            res.violation("facade=%s oversubscribed buffer replaced" % ob["method"],
                          "SCSI.%s: the data-in buffer of the returned command (%d bytes) is not the one handed to the device (%d bytes)" % (
                              ob["method"], len(ob["cmd"].datain), ob["sends"][0][1]),
                          {"method": ob["method"], "set": ob["set"], "args": ob["args"], "fill": ob["fill"]})
    # ---- through the real device classes (SG_IO over the virtual OS, iSCSI over the stand-in binding): a device of each
    #      type, every facade method its command set offers, twice round with different arguments, device nodes
    #      re-created in between (SG_IO).  Each call: no error, exactly one command on the wire, and it is the returned
    #      command's CDB (not an earlier one's).
    import sys as _sys
    from lib import virtos
    sgio, iscsi = _sys.modules["sgio"], _sys.modules["iscsi"]
    from pyscsi.pyscsi.scsi_device import SCSIDevice
    from pyscsi.pyiscsi.iscsi_device import ISCSIDevice
    plan = []
    for m in data["facade"]:
        fsig = inspect.signature(getattr(SCSI, m["name"]))
        for ci, call in enumerate(m["calls"]):
            c = bycls.get(call["cls"])
            if c is None or m["name"] == "readcd":
                continue
            plan.append((m, ci, c, std.get(c["module"].split(".")[-1], c["cls"]), fsig))
    for transport in ("sgio", "iscsi"):
        for dt, sn in ((0, "sbc"), (1, "ssc"), (3, "spc"), (8, "smc"), (5, "mmc"), (7, "sbc"), (4, "sbc")):
            wire = []
            vos = virtos.VirtualOS()
            vos.install()
            vos.mknod("/dev/sgv")

            def sg_backend(f, cdb, do, di, wire=wire, dt=dt):
                wire.append(bytes(cdb))
                if cdb[0] == 0x12 and len(di):
                    di[0] = dt
                return 0, None

            def is_backend(lun, task, do, di, wire=wire, dt=dt):
                wire.append(bytes(task.cdb))
                if task.cdb[0] == 0x12 and di is not None and len(di):
                    di[0] = dt
                return 0, None
            sgio.BACKEND, iscsi.BACKEND = sg_backend, is_backend
            try:
                dev = SCSIDevice("/dev/sgv") if transport == "sgio" else ISCSIDevice("iscsi://127.0.0.1/iqn.t:x/0", "iqn.i")
                fac = SCSI(dev, 512)
                offered = [p_ for p_ in plan if cmds.find_op(dev.opcodes, p_[3]["opname"]) is not None]
                order = [p_ for _ in range(2) for p_ in rng.sample(offered, len(offered))]
                for k, (m, ci, c, st, fsig) in enumerate(order):
                    meth = m["name"]
                    required = [p_ for p_, par in list(fsig.parameters.items())[1:] if par.default is inspect.Parameter.empty
                                and par.kind in (par.POSITIONAL_OR_KEYWORD,)]
                    kw0 = c01.finalize_kwargs(c, rng.choice(c01.make_cases(c, st, rng, 1)), rng)
                    bs = kw0.pop("blocksize", 0) or 0
                    if c["cls"].startswith("ATAPassThrough"):
                        kw0["t_type"] = 0
                    if c["cls"] in ("Read10", "Read12", "Read16"):
                        bs, kw0["tl"] = 512, rng.randint(0, 3)
                    args = {k_: v for k_, v in kw0.items() if k_ in required or (not m["kwargs"] and k_ in fsig.parameters and rng.random() < 0.5)}
                    if meth == "persistentreservein":
                        args["service_action"] = ci
                    if meth == "persistentreserveout":
                        args.setdefault("service_action", 0)
                    for r in required:
                        args.setdefault(r, kw0.get(r, 0))
                    for k_ in ("alloclen", "alloc_len"):
                        if k_ in args:
                            args[k_] = rng.choice([96, 255])
                    fac.blocksize = bs
                    replug = transport == "sgio" and rng.random() < 0.3
                    if replug:
                        vos.replug("/dev/sgv")
                    del wire[:]
                    shown = {k_: (v if isinstance(v, (int, type(None))) else "<%s>" % type(v).__name__) for k_, v in args.items()}
                    res.count("real transport %s" % transport)
                    try:
                        cmd = getattr(fac, meth)(**args)
                        bad = None
                        if len(wire) != 1:
                            bad = "%d commands on the wire" % len(wire)
                        elif wire[0] != bytes(cmd.cdb):
                            bad = "the CDB on the wire (%s) is not the returned command's (%s)" % (wire[0].hex(), bytes(cmd.cdb).hex())
                    except Exception as e:
                        bad = "raises %s (%d commands on the wire)" % (type(e).__name__, len(wire))
                    if bad:
                        res.violation("facade=%s transport=%s %s" % (meth, transport, bad.split(" (")[0][:40]),
                                      "SCSI.%s over %s, device type %02Xh, call %d of the session%s: %s" % (
                                          meth, transport, dt, k + 1, " after the node was re-created" if replug else "", bad),
                                      {"method": meth, "transport": transport, "devicetype": dt, "args": shown, "call_index": k, "replugged": replug,
                                       "earlier": [o[0]["name"] for o in order[:k]][-6:]})
                        break
                res.case(("real", transport, dt), {"transport": transport, "devicetype": dt, "set": sn, "calls": len(order)})
            finally:
                sgio.BACKEND, iscsi.BACKEND = None, None
                try:
                    dev.close()
                except Exception:
                    pass
    # ---- histories: the same facade method called again while the caller still holds the earlier results.  Every call
    #      must hand the device a command and buffers of its own (a buffer handed over by two commands is handed over
    #      twice), fresh (zero-filled) on entry, and an earlier result must stay as the device left it.  Sizes include
    #      bulk transfers (1 MiB and above), where buffer pooling / caching would be tempting.
    hist_plan = []
    for meth, w in (("read10", 10), ("read12", 12), ("read16", 16)):
        for bs, tl in ((512, 1), (512, 8), (512, 2047), (512, 2048), (4096, 256), (4096, 512), (512, 4096 + 1)):
            hist_plan.append((meth, {"lba": 7, "tl": tl}, bs))
    for meth, kw in (("inquiry", {}), ("inquiry", {"alloclen": 255}), ("readcapacity10", {}), ("readcapacity16", {}), ("reportluns", {}),
                     ("modesense6", {"page_code": 0x0A}), ("modesense10", {"page_code": 0x0A}), ("getlbastatus", {"lba": 0}),
                     ("readelementstatus", {"start": 0, "num": 4}), ("reporttargetportgroups", {}), ("readdiscinformation", {"data_type": 1})):
        hist_plan.append((meth, kw, 0))
    for meth, kw, bs in hist_plan:
        if not hasattr(SCSI, meth):
            continue
        enum = [e for e in (sets["sbc"], sets["smc"], sets["mmc"], sets["spc"]) if True]
        held = []
        ncall = {"n": 0}
        handed = []

        def responder2(cmd, ncall=ncall, handed=handed):
            ncall["n"] += 1
            handed.append((cmd, cmd.datain, bytes(cmd.datain[:64]), any(cmd.datain[-64:]) if len(cmd.datain) else False))
            if len(cmd.datain):
                n = len(cmd.datain)
                pat = bytes([(ncall["n"] * 37 + 1) & 0xFF])
                if meth.startswith("read1"):
                    cmd.datain[:] = pat * n                 # a full transfer on the first call ...
                    if ncall["n"] > 1:
                        cmd.datain[n // 2:] = bytes(n - n // 2)   # ... later ones are short / zero in the tail
        ok_enum = None
        for e in (sets["sbc"], sets["smc"], sets["mmc"], sets["ssc"], sets["spc"]):
            try:
                fac, dev = devices.attach(e, blocksize=bs, responder=responder2)
                del handed[:]        # the probe INQUIRY of the attach is not part of the history
                ncall["n"] = 0
                first = getattr(fac, meth)(**kw)
                ok_enum = e
                break
            except Exception:
                continue
        if ok_enum is None:
            continue
        held.append((first, bytes(first.datain)))
        bad = None
        for k in range(2):
            try:
                c2 = getattr(fac, meth)(**kw)
            except Exception as e:
                bad = "call %d raised %s" % (k + 2, type(e).__name__)
                break
            held.append((c2, bytes(c2.datain)))
        res.case(("history", meth, bs, tuple(sorted(kw.items()))), {"method": meth, "args": kw, "blocksize": bs, "calls": len(held), "datain bytes": len(first.datain)})
        res.count("repeated-call histories")
        if bad is None:
            bufs = [h[1] for h in handed if len(h[1])]
            if len({id(b) for b in bufs}) != len(bufs):
                bad = "the same data-in buffer was handed to the device by more than one command"
            elif len({id(h[0]) for h in handed}) != len(handed) or len(handed) != len(held):
                bad = "%d calls sent %d commands / command objects are shared" % (len(held), len(handed))
            elif any(any(h[2]) or h[3] for h in handed):
                bad = "a data-in buffer was not zero-filled when it was handed to the device"
            else:
                for i, (c, snap) in enumerate(held):
                    if bytes(c.datain) != snap:
                        bad = "the result of call %d changed after a later call" % (i + 1)
                        break
        if bad:
            res.violation("facade=%s history" % meth, "SCSI.%s called %d times while the results are held: %s" % (meth, len(held), bad),
                          {"method": meth, "args": kw, "blocksize": bs, "datain_bytes": len(first.datain)})
        del held[:], handed[:]
    reps = drv.batch([r[0] for r in reqs])
    for (line, impl, meth), rep in zip(reqs, reps):
        if rep != impl:
            res.tie_break("Facade.run disagrees with the observed behaviour of SCSI.%s" % meth, {"request": line, "model": rep, "observed": impl})
    res.assumptions += ["device-provided buffer contents: a conformant non-zero response per decoding method (zeros where the format tolerates them); exhaustive buffer contents are C04/C11's subject"]
