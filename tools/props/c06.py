"""C06 — parameter data survives a build/parse round trip and read-modify-write.

Theorems: lean/ScsiVerif/Props/C06.lean (table-level round-trip and locality laws for every two-way
layout table; build∘parse / parse∘build for the flat structures and GET LBA STATUS through the
standard's encoding).  Decision on the real code, for every structure with both directions:
  * dict -> bytes -> dict:   unmarshall(marshall(d)) == d            for generated valid dictionaries
  * bytes -> dict -> bytes:  marshall(unmarshall(b)) == b            for canonical responses from the Lean oracle
  * read-modify-write:       changing one field of unmarshall(b) and rebuilding changes only that field's bits
and the tie: the Lean builder model (Enc.*) returns the same bytes as the real marshall routine."""
import copy
import importlib
import random

from lib import common, formats, stdresp
from lib.common import Driver, hx

TARGETS = ["ScsiVerif.Props.C06", "ScsiVerif.Props.C06b", "ScsiVerif.Props.C06c"]
NEEDS_GEN = True


def builders():
    m = lambda n: importlib.import_module("pyscsi.pyscsi." + n)
    pri = m("scsi_cdb_persistentreservein")
    inq = m("scsi_cdb_inquiry").Inquiry
    return {
        "readcapacity10": m("scsi_cdb_readcapacity10").ReadCapacity10.marshall_datain,
        "readcapacity16": m("scsi_cdb_readcapacity16").ReadCapacity16.marshall_datain,
        "getlbastatus": m("scsi_cdb_getlbastatus").GetLBAStatus.marshall_datain,
        "reportluns": m("scsi_cdb_report_luns").ReportLuns.marshall_datain,
        "reporttargetportgroups": m("scsi_cdb_report_target_port_groups").ReportTargetPortGroups.marshall_datain,
        "reportpriority": m("scsi_cdb_report_priority").ReportPriority.marshall_datain,
        "readelementstatus": m("scsi_cdb_readelementstatus").ReadElementStatus.marshall_datain,
        "inquiry": inq.marshall_datain,
        "modesense6": m("scsi_cdb_modesense6").ModeSense6.marshall_datain,
        "modesense10": m("scsi_cdb_modesense10").ModeSense10.marshall_datain,
        "transportid": pri.PersistentReserveInReadFullStatus.marshall_transport_id,
    }


# (name, builder/parser key, generator, parser kwargs)
STRUCTS = [
    ("readcapacity10", "readcapacity10", "readcapacity10", {}),
    ("readcapacity16", "readcapacity16", "readcapacity16", {}),
    ("getlbastatus", "getlbastatus", "getlbastatus", {}),
    ("reportluns", "reportluns", "reportluns", {}),
    ("reporttargetportgroups", "reporttargetportgroups", "rtpg", {}),
    ("reportpriority", "reportpriority", "reportpriority", {}),
    ("readelementstatus", "readelementstatus", "readelementstatus", {}),
    ("inquiry standard", "inquiry", "inquiry_standard96", {"evpd": 0}),
    ("vpd b2", "inquiry", ("vpd_flat", "vpd_b2"), {"evpd": 1}),
    ("vpd b3", "inquiry", ("vpd_flat", "vpd_b3"), {"evpd": 1}),
    ("vpd 86", "inquiry", ("vpd_flat", "vpd_86"), {"evpd": 1}),
    ("vpd 80", "inquiry", "vpd_serial", {"evpd": 1}),
    ("vpd 83", "inquiry", "vpd_devid", {"evpd": 1}),
    ("modesense6", "modesense6", ("modesense", False, False), {}),
    ("modesense10", "modesense10", ("modesense", True, False), {}),
    ("transportid", "transportid", "transport_id", {}),
]


def inquiry_standard96(orc):
    v = orc.vals("inquiry_standard", {"additional_length": 91})
    data = orc.enc("inquiry_standard", v)
    return data + bytes(96 - len(data)), orc.report("inquiry_standard", v)


def generate(orc, gen):
    if gen == "inquiry_standard96":
        return inquiry_standard96(orc)
    if isinstance(gen, tuple):
        return getattr(orc, gen[0])(*gen[1:])
    return getattr(orc, gen)()


def leaves(d, path=()):
    """(path, value) of every int leaf"""
    if isinstance(d, dict):
        for k, v in d.items():
            yield from leaves(v, path + (k,))
    elif isinstance(d, list):
        for i, v in enumerate(d):
            yield from leaves(v, path + (i,))
    elif isinstance(d, int) and not isinstance(d, bool):
        yield path, d


def setpath(d, path, v):
    for p in path[:-1]:
        d = d[p]
    d[path[-1]] = v


def bitdiff(a, b):
    return sum(bin(x ^ y).count("1") for x, y in zip(a, b))


# int leaves that are structural (recomputed by the builder) or select a different layout when changed
NOT_MODIFIABLE = {"page_code", "sub_page_code", "spf", "designator_type", "naa", "protocol_id", "tpid_format", "format_type",
                  "element_type", "pvoltag", "avoltag", "designator_length", "target_port_count", "adlen", "piv", "association",
                  "additional_length"}


def run(res, tier, build_ok):
    scale = 1 if (tier == "quick" and build_ok) else 8
    decs = formats.decoders()
    decs["transportid"] = (importlib.import_module("pyscsi.pyscsi.scsi_cdb_persistentreservein").PersistentReserveInReadFullStatus.unmarshall_transport_id, [{}])
    blds = builders()
    orc = stdresp.Oracle(common.SEED * 7919 + 6)
    orc.canonical_only = True      # responses in the form the library's builders produce (e.g. 4 reserved bytes after the volume tags)
    rng = random.Random(common.SEED * 104729 + 6)
    reqs = []
    try:
        for name, key, gen, kw in STRUCTS:
            parse, build = decs[key][0], blds[key]
            widths = {}
            for blk in orc.blocks.values():
                for k, _, _, w in blk[2]:
                    widths.setdefault(k, w)
            for i in range(40 * scale):
                data, exp = generate(orc, gen)
                res.case((name, data), None)
                res.count("structure " + name)
                replay = {"structure": name, "canonical_response": data.hex(), "values": str(exp)[:800]}
                # ---- bytes -> dict -> bytes
                try:
                    d = parse(bytearray(data), **kw)
                    back = bytes(build(copy.deepcopy(d)))
                except Exception as e:
                    res.violation("structure=%s parse-build raises=%s" % (name, type(e).__name__),
                                  "%s: marshall(unmarshall(b)) raised %s (%s) on a canonical response" % (name, type(e).__name__, str(e)[:100]), replay)
                    continue
                if back != data:
                    k = next((j for j in range(min(len(back), len(data))) if back[j] != data[j]), min(len(back), len(data)))
                    res.violation("structure=%s parse-build differs" % name,
                                  "%s: marshall(unmarshall(b)) is not b: %d bytes rebuilt from %d, first difference at byte %d" % (name, len(back), len(data), k),
                                  dict(replay, rebuilt=back.hex()))
                    continue
                # ---- dict -> bytes -> dict  (the generated values in the parser's own shape)
                nd = formats.normalize(d)
                try:
                    b2 = bytes(build(copy.deepcopy(d)))
                    d2 = formats.normalize(parse(bytearray(b2), **kw))
                except Exception as e:
                    res.violation("structure=%s build-parse raises=%s" % (name, type(e).__name__),
                                  "%s: unmarshall(marshall(d)) raised %s" % (name, type(e).__name__), replay)
                    continue
                if d2 != nd:
                    res.violation("structure=%s build-parse differs" % name, "%s: unmarshall(marshall(d)) is not d" % name,
                                  dict(replay, d=str(nd)[:600], d2=str(d2)[:600]))
                    continue
                m = stdresp.match(nd, exp)
                if m:
                    res.count("parse differs from the values sent (C04's subject, not judged here)")
                # ---- read-modify-write of one integer field
                cand = [(p, v) for p, v in leaves(nd) if p[-1] in widths and p[-1] not in NOT_MODIFIABLE and p[-1] not in stdresp.HIDDEN
                        and not (isinstance(p[-1], str) and p[-1].startswith("lun"))]
                if name == "reportluns":
                    cand = [(p, v) for p, v in leaves(nd)]
                if cand:
                    p, old = rng.choice(cand)
                    w = 64 if name == "reportluns" else widths[p[-1]]
                    new = old ^ (1 << rng.randrange(w)) if rng.random() < 0.6 else rng.getrandbits(w)
                    if new != old:
                        dm = copy.deepcopy(d)
                        setpath(dm, p, new)
                        try:
                            b3 = bytes(build(copy.deepcopy(dm)))
                            d3 = formats.normalize(parse(bytearray(b3), **kw))
                        except Exception as e:
                            res.violation("structure=%s rmw raises=%s" % (name, type(e).__name__),
                                          "%s: rebuilding after changing %s raised %s" % (name, "/".join(map(str, p)), type(e).__name__), replay)
                            continue
                        want = copy.deepcopy(nd)
                        setpath(want, p, new)
                        nbits = bin(old ^ new).count("1")
                        res.count("read-modify-write cases")
                        if len(b3) != len(data) or d3 != want or bitdiff(b3, data) != nbits:
                            res.violation("structure=%s rmw field=%s" % (name, p[-1]),
                                          "%s: changing %s from %d to %d and rebuilding changed %d bits (the field differs in %d), length %d -> %d, re-parse %s" % (
                                              name, "/".join(map(str, p)), old, new, bitdiff(b3, data), nbits, len(data), len(b3),
                                              "matches" if d3 == want else "differs"),
                                          dict(replay, changed="/".join(map(str, p)), old=old, new=new, rebuilt=b3.hex()))
                            continue
                # ---- tie: the Lean builder model on the same dictionary
                reqs.append((name, key, d, back, "mar %s %s" % (key, formats.to_text(d))))
        # ---- the tools/swp.py path: read the Control mode page, flip SWP, write it back
        for ten in (False, True):
            key = "modesense10" if ten else "modesense6"
            parse, build = decs[key][0], blds[key]
            for i in range(10 * scale):
                body = orc.vals("mode_control")
                hv = {"ps": rng.getrandbits(1), "spf": 0, "page_code": 0x0A, "page_length": 10}
                page = orc.enc("mode_page0_header", hv) + orc.enc("mode_control", body)
                hb = "mode_header10" if ten else "mode_header6"
                hvals = orc.vals(hb, {"block_descriptor_length": 0, "mode_data_length": (6 if ten else 3) + len(page)})
                b = orc.enc(hb, hvals) + page
                res.case(("swp", ten, b), None)
                res.count("swp read-modify-write")
                try:
                    d = parse(bytearray(b))
                    d["mode_pages"][0]["swp"] ^= 1
                    b2 = bytes(build(d))
                except Exception as e:
                    res.violation("swp rmw raises=%s" % type(e).__name__, "%s: flipping SWP and rebuilding raised %s" % (key, type(e).__name__),
                                  {"structure": key, "canonical_response": b.hex()})
                    continue
                want = bytearray(b)
                want[(8 if ten else 4) + 4] ^= 0x08          # Control mode page byte 4, bit 3
                if b2 != bytes(want):
                    res.violation("swp rmw differs", "%s: flipping SWP in the parsed Control mode page and rebuilding did not change exactly bit 3 of page byte 4" % key,
                                  {"structure": key, "canonical_response": b.hex(), "rebuilt": b2.hex(), "expected": bytes(want).hex()})
    finally:
        orc.close()
    drv = Driver()
    reps = drv.batch([r[4] for r in reqs])
    for (name, key, d, back, line), rep in zip(reqs, reps):
        if rep == "bad-op" and "=i-" in line:
            # the implementation decoded a negative number: no model value corresponds to it (the models work on naturals)
            res.tie_break("the implementation decoded a negative integer in %s" % key, {"structure": name, "dict": str(d)[:600]})
            continue
        if rep == "bad-op":
            raise common.Infra("driver does not know " + line[:80])
        if rep != "ok " + hx(back):
            res.tie_break("builder model %s disagrees with the implementation" % key,
                          {"structure": name, "dict": str(d)[:600], "model": rep[:300], "implementation": back.hex()[:300]})
        else:
            res.count("model agreements")
    res.assumptions += [
        "canonical responses come from the Lean oracle (reserved bits zero, no trailing bytes, no block descriptors, one known mode page, 96-byte standard INQUIRY data)",
        "read-modify-write is judged by: same length, re-parse equals the modified dictionary, and the number of changed bits equals the number of bits in which old and new value differ",
        "VPD pages the library cannot build (00h, B0h, B1h, 89h) and READ CD / PR IN / READ DISC INFORMATION (parse only) are outside the property",
    ]
